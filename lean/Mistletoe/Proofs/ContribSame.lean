/-
  C18 at TEXT level: parsing under the token lists of GithubWikiRenderer / MathJaxRenderer /
  TocRenderer / PygmentsRenderer gives the same document as parsing under HtmlRenderer's lists when
  the text does not use the extension (no "[[" resp. no '$'; Toc and Pygments install no token).

  Part 1  `findOne_githubWiki_nil`, `findOne_math_nil`: the extension's `find` returns nothing.
  Part 2  the span resolver never reads `Cand.cls` (`tokenize_strip`) and `build` looks matches up by
          `ord` (`builds_strip`), hence `tokenizeInner` depends on the token list only through `findAll`
          (`tokenizeInner_eq`, `tokenizeInner_congr`), hence `tokenizeInner_insert`.
  Part 3  `LineInv Q R`: closure properties of a predicate `Q` on lines and `R` on inline texts;
          `blockPhase_inv` (simultaneous induction over `gas`): every line of the parse buffer that
          reaches the inline phase satisfies `Q`, every heading content `R`, at every nesting depth;
          `mkBlocks_congr`, `parseLines_congr_buf` (hypothesis on the parse buffer), `parse_insert`.
  Part 4  the two instances (`noD_inv`: no '$'; `wq_inv`: no "[[" and no line ending in '['), the lines of
          a text (`normalize_noD`, `normalize_wq`), `parse_insert_math`, `parse_insert_githubWiki`,
          the regenerated configurations (`C18_lists`, decided on Gen/RenderMaps) and the final theorems
          `C18_{githubwiki,mathjax,toc,pygments}_same_{text,output}`, `supported_pygments`.
  Part 5  non-vacuity (kernel-evaluated), an example WITH "[[a|b]]" / "$x$" where the parses differ.
-/
import Mistletoe.Model.Config
import Mistletoe.Proofs.Block
import Mistletoe.Props.C18

namespace Mistletoe.ContribSame
open Mistletoe Mistletoe.Py Mistletoe.Scan Mistletoe.InlineScan Mistletoe.Inline Mistletoe.Block

/-! ## Part 1: the extension tokens find nothing -/

theorem countLeading_zero_of_not_mem (ch : Char) : ∀ (r : Str), ch ∉ r → countLeading ch r = 0
  | [], _ => rfl
  | c :: rest, h => by
    have : c ≠ ch := fun e => h (by simp [e])
    simp [countLeading, this]

theorem mathAt_none (p : Option Char) (r : Str) (h : '$' ∉ r) : mathAt p r = none := by
  unfold mathAt
  simp [countLeading_zero_of_not_mem '$' r h]

theorem findIterAux_math_nil : ∀ (fuel pos : Nat) (prev : Option Char) (s : Str), '$' ∉ s →
    findIterAux mathAt fuel pos prev s = []
  | 0, _, _, _, _ => by simp [findIterAux]
  | _ + 1, _, _, [], _ => by simp [findIterAux]
  | fuel + 1, pos, prev, c :: rest, h => by
    simp only [findIterAux, mathAt_none prev (c :: rest) h]
    exact findIterAux_math_nil fuel _ _ rest (fun e => h (List.mem_cons_of_mem _ e))

/-- **Math.find returns nothing on a string without '$'** -/
theorem findOne_math_nil (s : Str) (core : List Core.CoreM) (codes : List CodeM) (h : '$' ∉ s) :
    findOne s core codes .math = [] := by
  simp [findOne, findIter, findIterAux_math_nil _ _ _ s h]

theorem wikiFindAux_nil : ∀ (fuel pos : Nat) (s : Str), isInfix ['[', '['] s = false → wikiFindAux fuel pos s = []
  | 0, _, _, _ => by simp [wikiFindAux]
  | _ + 1, _, [], _ => by simp [wikiFindAux]
  | fuel + 1, pos, c :: rest, h => by
    simp only [isInfix, Bool.or_eq_false_iff] at h
    have hw : wikiAt (c :: rest) = none := by
      unfold wikiAt
      simp [startsWith, h.1]
    simp only [wikiFindAux, hw]
    exact wikiFindAux_nil fuel _ rest h.2

/-- **GithubWiki.find returns nothing on a string without "[["** -/
theorem findOne_githubWiki_nil (s : Str) (core : List Core.CoreM) (codes : List CodeM)
    (h : isInfix ['[', '['] s = false) : findOne s core codes .githubWiki = [] := by
  simp [findOne, wikiFindAux_nil _ _ s h]

/-! ## Part 2: the resolver does not read `cls` -/

open Mistletoe.Span in
/-- forget the class index of a candidate -/
def stripC (c : Span.Cand) : Span.Cand := { c with cls := 0 }

open Mistletoe.Span

mutual
def stripP : PTok → PTok
  | .mk c kids => .mk (stripC c) (stripPs kids)
def stripPs : List PTok → List PTok
  | [] => []
  | p :: ps => stripP p :: stripPs ps
end

mutual
def stripO : Out → Out
  | .raw a b => .raw a b
  | .tok c kids => .tok (stripC c) (stripOs kids)
def stripOs : List Out → List Out
  | [] => []
  | o :: os => stripO o :: stripOs os
end

@[simp] theorem stripC_start (c : Cand) : (stripC c).start = c.start := rfl
@[simp] theorem stripC_stop (c : Cand) : (stripC c).stop = c.stop := rfl
@[simp] theorem stripC_ord (c : Cand) : (stripC c).ord = c.ord := rfl

theorem stripPs_eq_map : ∀ (ps : List PTok), stripPs ps = ps.map stripP
  | [] => rfl
  | p :: ps => by simp [stripPs, stripPs_eq_map ps]

theorem stripOs_append : ∀ (a b : List Out), stripOs (a ++ b) = stripOs a ++ stripOs b
  | [], _ => rfl
  | x :: xs, b => by simp [stripOs, stripOs_append xs b]

theorem stripP_c (p : PTok) : (stripP p).c = stripC p.c := by
  cases p; rfl

theorem relation_strip (x y : Cand) : relation (stripC x) (stripC y) = relation x y := rfl

mutual
theorem appendChild_strip : ∀ (p child : PTok), appendChild (stripP p) (stripP child) = stripP (appendChild p child)
  | .mk c kids, child => by
    simp only [stripP, appendChild]
    show (if c.inner = true then _ else _) = _
    split
    · simp only [stripP]; rw [evalNewChild_strip kids child]
    · simp only [stripP]
theorem evalNewChild_strip : ∀ (kids : List PTok) (child : PTok),
    evalNewChild (stripPs kids) (stripP child) = stripPs (evalNewChild kids child)
  | [], child => by simp [stripPs, evalNewChild]
  | last :: rest, child => by
    simp only [stripPs, evalNewChild, stripP_c, relation_strip]
    split
    · simp [stripPs]
    · show (if last.c.prec < child.c.prec then _ else _) = _
      split <;> simp [stripPs]
    · simp only [stripPs]; rw [appendChild_strip last child]
    · simp [stripPs]
end

def stripA (a : Acc) : Acc := { bufRev := stripPs a.bufRev, prev := stripP a.prev }

theorem evalTokens_strip (a : Acc) (y : PTok) : evalTokens (stripA a) (stripP y) = stripA (evalTokens a y) := by
  simp only [evalTokens, stripA, stripP_c, relation_strip]
  split
  · simp [stripPs]
  · show (if a.prev.c.prec ≥ y.c.prec then _ else _) = _
    split <;> simp
  · simp [appendChild_strip]
  · simp

theorem foldl_evalTokens_strip : ∀ (ys : List PTok) (a : Acc),
    (stripPs ys).foldl evalTokens (stripA a) = stripA (ys.foldl evalTokens a)
  | [], _ => rfl
  | y :: ys, a => by
    simp only [stripPs, List.foldl_cons, evalTokens_strip]
    exact foldl_evalTokens_strip ys _

theorem insertByStart_strip (x : Cand) : ∀ (cs : List Cand),
    insertByStart (stripC x) (cs.map stripC) = (insertByStart x cs).map stripC
  | [] => rfl
  | y :: ys => by
    simp only [List.map_cons, insertByStart]
    show (if x.start ≤ y.start then _ else _) = _
    split
    · simp
    · simp [insertByStart_strip x ys]

theorem sortByStart_strip : ∀ (cs : List Cand), sortByStart (cs.map stripC) = (sortByStart cs).map stripC
  | [] => rfl
  | c :: cs => by
    show insertByStart (stripC c) (sortByStart (cs.map stripC)) = (insertByStart c (sortByStart cs)).map stripC
    rw [sortByStart_strip cs, insertByStart_strip]

theorem stripPs_reverse (ps : List PTok) : stripPs ps.reverse = (stripPs ps).reverse := by
  simp [stripPs_eq_map]

theorem resolveSorted_strip : ∀ (cs : List Cand), resolveSorted (cs.map stripC) = stripPs (resolveSorted cs)
  | [] => rfl
  | c :: cs => by
    simp only [List.map_cons, resolveSorted]
    have h1 : (cs.map stripC).map (fun c => PTok.mk c []) = stripPs (cs.map (fun c => PTok.mk c [])) := by
      rw [stripPs_eq_map]; simp [stripP, stripPs]
    have h2 : ({ bufRev := [], prev := .mk (stripC c) [] } : Acc) = stripA { bufRev := [], prev := .mk c [] } := by
      simp [stripA, stripP, stripPs]
    rw [h1, h2, foldl_evalTokens_strip]
    simp only [stripA]
    rw [stripPs_reverse]
    simp [stripPs]

theorem resolve_strip (cs : List Cand) : resolve (cs.map stripC) = stripPs (resolve cs) := by
  simp [resolve, sortByStart_strip, resolveSorted_strip]

mutual
theorem make_strip : ∀ (t : PTok), make (stripP t) = stripO (make t)
  | .mk c kids => by
    simp only [stripP, make]
    show (if c.inner = true then _ else _) = _
    split
    · simp only [stripO]
      rw [makeTokensRev_strip kids]; rfl
    · simp [stripO, stripOs]
theorem makeTokensRev_strip : ∀ (ts : List PTok) (s e : Nat),
    makeTokensRev (stripPs ts) s e = stripOs (makeTokensRev ts s e)
  | [], s, e => by
    simp only [stripPs, makeTokensRev]
    split <;> simp [stripOs, stripO]
  | t :: earlier, s, e => by
    simp only [stripPs, makeTokensRev, stripP_c, stripOs_append]
    rw [makeBefore_strip earlier, make_strip t]
    show _ ++ _ ++ (if t.c.stop ≠ e then _ else _) = _
    split <;> simp [stripOs, stripO]
theorem makeBefore_strip : ∀ (ts : List PTok) (s upto : Nat),
    makeBefore (stripPs ts) s upto = stripOs (makeBefore ts s upto)
  | [], s, upto => by
    simp only [stripPs, makeBefore]
    split <;> simp [stripOs, stripO]
  | t :: earlier, s, upto => by
    simp only [stripPs, makeBefore, stripP_c, stripOs_append]
    rw [makeBefore_strip earlier, make_strip t]
    show _ ++ _ ++ (if upto > t.c.stop then _ else _) = _
    split <;> simp [stripOs, stripO]
end

/-- **the span resolver commutes with forgetting the class index** -/
theorem tokenize_strip (cs : List Cand) (n : Nat) : tokenize (cs.map stripC) n = stripOs (tokenize cs n) := by
  simp only [tokenize, resolve_strip, ← stripPs_reverse, makeTokensRev_strip]

mutual
/-- `ParseToken.make` looks the match up by `ord` only -/
theorem build_strip (s : Str) (found : List Found) : ∀ (o : Out), build s found (stripO o) = build s found o
  | .raw a b => rfl
  | .tok c kids => by
    have ih := builds_strip s found kids
    simp only [stripO, build, stripC_ord, ih]
theorem builds_strip (s : Str) (found : List Found) : ∀ (os : List Out), builds s found (stripOs os) = builds s found os
  | [] => rfl
  | o :: os => by
    simp only [stripOs, builds]
    rw [build_strip s found o, builds_strip s found os]
end

/-- the candidates with their class index forgotten: a function of `found` alone -/
def candsNoCls (found : List Found) : List Cand :=
  found.zipIdx.map (fun (f, i) =>
    { start := f.start, stop := f.stop, pstart := f.pstart, pend := f.pend, prec := prec f.cls,
      inner := parseInner f.cls, cls := 0, ord := i })

/-- **`tokenize_inner` in terms of `find_tokens` alone**: the token list enters only through `findAll` -/
theorem tokenizeInner_eq (types : List STok) (fn : Footnotes.Table) (s : Str) :
    tokenizeInner types fn s =
      (match findAll s types fn with
       | .err e => .err e
       | .ok found => .ok (builds s found (tokenize (candsNoCls found) s.length))) := by
  unfold tokenizeInner
  cases findAll s types fn with
  | err e => rfl
  | ok found =>
    simp only
    rw [← builds_strip, ← tokenize_strip]
    simp only [List.map_map, candsNoCls]
    rfl

theorem tokenizeInner_congr (types types' : List STok) (fn : Footnotes.Table) (s : Str)
    (h : findAll s types fn = findAll s types' fn) : tokenizeInner types fn s = tokenizeInner types' fn s := by
  rw [tokenizeInner_eq, tokenizeInner_eq, h]

theorem findAll_insert (pre post : List STok) (x : STok) (fn : Footnotes.Table) (s : Str)
    (hx : ∀ core codes, findOne s core codes x = []) :
    findAll s (pre ++ x :: post) fn = findAll s (pre ++ post) fn := by
  have hne : x ≠ .coreTokens := by
    intro e
    have := hx [default] []
    rw [e] at this
    simp [findOne] at this
  have hc : (pre ++ x :: post).contains .coreTokens = (pre ++ post).contains .coreTokens := by
    rw [Bool.eq_iff_iff]
    simp only [List.contains_eq_mem, List.mem_append, List.mem_cons, decide_eq_true_eq]
    constructor
    · rintro (h | h | h)
      · exact Or.inl h
      · exact absurd h.symm hne
      · exact Or.inr h
    · rintro (h | h)
      · exact Or.inl h
      · exact Or.inr (Or.inr h)
  unfold findAll
  rw [hc]
  simp only
  split
  · rfl
  · simp [hx]

/-- **inserting a token class whose `find` returns nothing on `s` does not change `tokenize_inner(s)`**
    (the class indexes of the classes behind the insertion point shift by one; the resolver never
    reads them) -/
theorem tokenizeInner_insert (pre post : List STok) (x : STok) (fn : Footnotes.Table) (s : Str)
    (hx : ∀ core codes, findOne s core codes x = []) :
    tokenizeInner (pre ++ x :: post) fn s = tokenizeInner (pre ++ post) fn s :=
  tokenizeInner_congr _ _ fn s (findAll_insert pre post x fn s hx)


/-! ## Part 3: the document level -/

open Mistletoe.Document

/-! ### string helpers -/

theorem rstrip_prefix (s : Str) : rstrip s <+: s := by
  unfold rstrip
  have h := List.reverse_prefix.mpr (lstrip_suffix s.reverse)
  rwa [List.reverse_reverse] at h

theorem strip_infix (s : Str) : strip s <:+: s :=
  (rstrip_prefix _).isInfix.trans (lstrip_suffix s).isInfix

theorem span_app (p : Char → Bool) : ∀ (s : Str), (span p s).1 ++ (span p s).2 = s
  | [] => rfl
  | c :: rest => by
    simp only [span]
    split
    · simp [span_app p rest]
    · rfl

theorem headingTail_prefix : ∀ (r acc g2 g3 : Str), headingTail r acc = some (g2, g3) → g2 <+: acc.reverse ++ r
  | [], acc, g2, g3, h => by
    simp only [headingTail] at h
    split at h
    · cases h; simp
    · cases h
  | c :: rest, acc, g2, g3, h => by
    simp only [headingTail] at h
    split at h
    · cases h; exact List.prefix_append _ _
    · split at h
      · cases h; exact List.prefix_append _ _
      · have := headingTail_prefix rest (c :: acc) g2 g3 h
        simpa using this

theorem upTo3_suffix (line : Str) (n : Nat) (r : Str) (h : upTo3Spaces line = some (n, r)) : r <:+ line := by
  unfold upTo3Spaces at h
  simp only at h
  split at h
  · cases h
  · cases h; exact List.drop_suffix _ _

theorem heading_g2_infix (line : Str) (m : HeadingMatch) (g : Str) (h : Scan.heading line = some m) (hg : m.g2 = some g) :
    g <:+: line := by
  unfold Scan.heading at h
  split at h
  · cases h
  · rename_i n r hu
    have hr := upTo3_suffix line n r hu
    simp only at h
    split at h
    · cases h
    · have hs := span_suffix (· == '#') r
      split at h
      · cases h; cases hg
      · rename_i c r2 _ heq
        split at h
        · split at h
          · rename_i g2 g3 ht
            cases h
            cases hg
            have hp := headingTail_prefix r2 [] g g3 ht
            simp only [List.reverse_nil, List.nil_append] at hp
            have h2 : r2 <:+ r := by
              have := (List.suffix_cons c r2).trans (heq ▸ hs)
              exact this
            exact hp.isInfix.trans (h2.trans hr).isInfix
          · cases h
        · cases h
      · cases h

/-! ### the invariant -/

/-- closure properties of a predicate `Q` on the lines the block phase handles and a predicate `R` on
    the strings handed to `tokenize_inner` -/
structure LineInv (Q R : Str → Prop) : Prop where
  suffix : ∀ s t, Q s → t <:+ s → Q t
  spaces : ∀ s n, Q s → Q (List.replicate n ' ' ++ s)
  gt : ∀ s, Q s → Q ('>' :: s)
  tab : ∀ s, Q s → Q (replaceFirst ['>', '\t'] [' ', ' ', ' '] s)
  nl : Q ['\n']
  nlcut : ∀ a b, Q (a ++ '\n' :: b) → Q (a ++ ['\n'])
  toR : ∀ s u, Q s → u <:+: s → R u
  flat : ∀ ls : List Str, (∀ l ∈ ls, Q l) → R ls.flatten
  rinfix : ∀ s u, R s → u <:+: s → R u
  rnil : R []
  join : ∀ ls : List Str, (∀ l ∈ ls, R l) → R (joinNl ls)
  unesc : ∀ n p t, R t → R (unescapePipes n p t)

def AllQ (Q : Str → Prop) (ls : List Line) : Prop := ∀ l ∈ ls, Q l.s

section Readers
variable {Q R : Str → Prop}

theorem readHeading_R (inv : LineInv Q R) (fw : FW) (line : Str) (lvl : Nat) (c cl : Str) (fw' : FW) (hq : Q line)
    (h : readHeading fw line = some (lvl, c, cl, fw')) : R c := by
  unfold readHeading at h
  split at h
  · cases h
  · rename_i m hm
    simp only [Option.some.injEq, Prod.mk.injEq] at h
    obtain ⟨_, hc, _, _⟩ := h
    subst hc
    split
    · exact inv.rnil
    · cases hg : m.g2 with
      | none => simp only [Option.getD_none]; exact inv.rinfix [] _ inv.rnil (strip_infix [])
      | some g =>
        simp only [Option.getD_some]
        exact inv.toR line _ hq ((strip_infix g).trans (heading_g2_infix line m g hm hg))

theorem paragraphLoop_Q (cfg : Block.Cfg) (so : Bool) : ∀ (fuel : Nat) (fw : FW) (buf : List Str) (r),
    paragraphLoop cfg so fuel fw buf = .ok r → AllQ Q fw.lines → (∀ x ∈ buf, Q x) → ∀ x ∈ r.1, Q x
  | 0, _, _, _, h, _, _ => by simp [paragraphLoop] at h
  | fuel + 1, fw, buf, r, h, hl, hb => by
    simp only [paragraphLoop] at h
    split at h
    · cases h; exact hb
    · rename_i l hp
      have hq := hl l (peek_mem fw l hp)
      have hb' : ∀ x ∈ l.s :: buf, Q x := by
        intro x hx
        rcases List.mem_cons.mp hx with rfl | hx
        · exact hq
        · exact hb x hx
      split at h
      · cases h; exact hb
      · split at h
        · cases h
        · cases h; exact hb
        · split at h
          · cases h; exact hb'
          · split at h
            · cases h; exact hb
            · exact paragraphLoop_Q cfg so fuel fw.next _ r h hl hb'

theorem readParagraph_Q (cfg : Block.Cfg) (so : Bool) (fw : FW) (l0 : Str) (r)
    (h : readParagraph cfg so fw l0 = .ok r) (hl : AllQ Q fw.lines) (h0 : Q l0) : ∀ x ∈ r.1, Q x := by
  unfold readParagraph at h
  split at h
  · cases h
  · rename_i buf st fw1 heq
    cases h
    have := paragraphLoop_Q cfg so _ fw.next [l0] _ heq hl (by
      intro x hx; simp only [List.mem_singleton] at hx; subst hx; exact h0)
    intro x hx
    exact this x (by simpa using hx)

theorem tableLoop_Q : ∀ (fuel : Nat) (fw : FW) (buf : List Str),
    AllQ Q fw.lines → (∀ x ∈ buf, Q x) → ∀ x ∈ (tableLoop fuel fw buf).1, Q x
  | 0, _, _, _, hb => by simpa [tableLoop] using hb
  | fuel + 1, fw, buf, hl, hb => by
    simp only [tableLoop]
    split
    · rename_i l hp
      split
      · apply tableLoop_Q fuel fw.next _ hl
        intro x hx
        rcases List.mem_cons.mp hx with rfl | hx
        · exact hl l (peek_mem fw l hp)
        · exact hb x hx
      · exact hb
    · exact hb

theorem readTable_Q (fw : FW) (b : List Str) (sl : Nat) (fw' : FW) (h : readTable fw = some (b, sl, fw'))
    (hl : AllQ Q fw.lines) : ∀ x ∈ b, Q x := by
  unfold readTable at h
  split at h
  · cases h
  · rename_i l0 hp
    simp only at h
    have hq := tableLoop_Q (fw.remaining + 1) fw.next [l0.s] hl (by
      intro x hx; simp only [List.mem_singleton] at hx; subst hx; exact hl l0 (peek_mem fw l0 hp))
    split at h
    · split at h
      · cases h
        intro x hx
        exact hq x (by simpa using hx)
      · cases h
    · cases h

theorem convertLeadingTabs_Q (inv : LineInv Q R) (s t : Str) (hq : Q s) (h : convertLeadingTabs s = .ok t) : Q t := by
  unfold convertLeadingTabs at h
  have hr := inv.tab s hq
  simp only at h
  split at h
  · cases h
  · split at h
    · cases h; exact hr
    · cases h
      exact inv.gt _ (inv.spaces _ _ (inv.suffix _ _ hr (List.drop_suffix _ _)))

theorem quoteLoop_Q (inv : LineInv Q R) (cfg : Block.Cfg) : ∀ (fuel : Nat) (fw : FW) (buf : List Line) (fl : QFlags) (r),
    quoteLoop cfg fuel fw buf fl = .ok r → AllQ Q fw.lines → AllQ Q buf → AllQ Q r.1 ∧ r.2.lines = fw.lines
  | 0, _, _, _, _, h, _, _ => by simp [quoteLoop] at h
  | fuel + 1, fw, buf, fl, r, h, hl, hb => by
    simp only [quoteLoop] at h
    split at h
    · cases h; exact ⟨hb, rfl⟩
    · rename_i l hp
      have hln := hl l (peek_mem fw l hp)
      split at h
      · cases h; exact ⟨hb, rfl⟩
      · split at h
        · cases h
        · cases h; exact ⟨hb, rfl⟩
        · split at h
          · cases h
          · rename_i stripped hcv
            have hst : Q stripped :=
              convertLeadingTabs_Q inv _ _ (inv.suffix _ _ hln (lstrip_suffix _)) hcv
            split at h
            · cases h
            · rename_i c0 tl
              split at h
              · split at h
                · cases h
                · refine quoteLoop_Q inv cfg fuel fw.next _ _ r h hl ?_
                  intro x hx
                  rcases List.mem_cons.mp hx with rfl | hx
                  · exact inv.suffix _ _ hst (List.drop_suffix _ _)
                  · exact hb x hx
              · split at h
                · cases h; exact ⟨hb, rfl⟩
                · refine quoteLoop_Q inv cfg fuel fw.next _ _ r h hl ?_
                  intro x hx
                  rcases List.mem_cons.mp hx with rfl | hx
                  · exact hln
                  · exact hb x hx

theorem dropSp_Q (inv : LineInv Q R) : ∀ (after : Str), Q after → Q (match after with | ' ' :: r => r | r => r) := by
  intro after h
  split
  · exact inv.suffix _ _ h (List.suffix_cons _ _)
  · exact h

theorem quoteLines_Q (inv : LineInv Q R) (cfg : Block.Cfg) (fw : FW) (l0 : Line) (r) (h : quoteLines cfg fw l0 = .ok r)
    (hl : AllQ Q fw.lines) (h0 : Q l0.s) : AllQ Q r.1 ∧ r.2.2.lines = fw.lines := by
  unfold quoteLines at h
  split at h
  · cases h
  · rename_i t hcv
    have hst : Q t := convertLeadingTabs_Q inv _ _ (inv.suffix _ _ h0 (lstrip_suffix _)) hcv
    split at h
    · cases h
    · rename_i a after hso
      simp only at h
      split at h
      · cases h
      · rename_i buf fw2 heq
        cases h
        have hsp := splitOnce_spec '>' t a after hso
        have h1 : Q after := inv.suffix _ _ hst ⟨a ++ ['>'], by rw [hsp]; simp⟩
        have h3 := dropSp_Q inv after h1
        have := quoteLoop_Q inv cfg _ fw.next _ _ _ heq hl (by
          intro x hx
          simp only [List.mem_singleton] at hx
          subst hx; exact h3)
        refine ⟨?_, this.2⟩
        intro x hx
        exact this.1 x (by simpa using hx)

theorem parseMarker_Q (inv : LineInv Q R) (line : Str) (m : Nat × Nat × Str × Str) (hq : Q line) (h : parseMarker line = some m) :
    Q m.2.2.2 := by
  unfold parseMarker at h
  split at h
  · cases h
  · rename_i im hi
    have hs := inv.suffix _ _ hq (listItem_suffix line im hi)
    simp only at h
    split at h
    · cases h; exact inv.spaces _ _ hs
    · cases h; exact hs

theorem expandtabsAux_spaces : ∀ (s : Str) (col : Nat), (∀ x ∈ s, (x == ' ' || x == '\t') = true) →
    ∃ k, expandtabsAux s col = List.replicate k ' '
  | [], _, _ => ⟨0, rfl⟩
  | c :: rest, col, h => by
    have hc := h c (List.mem_cons_self ..)
    have hr : ∀ x ∈ rest, (x == ' ' || x == '\t') = true := fun x hx => h x (List.mem_cons_of_mem _ hx)
    simp only [expandtabsAux]
    split
    · obtain ⟨k, hk⟩ := expandtabsAux_spaces rest (col + (4 - col % 4)) hr
      exact ⟨(4 - col % 4) + k, by rw [hk, List.replicate_append_replicate]⟩
    · rename_i hne
      have hsp : c = ' ' := by
        simp only [Bool.or_eq_true, beq_iff_eq] at hc
        rcases hc with e | e
        · exact e
        · exact absurd e hne
      subst hsp
      split
      · rename_i hh; rcases hh with e | e <;> exact absurd e (by decide)
      · obtain ⟨k, hk⟩ := expandtabsAux_spaces rest (col + 1) hr
        exact ⟨k + 1, by rw [hk]; rfl⟩

theorem parseContinuation_Q (inv : LineInv Q R) (line : Str) (p : Nat) (cont : Str) (hq : Q line)
    (h : parseContinuation line p = some cont) : Q cont := by
  unfold parseContinuation at h
  split at h
  · cases h
  · rename_i g1 g2 hc
    split at h
    · cases h; exact inv.nl
    · simp only at h
      split at h
      · cases h
        unfold continuation at hc
        simp only at hc
        have hg1 := span_all (fun c => c == ' ' || c == '\t') line
        have hsuf := span_suffix (fun c => c == ' ' || c == '\t') line
        split at hc
        · cases hc
          obtain ⟨k, hk⟩ := expandtabsAux_spaces _ 0 hg1
          show Q ((expandtabs _).drop p ++ _)
          unfold expandtabs
          rw [hk, List.drop_replicate]
          exact inv.spaces _ _ inv.nl
        · split at hc
          · cases hc
          · split at hc
            · cases hc
              rename_i c rest _ heq _ _ tail hr2 _ _
              obtain ⟨k, hk⟩ := expandtabsAux_spaces _ 0 hg1
              show Q ((expandtabs _).drop p ++ _)
              unfold expandtabs
              rw [hk, List.drop_replicate]
              apply inv.spaces
              have h1 : Q (c :: rest) := inv.suffix _ _ hq (heq ▸ hsuf)
              have h2 := span_app (· != '\n') rest
              rw [hr2] at h2
              have h3 : c :: rest = (c :: (span (· != '\n') rest).1) ++ '\n' :: tail := by
                simp [h2]
              rw [h3] at h1
              have := inv.nlcut _ _ h1
              simpa using this
            · cases hc
        · cases hc
      · cases h

def MarkerQ (Q : Str → Prop) (nm : Option (Nat × Nat × Str × Str)) : Prop := ∀ m, nm = some m → Q m.2.2.2

theorem dropTrailing_Q (fw : FW) (buf : List Line) (nl : Nat) (h : AllQ Q buf) :
    AllQ Q (dropTrailing fw buf nl).2 ∧ (dropTrailing fw buf nl).1.lines = fw.lines := by
  obtain ⟨k, hk⟩ := dropTrailing_buf fw buf nl
  refine ⟨?_, (dropTrailing_same fw buf nl).1⟩
  rw [hk]; intro x hx; exact h x (List.mem_of_mem_drop hx)

theorem itemLoop_Q (inv : LineInv Q R) (cfg : Block.Cfg) (prepend : Nat) : ∀ (fuel : Nat) (fw : FW) (buf : List Line) (nl : Nat) (r),
    itemLoop cfg prepend fuel fw buf nl = .ok r → AllQ Q fw.lines → AllQ Q buf →
    AllQ Q r.1 ∧ r.2.1.lines = fw.lines ∧ MarkerQ Q r.2.2
  | 0, _, _, _, _, h, _, _ => by simp [itemLoop] at h
  | fuel + 1, fw, buf, nl, r, h, hl, hb => by
    have hfin : (let (fw', buf') := dropTrailing fw buf nl; (buf', fw', (none : Option (Nat × Nat × Str × Str)))) = r →
        AllQ Q r.1 ∧ r.2.1.lines = fw.lines ∧ MarkerQ Q r.2.2 := by
      intro he
      subst he
      have := dropTrailing_Q fw buf nl hb
      exact ⟨this.1, this.2, fun m hm => by cases hm⟩
    simp only [itemLoop] at h
    split at h
    · cases h; exact hfin rfl
    · rename_i l hp
      have hln := hl l (peek_mem fw l hp)
      split at h
      · rename_i cont hcont
        split at h
        · cases h
        · refine itemLoop_Q inv cfg prepend fuel fw.next _ _ r h hl ?_
          intro x hx
          rcases List.mem_cons.mp hx with rfl | hx
          · exact parseContinuation_Q inv _ _ _ hln hcont
          · exact hb x hx
      · split at h
        · cases h
        · cases h; exact hfin rfl
        · split at h
          · rename_i m hm
            cases h
            refine ⟨hb, rfl, ?_⟩
            intro m' hm'
            cases hm'
            exact parseMarker_Q inv l.s m hln hm
          · split at h
            · cases h; exact hfin rfl
            · refine itemLoop_Q inv cfg prepend fuel fw.next _ _ r h hl ?_
              intro x hx
              rcases List.mem_cons.mp hx with rfl | hx
              · exact hln
              · exact hb x hx

theorem itemLines_Q (inv : LineInv Q R) (cfg : Block.Cfg) (fw : FW) (prev) (il : ItemLines) (h : itemLines cfg fw prev = .ok il)
    (hl : AllQ Q fw.lines) (hprev : MarkerQ Q prev) :
    match il with
    | .empty _ _ _ _ _ next fw' => fw'.lines = fw.lines ∧ MarkerQ Q next
    | .lines buf _ _ _ _ _ _ next fw' => AllQ Q buf ∧ fw'.lines = fw.lines ∧ MarkerQ Q next := by
  unfold itemLines at h
  split at h
  · cases h
  · rename_i l0 hp
    have hln := hl l0 (peek_mem fw l0 hp)
    simp only at h
    split at h
    · cases h
    · rename_i ind pre0 ld content hmk
      have hmok : Q content := by
        cases prev with
        | some m => simp only [Option.some.injEq] at hmk; subst hmk; exact hprev _ rfl
        | none => exact parseMarker_Q inv l0.s _ hln hmk
      have hsk : (skipBlanks (fw.remaining + 1) fw.next 1).1.lines = fw.lines :=
        skipBlanks_peek_mem (fw.remaining + 1) fw.next 1
      split at h
      · split at h
        · cases h
          dsimp only
          refine ⟨hsk, ?_⟩
          intro m hm
          split at hm
          · rename_i l hpl
            have : l ∈ fw.lines := by
              have := peek_mem _ l hpl
              rw [hsk] at this; exact this
            exact parseMarker_Q inv l.s m (hl l this) hm
          · cases hm
        · split at h
          · cases h
          · rename_i buf fw3 next heq
            cases h
            have := itemLoop_Q inv cfg _ _ _ _ _ _ heq (by rw [hsk]; exact hl) (by intro x hx; cases hx)
            dsimp only
            refine ⟨?_, this.2.1.trans hsk, this.2.2⟩
            intro x hx; exact this.1 x (by simpa using hx)
      · split at h
        · cases h
        · rename_i buf fw3 next heq
          cases h
          have := itemLoop_Q inv cfg _ _ fw.next _ _ _ heq hl (by
            intro x hx
            simp only [List.mem_singleton] at hx
            subst hx
            exact hmok)
          dsimp only
          refine ⟨?_, this.2.1, this.2.2⟩
          intro x hx; exact this.1 x (by simpa using hx)

end Readers


/-! ### the parse buffer -/

mutual
/-- every line of a leaf entry that reaches the inline phase satisfies `Q`, every heading content `R` -/
def EntryQ (Q R : Str → Prop) : Entry → Prop
  | .blockCode _ _ _ => True
  | .heading _ content _ _ _ => R content
  | .quote inner _ _ _ => EntriesQ Q R inner
  | .codeFence _ _ _ _ _ _ _ => True
  | .thematicBreak _ _ _ => True
  | .list items _ _ => ItemsQ Q R items
  | .table lines _ _ _ => ∀ l ∈ lines, Q l
  | .footnote _ _ _ => True
  | .linkRefDefs _ _ _ => True
  | .paragraph lines _ _ => ∀ l ∈ lines, Q l
  | .setext lines _ _ => ∀ l ∈ lines, Q l
  | .htmlBlock _ _ _ => True
  | .blankLine _ _ => True
def EntriesQ (Q R : Str → Prop) : List Entry → Prop
  | [] => True
  | e :: es => EntryQ Q R e ∧ EntriesQ Q R es
def ItemQ (Q R : Str → Prop) : Item → Prop
  | .mk inner _ _ _ _ _ _ => EntriesQ Q R inner
def ItemsQ (Q R : Str → Prop) : List Item → Prop
  | [] => True
  | i :: is => ItemQ Q R i ∧ ItemsQ Q R is
end

section Induction
variable {Q R : Str → Prop}

theorem entriesQ_append : ∀ (a b : List Entry), EntriesQ Q R a → EntriesQ Q R b → EntriesQ Q R (a ++ b)
  | [], _, _, hb => by simpa using hb
  | x :: xs, b, ha, hb => by
    simp only [List.cons_append, EntriesQ] at ha ⊢
    exact ⟨ha.1, entriesQ_append xs b ha.2 hb⟩

theorem entriesQ_reverse : ∀ (a : List Entry), EntriesQ Q R a → EntriesQ Q R a.reverse
  | [], _ => by simp [EntriesQ]
  | x :: xs, h => by
    simp only [EntriesQ] at h
    rw [List.reverse_cons]
    exact entriesQ_append _ _ (entriesQ_reverse xs h.2) (by simp [EntriesQ, h.1])

theorem itemsQ_append : ∀ (a b : List Item), ItemsQ Q R a → ItemsQ Q R b → ItemsQ Q R (a ++ b)
  | [], _, _, hb => by simpa using hb
  | x :: xs, b, ha, hb => by
    simp only [List.cons_append, ItemsQ] at ha ⊢
    exact ⟨ha.1, itemsQ_append xs b ha.2 hb⟩

theorem itemsQ_reverse : ∀ (a : List Item), ItemsQ Q R a → ItemsQ Q R a.reverse
  | [], _ => by simp [ItemsQ]
  | x :: xs, h => by
    simp only [ItemsQ] at h
    rw [List.reverse_cons]
    exact itemsQ_append _ _ (itemsQ_reverse xs h.2) (by simp [ItemsQ, h.1])

def TokQ (Q R : Str → Prop) (cfg : Block.Cfg) (gas : Nat) : Prop :=
  ∀ (lines : List Line) (start : Nat) (st : St) (b : Buf) (st' : St),
    tokenizeBlock cfg gas lines start st = .ok (b, st') → AllQ Q lines → EntriesQ Q R b.entries

def LoopQ (Q R : Str → Prop) (cfg : Block.Cfg) (gas : Nat) : Prop :=
  ∀ (fw : FW) (st : St) (acc : List Entry) (loose : Bool) (b) (st'),
    tokLoop cfg gas fw st acc loose = .ok (b, st') → AllQ Q fw.lines → EntriesQ Q R acc → EntriesQ Q R b.entries

def TryQ (Q R : Str → Prop) (cfg : Block.Cfg) (gas : Nat) : Prop :=
  ∀ (fw : FW) (st : St) (l : Line) (ts : List BTok) (e : Entry) (fw' : FW) (st' : St),
    tryTypes cfg gas fw st l ts = .ok (some (e, fw', st')) → AllQ Q fw.lines → Q l.s →
    fw'.lines = fw.lines ∧ EntryQ Q R e

def ListQ (Q R : Str → Prop) (cfg : Block.Cfg) (gas : Nat) : Prop :=
  ∀ (fw : FW) (st : St) (ld) (nm) (acc : List Item) (r),
    readList cfg gas fw st ld nm acc = .ok r → AllQ Q fw.lines → ItemsQ Q R acc → MarkerQ Q nm →
    r.2.1.lines = fw.lines ∧ ItemsQ Q R r.1

theorem list_Q (inv : LineInv Q R) (cfg : Block.Cfg) (gas : Nat) (hT : TokQ Q R cfg gas) (hL : ListQ Q R cfg gas) :
    ListQ Q R cfg (gas + 1) := by
  intro fw st ld nm acc r h hl hacc hnm
  have hstop : ∀ (items : List Item) (fwEnd : FW) (stEnd : St) (rr : List Item × FW × St), ItemsQ Q R items →
      fwEnd.lines = fw.lines →
      (Res.ok ((match items with
        | .mk inner loose i p l n g :: rest => Item.mk inner (decide (inner.length > 1) && loose) i p l n g :: rest
        | [] => []).reverse, fwEnd, stEnd) : Res _) = .ok rr → rr.2.1.lines = fw.lines ∧ ItemsQ Q R rr.1 := by
    intro items fwEnd stEnd rr hi hs he
    cases he
    refine ⟨hs, itemsQ_reverse _ ?_⟩
    cases items with
    | nil => trivial
    | cons x xs =>
      cases x
      simp only [ItemsQ, ItemQ] at hi ⊢
      exact hi
  simp only [readList] at h
  split at h
  · exact hstop acc fw st r hacc rfl h
  split at h
  · cases h
  · rename_i il hil
    have hq := itemLines_Q inv cfg fw nm il hil hl hnm
    have key : ∀ (item : Item) (itemLeader : Str) (next : Option (Nat × Nat × Str × Str)) (fw' : FW) (st' : St),
        (match il with
          | .empty ind pre ldr ln og next fw' => (Res.ok (Item.mk [] true ind pre ldr ln og, ldr, next, fw', st) : Res _)
          | .lines buf cstart ind pre ldr ln og next fw' =>
            match tokenizeBlock cfg gas buf cstart st with
            | .err e => .err e
            | .ok (b, st') => .ok (Item.mk b.entries b.loose ind pre ldr ln og, ldr, next, fw', st'))
          = .ok (item, itemLeader, next, fw', st') → fw'.lines = fw.lines ∧ ItemQ Q R item ∧ MarkerQ Q next := by
      intro item itemLeader next fw' st' he
      cases il with
      | empty ind pre ldr ln og nx fwx =>
        simp only at he hq
        cases he
        exact ⟨hq.1, trivial, hq.2⟩
      | lines buf cstart ind pre ldr ln og nx fwx =>
        simp only at he hq
        split at he
        · cases he
        · rename_i b stb hb
          cases he
          exact ⟨hq.2.1, hT _ _ _ _ _ hb hq.1, hq.2.2⟩
    split at h
    · cases h
    · rename_i item itemLeader next fw' st' hres
      have hk := key item itemLeader next fw' st' hres
      have hacc' : ItemsQ Q R (item :: acc) := ⟨hk.2.1, hacc⟩
      have hl' : AllQ Q fw'.lines := by rw [hk.1]; exact hl
      split at h
      · split at h
        · exact hstop _ _ _ r hacc' hk.1 h
        · have := hL fw' st' _ _ _ r h hl' hacc' hk.2.2
          exact ⟨this.1.trans hk.1, this.2⟩
      · split at h
        · exact hstop _ _ _ r hacc' hk.1 h
        · have := hL fw' st' _ _ _ r h hl' hacc' hk.2.2
          exact ⟨this.1.trans hk.1, this.2⟩

theorem try_Q (inv : LineInv Q R) (cfg : Block.Cfg) (gas : Nat) (hT : TokQ Q R cfg gas) (hL : ListQ Q R cfg gas)
    (hY : TryQ Q R cfg gas) : TryQ Q R cfg (gas + 1) := by
  intro fw st l ts e fw' st' h hl hq
  cases ts with
  | nil => simp [tryTypes] at h
  | cons t ts =>
    have ih := fun fw2 st2 (h2 : tryTypes cfg gas fw2 st2 l ts = .ok (some (e, fw', st'))) (hs : fw2.lines = fw.lines) =>
      (fun r => (⟨r.1.trans hs, r.2⟩ : fw'.lines = fw.lines ∧ EntryQ Q R e))
        (hY fw2 st2 l ts e fw' st' h2 (by rw [hs]; exact hl) hq)
    unfold tryTypes at h
    cases t <;> simp only at h
    · -- htmlBlock
      split at h
      · cases h
      · exact ih fw st h rfl
      · cases h; exact ⟨(readHtmlBlock_same fw _).1, trivial⟩
    · -- blockCode
      split at h
      · cases h; exact ⟨(readBlockCode_same fw).1, trivial⟩
      · exact ih fw st h rfl
    · -- heading
      split at h
      · rename_i lvl c cl fwh hh
        cases h
        exact ⟨(readHeading_same fw l.s _ hh).1, readHeading_R inv fw l.s lvl c cl _ hq hh⟩
      · exact ih fw st h rfl
    · -- quote
      split at h
      · split at h
        · cases h
        · rename_i qls qstart fwq hqq
          have hql := quoteLines_Q inv cfg fw l _ hqq hl hq
          split at h
          · cases h
          · rename_i b stb hb
            cases h
            exact ⟨hql.2, hT _ _ _ _ _ hb hql.1⟩
      · exact ih fw st h rfl
    · -- codeFence
      split at h
      · cases h; exact ⟨(readCodeFence_same fw _).1, trivial⟩
      · exact ih fw st h rfl
    · -- thematicBreak
      split at h
      · cases h; exact ⟨rfl, trivial⟩
      · exact ih fw st h rfl
    · -- list
      split at h
      · split at h
        · cases h
        · rename_i items fwl stl hrl
          cases h
          exact hL fw st none none [] _ hrl hl trivial (fun m hm => by cases hm)
      · exact ih fw st h rfl
    · -- table
      split at h
      · split at h
        · rename_i b sl fwt ht
          cases h
          exact ⟨(readTable_same fw _ ht).1.1, readTable_Q fw b sl _ ht hl⟩
        · exact ih fw st h rfl
      · exact ih fw st h rfl
    · -- footnote
      split at h
      · split at h
        · cases h
        · rename_i ms fwf hf
          have hsf := (readFootnote_same fw ms fwf hf).1
          split at h
          · exact ih fwf _ h hsf
          · cases h; exact ⟨hsf, trivial⟩
      · exact ih fw st h rfl
    · -- paragraph
      split at h
      · split at h
        · cases h
        · rename_i b fwp hpp
          cases h
          exact ⟨(readParagraph_same cfg _ fw l.s _ hpp).1, readParagraph_Q cfg _ fw l.s _ hpp hl hq⟩
        · rename_i b fwp hpp
          cases h
          exact ⟨(readParagraph_same cfg _ fw l.s _ hpp).1, readParagraph_Q cfg _ fw l.s _ hpp hl hq⟩
      · exact ih fw st h rfl
    · -- blankLine
      split at h
      · cases h; exact ⟨rfl, trivial⟩
      · exact ih fw st h rfl
    · -- linkRefDefBlock
      split at h
      · split at h
        · cases h
        · rename_i ms fwf hf
          have hsf := (readFootnote_same fw ms fwf hf).1
          split at h
          · exact ih fwf _ h hsf
          · cases h; exact ⟨hsf, trivial⟩
      · exact ih fw st h rfl

theorem loop_Q (cfg : Block.Cfg) (gas : Nat) (hY : TryQ Q R cfg gas) (hP : LoopQ Q R cfg gas) : LoopQ Q R cfg (gas + 1) := by
  intro fw st acc loose b st' h hl hacc
  simp only [tokLoop] at h
  split at h
  · cases h; exact entriesQ_reverse acc hacc
  · rename_i l hp
    split at h
    · cases h
    · rename_i e fw2 st2 ht
      have := hY fw st l cfg.types e fw2 st2 ht hl (hl l (peek_mem fw l hp))
      exact hP fw2 st2 _ loose b st' h (by rw [this.1]; exact hl) ⟨this.2, hacc⟩
    · exact hP fw.next st acc true b st' h hl hacc

theorem tok_Q (cfg : Block.Cfg) (gas : Nat) (hP : LoopQ Q R cfg gas) : TokQ Q R cfg (gas + 1) := by
  intro lines start st b st' h hl
  simp only [tokenizeBlock] at h
  exact hP _ _ _ _ _ _ h hl trivial

theorem all_Q (inv : LineInv Q R) (cfg : Block.Cfg) :
    ∀ (gas : Nat), TokQ Q R cfg gas ∧ LoopQ Q R cfg gas ∧ TryQ Q R cfg gas ∧ ListQ Q R cfg gas
  | 0 => by
    refine ⟨?_, ?_, ?_, ?_⟩
    · intro lines start st b st' h; simp [tokenizeBlock] at h
    · intro fw st acc loose b st' h; simp [tokLoop] at h
    · intro fw st l ts e fw' st' h; simp [tryTypes] at h
    · intro fw st ld nm acc r h; simp [readList] at h
  | gas + 1 => by
    obtain ⟨hT, hP, hY, hL⟩ := all_Q inv cfg gas
    exact ⟨tok_Q cfg gas hP, loop_Q cfg gas hY hP, try_Q inv cfg gas hT hL hY, list_Q inv cfg gas hT hL⟩

/-- **the block phase keeps the invariant**: if every input line satisfies `Q`, every line of the
    parse buffer that reaches the inline phase does (at every nesting depth) -/
theorem blockPhase_inv (inv : LineInv Q R) (cfg : Block.Cfg) (gas : Nat) (lines : List Str) (b : Buf) (st : St)
    (hq : ∀ s ∈ lines, Q s) (h : blockPhase cfg gas lines = .ok (b, st)) : EntriesQ Q R b.entries := by
  refine (all_Q inv cfg gas).1 _ 1 {} b st h ?_
  intro l hl
  obtain ⟨⟨s, i⟩, hm, rfl⟩ := List.mem_map.mp hl
  exact hq s (List.mem_zipIdx hm |>.2.2 ▸ List.getElem_mem _) 

end Induction


/-! ### the block token constructors under two span-token lists -/

theorem splitPipes_infix : ∀ (s : Str) (p : Option Char) (cur : Str), ∀ cell ∈ splitPipes s p cur, cell <:+: cur.reverse ++ s
  | [], p, cur, cell, h => by
    simp only [splitPipes, List.mem_singleton] at h
    subst h; simp
  | c :: rest, p, cur, cell, h => by
    simp only [splitPipes] at h
    split at h
    · rcases List.mem_cons.mp h with rfl | h
      · exact (List.prefix_append _ _).isInfix
      · have := splitPipes_infix rest (some c) [] cell h
        simp only [List.reverse_nil, List.nil_append] at this
        exact this.trans ((List.suffix_cons c rest).isInfix.trans (List.suffix_append _ _).isInfix)
    · have := splitPipes_infix rest (some c) (c :: cur) cell h
      simpa using this

theorem zipLongest_mem : ∀ (cs : List Str) (as : List (Option Nat)), ∀ z ∈ zipLongest cs as, ∀ c, z.1 = some c → c ∈ cs
  | [], as, z, hz, c, hc => by
    simp only [zipLongest, List.mem_map] at hz
    obtain ⟨a, _, rfl⟩ := hz
    cases hc
  | x :: xs, [], z, hz, c, hc => by
    simp only [zipLongest] at hz
    rcases List.mem_cons.mp hz with rfl | hz
    · cases hc; exact List.mem_cons_self ..
    · exact List.mem_cons_of_mem _ (zipLongest_mem xs [] z hz c hc)
  | x :: xs, a :: as, z, hz, c, hc => by
    simp only [zipLongest] at hz
    rcases List.mem_cons.mp hz with rfl | hz
    · cases hc; exact List.mem_cons_self ..
    · exact List.mem_cons_of_mem _ (zipLongest_mem xs as z hz c hc)

section Congr
variable {Q R : Str → Prop}

/-- the two configurations tokenize every `R` string alike -/
def InlSame (R : Str → Prop) (cfg' cfg : Document.Cfg) (fn : Footnotes.Table) : Prop :=
  ∀ u, R u → inl cfg' fn u = inl cfg fn u

theorem tableRow_go_congr (inv : LineInv Q R) (cfg' cfg : Document.Cfg) (fn : Footnotes.Table)
    (H : InlSame R cfg' cfg fn) (ln : Nat) :
    ∀ (zs : List (Option Str × Option Nat)), (∀ z ∈ zs, ∀ c, z.1 = some c → R c) →
      tableRow.go cfg' fn ln zs = tableRow.go cfg fn ln zs
  | [], _ => by simp only [tableRow.go]
  | (c, a) :: rest, hz => by
    have ih := tableRow_go_congr inv cfg' cfg fn H ln rest (fun z hm => hz z (List.mem_cons_of_mem _ hm))
    cases c with
    | none =>
      simp only [tableRow.go]
      rw [H [] inv.rnil, ih]
    | some cell =>
      have hc : R cell := hz _ (List.mem_cons_self ..) cell rfl
      have hr : R (unescapePipes ((strip cell).length + 1) none (strip cell)) :=
        inv.unesc _ _ _ (inv.rinfix _ _ hc (strip_infix cell))
      simp only [tableRow.go]
      rw [H _ hr, ih]

theorem tableRow_congr (inv : LineInv Q R) (cfg' cfg : Document.Cfg) (fn : Footnotes.Table)
    (H : InlSame R cfg' cfg fn) (line : Str) (hq : Q line) (al : List (Option Nat)) (ln : Nat) :
    tableRow cfg' fn line al ln = tableRow cfg fn line al ln := by
  unfold Document.tableRow
  simp only
  rw [tableRow_go_congr inv cfg' cfg fn H ln]
  intro z hz c hc
  have hm := zipLongest_mem _ _ z hz c hc
  have hm2 := (List.mem_filter.mp hm).1
  have := splitPipes_infix _ _ _ c hm2
  simp only [List.reverse_nil, List.nil_append] at this
  exact inv.toR line c hq (this.trans (strip_infix line))

theorem tableRows_congr (inv : LineInv Q R) (cfg' cfg : Document.Cfg) (fn : Footnotes.Table)
    (H : InlSame R cfg' cfg fn) : ∀ (ls : List Str), (∀ l ∈ ls, Q l) → ∀ (al : List (Option Nat)) (ln : Nat),
    tableRows cfg' fn ls al ln = tableRows cfg fn ls al ln
  | [], _, _, _ => by simp only [tableRows]
  | l :: rest, hq, al, ln => by
    simp only [tableRows]
    rw [tableRow_congr inv cfg' cfg fn H l (hq l (List.mem_cons_self ..)),
      tableRows_congr inv cfg' cfg fn H rest (fun x hx => hq x (List.mem_cons_of_mem _ hx))]

mutual
theorem mkBlock_congr (inv : LineInv Q R) (cfg' cfg : Document.Cfg) (fn : Footnotes.Table) (H : InlSame R cfg' cfg fn) :
    ∀ (e : Entry), EntryQ Q R e → mkBlock cfg' fn e = mkBlock cfg fn e
  | .blockCode .., _ => by simp only [mkBlock]
  | .heading lvl content closing ln og, hq => by
    simp only [EntryQ] at hq
    simp only [mkBlock]; rw [H content hq]
  | .quote inner lo ln og, hq => by
    simp only [EntryQ] at hq
    simp only [mkBlock]; rw [mkBlocks_congr inv cfg' cfg fn H inner hq]
  | .codeFence .., _ => by simp only [mkBlock]
  | .thematicBreak .., _ => by simp only [mkBlock]
  | .list items ln og, hq => by
    simp only [EntryQ] at hq
    simp only [mkBlock]; rw [mkItems_congr inv cfg' cfg fn H items hq]
  | .table lines sl ln og, hq => by
    simp only [EntryQ] at hq
    match lines, hq with
    | [], _ => simp only [mkBlock]
    | [_], _ => simp only [mkBlock]
    | l0 :: l1 :: rest, hq =>
      have e1 := tableRow_congr inv cfg' cfg fn H l0 (hq l0 (List.mem_cons_self ..))
      have e2 := tableRows_congr inv cfg' cfg fn H rest
        (fun x hx => hq x (List.mem_cons_of_mem _ (List.mem_cons_of_mem _ hx)))
      have e3 := tableRows_congr inv cfg' cfg fn H (l0 :: l1 :: rest) hq
      simp only [mkBlock, e1, e2, e3]
  | .footnote .., _ => by simp only [mkBlock]
  | .linkRefDefs .., _ => by simp only [mkBlock]
  | .paragraph lines ln og, hq => by
    simp only [EntryQ] at hq
    have hr : R (strip (lines.map lstrip).flatten) := by
      refine inv.rinfix _ _ (inv.flat _ ?_) (strip_infix _)
      intro l hl
      obtain ⟨l', hl', rfl⟩ := List.mem_map.mp hl
      exact inv.suffix _ _ (hq l' hl') (lstrip_suffix l')
    simp only [mkBlock]; rw [H _ hr]
  | .setext lines ln og, hq => by
    simp only [EntryQ] at hq
    have hr : R (joinNl (lines.dropLast.map strip)) := by
      refine inv.join _ ?_
      intro l hl
      obtain ⟨l', hl', rfl⟩ := List.mem_map.mp hl
      exact inv.toR _ _ (hq l' (List.dropLast_subset _ hl')) (strip_infix l')
    simp only [mkBlock]; rw [H _ hr]
  | .htmlBlock .., _ => by simp only [mkBlock]
  | .blankLine .., _ => by simp only [mkBlock]
theorem mkBlocks_congr (inv : LineInv Q R) (cfg' cfg : Document.Cfg) (fn : Footnotes.Table) (H : InlSame R cfg' cfg fn) :
    ∀ (es : List Entry), EntriesQ Q R es → mkBlocks cfg' fn es = mkBlocks cfg fn es
  | [], _ => by simp only [mkBlocks]
  | e :: es, hq => by
    simp only [EntriesQ] at hq
    simp only [mkBlocks]
    rw [mkBlock_congr inv cfg' cfg fn H e hq.1, mkBlocks_congr inv cfg' cfg fn H es hq.2]
theorem mkItems_congr (inv : LineInv Q R) (cfg' cfg : Document.Cfg) (fn : Footnotes.Table) (H : InlSame R cfg' cfg fn) :
    ∀ (is : List Item), ItemsQ Q R is → mkItems cfg' fn is = mkItems cfg fn is
  | [], _ => by simp only [mkItems]
  | .mk inner lo ind pre ld ln og :: rest, hq => by
    simp only [ItemsQ, ItemQ] at hq
    simp only [mkItems]
    rw [mkBlocks_congr inv cfg' cfg fn H inner hq.1, mkItems_congr inv cfg' cfg fn H rest hq.2]
end

/-- **buffer-level statement**: two configurations with the same block list whose span lists tokenize
    every `R` string alike build the same document from every parse buffer that satisfies the invariant -/
theorem parseLines_congr_buf (inv : LineInv Q R) (cfg' cfg : Document.Cfg) (hb : cfg'.block = cfg.block)
    (H : ∀ fn, InlSame R cfg' cfg fn) (gas : Nat) (lines : List Str)
    (hbuf : ∀ buf st, blockPhase cfg.block gas lines = .ok (buf, st) → EntriesQ Q R buf.entries) :
    parseLines cfg' gas lines = parseLines cfg gas lines := by
  unfold parseLines
  rw [hb]
  cases hbp : blockPhase cfg.block gas lines with
  | err e => rfl
  | ok p =>
    obtain ⟨buf, st⟩ := p
    simp only
    rw [mkBlocks_congr inv cfg' cfg _ (H _) buf.entries (hbuf buf st hbp)]

theorem parseLines_congr (inv : LineInv Q R) (cfg' cfg : Document.Cfg) (hb : cfg'.block = cfg.block)
    (H : ∀ fn, InlSame R cfg' cfg fn) (gas : Nat) (lines : List Str) (hq : ∀ s ∈ lines, Q s) :
    parseLines cfg' gas lines = parseLines cfg gas lines :=
  parseLines_congr_buf inv cfg' cfg hb H gas lines
    (fun buf st h => blockPhase_inv inv cfg.block gas lines buf st hq h)

/-- **`Document(text)` under a span-token list with one more class `x`** whose `find` returns nothing on
    every `R` string: the same document (`Q` = invariant of the lines, `R` = of the inline texts) -/
theorem parse_insert (inv : LineInv Q R) (cfg' cfg : Document.Cfg) (pre post : List STok) (x : STok)
    (hb : cfg'.block = cfg.block) (hs' : cfg'.span = pre ++ x :: post) (hs : cfg.span = pre ++ post)
    (htrig : ∀ u, R u → ∀ core codes, findOne u core codes x = [])
    (gas : Nat) (t : Str) (ht : ∀ l ∈ Lines.normalize (.str t), Q l) :
    Document.parse cfg' gas t = Document.parse cfg gas t := by
  unfold Document.parse
  refine parseLines_congr inv cfg' cfg hb ?_ gas _ ht
  intro fn u hu
  show tokenizeInner cfg'.span fn u = tokenizeInner cfg.span fn u
  rw [hs', hs]
  exact tokenizeInner_insert pre post x fn u (htrig u hu)

end Congr


/-! ## Part 4: the two instances -/

/-! ### the lines of a text are pieces of the text -/

theorem splitlinesAux_infix : ∀ (s acc : Str), ∀ l ∈ Lines.splitlinesAux s acc, l <:+: acc.reverse ++ s
  | [], acc, l, h => by
    simp only [Lines.splitlinesAux] at h
    split at h
    · cases h
    · simp only [List.mem_singleton] at h; subst h; simp
  | c :: rest, acc, l, h => by
    unfold Lines.splitlinesAux at h
    split at h
    · rename_i hcr
      subst hcr
      split at h
      · rename_i rest'
        rcases List.mem_cons.mp h with rfl | h
        · exact ⟨[], rest', by simp⟩
        · have := splitlinesAux_infix rest' [] l h
          simp only [List.reverse_nil, List.nil_append] at this
          exact this.trans ⟨acc.reverse ++ ['\r', '\n'], [], by simp⟩
      · rcases List.mem_cons.mp h with rfl | h
        · exact ⟨[], rest, by simp⟩
        · have := splitlinesAux_infix rest [] l h
          simp only [List.reverse_nil, List.nil_append] at this
          exact this.trans ⟨acc.reverse ++ ['\r'], [], by simp⟩
    · split at h
      · rcases List.mem_cons.mp h with rfl | h
        · exact ⟨[], rest, by simp⟩
        · have := splitlinesAux_infix rest [] l h
          simp only [List.reverse_nil, List.nil_append] at this
          exact this.trans ⟨acc.reverse ++ [c], [], by simp⟩
      · have := splitlinesAux_infix rest (c :: acc) l h
        simpa using this

theorem pySplitlines_infix (t : Str) : ∀ l ∈ Lines.pySplitlines t, l <:+: t := by
  intro l hl
  have := splitlinesAux_infix t [] l hl
  simpa using this

theorem endsWithNl_getLast : ∀ (l : Str), endsWithNl l = true → l.getLast? = some '\n'
  | [], h => by simp [endsWithNl] at h
  | [c], h => by simp only [endsWithNl, beq_iff_eq] at h; simp [h]
  | _ :: y :: rest, h => by
    simp only [endsWithNl] at h
    have := endsWithNl_getLast (y :: rest) h
    rw [List.getLast?_cons, this]; rfl

/-! ### no '$' -/

def NoD (s : Str) : Prop := '$' ∉ s

theorem mem_replaceFirst (pat rep : Str) : ∀ (s : Str) (c : Char), c ∈ replaceFirst pat rep s → c ∈ rep ∨ c ∈ s
  | [], _, h => by simp [replaceFirst] at h
  | x :: rest, c, h => by
    simp only [replaceFirst] at h
    split at h
    · rcases List.mem_append.mp h with h1 | h1
      · exact Or.inl h1
      · exact Or.inr (List.mem_of_mem_drop h1)
    · rcases List.mem_cons.mp h with rfl | h1
      · exact Or.inr (List.mem_cons_self ..)
      · rcases mem_replaceFirst pat rep rest c h1 with h2 | h2
        · exact Or.inl h2
        · exact Or.inr (List.mem_cons_of_mem _ h2)

theorem mem_unescapePipes : ∀ (n : Nat) (p : Option Char) (t : Str) (c : Char),
    c ∈ unescapePipes n p t → c ∈ t ∨ c = '\\' ∨ c = '|'
  | 0, _, _, _, h => by simp only [unescapePipes] at h; exact Or.inl h
  | _ + 1, _, [], _, h => by simp [unescapePipes] at h
  | n + 1, p, x :: rest, c, h => by
    simp only [unescapePipes] at h
    split at h
    · rcases List.mem_append.mp h with h1 | h1
      · rcases List.mem_append.mp h1 with h2 | h2
        · split at h2
          · simp only [List.mem_cons, List.not_mem_nil, or_false, or_self] at h2
            exact Or.inr (Or.inl h2)
          · cases h2
        · simp only [List.mem_singleton] at h2
          exact Or.inr (Or.inr h2)
      · rcases mem_unescapePipes n _ _ c h1 with h2 | h2
        · exact Or.inl (List.mem_of_mem_drop h2)
        · exact Or.inr h2
    · rcases List.mem_cons.mp h with rfl | h1
      · exact Or.inl (List.mem_cons_self ..)
      · rcases mem_unescapePipes n _ _ c h1 with h2 | h2
        · exact Or.inl (List.mem_cons_of_mem _ h2)
        · exact Or.inr h2

theorem mem_joinNl : ∀ (ls : List Str) (c : Char), c ∈ joinNl ls → c = '\n' ∨ ∃ l ∈ ls, c ∈ l
  | [], _, h => by simp [joinNl] at h
  | [x], c, h => by simp only [joinNl] at h; exact Or.inr ⟨x, List.mem_cons_self .., h⟩
  | x :: y :: rest, c, h => by
    simp only [joinNl, List.mem_append, List.mem_singleton] at h
    rcases h with (h1 | h1) | h1
    · exact Or.inr ⟨x, List.mem_cons_self .., h1⟩
    · exact Or.inl h1
    · rcases mem_joinNl (y :: rest) c h1 with h2 | ⟨l, hl, hc⟩
      · exact Or.inl h2
      · exact Or.inr ⟨l, List.mem_cons_of_mem _ hl, hc⟩

theorem noD_inv : LineInv NoD NoD where
  suffix := fun _ _ h hs hm => h (hs.subset hm)
  spaces := fun _ _ h hm => by
    rcases List.mem_append.mp hm with h1 | h1
    · exact absurd (List.eq_of_mem_replicate h1) (by decide)
    · exact h h1
  gt := fun _ h hm => by
    rcases List.mem_cons.mp hm with h1 | h1
    · exact absurd h1 (by decide)
    · exact h h1
  tab := fun s h hm => by
    rcases mem_replaceFirst _ _ s _ hm with h1 | h1
    · simp at h1
    · exact h h1
  nl := by simp [NoD]
  nlcut := fun a b h hm => by
    apply h
    rcases List.mem_append.mp hm with h1 | h1
    · exact List.mem_append_left _ h1
    · simp at h1
  toR := fun _ _ h hs hm => h (hs.subset hm)
  flat := fun ls h hm => by
    obtain ⟨l, hl, hc⟩ := List.mem_flatten.mp hm
    exact h l hl hc
  rinfix := fun _ _ h hs hm => h (hs.subset hm)
  rnil := by simp [NoD]
  join := fun ls h hm => by
    rcases mem_joinNl ls _ hm with h1 | ⟨l, hl, hc⟩
    · exact absurd h1 (by decide)
    · exact h l hl hc
  unesc := fun n p t h hm => by
    rcases mem_unescapePipes n p t _ hm with h1 | h1 | h1
    · exact h h1
    · exact absurd h1 (by decide)
    · exact absurd h1 (by decide)

theorem normalize_noD (t : Str) (h : '$' ∉ t) : ∀ l ∈ Lines.normalize (.str t), NoD l := by
  intro l hl
  simp only [Lines.normalize, List.mem_map] at hl
  obtain ⟨l0, hl0, rfl⟩ := hl
  have h0 : '$' ∉ l0 := fun hm => h ((pySplitlines_infix t l0 hl0).subset hm)
  unfold Lines.complete
  split
  · exact h0
  · intro hm
    rcases List.mem_append.mp hm with h1 | h1
    · exact h0 h1
    · simp at h1

/-! ### no "[[" -/

/-- no two adjacent '[' -/
def NoBB (s : Str) : Prop := ¬ (['[', '['] <:+: s)
/-- the string does not end with '[' -/
def EndOk (s : Str) : Prop := s.getLast? ≠ some '['
/-- the line invariant: no "[[" inside, and none can arise by appending another line -/
def WQ (s : Str) : Prop := NoBB s ∧ EndOk s

theorem isInfix_iff (sub : Str) : ∀ (s : Str), isInfix sub s = true ↔ sub <:+: s
  | [] => by simp [isInfix]
  | c :: rest => by
    simp only [isInfix, Bool.or_eq_true, List.isPrefixOf_iff_prefix, isInfix_iff sub rest, List.infix_cons_iff]

theorem noBB_of_isInfix (s : Str) (h : isInfix ['[', '['] s = false) : NoBB s := by
  intro hi
  rw [← isInfix_iff] at hi
  rw [hi] at h; cases h

theorem isInfix_of_noBB (s : Str) (h : NoBB s) : isInfix ['[', '['] s = false :=
  Bool.eq_false_iff.mpr (fun hi => h ((isInfix_iff _ _).mp hi))

theorem noBB_nil : NoBB [] := by simp [NoBB]

theorem noBB_cons (x : Char) (l : Str) : NoBB (x :: l) ↔ ¬(x = '[' ∧ l.head? = some '[') ∧ NoBB l := by
  unfold NoBB
  rw [List.infix_cons_iff, List.cons_prefix_cons]
  have : (['['] <+: l) ↔ l.head? = some '[' := by
    cases l with
    | nil => simp
    | cons y ys => simp [List.cons_prefix_cons, eq_comm]
  rw [this]
  constructor
  · intro h; exact ⟨fun ⟨a, b⟩ => h (Or.inl ⟨a.symm, b⟩), fun c => h (Or.inr c)⟩
  · rintro ⟨h1, h2⟩ (⟨a, b⟩ | c)
    · exact h1 ⟨a.symm, b⟩
    · exact h2 c

theorem noBB_cons_ne (x : Char) (l : Str) (hx : x ≠ '[') (h : NoBB l) : NoBB (x :: l) :=
  (noBB_cons x l).mpr ⟨fun ⟨a, _⟩ => hx a, h⟩

theorem endOk_tail (x : Char) (l : Str) (h : EndOk (x :: l)) : EndOk l := by
  intro hl
  apply h
  rw [List.getLast?_cons, hl]; rfl

theorem endOk_append_cons (p : Str) (x : Char) (b : Str) : EndOk (p ++ x :: b) ↔ b.getLast?.getD x ≠ '[' := by
  simp [EndOk, List.getLast?_append, List.getLast?_cons]

theorem endOk_cons (x : Char) (b : Str) : EndOk (x :: b) ↔ b.getLast?.getD x ≠ '[' :=
  endOk_append_cons [] x b

theorem endOk_cons_ne (x : Char) (l : Str) (hx : x ≠ '[') (h : EndOk l) : EndOk (x :: l) := by
  rw [endOk_cons]
  cases hl : l.getLast? with
  | none => exact hx
  | some z => simp only [Option.getD_some]; intro e; exact h (by rw [hl, e])

theorem endOk_suffix (s t : Str) (hs : t <:+ s) (h : EndOk s) : EndOk t := by
  obtain ⟨p, rfl⟩ := hs
  intro ht
  apply h
  rw [List.getLast?_append, ht]; rfl

theorem noBB_append : ∀ (a b : Str), NoBB a → NoBB b → (EndOk a ∨ b.head? ≠ some '[') → NoBB (a ++ b)
  | [], b, _, hb, _ => by simpa using hb
  | x :: a', b, ha, hb, hj => by
    rw [noBB_cons] at ha
    rw [List.cons_append, noBB_cons]
    refine ⟨?_, noBB_append a' b ha.2 hb (hj.imp (endOk_tail x a') id)⟩
    rintro ⟨hx, hh⟩
    cases a' with
    | nil =>
      simp only [List.nil_append] at hh
      rcases hj with hj | hj
      · exact hj (by simp [hx])
      · exact hj hh
    | cons y ys => exact ha.1 ⟨hx, by simpa using hh⟩

theorem wq_cons_ne (x : Char) (l : Str) (hx : x ≠ '[') (h : WQ l) : WQ (x :: l) :=
  ⟨noBB_cons_ne x l hx h.1, endOk_cons_ne x l hx h.2⟩

theorem replaceFirst_spec (pat rep : Str) : ∀ (s : Str),
    replaceFirst pat rep s = s ∨ ∃ a b, s = a ++ pat ++ b ∧ replaceFirst pat rep s = a ++ rep ++ b
  | [] => Or.inl rfl
  | c :: rest => by
    simp only [replaceFirst]
    split
    · rename_i hc
      simp only [Bool.and_eq_true] at hc
      obtain ⟨b, hb⟩ := List.isPrefixOf_iff_prefix.mp hc.1
      refine Or.inr ⟨[], b, by simpa using hb.symm, ?_⟩
      rw [← hb]; simp
    · rcases replaceFirst_spec pat rep rest with h | ⟨a, b, h1, h2⟩
      · exact Or.inl (by rw [h])
      · exact Or.inr ⟨c :: a, b, by simp [h1], by simp [h2]⟩

theorem unescapePipes_noBB : ∀ (n : Nat) (p : Option Char) (t : Str), NoBB t →
    NoBB (unescapePipes n p t) ∧ ((unescapePipes n p t).head? = some '[' → t.head? = some '[')
  | 0, _, _, h => by simp only [unescapePipes]; exact ⟨h, id⟩
  | _ + 1, _, [], _ => by simp [unescapePipes, noBB_nil]
  | n + 1, p, x :: rest, h => by
    simp only [unescapePipes]
    split
    · have hd : NoBB ((x :: rest).drop (countLeading '\\' (x :: rest) + 1)) :=
        fun hi => h (hi.trans (List.drop_suffix _ _).isInfix)
      have ih := (unescapePipes_noBB n (some '|') _ hd).1
      split
      · refine ⟨?_, by simp⟩
        exact noBB_cons_ne _ _ (by decide) (noBB_cons_ne _ _ (by decide) (noBB_cons_ne _ _ (by decide) ih))
      · refine ⟨?_, by simp⟩
        exact noBB_cons_ne _ _ (by decide) ih
    · have hr := (noBB_cons x rest).mp h
      have ih := unescapePipes_noBB n (some x) rest hr.2
      refine ⟨(noBB_cons _ _).mpr ⟨?_, ih.1⟩, by simp⟩
      rintro ⟨hx, hh⟩
      exact hr.1 ⟨hx, ih.2 hh⟩

theorem wq_inv : LineInv WQ NoBB where
  suffix := fun s t h hs => ⟨fun hi => h.1 (hi.trans hs.isInfix), endOk_suffix s t hs h.2⟩
  spaces := fun s n h => by
    induction n with
    | zero => simpa using h
    | succ k ih => rw [List.replicate_succ, List.cons_append]; exact wq_cons_ne _ _ (by decide) ih
  gt := fun s h => wq_cons_ne _ _ (by decide) h
  tab := fun s h => by
    rcases replaceFirst_spec ['>', '\t'] [' ', ' ', ' '] s with e | ⟨a, b, h1, h2⟩
    · rw [e]; exact h
    · rw [h2]
      subst h1
      have ha : NoBB a := fun hi => h.1 (hi.trans ⟨[], ['>', '\t'] ++ b, by simp⟩)
      have hb : NoBB b := fun hi => h.1 (hi.trans (List.suffix_append _ _).isInfix)
      refine ⟨?_, ?_⟩
      · rw [List.append_assoc]
        refine noBB_append a _ ha ?_ (Or.inr (by simp))
        exact noBB_cons_ne _ _ (by decide) (noBB_cons_ne _ _ (by decide) (noBB_cons_ne _ _ (by decide) hb))
      · have h2' := h.2
        have e1 : a ++ ['>', '\t'] ++ b = (a ++ ['>']) ++ '\t' :: b := by simp
        have e2 : a ++ [' ', ' ', ' '] ++ b = (a ++ [' ', ' ']) ++ ' ' :: b := by simp
        rw [e1, endOk_append_cons] at h2'
        rw [e2, endOk_append_cons]
        cases hl : b.getLast? with
        | none => simp
        | some z => rw [hl] at h2'; exact h2'
  nl := ⟨noBB_cons_ne _ _ (by decide) noBB_nil, by simp [EndOk]⟩
  nlcut := fun a b h =>
    ⟨fun hi => h.1 (hi.trans ⟨[], b, by simp⟩), by rw [endOk_append_cons]; simp⟩
  toR := fun s u h hs hi => h.1 (hi.trans hs)
  flat := fun ls h => by
    induction ls with
    | nil => simpa using noBB_nil
    | cons l rest ih =>
      rw [List.flatten_cons]
      exact noBB_append l _ (h l (List.mem_cons_self ..)).1 (ih (fun x hx => h x (List.mem_cons_of_mem _ hx)))
        (Or.inl (h l (List.mem_cons_self ..)).2)
  rinfix := fun s u h hs hi => h (hi.trans hs)
  rnil := noBB_nil
  join := fun ls h => by
    induction ls with
    | nil => simpa [joinNl] using noBB_nil
    | cons x rest ih =>
      cases rest with
      | nil => simpa [joinNl] using h x (List.mem_cons_self ..)
      | cons y ys =>
        simp only [joinNl]
        have hx := h x (List.mem_cons_self ..)
        have h1 : NoBB (x ++ ['\n']) := noBB_append x _ hx (noBB_cons_ne _ _ (by decide) noBB_nil) (Or.inr (by simp))
        refine noBB_append _ _ h1 (ih (fun l hl => h l (List.mem_cons_of_mem _ hl))) (Or.inl ?_)
        rw [endOk_append_cons]; simp
  unesc := fun n p t h => (unescapePipes_noBB n p t h).1

theorem normalize_wq (t : Str) (h : NoBB t) : ∀ l ∈ Lines.normalize (.str t), WQ l := by
  intro l hl
  simp only [Lines.normalize, List.mem_map] at hl
  obtain ⟨l0, hl0, rfl⟩ := hl
  have h0 : NoBB l0 := fun hi => h (hi.trans (pySplitlines_infix t l0 hl0))
  unfold Lines.complete
  split
  · rename_i he
    exact ⟨h0, by rw [EndOk, endsWithNl_getLast l0 he]; decide⟩
  · refine ⟨noBB_append l0 _ h0 (noBB_cons_ne _ _ (by decide) noBB_nil) (Or.inr (by simp)), ?_⟩
    rw [endOk_append_cons]; simp


/-! ### the two text-level statements for arbitrary configurations -/

/-- inserting `.math` anywhere in the span list changes nothing on a text without '$' -/
theorem parse_insert_math (cfg' cfg : Document.Cfg) (pre post : List STok)
    (hb : cfg'.block = cfg.block) (hs' : cfg'.span = pre ++ .math :: post) (hs : cfg.span = pre ++ post)
    (gas : Nat) (t : Str) (ht : '$' ∉ t) : Document.parse cfg' gas t = Document.parse cfg gas t :=
  parse_insert noD_inv cfg' cfg pre post .math hb hs' hs
    (fun u hu core codes => findOne_math_nil u core codes hu) gas t (normalize_noD t ht)

/-- inserting `.githubWiki` anywhere in the span list changes nothing on a text without "[[" -/
theorem parse_insert_githubWiki (cfg' cfg : Document.Cfg) (pre post : List STok)
    (hb : cfg'.block = cfg.block) (hs' : cfg'.span = pre ++ .githubWiki :: post) (hs : cfg.span = pre ++ post)
    (gas : Nat) (t : Str) (ht : isInfix ['[', '['] t = false) : Document.parse cfg' gas t = Document.parse cfg gas t :=
  parse_insert wq_inv cfg' cfg pre post .githubWiki hb hs' hs
    (fun u hu core codes => findOne_githubWiki_nil u core codes (isInfix_of_noBB u hu)) gas t
    (normalize_wq t (noBB_of_isInfix t ht))

end Mistletoe.ContribSame

/-! ## The regenerated configurations -/

namespace Mistletoe.Config
open Mistletoe

/-- token lists while a `GithubWikiRenderer` is active (regenerated from /repo) -/
def githubWiki : Option Document.Cfg := cfgOf Gen.RenderMaps.githubWikiBlockTokens Gen.RenderMaps.githubWikiSpanTokens
/-- token lists while a `MathJaxRenderer` is active (regenerated from /repo) -/
def mathjax : Option Document.Cfg := cfgOf Gen.RenderMaps.mathjaxBlockTokens Gen.RenderMaps.mathjaxSpanTokens
/-- token lists while a `TocRenderer` is active (regenerated from /repo) -/
def toc : Option Document.Cfg := cfgOf Gen.RenderMaps.tocBlockTokens Gen.RenderMaps.tocSpanTokens
/-- token lists while a `PygmentsRenderer` is active (regenerated from /repo) -/
def pygments : Option Document.Cfg := cfgOf Gen.RenderMaps.pygmentsBlockTokens Gen.RenderMaps.pygmentsSpanTokens

/-- `R(**opts).render(Document(text))` for a renderer R of the HTML family with token lists `c`:
    parse under `c`, render with the flavoured HTML renderer (`opts.flavor` selects the suffix) -/
def renderContrib (c : Option Document.Cfg) (opts : Html.Opts) (gas : Nat) (text : Str) : Option Str :=
  match c with
  | none => none
  | some cfg =>
    match Document.parse cfg gas text with
    | .ok d => some (Html.renderFlavored opts d)
    | .err _ => none

end Mistletoe.Config

namespace Mistletoe.ContribSame
open Mistletoe Mistletoe.Py Mistletoe.Inline Mistletoe.Html

/-- `w` is `h` with the class `x` inserted at one position -/
def insertedAt (x : STok) (w h : List STok) : Bool :=
  let pre := w.takeWhile (· != x)
  let post := w.drop (pre.length + 1)
  w == pre ++ x :: post && h == pre ++ post

/-- the configuration `cw` is `ch` with the span class `x` inserted (same block list) -/
def extendsBy (x : STok) (cw ch : Option Document.Cfg) : Bool :=
  match cw, ch with
  | some w, some h =>
    decide (w.block.types = h.block.types) && (w.block.tableInterrupt == h.block.tableInterrupt) && insertedAt x w.span h.span
  | _, _ => false

/-- the two configurations carry the same lists -/
def sameLists (cw ch : Option Document.Cfg) : Bool :=
  match cw, ch with
  | some w, some h =>
    decide (w.block.types = h.block.types) && (w.block.tableInterrupt == h.block.tableInterrupt) && w.span == h.span
  | _, _ => false

theorem blockCfg_ext (a b : Block.Cfg) (h1 : a.types = b.types) (h2 : a.tableInterrupt = b.tableInterrupt) : a = b := by
  cases a; cases b; simp_all

theorem extendsBy_spec (x : STok) (w h : Document.Cfg) (he : extendsBy x (some w) (some h) = true) :
    w.block = h.block ∧ ∃ pre post, w.span = pre ++ x :: post ∧ h.span = pre ++ post := by
  simp only [extendsBy, insertedAt, Bool.and_eq_true, decide_eq_true_eq, beq_iff_eq] at he
  exact ⟨blockCfg_ext _ _ he.1.1 he.1.2, _, _, he.2.1, he.2.2⟩

theorem sameLists_spec (w h : Document.Cfg) (he : sameLists (some w) (some h) = true) : w = h := by
  simp only [sameLists, Bool.and_eq_true, decide_eq_true_eq, beq_iff_eq] at he
  cases w; cases h
  simp only [Document.Cfg.mk.injEq]
  exact ⟨blockCfg_ext _ _ he.1.1 he.1.2, he.2⟩

/-- **the regenerated lists**: GithubWikiRenderer's are HtmlRenderer's with `GithubWiki` inserted in the span
    list, MathJaxRenderer's with `Math` inserted, TocRenderer's and PygmentsRenderer's are HtmlRenderer's
    (decided on the tables regenerated from /repo; a change there breaks this proof) -/
theorem C18_lists :
    extendsBy .githubWiki Config.githubWiki Config.html = true ∧
    extendsBy .math Config.mathjax Config.html = true ∧
    sameLists Config.toc Config.html = true ∧
    sameLists Config.pygments Config.html = true := by decide +kernel

/-! ## Final theorems -/

/-- **C18, GithubWikiRenderer, text level**: on every text without "[[" the parse under
    GithubWikiRenderer's token lists is the parse under HtmlRenderer's token lists (every gas, including
    the error cases) -/
theorem C18_githubwiki_same_text (cfgW cfgH : Document.Cfg) (hW : Config.githubWiki = some cfgW)
    (hH : Config.html = some cfgH) (gas : Nat) (t : Str) (ht : isInfix ['[', '['] t = false) :
    Document.parse cfgW gas t = Document.parse cfgH gas t := by
  have h := C18_lists.1
  rw [hW, hH] at h
  obtain ⟨hb, pre, post, hs', hs⟩ := extendsBy_spec _ _ _ h
  exact parse_insert_githubWiki cfgW cfgH pre post hb hs' hs gas t ht

/-- **C18, MathJaxRenderer, text level**: on every text without '$' the parse under MathJaxRenderer's
    token lists is the parse under HtmlRenderer's token lists -/
theorem C18_mathjax_same_text (cfgM cfgH : Document.Cfg) (hM : Config.mathjax = some cfgM)
    (hH : Config.html = some cfgH) (gas : Nat) (t : Str) (ht : '$' ∉ t) :
    Document.parse cfgM gas t = Document.parse cfgH gas t := by
  have h := C18_lists.2.1
  rw [hM, hH] at h
  obtain ⟨hb, pre, post, hs', hs⟩ := extendsBy_spec _ _ _ h
  exact parse_insert_math cfgM cfgH pre post hb hs' hs gas t ht

/-- **C18, TocRenderer, text level**: TocRenderer installs no token; every text parses as under HtmlRenderer -/
theorem C18_toc_same_text (cfgT cfgH : Document.Cfg) (hT : Config.toc = some cfgT)
    (hH : Config.html = some cfgH) (gas : Nat) (t : Str) :
    Document.parse cfgT gas t = Document.parse cfgH gas t := by
  have h := C18_lists.2.2.1
  rw [hT, hH] at h
  rw [sameLists_spec _ _ h]

/-- **C18, PygmentsRenderer, text level**: PygmentsRenderer installs no token; every text parses as under
    HtmlRenderer (the renderers differ on `BlockCode` / `CodeFence` only: `C18_resolution`) -/
theorem C18_pygments_same_text (cfgP cfgH : Document.Cfg) (hP : Config.pygments = some cfgP)
    (hH : Config.html = some cfgH) (gas : Nat) (t : Str) :
    Document.parse cfgP gas t = Document.parse cfgH gas t := by
  have h := C18_lists.2.2.2
  rw [hP, hH] at h
  rw [sameLists_spec _ _ h]

theorem configs_some : ∃ cH cW cM cT cP, Config.html = some cH ∧ Config.githubWiki = some cW ∧
    Config.mathjax = some cM ∧ Config.toc = some cT ∧ Config.pygments = some cP := by
  have h : Config.html.isSome ∧ Config.githubWiki.isSome ∧ Config.mathjax.isSome ∧ Config.toc.isSome ∧
      Config.pygments.isSome := by decide +kernel
  obtain ⟨h1, h2, h3, h4, h5⟩ := h
  exact ⟨_, _, _, _, _, (Option.some_get h1).symm, (Option.some_get h2).symm, (Option.some_get h3).symm,
    (Option.some_get h4).symm, (Option.some_get h5).symm⟩

theorem renderFlavored_eq (o : Opts) (fl : Flavor) (d : Doc) :
    renderFlavored { o with flavor := fl } d = render o d ++ suffix fl := by
  simp [renderFlavored, render, Opts.q]

/-- what `renderContrib` gives when the parse agrees with the parse under HtmlRenderer's lists -/
theorem renderContrib_eq (c : Option Document.Cfg) (cfgC cfgH : Document.Cfg) (hc : c = some cfgC)
    (hH : Config.html = some cfgH) (o : Opts) (fl : Flavor) (gas : Nat) (t : Str)
    (hp : Document.parse cfgC gas t = Document.parse cfgH gas t) :
    Config.renderContrib c { o with flavor := fl } gas t = (Config.renderHtml o gas t).map (· ++ suffix fl) := by
  subst hc
  simp only [Config.renderContrib, Config.renderHtml, hH, hp]
  cases Document.parse cfgH gas t with
  | ok d => simp [renderFlavored_eq]
  | err e => rfl

/-- **C18, GithubWikiRenderer, end to end**: on every text without "[[",
    `GithubWikiRenderer(**opts).render(Document(text))` is `HtmlRenderer(**opts).render(Document(text))`
    (both `none` when the parse raises) -/
theorem C18_githubwiki_same_output (o : Opts) (gas : Nat) (t : Str) (ht : isInfix ['[', '['] t = false) :
    Config.renderContrib Config.githubWiki { o with flavor := .githubWiki } gas t = Config.renderHtml o gas t := by
  obtain ⟨cH, cW, _, _, _, hH, hW, _, _, _⟩ := configs_some
  rw [renderContrib_eq _ cW cH hW hH o .githubWiki gas t (C18_githubwiki_same_text cW cH hW hH gas t ht)]
  cases Config.renderHtml o gas t <;> simp [suffix]

/-- **C18, MathJaxRenderer, end to end**: on every text without '$' the output is HtmlRenderer's output
    followed by the generated script line `MathJaxRenderer.mathjax_src` -/
theorem C18_mathjax_same_output (o : Opts) (gas : Nat) (t : Str) (ht : '$' ∉ t) :
    Config.renderContrib Config.mathjax { o with flavor := .mathjax } gas t =
      (Config.renderHtml o gas t).map (· ++ Gen.RenderMaps.mathjaxSrc) := by
  obtain ⟨cH, _, cM, _, _, hH, _, hM, _, _⟩ := configs_some
  rw [renderContrib_eq _ cM cH hM hH o .mathjax gas t (C18_mathjax_same_text cM cH hM hH gas t ht)]
  rfl

/-- **C18, TocRenderer, end to end**: on every text the output is HtmlRenderer's -/
theorem C18_toc_same_output (o : Opts) (gas : Nat) (t : Str) :
    Config.renderContrib Config.toc { o with flavor := .toc } gas t = Config.renderHtml o gas t := by
  obtain ⟨cH, _, _, cT, _, hH, _, _, hT, _⟩ := configs_some
  rw [renderContrib_eq _ cT cH hT hH o .toc gas t (C18_toc_same_text cT cH hT hH gas t)]
  cases Config.renderHtml o gas t <;> simp [suffix]

/-- **C18, PygmentsRenderer, end to end, as far as the model goes**: the model's `renderFlavored` is
    HtmlRenderer's output on every tree; the real PygmentsRenderer departs from it on `BlockCode` /
    `CodeFence` only, which the model records in `supported` (see `supported_pygments` below) -/
theorem C18_pygments_same_output (o : Opts) (gas : Nat) (t : Str) :
    Config.renderContrib Config.pygments { o with flavor := .pygments } gas t = Config.renderHtml o gas t := by
  obtain ⟨cH, _, _, _, cP, hH, _, _, _, hP⟩ := configs_some
  rw [renderContrib_eq _ cP cH hP hH o .pygments gas t (C18_pygments_same_text cP cH hP hH gas t)]
  cases Config.renderHtml o gas t <;> simp [suffix]


/-! ### Pygments: where the model claims to follow the real renderer -/

mutual
/-- no `BlockCode` / `CodeFence` at any depth -/
def noCodeBlock : Block → Bool
  | .blockCode .. => false
  | .codeFence .. => false
  | .quote kids _ => noCodeBlocks kids
  | .list _ _ items _ => noCodeBlocks items
  | .listItem _ _ _ _ kids _ => noCodeBlocks kids
  | .table _ _ rows _ => noCodeBlocks rows
  | _ => true
def noCodeBlocks : List Block → Bool
  | [] => true
  | b :: bs => noCodeBlock b && noCodeBlocks bs
end

mutual
theorem supportedInline_pyg (o : Opts) : ∀ (i : Inline),
    supportedInline { o with flavor := .pygments } i = supportedInline { o with flavor := .html } i
  | .rawText _ => rfl
  | .strong _ k => by simp only [supportedInline]; exact supportedInlines_pyg o k
  | .emphasis _ k => by simp only [supportedInline]; exact supportedInlines_pyg o k
  | .inlineCode .. => rfl
  | .strikethrough k => by simp only [supportedInline]; exact supportedInlines_pyg o k
  | .image .. => rfl
  | .link _ _ _ _ _ k => by simp only [supportedInline]; exact supportedInlines_pyg o k
  | .autoLink .. => rfl
  | .escapeSequence _ => rfl
  | .lineBreak .. => rfl
  | .htmlSpan _ => rfl
  | .math _ => rfl
  | .githubWiki _ k => by simp only [supportedInline]; rfl
  | .xwikiMacroStart _ => rfl
  | .xwikiMacroEnd _ => rfl
  | .linkRefDef .. => rfl
theorem supportedInlines_pyg (o : Opts) : ∀ (k : List Inline),
    supportedInlines { o with flavor := .pygments } k = supportedInlines { o with flavor := .html } k
  | [] => rfl
  | i :: is => by
    simp only [supportedInlines]
    rw [supportedInline_pyg o i, supportedInlines_pyg o is]
end

theorem and4 (a b c d : Bool) : (a && b && (c && d)) = (a && c && (b && d)) := by
  cases a <;> cases b <;> cases c <;> cases d <;> rfl

mutual
theorem supportedBlock_pyg (o : Opts) : ∀ (b : Block),
    supportedBlock { o with flavor := .pygments } b = (supportedBlock { o with flavor := .html } b && noCodeBlock b)
  | .paragraph k _ => by simp only [supportedBlock, noCodeBlock, Bool.and_true]; exact supportedInlines_pyg o k
  | .heading _ _ k _ => by simp only [supportedBlock, noCodeBlock, Bool.and_true]; exact supportedInlines_pyg o k
  | .setextHeading _ _ k _ => by simp only [supportedBlock, noCodeBlock, Bool.and_true]; exact supportedInlines_pyg o k
  | .quote kids _ => by simp only [supportedBlock, noCodeBlock]; exact supportedBlocks_pyg o kids
  | .blockCode .. => by simp [supportedBlock, noCodeBlock]
  | .codeFence .. => by simp [supportedBlock, noCodeBlock]
  | .list _ _ items _ => by simp only [supportedBlock, noCodeBlock]; exact supportedBlocks_pyg o items
  | .listItem _ _ _ _ kids _ => by simp only [supportedBlock, noCodeBlock]; exact supportedBlocks_pyg o kids
  | .table _ header rows _ => by
    simp only [supportedBlock, noCodeBlock]
    rw [supportedRows_pyg o header, supportedBlocks_pyg o rows, Bool.and_assoc]
  | .tableRow _ cells _ => by simp only [supportedBlock, noCodeBlock, Bool.and_true]; exact supportedCells_pyg o cells
  | .tableCell a k _ => by simp only [supportedBlock, noCodeBlock, Bool.and_true]; rw [supportedInlines_pyg o k]
  | .thematicBreak .. => rfl
  | .htmlBlock .. => by simp [supportedBlock, noCodeBlock]
  | .blankLine _ => rfl
  | .linkRefDefBlock .. => rfl
theorem supportedBlocks_pyg (o : Opts) : ∀ (bs : List Block),
    supportedBlocks { o with flavor := .pygments } bs = (supportedBlocks { o with flavor := .html } bs && noCodeBlocks bs)
  | [] => rfl
  | b :: bs => by
    simp only [supportedBlocks, noCodeBlocks]
    rw [supportedBlock_pyg o b, supportedBlocks_pyg o bs, and4]
theorem supportedRows_pyg (o : Opts) : ∀ (bs : List Block),
    supportedRows { o with flavor := .pygments } bs = supportedRows { o with flavor := .html } bs
  | [] => rfl
  | .tableRow _ cells _ :: rest => by
    simp only [supportedRows]
    rw [supportedCells_pyg o cells, supportedRows_pyg o rest]
  | .paragraph .. :: _ => rfl
  | .heading .. :: _ => rfl
  | .setextHeading .. :: _ => rfl
  | .quote .. :: _ => rfl
  | .blockCode .. :: _ => rfl
  | .codeFence .. :: _ => rfl
  | .list .. :: _ => rfl
  | .listItem .. :: _ => rfl
  | .table .. :: _ => rfl
  | .tableCell .. :: _ => rfl
  | .thematicBreak .. :: _ => rfl
  | .htmlBlock .. :: _ => rfl
  | .blankLine _ :: _ => rfl
  | .linkRefDefBlock .. :: _ => rfl
theorem supportedCells_pyg (o : Opts) : ∀ (bs : List Block),
    supportedCells { o with flavor := .pygments } bs = supportedCells { o with flavor := .html } bs
  | [] => rfl
  | .tableCell a k _ :: rest => by
    simp only [supportedCells]
    rw [supportedInlines_pyg o k, supportedCells_pyg o rest]
  | .paragraph .. :: _ => rfl
  | .heading .. :: _ => rfl
  | .setextHeading .. :: _ => rfl
  | .quote .. :: _ => rfl
  | .blockCode .. :: _ => rfl
  | .codeFence .. :: _ => rfl
  | .list .. :: _ => rfl
  | .listItem .. :: _ => rfl
  | .table .. :: _ => rfl
  | .tableRow .. :: _ => rfl
  | .thematicBreak .. :: _ => rfl
  | .htmlBlock .. :: _ => rfl
  | .blankLine _ :: _ => rfl
  | .linkRefDefBlock .. :: _ => rfl
end

/-- **Pygments**: the model declares the pygments flavour faithful (`supported`) exactly on the trees that
    HtmlRenderer supports and that contain no `BlockCode` / `CodeFence` at any depth; on those trees
    (`C18_render_same`) the output is HtmlRenderer's -/
theorem supported_pygments (o : Opts) (d : Doc) :
    supported { o with flavor := .pygments } d = (supported { o with flavor := .html } d && noCodeBlocks d.kids) :=
  supportedBlocks_pyg o d.kids

/-! ## Part 5: non-vacuity -/

/-- emphasis, a link, raw HTML, an unmatched '[', a table with emphasis and inline code in its cells —
    no "[[" and no '$' -/
def sample : Str := "*a* [l](u) <b>d</b> [x\n\n|a|b|\n|-|-|\n|*c*|`d`|\n".toList

/-- the expected output, as a character list (string literals are slow in the kernel):
    `<p><em>a</em> <a href="u">l</a> <b>d</b> [x</p>`, then the table with `<em>c</em>` and `<code>d</code>` cells -/
def sampleHtml : Str :=
  ['<', 'p', '>', '<', 'e', 'm', '>', 'a', '<', '/', 'e', 'm', '>', ' ', '<', 'a', ' ', 'h', 'r', 'e', 'f', '=', '"', 'u', '"', '>', 'l', '<', '/', 'a', '>', ' ', '<', 'b', '>', 'd', '<', '/', 'b', '>', ' ', '[', 'x', '<', '/', 'p', '>', '\n',
   '<', 't', 'a', 'b', 'l', 'e', '>', '\n',
   '<', 't', 'h', 'e', 'a', 'd', '>', '\n',
   '<', 't', 'r', '>', '\n',
   '<', 't', 'h', ' ', 'a', 'l', 'i', 'g', 'n', '=', '"', 'l', 'e', 'f', 't', '"', '>', 'a', '<', '/', 't', 'h', '>', '\n',
   '<', 't', 'h', ' ', 'a', 'l', 'i', 'g', 'n', '=', '"', 'l', 'e', 'f', 't', '"', '>', 'b', '<', '/', 't', 'h', '>', '\n',
   '<', '/', 't', 'r', '>', '\n',
   '<', '/', 't', 'h', 'e', 'a', 'd', '>', '\n',
   '<', 't', 'b', 'o', 'd', 'y', '>', '\n',
   '<', 't', 'r', '>', '\n',
   '<', 't', 'd', ' ', 'a', 'l', 'i', 'g', 'n', '=', '"', 'l', 'e', 'f', 't', '"', '>', '<', 'e', 'm', '>', 'c', '<', '/', 'e', 'm', '>', '<', '/', 't', 'd', '>', '\n',
   '<', 't', 'd', ' ', 'a', 'l', 'i', 'g', 'n', '=', '"', 'l', 'e', 'f', 't', '"', '>', '<', 'c', 'o', 'd', 'e', '>', 'd', '<', '/', 'c', 'o', 'd', 'e', '>', '<', '/', 't', 'd', '>', '\n',
   '<', '/', 't', 'r', '>', '\n',
   '<', '/', 't', 'b', 'o', 'd', 'y', '>', '\n',
   '<', '/', 't', 'a', 'b', 'l', 'e', '>', '\n']

example : isInfix ['[', '['] sample = false ∧ '$' ∉ sample := by decide +kernel

/-- kernel evaluation: the models of the three renderers return HtmlRenderer's output (+ the script line) -/
example : Config.renderHtml {} 200 sample = some sampleHtml := by decide +kernel
example : Config.renderContrib Config.githubWiki { flavor := .githubWiki } 200 sample = some sampleHtml := by
  decide +kernel
example : Config.renderContrib Config.toc { flavor := .toc } 200 sample = some sampleHtml := by decide +kernel
example : Config.renderContrib Config.mathjax { flavor := .mathjax } 200 sample =
    some (sampleHtml ++ Gen.RenderMaps.mathjaxSrc) := by decide +kernel

/-- the theorems applied to the sample: the parses under the three configurations are equal -/
example : ∃ cH cW cM cT, Config.html = some cH ∧ Config.githubWiki = some cW ∧ Config.mathjax = some cM ∧
    Config.toc = some cT ∧
    Document.parse cW 200 sample = Document.parse cH 200 sample ∧
    Document.parse cM 200 sample = Document.parse cH 200 sample ∧
    Document.parse cT 200 sample = Document.parse cH 200 sample := by
  obtain ⟨cH, cW, cM, cT, _, hH, hW, hM, hT, _⟩ := configs_some
  exact ⟨cH, cW, cM, cT, hH, hW, hM, hT,
    C18_githubwiki_same_text cW cH hW hH 200 sample (by decide +kernel),
    C18_mathjax_same_text cM cH hM hH 200 sample (by decide +kernel),
    C18_toc_same_text cT cH hT hH 200 sample⟩

/-- WITH the extension the parses differ: "[[a|b]]" is a GithubWiki token under GithubWikiRenderer's lists -/
def wikiSample : Str := "x [[a|b]] y\n".toList

example : ∀ cW cH, Config.githubWiki = some cW → Config.html = some cH →
    Document.parse cW 50 wikiSample ≠ Document.parse cH 50 wikiSample := by
  intro cW cH hW hH he
  have h1 : Config.renderContrib Config.githubWiki { flavor := .githubWiki } 50 wikiSample =
      some "<p>x <a href=\"b\">a</a> y</p>\n".toList := by decide +kernel
  have h2 : Config.renderContrib Config.html { flavor := .githubWiki } 50 wikiSample =
      some "<p>x [[a|b]] y</p>\n".toList := by decide +kernel
  simp only [Config.renderContrib, hW, hH, he] at h1 h2
  rw [h1] at h2
  revert h2
  decide

/-- … and with '$': "$x$" is a Math token under MathJaxRenderer's lists -/
example : Config.renderContrib Config.mathjax { flavor := .mathjax } 50 "a $x$ b\n".toList =
      some ("<p>a \\(x\\) b</p>\n".toList ++ Gen.RenderMaps.mathjaxSrc) ∧
    Config.renderHtml {} 50 "a $x$ b\n".toList = some "<p>a $x$ b</p>\n".toList := by decide +kernel

/-- the hypotheses of `tokenizeInner_insert` hold for a string with brackets but no "[[" -/
example : tokenizeInner ([.escapeSequence] ++ .githubWiki :: [.coreTokens, .inlineCode]) [] "[a] *b*".toList =
    tokenizeInner ([.escapeSequence] ++ [.coreTokens, .inlineCode]) [] "[a] *b*".toList :=
  tokenizeInner_insert _ _ _ _ _ (fun core codes => findOne_githubWiki_nil _ core codes (by decide +kernel))

end Mistletoe.ContribSame
