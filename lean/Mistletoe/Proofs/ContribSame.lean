/-
  C18 at TEXT level: parsing under the token lists of GithubWikiRenderer / MathJaxRenderer /
  TocRenderer / PygmentsRenderer gives the same document as parsing under HtmlRenderer's lists when
  the text does not use the extension (no "[[" resp. no '$').

  Part 1  `findOne_githubWiki_nil`, `findOne_math_nil`: the extension's `find` returns nothing.
  Part 2  the span resolver never reads `Cand.cls` (`tokenize_strip`, `builds_strip`), hence
          `tokenizeInner` depends on the token list only through `findAll`
          (`tokenizeInner_congr`), hence `tokenizeInner_insert`.
  Part 3  `mkBlocks_congr` / `parseLines_insert_buf` (hypothesis on the parse buffer), the invariant
          `LineInv` threaded through the block phase (`blockPhase_inv`), and `parse_insert`.
  Part 4  the two instances (no '$' / no "[["), the regenerated configurations and the final theorems.
  Part 5  non-vacuity.
-/
import Mistletoe.Model.Config
import Mistletoe.Proofs.Block
import Mistletoe.Props.C18

namespace Mistletoe.ContribSame
open Mistletoe Mistletoe.Py Mistletoe.Scan Mistletoe.InlineScan Mistletoe.Inline Mistletoe.Block

/-! ## Part 1: the extension tokens find nothing -/

theorem countLeading_zero_of_not_mem (ch : Char) : ∀ (r : Str), ch ∉ r → countLeading ch r = 0
  | [], _ => rfl
  | c :: rest, h => by
    have : c ≠ ch := fun e => h (by simp [e])
    simp [countLeading, this]

theorem mathAt_none (p : Option Char) (r : Str) (h : '$' ∉ r) : mathAt p r = none := by
  unfold mathAt
  simp [countLeading_zero_of_not_mem '$' r h]

theorem findIterAux_math_nil : ∀ (fuel pos : Nat) (prev : Option Char) (s : Str), '$' ∉ s →
    findIterAux mathAt fuel pos prev s = []
  | 0, _, _, _, _ => by simp [findIterAux]
  | _ + 1, _, _, [], _ => by simp [findIterAux]
  | fuel + 1, pos, prev, c :: rest, h => by
    simp only [findIterAux, mathAt_none prev (c :: rest) h]
    exact findIterAux_math_nil fuel _ _ rest (fun e => h (List.mem_cons_of_mem _ e))

/-- **Math.find returns nothing on a string without '$'** -/
theorem findOne_math_nil (s : Str) (core : List Core.CoreM) (codes : List CodeM) (h : '$' ∉ s) :
    findOne s core codes .math = [] := by
  simp [findOne, findIter, findIterAux_math_nil _ _ _ s h]

theorem wikiFindAux_nil : ∀ (fuel pos : Nat) (s : Str), isInfix ['[', '['] s = false → wikiFindAux fuel pos s = []
  | 0, _, _, _ => by simp [wikiFindAux]
  | _ + 1, _, [], _ => by simp [wikiFindAux]
  | fuel + 1, pos, c :: rest, h => by
    simp only [isInfix, Bool.or_eq_false_iff] at h
    have hw : wikiAt (c :: rest) = none := by
      unfold wikiAt
      simp [startsWith, h.1]
    simp only [wikiFindAux, hw]
    exact wikiFindAux_nil fuel _ rest h.2

/-- **GithubWiki.find returns nothing on a string without "[["** -/
theorem findOne_githubWiki_nil (s : Str) (core : List Core.CoreM) (codes : List CodeM)
    (h : isInfix ['[', '['] s = false) : findOne s core codes .githubWiki = [] := by
  simp [findOne, wikiFindAux_nil _ _ s h]

/-! ## Part 2: the resolver does not read `cls` -/

open Mistletoe.Span in
/-- forget the class index of a candidate -/
def stripC (c : Span.Cand) : Span.Cand := { c with cls := 0 }

open Mistletoe.Span

mutual
def stripP : PTok → PTok
  | .mk c kids => .mk (stripC c) (stripPs kids)
def stripPs : List PTok → List PTok
  | [] => []
  | p :: ps => stripP p :: stripPs ps
end

mutual
def stripO : Out → Out
  | .raw a b => .raw a b
  | .tok c kids => .tok (stripC c) (stripOs kids)
def stripOs : List Out → List Out
  | [] => []
  | o :: os => stripO o :: stripOs os
end

@[simp] theorem stripC_start (c : Cand) : (stripC c).start = c.start := rfl
@[simp] theorem stripC_stop (c : Cand) : (stripC c).stop = c.stop := rfl
@[simp] theorem stripC_ord (c : Cand) : (stripC c).ord = c.ord := rfl

theorem stripPs_eq_map : ∀ (ps : List PTok), stripPs ps = ps.map stripP
  | [] => rfl
  | p :: ps => by simp [stripPs, stripPs_eq_map ps]

theorem stripOs_append : ∀ (a b : List Out), stripOs (a ++ b) = stripOs a ++ stripOs b
  | [], _ => rfl
  | x :: xs, b => by simp [stripOs, stripOs_append xs b]

theorem stripP_c (p : PTok) : (stripP p).c = stripC p.c := by
  cases p; rfl

theorem relation_strip (x y : Cand) : relation (stripC x) (stripC y) = relation x y := rfl

mutual
theorem appendChild_strip : ∀ (p child : PTok), appendChild (stripP p) (stripP child) = stripP (appendChild p child)
  | .mk c kids, child => by
    simp only [stripP, appendChild]
    show (if c.inner = true then _ else _) = _
    split
    · simp only [stripP]; rw [evalNewChild_strip kids child]
    · simp only [stripP]
theorem evalNewChild_strip : ∀ (kids : List PTok) (child : PTok),
    evalNewChild (stripPs kids) (stripP child) = stripPs (evalNewChild kids child)
  | [], child => by simp [stripPs, evalNewChild]
  | last :: rest, child => by
    simp only [stripPs, evalNewChild, stripP_c, relation_strip]
    split
    · simp [stripPs]
    · show (if last.c.prec < child.c.prec then _ else _) = _
      split <;> simp [stripPs]
    · simp only [stripPs]; rw [appendChild_strip last child]
    · simp [stripPs]
end

def stripA (a : Acc) : Acc := { bufRev := stripPs a.bufRev, prev := stripP a.prev }

theorem evalTokens_strip (a : Acc) (y : PTok) : evalTokens (stripA a) (stripP y) = stripA (evalTokens a y) := by
  simp only [evalTokens, stripA, stripP_c, relation_strip]
  split
  · simp [stripPs]
  · show (if a.prev.c.prec ≥ y.c.prec then _ else _) = _
    split <;> simp
  · simp [appendChild_strip]
  · simp

theorem foldl_evalTokens_strip : ∀ (ys : List PTok) (a : Acc),
    (stripPs ys).foldl evalTokens (stripA a) = stripA (ys.foldl evalTokens a)
  | [], _ => rfl
  | y :: ys, a => by
    simp only [stripPs, List.foldl_cons, evalTokens_strip]
    exact foldl_evalTokens_strip ys _

theorem insertByStart_strip (x : Cand) : ∀ (cs : List Cand),
    insertByStart (stripC x) (cs.map stripC) = (insertByStart x cs).map stripC
  | [] => rfl
  | y :: ys => by
    simp only [List.map_cons, insertByStart]
    show (if x.start ≤ y.start then _ else _) = _
    split
    · simp
    · simp [insertByStart_strip x ys]

theorem sortByStart_strip : ∀ (cs : List Cand), sortByStart (cs.map stripC) = (sortByStart cs).map stripC
  | [] => rfl
  | c :: cs => by
    show insertByStart (stripC c) (sortByStart (cs.map stripC)) = (insertByStart c (sortByStart cs)).map stripC
    rw [sortByStart_strip cs, insertByStart_strip]

theorem stripPs_reverse (ps : List PTok) : stripPs ps.reverse = (stripPs ps).reverse := by
  simp [stripPs_eq_map]

theorem resolveSorted_strip : ∀ (cs : List Cand), resolveSorted (cs.map stripC) = stripPs (resolveSorted cs)
  | [] => rfl
  | c :: cs => by
    simp only [List.map_cons, resolveSorted]
    have h1 : (cs.map stripC).map (fun c => PTok.mk c []) = stripPs (cs.map (fun c => PTok.mk c [])) := by
      rw [stripPs_eq_map]; simp [stripP, stripPs]
    have h2 : ({ bufRev := [], prev := .mk (stripC c) [] } : Acc) = stripA { bufRev := [], prev := .mk c [] } := by
      simp [stripA, stripP, stripPs]
    rw [h1, h2, foldl_evalTokens_strip]
    simp only [stripA]
    rw [stripPs_reverse]
    simp [stripPs]

theorem resolve_strip (cs : List Cand) : resolve (cs.map stripC) = stripPs (resolve cs) := by
  simp [resolve, sortByStart_strip, resolveSorted_strip]

mutual
theorem make_strip : ∀ (t : PTok), make (stripP t) = stripO (make t)
  | .mk c kids => by
    simp only [stripP, make]
    show (if c.inner = true then _ else _) = _
    split
    · simp only [stripO]
      rw [makeTokensRev_strip kids]; rfl
    · simp [stripO, stripOs]
theorem makeTokensRev_strip : ∀ (ts : List PTok) (s e : Nat),
    makeTokensRev (stripPs ts) s e = stripOs (makeTokensRev ts s e)
  | [], s, e => by
    simp only [stripPs, makeTokensRev]
    split <;> simp [stripOs, stripO]
  | t :: earlier, s, e => by
    simp only [stripPs, makeTokensRev, stripP_c, stripOs_append]
    rw [makeBefore_strip earlier, make_strip t]
    show _ ++ _ ++ (if t.c.stop ≠ e then _ else _) = _
    split <;> simp [stripOs, stripO]
theorem makeBefore_strip : ∀ (ts : List PTok) (s upto : Nat),
    makeBefore (stripPs ts) s upto = stripOs (makeBefore ts s upto)
  | [], s, upto => by
    simp only [stripPs, makeBefore]
    split <;> simp [stripOs, stripO]
  | t :: earlier, s, upto => by
    simp only [stripPs, makeBefore, stripP_c, stripOs_append]
    rw [makeBefore_strip earlier, make_strip t]
    show _ ++ _ ++ (if upto > t.c.stop then _ else _) = _
    split <;> simp [stripOs, stripO]
end

/-- **the span resolver commutes with forgetting the class index** -/
theorem tokenize_strip (cs : List Cand) (n : Nat) : tokenize (cs.map stripC) n = stripOs (tokenize cs n) := by
  simp only [tokenize, resolve_strip, ← stripPs_reverse, makeTokensRev_strip]

mutual
/-- `ParseToken.make` looks the match up by `ord` only -/
theorem build_strip (s : Str) (found : List Found) : ∀ (o : Out), build s found (stripO o) = build s found o
  | .raw a b => rfl
  | .tok c kids => by
    have ih := builds_strip s found kids
    simp only [stripO, build, stripC_ord, ih]
theorem builds_strip (s : Str) (found : List Found) : ∀ (os : List Out), builds s found (stripOs os) = builds s found os
  | [] => rfl
  | o :: os => by
    simp only [stripOs, builds]
    rw [build_strip s found o, builds_strip s found os]
end

/-- the candidates with their class index forgotten: a function of `found` alone -/
def candsNoCls (found : List Found) : List Cand :=
  found.zipIdx.map (fun (f, i) =>
    { start := f.start, stop := f.stop, pstart := f.pstart, pend := f.pend, prec := prec f.cls,
      inner := parseInner f.cls, cls := 0, ord := i })

/-- **`tokenize_inner` in terms of `find_tokens` alone**: the token list enters only through `findAll` -/
theorem tokenizeInner_eq (types : List STok) (fn : Footnotes.Table) (s : Str) :
    tokenizeInner types fn s =
      (match findAll s types fn with
       | .err e => .err e
       | .ok found => .ok (builds s found (tokenize (candsNoCls found) s.length))) := by
  unfold tokenizeInner
  cases findAll s types fn with
  | err e => rfl
  | ok found =>
    simp only
    rw [← builds_strip, ← tokenize_strip]
    simp only [List.map_map, candsNoCls]
    rfl

theorem tokenizeInner_congr (types types' : List STok) (fn : Footnotes.Table) (s : Str)
    (h : findAll s types fn = findAll s types' fn) : tokenizeInner types fn s = tokenizeInner types' fn s := by
  rw [tokenizeInner_eq, tokenizeInner_eq, h]

theorem findAll_insert (pre post : List STok) (x : STok) (fn : Footnotes.Table) (s : Str)
    (hx : ∀ core codes, findOne s core codes x = []) :
    findAll s (pre ++ x :: post) fn = findAll s (pre ++ post) fn := by
  have hne : x ≠ .coreTokens := by
    intro e
    have := hx [default] []
    rw [e] at this
    simp [findOne] at this
  have hc : (pre ++ x :: post).contains .coreTokens = (pre ++ post).contains .coreTokens := by
    rw [Bool.eq_iff_iff]
    simp only [List.contains_eq_mem, List.mem_append, List.mem_cons, decide_eq_true_eq]
    constructor
    · rintro (h | h | h)
      · exact Or.inl h
      · exact absurd h.symm hne
      · exact Or.inr h
    · rintro (h | h)
      · exact Or.inl h
      · exact Or.inr (Or.inr h)
  unfold findAll
  rw [hc]
  simp only
  split
  · rfl
  · simp [hx]

/-- **inserting a token class whose `find` returns nothing on `s` does not change `tokenize_inner(s)`**
    (the class indexes of the classes behind the insertion point shift by one; the resolver never
    reads them) -/
theorem tokenizeInner_insert (pre post : List STok) (x : STok) (fn : Footnotes.Table) (s : Str)
    (hx : ∀ core codes, findOne s core codes x = []) :
    tokenizeInner (pre ++ x :: post) fn s = tokenizeInner (pre ++ post) fn s :=
  tokenizeInner_congr _ _ fn s (findAll_insert pre post x fn s hx)


/-! ## Part 3: the document level -/

open Mistletoe.Document

/-! ### string helpers -/

theorem rstrip_prefix (s : Str) : rstrip s <+: s := by
  unfold rstrip
  have h := List.reverse_prefix.mpr (lstrip_suffix s.reverse)
  rwa [List.reverse_reverse] at h

theorem strip_infix (s : Str) : strip s <:+: s :=
  (rstrip_prefix _).isInfix.trans (lstrip_suffix s).isInfix

theorem span_app (p : Char → Bool) : ∀ (s : Str), (span p s).1 ++ (span p s).2 = s
  | [] => rfl
  | c :: rest => by
    simp only [span]
    split
    · simp [span_app p rest]
    · rfl

theorem headingTail_prefix : ∀ (r acc g2 g3 : Str), headingTail r acc = some (g2, g3) → g2 <+: acc.reverse ++ r
  | [], acc, g2, g3, h => by
    simp only [headingTail] at h
    split at h
    · cases h; simp
    · cases h
  | c :: rest, acc, g2, g3, h => by
    simp only [headingTail] at h
    split at h
    · cases h; exact List.prefix_append _ _
    · split at h
      · cases h; exact List.prefix_append _ _
      · have := headingTail_prefix rest (c :: acc) g2 g3 h
        simpa using this

theorem upTo3_suffix (line : Str) (n : Nat) (r : Str) (h : upTo3Spaces line = some (n, r)) : r <:+ line := by
  unfold upTo3Spaces at h
  simp only at h
  split at h
  · cases h
  · cases h; exact List.drop_suffix _ _

theorem heading_g2_infix (line : Str) (m : HeadingMatch) (g : Str) (h : Scan.heading line = some m) (hg : m.g2 = some g) :
    g <:+: line := by
  unfold Scan.heading at h
  split at h
  · cases h
  · rename_i n r hu
    have hr := upTo3_suffix line n r hu
    simp only at h
    split at h
    · cases h
    · have hs := span_suffix (· == '#') r
      split at h
      · cases h; cases hg
      · rename_i c r2 _ heq
        split at h
        · split at h
          · rename_i g2 g3 ht
            cases h
            cases hg
            have hp := headingTail_prefix r2 [] g g3 ht
            simp only [List.reverse_nil, List.nil_append] at hp
            have h2 : r2 <:+ r := by
              have := (List.suffix_cons c r2).trans (heq ▸ hs)
              exact this
            exact hp.isInfix.trans (h2.trans hr).isInfix
          · cases h
        · cases h
      · cases h

/-! ### the invariant -/

/-- closure properties of a predicate `Q` on the lines the block phase handles and a predicate `R` on
    the strings handed to `tokenize_inner` -/
structure LineInv (Q R : Str → Prop) : Prop where
  suffix : ∀ s t, Q s → t <:+ s → Q t
  spaces : ∀ s n, Q s → Q (List.replicate n ' ' ++ s)
  gt : ∀ s, Q s → Q ('>' :: s)
  tab : ∀ s, Q s → Q (replaceFirst ['>', '\t'] [' ', ' ', ' '] s)
  nl : Q ['\n']
  nlcut : ∀ a b, Q (a ++ '\n' :: b) → Q (a ++ ['\n'])
  toR : ∀ s u, Q s → u <:+: s → R u
  flat : ∀ ls : List Str, (∀ l ∈ ls, Q l) → R ls.flatten
  rinfix : ∀ s u, R s → u <:+: s → R u
  rnil : R []
  join : ∀ ls : List Str, (∀ l ∈ ls, R l) → R (joinNl ls)
  unesc : ∀ n p t, R t → R (unescapePipes n p t)

def AllQ (Q : Str → Prop) (ls : List Line) : Prop := ∀ l ∈ ls, Q l.s

section Readers
variable {Q R : Str → Prop}

theorem readHeading_R (inv : LineInv Q R) (fw : FW) (line : Str) (lvl : Nat) (c cl : Str) (fw' : FW) (hq : Q line)
    (h : readHeading fw line = some (lvl, c, cl, fw')) : R c := by
  unfold readHeading at h
  split at h
  · cases h
  · rename_i m hm
    simp only [Option.some.injEq, Prod.mk.injEq] at h
    obtain ⟨_, hc, _, _⟩ := h
    subst hc
    split
    · exact inv.rnil
    · cases hg : m.g2 with
      | none => simp only [Option.getD_none]; exact inv.rinfix [] _ inv.rnil (strip_infix [])
      | some g =>
        simp only [Option.getD_some]
        exact inv.toR line _ hq ((strip_infix g).trans (heading_g2_infix line m g hm hg))

theorem paragraphLoop_Q (cfg : Block.Cfg) (so : Bool) : ∀ (fuel : Nat) (fw : FW) (buf : List Str) (r),
    paragraphLoop cfg so fuel fw buf = .ok r → AllQ Q fw.lines → (∀ x ∈ buf, Q x) → ∀ x ∈ r.1, Q x
  | 0, _, _, _, h, _, _ => by simp [paragraphLoop] at h
  | fuel + 1, fw, buf, r, h, hl, hb => by
    simp only [paragraphLoop] at h
    split at h
    · cases h; exact hb
    · rename_i l hp
      have hq := hl l (peek_mem fw l hp)
      have hb' : ∀ x ∈ l.s :: buf, Q x := by
        intro x hx
        rcases List.mem_cons.mp hx with rfl | hx
        · exact hq
        · exact hb x hx
      split at h
      · cases h; exact hb
      · split at h
        · cases h
        · cases h; exact hb
        · split at h
          · cases h; exact hb'
          · split at h
            · cases h; exact hb
            · exact paragraphLoop_Q cfg so fuel fw.next _ r h hl hb'

theorem readParagraph_Q (cfg : Block.Cfg) (so : Bool) (fw : FW) (l0 : Str) (r)
    (h : readParagraph cfg so fw l0 = .ok r) (hl : AllQ Q fw.lines) (h0 : Q l0) : ∀ x ∈ r.1, Q x := by
  unfold readParagraph at h
  split at h
  · cases h
  · rename_i buf st fw1 heq
    cases h
    have := paragraphLoop_Q cfg so _ fw.next [l0] _ heq hl (by
      intro x hx; simp only [List.mem_singleton] at hx; subst hx; exact h0)
    intro x hx
    exact this x (by simpa using hx)

theorem tableLoop_Q : ∀ (fuel : Nat) (fw : FW) (buf : List Str),
    AllQ Q fw.lines → (∀ x ∈ buf, Q x) → ∀ x ∈ (tableLoop fuel fw buf).1, Q x
  | 0, _, _, _, hb => by simpa [tableLoop] using hb
  | fuel + 1, fw, buf, hl, hb => by
    simp only [tableLoop]
    split
    · rename_i l hp
      split
      · apply tableLoop_Q fuel fw.next _ hl
        intro x hx
        rcases List.mem_cons.mp hx with rfl | hx
        · exact hl l (peek_mem fw l hp)
        · exact hb x hx
      · exact hb
    · exact hb

theorem readTable_Q (fw : FW) (b : List Str) (sl : Nat) (fw' : FW) (h : readTable fw = some (b, sl, fw'))
    (hl : AllQ Q fw.lines) : ∀ x ∈ b, Q x := by
  unfold readTable at h
  split at h
  · cases h
  · rename_i l0 hp
    simp only at h
    have hq := tableLoop_Q (fw.remaining + 1) fw.next [l0.s] hl (by
      intro x hx; simp only [List.mem_singleton] at hx; subst hx; exact hl l0 (peek_mem fw l0 hp))
    split at h
    · split at h
      · cases h
        intro x hx
        exact hq x (by simpa using hx)
      · cases h
    · cases h

theorem convertLeadingTabs_Q (inv : LineInv Q R) (s t : Str) (hq : Q s) (h : convertLeadingTabs s = .ok t) : Q t := by
  unfold convertLeadingTabs at h
  have hr := inv.tab s hq
  simp only at h
  split at h
  · cases h
  · split at h
    · cases h; exact hr
    · cases h
      exact inv.gt _ (inv.spaces _ _ (inv.suffix _ _ hr (List.drop_suffix _ _)))

theorem quoteLoop_Q (inv : LineInv Q R) (cfg : Block.Cfg) : ∀ (fuel : Nat) (fw : FW) (buf : List Line) (fl : QFlags) (r),
    quoteLoop cfg fuel fw buf fl = .ok r → AllQ Q fw.lines → AllQ Q buf → AllQ Q r.1 ∧ r.2.lines = fw.lines
  | 0, _, _, _, _, h, _, _ => by simp [quoteLoop] at h
  | fuel + 1, fw, buf, fl, r, h, hl, hb => by
    simp only [quoteLoop] at h
    split at h
    · cases h; exact ⟨hb, rfl⟩
    · rename_i l hp
      have hln := hl l (peek_mem fw l hp)
      split at h
      · cases h; exact ⟨hb, rfl⟩
      · split at h
        · cases h
        · cases h; exact ⟨hb, rfl⟩
        · split at h
          · cases h
          · rename_i stripped hcv
            have hst : Q stripped :=
              convertLeadingTabs_Q inv _ _ (inv.suffix _ _ hln (lstrip_suffix _)) hcv
            split at h
            · cases h
            · rename_i c0 tl
              split at h
              · split at h
                · cases h
                · refine quoteLoop_Q inv cfg fuel fw.next _ _ r h hl ?_
                  intro x hx
                  rcases List.mem_cons.mp hx with rfl | hx
                  · exact inv.suffix _ _ hst (List.drop_suffix _ _)
                  · exact hb x hx
              · split at h
                · cases h; exact ⟨hb, rfl⟩
                · refine quoteLoop_Q inv cfg fuel fw.next _ _ r h hl ?_
                  intro x hx
                  rcases List.mem_cons.mp hx with rfl | hx
                  · exact hln
                  · exact hb x hx

theorem dropSp_Q (inv : LineInv Q R) : ∀ (after : Str), Q after → Q (match after with | ' ' :: r => r | r => r) := by
  intro after h
  split
  · exact inv.suffix _ _ h (List.suffix_cons _ _)
  · exact h

theorem quoteLines_Q (inv : LineInv Q R) (cfg : Block.Cfg) (fw : FW) (l0 : Line) (r) (h : quoteLines cfg fw l0 = .ok r)
    (hl : AllQ Q fw.lines) (h0 : Q l0.s) : AllQ Q r.1 ∧ r.2.2.lines = fw.lines := by
  unfold quoteLines at h
  split at h
  · cases h
  · rename_i t hcv
    have hst : Q t := convertLeadingTabs_Q inv _ _ (inv.suffix _ _ h0 (lstrip_suffix _)) hcv
    split at h
    · cases h
    · rename_i a after hso
      simp only at h
      split at h
      · cases h
      · rename_i buf fw2 heq
        cases h
        have hsp := splitOnce_spec '>' t a after hso
        have h1 : Q after := inv.suffix _ _ hst ⟨a ++ ['>'], by rw [hsp]; simp⟩
        have h3 := dropSp_Q inv after h1
        have := quoteLoop_Q inv cfg _ fw.next _ _ _ heq hl (by
          intro x hx
          simp only [List.mem_singleton] at hx
          subst hx; exact h3)
        refine ⟨?_, this.2⟩
        intro x hx
        exact this.1 x (by simpa using hx)

theorem parseMarker_Q (inv : LineInv Q R) (line : Str) (m : Nat × Nat × Str × Str) (hq : Q line) (h : parseMarker line = some m) :
    Q m.2.2.2 := by
  unfold parseMarker at h
  split at h
  · cases h
  · rename_i im hi
    have hs := inv.suffix _ _ hq (listItem_suffix line im hi)
    simp only at h
    split at h
    · cases h; exact inv.spaces _ _ hs
    · cases h; exact hs

theorem expandtabsAux_spaces : ∀ (s : Str) (col : Nat), (∀ x ∈ s, (x == ' ' || x == '\t') = true) →
    ∃ k, expandtabsAux s col = List.replicate k ' '
  | [], _, _ => ⟨0, rfl⟩
  | c :: rest, col, h => by
    have hc := h c (List.mem_cons_self ..)
    have hr : ∀ x ∈ rest, (x == ' ' || x == '\t') = true := fun x hx => h x (List.mem_cons_of_mem _ hx)
    simp only [expandtabsAux]
    split
    · obtain ⟨k, hk⟩ := expandtabsAux_spaces rest (col + (4 - col % 4)) hr
      exact ⟨(4 - col % 4) + k, by rw [hk, List.replicate_append_replicate]⟩
    · rename_i hne
      have hsp : c = ' ' := by
        simp only [Bool.or_eq_true, beq_iff_eq] at hc
        rcases hc with e | e
        · exact e
        · exact absurd e hne
      subst hsp
      split
      · rename_i hh; rcases hh with e | e <;> exact absurd e (by decide)
      · obtain ⟨k, hk⟩ := expandtabsAux_spaces rest (col + 1) hr
        exact ⟨k + 1, by rw [hk]; rfl⟩

theorem parseContinuation_Q (inv : LineInv Q R) (line : Str) (p : Nat) (cont : Str) (hq : Q line)
    (h : parseContinuation line p = some cont) : Q cont := by
  unfold parseContinuation at h
  split at h
  · cases h
  · rename_i g1 g2 hc
    split at h
    · cases h; exact inv.nl
    · simp only at h
      split at h
      · cases h
        unfold continuation at hc
        simp only at hc
        have hg1 := span_all (fun c => c == ' ' || c == '\t') line
        have hsuf := span_suffix (fun c => c == ' ' || c == '\t') line
        split at hc
        · cases hc
          obtain ⟨k, hk⟩ := expandtabsAux_spaces _ 0 hg1
          show Q ((expandtabs _).drop p ++ _)
          unfold expandtabs
          rw [hk, List.drop_replicate]
          exact inv.spaces _ _ inv.nl
        · split at hc
          · cases hc
          · split at hc
            · cases hc
              rename_i c rest _ heq _ _ tail hr2 _ _
              obtain ⟨k, hk⟩ := expandtabsAux_spaces _ 0 hg1
              show Q ((expandtabs _).drop p ++ _)
              unfold expandtabs
              rw [hk, List.drop_replicate]
              apply inv.spaces
              have h1 : Q (c :: rest) := inv.suffix _ _ hq (heq ▸ hsuf)
              have h2 := span_app (· != '\n') rest
              rw [hr2] at h2
              have h3 : c :: rest = (c :: (span (· != '\n') rest).1) ++ '\n' :: tail := by
                simp [h2]
              rw [h3] at h1
              have := inv.nlcut _ _ h1
              simpa using this
            · cases hc
        · cases hc
      · cases h

def MarkerQ (Q : Str → Prop) (nm : Option (Nat × Nat × Str × Str)) : Prop := ∀ m, nm = some m → Q m.2.2.2

theorem dropTrailing_Q (fw : FW) (buf : List Line) (nl : Nat) (h : AllQ Q buf) :
    AllQ Q (dropTrailing fw buf nl).2 ∧ (dropTrailing fw buf nl).1.lines = fw.lines := by
  obtain ⟨k, hk⟩ := dropTrailing_buf fw buf nl
  refine ⟨?_, (dropTrailing_same fw buf nl).1⟩
  rw [hk]; intro x hx; exact h x (List.mem_of_mem_drop hx)

theorem itemLoop_Q (inv : LineInv Q R) (cfg : Block.Cfg) (prepend : Nat) : ∀ (fuel : Nat) (fw : FW) (buf : List Line) (nl : Nat) (r),
    itemLoop cfg prepend fuel fw buf nl = .ok r → AllQ Q fw.lines → AllQ Q buf →
    AllQ Q r.1 ∧ r.2.1.lines = fw.lines ∧ MarkerQ Q r.2.2
  | 0, _, _, _, _, h, _, _ => by simp [itemLoop] at h
  | fuel + 1, fw, buf, nl, r, h, hl, hb => by
    have hfin : (let (fw', buf') := dropTrailing fw buf nl; (buf', fw', (none : Option (Nat × Nat × Str × Str)))) = r →
        AllQ Q r.1 ∧ r.2.1.lines = fw.lines ∧ MarkerQ Q r.2.2 := by
      intro he
      subst he
      have := dropTrailing_Q fw buf nl hb
      exact ⟨this.1, this.2, fun m hm => by cases hm⟩
    simp only [itemLoop] at h
    split at h
    · cases h; exact hfin rfl
    · rename_i l hp
      have hln := hl l (peek_mem fw l hp)
      split at h
      · rename_i cont hcont
        split at h
        · cases h
        · refine itemLoop_Q inv cfg prepend fuel fw.next _ _ r h hl ?_
          intro x hx
          rcases List.mem_cons.mp hx with rfl | hx
          · exact parseContinuation_Q inv _ _ _ hln hcont
          · exact hb x hx
      · split at h
        · cases h
        · cases h; exact hfin rfl
        · split at h
          · rename_i m hm
            cases h
            refine ⟨hb, rfl, ?_⟩
            intro m' hm'
            cases hm'
            exact parseMarker_Q inv l.s m hln hm
          · split at h
            · cases h; exact hfin rfl
            · refine itemLoop_Q inv cfg prepend fuel fw.next _ _ r h hl ?_
              intro x hx
              rcases List.mem_cons.mp hx with rfl | hx
              · exact hln
              · exact hb x hx

theorem itemLines_Q (inv : LineInv Q R) (cfg : Block.Cfg) (fw : FW) (prev) (il : ItemLines) (h : itemLines cfg fw prev = .ok il)
    (hl : AllQ Q fw.lines) (hprev : MarkerQ Q prev) :
    match il with
    | .empty _ _ _ _ _ next fw' => fw'.lines = fw.lines ∧ MarkerQ Q next
    | .lines buf _ _ _ _ _ _ next fw' => AllQ Q buf ∧ fw'.lines = fw.lines ∧ MarkerQ Q next := by
  unfold itemLines at h
  split at h
  · cases h
  · rename_i l0 hp
    have hln := hl l0 (peek_mem fw l0 hp)
    simp only at h
    split at h
    · cases h
    · rename_i ind pre0 ld content hmk
      have hmok : Q content := by
        cases prev with
        | some m => simp only [Option.some.injEq] at hmk; subst hmk; exact hprev _ rfl
        | none => exact parseMarker_Q inv l0.s _ hln hmk
      have hsk : (skipBlanks (fw.remaining + 1) fw.next 1).1.lines = fw.lines :=
        skipBlanks_peek_mem (fw.remaining + 1) fw.next 1
      split at h
      · split at h
        · cases h
          dsimp only
          refine ⟨hsk, ?_⟩
          intro m hm
          split at hm
          · rename_i l hpl
            have : l ∈ fw.lines := by
              have := peek_mem _ l hpl
              rw [hsk] at this; exact this
            exact parseMarker_Q inv l.s m (hl l this) hm
          · cases hm
        · split at h
          · cases h
          · rename_i buf fw3 next heq
            cases h
            have := itemLoop_Q inv cfg _ _ _ _ _ _ heq (by rw [hsk]; exact hl) (by intro x hx; cases hx)
            dsimp only
            refine ⟨?_, this.2.1.trans hsk, this.2.2⟩
            intro x hx; exact this.1 x (by simpa using hx)
      · split at h
        · cases h
        · rename_i buf fw3 next heq
          cases h
          have := itemLoop_Q inv cfg _ _ fw.next _ _ _ heq hl (by
            intro x hx
            simp only [List.mem_singleton] at hx
            subst hx
            exact hmok)
          dsimp only
          refine ⟨?_, this.2.1, this.2.2⟩
          intro x hx; exact this.1 x (by simpa using hx)

end Readers


/-! ### the parse buffer -/

mutual
/-- every line of a leaf entry that reaches the inline phase satisfies `Q`, every heading content `R` -/
def EntryQ (Q R : Str → Prop) : Entry → Prop
  | .blockCode _ _ _ => True
  | .heading _ content _ _ _ => R content
  | .quote inner _ _ _ => EntriesQ Q R inner
  | .codeFence _ _ _ _ _ _ _ => True
  | .thematicBreak _ _ _ => True
  | .list items _ _ => ItemsQ Q R items
  | .table lines _ _ _ => ∀ l ∈ lines, Q l
  | .footnote _ _ _ => True
  | .linkRefDefs _ _ _ => True
  | .paragraph lines _ _ => ∀ l ∈ lines, Q l
  | .setext lines _ _ => ∀ l ∈ lines, Q l
  | .htmlBlock _ _ _ => True
  | .blankLine _ _ => True
def EntriesQ (Q R : Str → Prop) : List Entry → Prop
  | [] => True
  | e :: es => EntryQ Q R e ∧ EntriesQ Q R es
def ItemQ (Q R : Str → Prop) : Item → Prop
  | .mk inner _ _ _ _ _ _ => EntriesQ Q R inner
def ItemsQ (Q R : Str → Prop) : List Item → Prop
  | [] => True
  | i :: is => ItemQ Q R i ∧ ItemsQ Q R is
end

section Induction
variable {Q R : Str → Prop}

theorem entriesQ_append : ∀ (a b : List Entry), EntriesQ Q R a → EntriesQ Q R b → EntriesQ Q R (a ++ b)
  | [], _, _, hb => by simpa using hb
  | x :: xs, b, ha, hb => by
    simp only [List.cons_append, EntriesQ] at ha ⊢
    exact ⟨ha.1, entriesQ_append xs b ha.2 hb⟩

theorem entriesQ_reverse : ∀ (a : List Entry), EntriesQ Q R a → EntriesQ Q R a.reverse
  | [], _ => by simp [EntriesQ]
  | x :: xs, h => by
    simp only [EntriesQ] at h
    rw [List.reverse_cons]
    exact entriesQ_append _ _ (entriesQ_reverse xs h.2) (by simp [EntriesQ, h.1])

theorem itemsQ_append : ∀ (a b : List Item), ItemsQ Q R a → ItemsQ Q R b → ItemsQ Q R (a ++ b)
  | [], _, _, hb => by simpa using hb
  | x :: xs, b, ha, hb => by
    simp only [List.cons_append, ItemsQ] at ha ⊢
    exact ⟨ha.1, itemsQ_append xs b ha.2 hb⟩

theorem itemsQ_reverse : ∀ (a : List Item), ItemsQ Q R a → ItemsQ Q R a.reverse
  | [], _ => by simp [ItemsQ]
  | x :: xs, h => by
    simp only [ItemsQ] at h
    rw [List.reverse_cons]
    exact itemsQ_append _ _ (itemsQ_reverse xs h.2) (by simp [ItemsQ, h.1])

def TokQ (Q R : Str → Prop) (cfg : Block.Cfg) (gas : Nat) : Prop :=
  ∀ (lines : List Line) (start : Nat) (st : St) (b : Buf) (st' : St),
    tokenizeBlock cfg gas lines start st = .ok (b, st') → AllQ Q lines → EntriesQ Q R b.entries

def LoopQ (Q R : Str → Prop) (cfg : Block.Cfg) (gas : Nat) : Prop :=
  ∀ (fw : FW) (st : St) (acc : List Entry) (loose : Bool) (b) (st'),
    tokLoop cfg gas fw st acc loose = .ok (b, st') → AllQ Q fw.lines → EntriesQ Q R acc → EntriesQ Q R b.entries

def TryQ (Q R : Str → Prop) (cfg : Block.Cfg) (gas : Nat) : Prop :=
  ∀ (fw : FW) (st : St) (l : Line) (ts : List BTok) (e : Entry) (fw' : FW) (st' : St),
    tryTypes cfg gas fw st l ts = .ok (some (e, fw', st')) → AllQ Q fw.lines → Q l.s →
    fw'.lines = fw.lines ∧ EntryQ Q R e

def ListQ (Q R : Str → Prop) (cfg : Block.Cfg) (gas : Nat) : Prop :=
  ∀ (fw : FW) (st : St) (ld) (nm) (acc : List Item) (r),
    readList cfg gas fw st ld nm acc = .ok r → AllQ Q fw.lines → ItemsQ Q R acc → MarkerQ Q nm →
    r.2.1.lines = fw.lines ∧ ItemsQ Q R r.1

theorem list_Q (inv : LineInv Q R) (cfg : Block.Cfg) (gas : Nat) (hT : TokQ Q R cfg gas) (hL : ListQ Q R cfg gas) :
    ListQ Q R cfg (gas + 1) := by
  intro fw st ld nm acc r h hl hacc hnm
  have hstop : ∀ (items : List Item) (fwEnd : FW) (stEnd : St) (rr : List Item × FW × St), ItemsQ Q R items →
      fwEnd.lines = fw.lines →
      (Res.ok ((match items with
        | .mk inner loose i p l n g :: rest => Item.mk inner (decide (inner.length > 1) && loose) i p l n g :: rest
        | [] => []).reverse, fwEnd, stEnd) : Res _) = .ok rr → rr.2.1.lines = fw.lines ∧ ItemsQ Q R rr.1 := by
    intro items fwEnd stEnd rr hi hs he
    cases he
    refine ⟨hs, itemsQ_reverse _ ?_⟩
    cases items with
    | nil => trivial
    | cons x xs =>
      cases x
      simp only [ItemsQ, ItemQ] at hi ⊢
      exact hi
  simp only [readList] at h
  split at h
  · exact hstop acc fw st r hacc rfl h
  split at h
  · cases h
  · rename_i il hil
    have hq := itemLines_Q inv cfg fw nm il hil hl hnm
    have key : ∀ (item : Item) (itemLeader : Str) (next : Option (Nat × Nat × Str × Str)) (fw' : FW) (st' : St),
        (match il with
          | .empty ind pre ldr ln og next fw' => (Res.ok (Item.mk [] true ind pre ldr ln og, ldr, next, fw', st) : Res _)
          | .lines buf cstart ind pre ldr ln og next fw' =>
            match tokenizeBlock cfg gas buf cstart st with
            | .err e => .err e
            | .ok (b, st') => .ok (Item.mk b.entries b.loose ind pre ldr ln og, ldr, next, fw', st'))
          = .ok (item, itemLeader, next, fw', st') → fw'.lines = fw.lines ∧ ItemQ Q R item ∧ MarkerQ Q next := by
      intro item itemLeader next fw' st' he
      cases il with
      | empty ind pre ldr ln og nx fwx =>
        simp only at he hq
        cases he
        exact ⟨hq.1, trivial, hq.2⟩
      | lines buf cstart ind pre ldr ln og nx fwx =>
        simp only at he hq
        split at he
        · cases he
        · rename_i b stb hb
          cases he
          exact ⟨hq.2.1, hT _ _ _ _ _ hb hq.1, hq.2.2⟩
    split at h
    · cases h
    · rename_i item itemLeader next fw' st' hres
      have hk := key item itemLeader next fw' st' hres
      have hacc' : ItemsQ Q R (item :: acc) := ⟨hk.2.1, hacc⟩
      have hl' : AllQ Q fw'.lines := by rw [hk.1]; exact hl
      split at h
      · split at h
        · exact hstop _ _ _ r hacc' hk.1 h
        · have := hL fw' st' _ _ _ r h hl' hacc' hk.2.2
          exact ⟨this.1.trans hk.1, this.2⟩
      · split at h
        · exact hstop _ _ _ r hacc' hk.1 h
        · have := hL fw' st' _ _ _ r h hl' hacc' hk.2.2
          exact ⟨this.1.trans hk.1, this.2⟩

theorem try_Q (inv : LineInv Q R) (cfg : Block.Cfg) (gas : Nat) (hT : TokQ Q R cfg gas) (hL : ListQ Q R cfg gas)
    (hY : TryQ Q R cfg gas) : TryQ Q R cfg (gas + 1) := by
  intro fw st l ts e fw' st' h hl hq
  cases ts with
  | nil => simp [tryTypes] at h
  | cons t ts =>
    have ih := fun fw2 st2 (h2 : tryTypes cfg gas fw2 st2 l ts = .ok (some (e, fw', st'))) (hs : fw2.lines = fw.lines) =>
      (fun r => (⟨r.1.trans hs, r.2⟩ : fw'.lines = fw.lines ∧ EntryQ Q R e))
        (hY fw2 st2 l ts e fw' st' h2 (by rw [hs]; exact hl) hq)
    unfold tryTypes at h
    cases t <;> simp only at h
    · -- htmlBlock
      split at h
      · cases h
      · exact ih fw st h rfl
      · cases h; exact ⟨(readHtmlBlock_same fw _).1, trivial⟩
    · -- blockCode
      split at h
      · cases h; exact ⟨(readBlockCode_same fw).1, trivial⟩
      · exact ih fw st h rfl
    · -- heading
      split at h
      · rename_i lvl c cl fwh hh
        cases h
        exact ⟨(readHeading_same fw l.s _ hh).1, readHeading_R inv fw l.s lvl c cl _ hq hh⟩
      · exact ih fw st h rfl
    · -- quote
      split at h
      · split at h
        · cases h
        · rename_i qls qstart fwq hqq
          have hql := quoteLines_Q inv cfg fw l _ hqq hl hq
          split at h
          · cases h
          · rename_i b stb hb
            cases h
            exact ⟨hql.2, hT _ _ _ _ _ hb hql.1⟩
      · exact ih fw st h rfl
    · -- codeFence
      split at h
      · cases h; exact ⟨(readCodeFence_same fw _).1, trivial⟩
      · exact ih fw st h rfl
    · -- thematicBreak
      split at h
      · cases h; exact ⟨rfl, trivial⟩
      · exact ih fw st h rfl
    · -- list
      split at h
      · split at h
        · cases h
        · rename_i items fwl stl hrl
          cases h
          exact hL fw st none none [] _ hrl hl trivial (fun m hm => by cases hm)
      · exact ih fw st h rfl
    · -- table
      split at h
      · split at h
        · rename_i b sl fwt ht
          cases h
          exact ⟨(readTable_same fw _ ht).1.1, readTable_Q fw b sl _ ht hl⟩
        · exact ih fw st h rfl
      · exact ih fw st h rfl
    · -- footnote
      split at h
      · split at h
        · cases h
        · rename_i ms fwf hf
          have hsf := (readFootnote_same fw ms fwf hf).1
          split at h
          · exact ih fwf _ h hsf
          · cases h; exact ⟨hsf, trivial⟩
      · exact ih fw st h rfl
    · -- paragraph
      split at h
      · split at h
        · cases h
        · rename_i b fwp hpp
          cases h
          exact ⟨(readParagraph_same cfg _ fw l.s _ hpp).1, readParagraph_Q cfg _ fw l.s _ hpp hl hq⟩
        · rename_i b fwp hpp
          cases h
          exact ⟨(readParagraph_same cfg _ fw l.s _ hpp).1, readParagraph_Q cfg _ fw l.s _ hpp hl hq⟩
      · exact ih fw st h rfl
    · -- blankLine
      split at h
      · cases h; exact ⟨rfl, trivial⟩
      · exact ih fw st h rfl
    · -- linkRefDefBlock
      split at h
      · split at h
        · cases h
        · rename_i ms fwf hf
          have hsf := (readFootnote_same fw ms fwf hf).1
          split at h
          · exact ih fwf _ h hsf
          · cases h; exact ⟨hsf, trivial⟩
      · exact ih fw st h rfl

theorem loop_Q (cfg : Block.Cfg) (gas : Nat) (hY : TryQ Q R cfg gas) (hP : LoopQ Q R cfg gas) : LoopQ Q R cfg (gas + 1) := by
  intro fw st acc loose b st' h hl hacc
  simp only [tokLoop] at h
  split at h
  · cases h; exact entriesQ_reverse acc hacc
  · rename_i l hp
    split at h
    · cases h
    · rename_i e fw2 st2 ht
      have := hY fw st l cfg.types e fw2 st2 ht hl (hl l (peek_mem fw l hp))
      exact hP fw2 st2 _ loose b st' h (by rw [this.1]; exact hl) ⟨this.2, hacc⟩
    · exact hP fw.next st acc true b st' h hl hacc

theorem tok_Q (cfg : Block.Cfg) (gas : Nat) (hP : LoopQ Q R cfg gas) : TokQ Q R cfg (gas + 1) := by
  intro lines start st b st' h hl
  simp only [tokenizeBlock] at h
  exact hP _ _ _ _ _ _ h hl trivial

theorem all_Q (inv : LineInv Q R) (cfg : Block.Cfg) :
    ∀ (gas : Nat), TokQ Q R cfg gas ∧ LoopQ Q R cfg gas ∧ TryQ Q R cfg gas ∧ ListQ Q R cfg gas
  | 0 => by
    refine ⟨?_, ?_, ?_, ?_⟩
    · intro lines start st b st' h; simp [tokenizeBlock] at h
    · intro fw st acc loose b st' h; simp [tokLoop] at h
    · intro fw st l ts e fw' st' h; simp [tryTypes] at h
    · intro fw st ld nm acc r h; simp [readList] at h
  | gas + 1 => by
    obtain ⟨hT, hP, hY, hL⟩ := all_Q inv cfg gas
    exact ⟨tok_Q cfg gas hP, loop_Q cfg gas hY hP, try_Q inv cfg gas hT hL hY, list_Q inv cfg gas hT hL⟩

/-- **the block phase keeps the invariant**: if every input line satisfies `Q`, every line of the
    parse buffer that reaches the inline phase does (at every nesting depth) -/
theorem blockPhase_inv (inv : LineInv Q R) (cfg : Block.Cfg) (gas : Nat) (lines : List Str) (b : Buf) (st : St)
    (hq : ∀ s ∈ lines, Q s) (h : blockPhase cfg gas lines = .ok (b, st)) : EntriesQ Q R b.entries := by
  refine (all_Q inv cfg gas).1 _ 1 {} b st h ?_
  intro l hl
  obtain ⟨⟨s, i⟩, hm, rfl⟩ := List.mem_map.mp hl
  exact hq s (List.mem_zipIdx hm |>.2.2 ▸ List.getElem_mem _) 

end Induction


/-! ### the block token constructors under two span-token lists -/

theorem splitPipes_infix : ∀ (s : Str) (p : Option Char) (cur : Str), ∀ cell ∈ splitPipes s p cur, cell <:+: cur.reverse ++ s
  | [], p, cur, cell, h => by
    simp only [splitPipes, List.mem_singleton] at h
    subst h; simp
  | c :: rest, p, cur, cell, h => by
    simp only [splitPipes] at h
    split at h
    · rcases List.mem_cons.mp h with rfl | h
      · exact (List.prefix_append _ _).isInfix
      · have := splitPipes_infix rest (some c) [] cell h
        simp only [List.reverse_nil, List.nil_append] at this
        exact this.trans ((List.suffix_cons c rest).isInfix.trans (List.suffix_append _ _).isInfix)
    · have := splitPipes_infix rest (some c) (c :: cur) cell h
      simpa using this

theorem zipLongest_mem : ∀ (cs : List Str) (as : List (Option Nat)), ∀ z ∈ zipLongest cs as, ∀ c, z.1 = some c → c ∈ cs
  | [], as, z, hz, c, hc => by
    simp only [zipLongest, List.mem_map] at hz
    obtain ⟨a, _, rfl⟩ := hz
    cases hc
  | x :: xs, [], z, hz, c, hc => by
    simp only [zipLongest] at hz
    rcases List.mem_cons.mp hz with rfl | hz
    · cases hc; exact List.mem_cons_self ..
    · exact List.mem_cons_of_mem _ (zipLongest_mem xs [] z hz c hc)
  | x :: xs, a :: as, z, hz, c, hc => by
    simp only [zipLongest] at hz
    rcases List.mem_cons.mp hz with rfl | hz
    · cases hc; exact List.mem_cons_self ..
    · exact List.mem_cons_of_mem _ (zipLongest_mem xs as z hz c hc)

section Congr
variable {Q R : Str → Prop}

/-- the two configurations tokenize every `R` string alike -/
def InlSame (R : Str → Prop) (cfg' cfg : Document.Cfg) (fn : Footnotes.Table) : Prop :=
  ∀ u, R u → inl cfg' fn u = inl cfg fn u

theorem tableRow_go_congr (inv : LineInv Q R) (cfg' cfg : Document.Cfg) (fn : Footnotes.Table)
    (H : InlSame R cfg' cfg fn) (ln : Nat) :
    ∀ (zs : List (Option Str × Option Nat)), (∀ z ∈ zs, ∀ c, z.1 = some c → R c) →
      tableRow.go cfg' fn ln zs = tableRow.go cfg fn ln zs
  | [], _ => by simp only [tableRow.go]
  | (c, a) :: rest, hz => by
    have ih := tableRow_go_congr inv cfg' cfg fn H ln rest (fun z hm => hz z (List.mem_cons_of_mem _ hm))
    cases c with
    | none =>
      simp only [tableRow.go]
      rw [H [] inv.rnil, ih]
    | some cell =>
      have hc : R cell := hz _ (List.mem_cons_self ..) cell rfl
      have hr : R (unescapePipes ((strip cell).length + 1) none (strip cell)) :=
        inv.unesc _ _ _ (inv.rinfix _ _ hc (strip_infix cell))
      simp only [tableRow.go]
      rw [H _ hr, ih]

theorem tableRow_congr (inv : LineInv Q R) (cfg' cfg : Document.Cfg) (fn : Footnotes.Table)
    (H : InlSame R cfg' cfg fn) (line : Str) (hq : Q line) (al : List (Option Nat)) (ln : Nat) :
    tableRow cfg' fn line al ln = tableRow cfg fn line al ln := by
  unfold tableRow
  simp only
  rw [tableRow_go_congr inv cfg' cfg fn H ln]
  intro z hz c hc
  have hm := zipLongest_mem _ _ z hz c hc
  have hm2 := (List.mem_filter.mp hm).1
  have := splitPipes_infix _ _ _ c hm2
  simp only [List.reverse_nil, List.nil_append] at this
  exact inv.toR line c hq (this.trans (strip_infix line))

theorem tableRows_congr (inv : LineInv Q R) (cfg' cfg : Document.Cfg) (fn : Footnotes.Table)
    (H : InlSame R cfg' cfg fn) : ∀ (ls : List Str), (∀ l ∈ ls, Q l) → ∀ (al : List (Option Nat)) (ln : Nat),
    tableRows cfg' fn ls al ln = tableRows cfg fn ls al ln
  | [], _, _, _ => by simp only [tableRows]
  | l :: rest, hq, al, ln => by
    simp only [tableRows]
    rw [tableRow_congr inv cfg' cfg fn H l (hq l (List.mem_cons_self ..)),
      tableRows_congr inv cfg' cfg fn H rest (fun x hx => hq x (List.mem_cons_of_mem _ hx))]

mutual
theorem mkBlock_congr (inv : LineInv Q R) (cfg' cfg : Document.Cfg) (fn : Footnotes.Table) (H : InlSame R cfg' cfg fn) :
    ∀ (e : Entry), EntryQ Q R e → mkBlock cfg' fn e = mkBlock cfg fn e
  | .blockCode .., _ => by simp only [mkBlock]
  | .heading lvl content closing ln og, hq => by
    simp only [EntryQ] at hq
    simp only [mkBlock]; rw [H content hq]
  | .quote inner lo ln og, hq => by
    simp only [EntryQ] at hq
    simp only [mkBlock]; rw [mkBlocks_congr inv cfg' cfg fn H inner hq]
  | .codeFence .., _ => by simp only [mkBlock]
  | .thematicBreak .., _ => by simp only [mkBlock]
  | .list items ln og, hq => by
    simp only [EntryQ] at hq
    simp only [mkBlock]; rw [mkItems_congr inv cfg' cfg fn H items hq]
  | .table lines sl ln og, hq => by
    simp only [EntryQ] at hq
    match lines, hq with
    | [], _ => simp only [mkBlock]
    | [_], _ => simp only [mkBlock]
    | l0 :: l1 :: rest, hq =>
      have e1 := tableRow_congr inv cfg' cfg fn H l0 (hq l0 (List.mem_cons_self ..))
      have e2 := tableRows_congr inv cfg' cfg fn H rest
        (fun x hx => hq x (List.mem_cons_of_mem _ (List.mem_cons_of_mem _ hx)))
      have e3 := tableRows_congr inv cfg' cfg fn H (l0 :: l1 :: rest) hq
      simp only [mkBlock, e1, e2, e3]
  | .footnote .., _ => by simp only [mkBlock]
  | .linkRefDefs .., _ => by simp only [mkBlock]
  | .paragraph lines ln og, hq => by
    simp only [EntryQ] at hq
    have hr : R (strip (lines.map lstrip).flatten) := by
      refine inv.rinfix _ _ (inv.flat _ ?_) (strip_infix _)
      intro l hl
      obtain ⟨l', hl', rfl⟩ := List.mem_map.mp hl
      exact inv.suffix _ _ (hq l' hl') (lstrip_suffix l')
    simp only [mkBlock]; rw [H _ hr]
  | .setext lines ln og, hq => by
    simp only [EntryQ] at hq
    have hr : R (joinNl (lines.dropLast.map strip)) := by
      refine inv.join _ ?_
      intro l hl
      obtain ⟨l', hl', rfl⟩ := List.mem_map.mp hl
      exact inv.toR _ _ (hq l' (List.mem_of_mem_dropLast hl')) (strip_infix l')
    simp only [mkBlock]; rw [H _ hr]
  | .htmlBlock .., _ => by simp only [mkBlock]
  | .blankLine .., _ => by simp only [mkBlock]
theorem mkBlocks_congr (inv : LineInv Q R) (cfg' cfg : Document.Cfg) (fn : Footnotes.Table) (H : InlSame R cfg' cfg fn) :
    ∀ (es : List Entry), EntriesQ Q R es → mkBlocks cfg' fn es = mkBlocks cfg fn es
  | [], _ => by simp only [mkBlocks]
  | e :: es, hq => by
    simp only [EntriesQ] at hq
    simp only [mkBlocks]
    rw [mkBlock_congr inv cfg' cfg fn H e hq.1, mkBlocks_congr inv cfg' cfg fn H es hq.2]
theorem mkItems_congr (inv : LineInv Q R) (cfg' cfg : Document.Cfg) (fn : Footnotes.Table) (H : InlSame R cfg' cfg fn) :
    ∀ (is : List Item), ItemsQ Q R is → mkItems cfg' fn is = mkItems cfg fn is
  | [], _ => by simp only [mkItems]
  | .mk inner lo ind pre ld ln og :: rest, hq => by
    simp only [ItemsQ, ItemQ] at hq
    simp only [mkItems]
    rw [mkBlocks_congr inv cfg' cfg fn H inner hq.1, mkItems_congr inv cfg' cfg fn H rest hq.2]
end

/-- **buffer-level statement**: two configurations with the same block list whose span lists tokenize
    every `R` string alike build the same document from every parse buffer that satisfies the invariant -/
theorem parseLines_congr_buf (inv : LineInv Q R) (cfg' cfg : Document.Cfg) (hb : cfg'.block = cfg.block)
    (H : ∀ fn, InlSame R cfg' cfg fn) (gas : Nat) (lines : List Str)
    (hbuf : ∀ buf st, blockPhase cfg.block gas lines = .ok (buf, st) → EntriesQ Q R buf.entries) :
    parseLines cfg' gas lines = parseLines cfg gas lines := by
  unfold parseLines
  rw [hb]
  cases hbp : blockPhase cfg.block gas lines with
  | err e => rfl
  | ok p =>
    obtain ⟨buf, st⟩ := p
    simp only
    rw [mkBlocks_congr inv cfg' cfg _ (H _) buf.entries (hbuf buf st hbp)]

theorem parseLines_congr (inv : LineInv Q R) (cfg' cfg : Document.Cfg) (hb : cfg'.block = cfg.block)
    (H : ∀ fn, InlSame R cfg' cfg fn) (gas : Nat) (lines : List Str) (hq : ∀ s ∈ lines, Q s) :
    parseLines cfg' gas lines = parseLines cfg gas lines :=
  parseLines_congr_buf inv cfg' cfg hb H gas lines
    (fun buf st h => blockPhase_inv inv cfg.block gas lines buf st hq h)

/-- **`Document(text)` under a span-token list with one more class `x`** whose `find` returns nothing on
    every `R` string: the same document (`Q` = invariant of the lines, `R` = of the inline texts) -/
theorem parse_insert (inv : LineInv Q R) (cfg' cfg : Document.Cfg) (pre post : List STok) (x : STok)
    (hb : cfg'.block = cfg.block) (hs' : cfg'.span = pre ++ x :: post) (hs : cfg.span = pre ++ post)
    (htrig : ∀ u, R u → ∀ core codes, findOne u core codes x = [])
    (gas : Nat) (t : Str) (ht : ∀ l ∈ Lines.normalize (.str t), Q l) :
    Document.parse cfg' gas t = Document.parse cfg gas t := by
  unfold Document.parse
  refine parseLines_congr inv cfg' cfg hb ?_ gas _ ht
  intro fn u hu
  show tokenizeInner cfg'.span fn u = tokenizeInner cfg.span fn u
  rw [hs', hs]
  exact tokenizeInner_insert pre post x fn u (htrig u hu)

end Congr

end Mistletoe.ContribSame
