/-
  C09 (Markdown round trip), third fragment: CODE BLOCKS in the renderer's normal form, added to the blocks
  of `Proofs/MdRoundBlocks.lean` (prose paragraphs, ATX headings, thematic breaks).

  * fenced code block `Blk2.fence d info body`: opening line `d ++ info ++ "\n"` at indentation 0 (`d` = three or
    more backticks or tildes; `info` reproduced verbatim — `render_fenced_code_block` writes
    `indentation + delimiter + info_string`), the content lines, the closing line `d ++ "\n"`;
  * indented code block `Blk2.icode lines`: four spaces + non-blank text on every line, no blank line inside.

  Chain, as for `Blk`: `tokenize_items2` (block phase under the Markdown renderer's token list, every parser
  state) → `mkBlocks_itemEntries2` (constructors) → `renderBlocks_items2` (renderer) → `itemsOut2_lines` (text).
  Main theorems (namespace `Mistletoe.MdRoundCode`): `C09_code_blocks_exact_partial` (top level, tabs allowed),
  `C09_quoted_code_blocks_exact_partial` (inside `k` block quotes, tab-free; the generic quote lemmas of
  `Proofs/MdRound.lean` apply unchanged), `C09_code_blocks_roundtrip_markdown`,
  `C09_quoted_code_blocks_roundtrip_markdown` (from the `str`, `Config.markdown`, idempotence, same meaning).
-/
import Mistletoe.Proofs.MdRoundBlocks
namespace Mistletoe.MdRound
open Mistletoe Mistletoe.Py Mistletoe.Scan Mistletoe.Block Mistletoe.Wrap Mistletoe.Markdown Mistletoe.InertInline
open Mistletoe.Props.C14 (inertLine markdownTypes numbered numbered_cons numbered_append numbered_length numbered_s numbered_mem)

/-! ### scanners on a fence line -/

theorem span_append (p : Char → Bool) : ∀ (a b : Str), (∀ x ∈ a, p x = true) → (∀ x, b.head? = some x → p x = false) →
    span p (a ++ b) = (a, b)
  | [], [], _, _ => rfl
  | [], c :: r, _, hb => by simp [span, hb c rfl]
  | c :: a, b, ha, hb => by
    have ih := span_append p a b (fun x hx => ha x (List.mem_cons_of_mem _ hx)) hb
    simp only [List.cons_append, span, ha c (by simp), if_true, ih]

/-- the fence characters -/
def fenceCh (c : Char) : Prop := c = '`' ∨ c = '~'

theorem fch_html (c : Char) (hc : fenceCh c) (s : Str) : htmlBlockStart (c :: s) = .ok none := by
  have hsp : pyIsSpace c = false := by rcases hc with rfl | rfl <;> decide
  have hlt : c ≠ '<' := by rcases hc with rfl | rfl <;> decide
  have hl : lstrip (c :: s) = c :: s := by simp [lstrip, hsp]
  unfold htmlBlockStart
  simp only [hl]
  have hlen : ¬ ((c :: s).length - (c :: s).length ≥ 4) := by simp
  simp only [hlen, if_false]
  have hm : multiblock (c :: s) = none := by unfold multiblock; split <;> simp_all
  have hs : ∀ p : Str, startsWith ('<' :: p) (c :: s) = false := by
    intro p; simp [startsWith, isPrefix_ne _ _ _ _ hlt]
  have hr : htmlRest (c :: s) = none := by
    unfold htmlRest
    have h1 : predefined (c :: s) = none := by unfold predefined; split <;> simp_all
    have h2 : customTag (c :: s) = false := by
      unfold customTag
      have a : openTag (c :: s) = none := by unfold openTag; split <;> simp_all
      have b : closingTag (c :: s) = none := by unfold closingTag; split <;> simp_all
      simp [a, b]
    simp [h1, h2]
  have e1 : "<!--".toList = '<' :: ['!', '-', '-'] := by decide
  have e2 : "<?".toList = '<' :: ['?'] := by decide
  have e3 : "<!".toList = '<' :: ['!'] := by decide
  simp only [hm, e1, e2, e3, hs, hr, Bool.false_eq_true, if_false]

theorem fch_blockCode (c : Char) (hc : fenceCh c) (s : Str) : blockCodeStart (c :: s) = false := by
  have h1 : c ≠ ' ' := by rcases hc with rfl | rfl <;> decide
  have h2 : c ≠ '\t' := by rcases hc with rfl | rfl <;> decide
  simp [blockCodeStart, replaceTab1, replaceFirst, startsWith, isPrefix_ne _ _ _ _ h1, isPrefix_ne _ _ _ _ h2]

theorem fch_heading (fw : FW) (c : Char) (hc : fenceCh c) (s : Str) : readHeading fw (c :: s) = none := by
  have h1 : c ≠ ' ' := by rcases hc with rfl | rfl <;> decide
  have h2 : c ≠ '#' := by rcases hc with rfl | rfl <;> decide
  have hup : upTo3Spaces (c :: s) = some (0, c :: s) := by simp [upTo3Spaces, countLeading, h1]
  have hs : span (· == '#') (c :: s) = ([], c :: s) := by simp [span, h2]
  unfold readHeading Scan.heading
  rw [hup]
  simp only [hs]
  simp

theorem fch_quote (c : Char) (hc : fenceCh c) (s : Str) : quoteStart (c :: s) = false := by
  have h1 : c ≠ ' ' := by rcases hc with rfl | rfl <;> decide
  have h2 : c ≠ '>' := by rcases hc with rfl | rfl <;> decide
  have hl : lstripSp (c :: s) = c :: s := by
    unfold lstripSp; split
    · rename_i heq; simp only [List.cons.injEq] at heq; exact absurd heq.1 h1
    · rfl
  simp [quoteStart, hl, startsWith, isPrefix_ne _ _ _ _ h2]

theorem fch_misc (c : Char) (hc : fenceCh c) (s : Str) :
    startsWith ['['] (lstrip (c :: s)) = false ∧ Scan.blankLine (c :: s) = false := by
  have hsp : pyIsSpace c = false := by rcases hc with rfl | rfl <;> decide
  have h2 : c ≠ '[' := by rcases hc with rfl | rfl <;> decide
  have hl : lstrip (c :: s) = c :: s := by simp [lstrip, hsp]
  exact ⟨by rw [hl]; simp [startsWith, isPrefix_ne _ _ _ _ h2], by simp [Scan.blankLine, ws, hsp]⟩

/-- `(\S*)` after ` *` in the info string -/
def fenceLang (info : Str) : Str := (span (fun c => !ws c) (span (· == ' ') info).2).1


/-- the facts `ok` packs for a fence: the delimiter is `n ≥ 3` copies of a fence character; the info string
    has no line end, does not begin with the fence character, and has no backtick behind a backtick fence -/
structure FenceOk (c : Char) (d info : Str) : Prop where
  ch : fenceCh c
  rep : d = List.replicate d.length c
  len : 3 ≤ d.length
  nonl : '\n' ∉ info
  nohead : info.head? ≠ some c
  notick : c = '`' → '`' ∉ info

theorem FenceOk.cons {c : Char} {d info : Str} (h : FenceOk c d info) : ∃ r, d = c :: r := by
  have := h.len
  cases hd : d with
  | nil => rw [hd] at this; simp at this
  | cons x r =>
    have e := h.rep
    rw [hd] at e
    simp only [List.length_cons, List.replicate_succ, List.cons.injEq] at e
    exact ⟨r, by rw [e.1]⟩

theorem codeFence_line (c : Char) (d info : Str) (h : FenceOk c d info) :
    Scan.codeFence (d ++ info ++ ['\n']) = some { prepend := 0, leader := d, info := info, lang := fenceLang info } := by
  obtain ⟨r, hr⟩ := h.cons
  have hc := h.ch
  have h1 : c ≠ ' ' := by rcases hc with e | e <;> rw [e] <;> decide
  have hnl : c ≠ '\n' := by rcases hc with e | e <;> rw [e] <;> decide
  have hup : upTo3Spaces (d ++ info ++ ['\n']) = some (0, d ++ info ++ ['\n']) := by
    rw [hr]; simp [upTo3Spaces, countLeading, h1]
  have hs : span (· == c) (d ++ (info ++ ['\n'])) = (d, info ++ ['\n']) := by
    apply span_append
    · intro x hx; rw [h.rep] at hx; simp only [List.mem_replicate] at hx; simp [hx.2]
    · intro x hx
      cases hi : info with
      | nil => rw [hi] at hx; simp at hx; subst hx; simpa using Ne.symm hnl
      | cons y t =>
        rw [hi] at hx; simp at hx; subst hx
        have := h.nohead; rw [hi] at this
        simpa using this
  have hs2 : span (· != '\n') (info ++ ['\n']) = (info, ['\n']) := by
    apply span_append
    · intro x hx; simp only [bne_iff_ne, ne_eq]; intro e; exact h.nonl (e ▸ hx)
    · intro x hx; simp at hx; subst hx; simp
  unfold Scan.codeFence
  rw [hup]
  simp only [List.append_assoc] at hs ⊢
  rw [hr] at hs ⊢
  simp only [List.cons_append] at hs ⊢
  have hcc : (c != '`' && c != '~') = false := by rcases hc with e | e <;> rw [e] <;> decide
  simp only [hcc, Bool.false_eq_true, if_false, hs, hs2]
  have hl := h.len
  rw [hr] at hl
  have : ¬ ((c :: r).length < 3) := by omega
  simp only [this, if_false, fenceLang]

theorem codeFenceStart_line (c : Char) (d info : Str) (h : FenceOk c d info) :
    codeFenceStart (d ++ info ++ ['\n']) = some { prepend := 0, leader := d, info := info, lang := fenceLang info } := by
  unfold codeFenceStart
  rw [codeFence_line c d info h]
  simp only
  obtain ⟨r, hr⟩ := h.cons
  by_cases hc : c = '`'
  · have hn := h.notick hc
    simp [hn]
  · have : (d.head? == some '`') = false := by rw [hr]; simpa using hc
    simp [this]


/-! ### `CodeFence.read` -/

/-- the test `CodeFence.read` makes on every line after the opening one: is it a closing fence for the
    opening fence string `d`? -/
def closes (d l : Str) : Bool :=
  startsWith d (lstripSp l) && (Py.rstripSet [' ', '\t', '\n'] (lstripSp l)).all (fun x => some x == d.head?) &&
    decide (l.length - (lstripSp l).length < 4)

theorem lstripSp_cons (c : Char) (r : Str) : lstripSp (c :: r) = if c = ' ' then lstripSp r else c :: r := by
  by_cases h : c = ' '
  · subst h; simp [lstripSp]
  · rw [if_neg h]
    unfold lstripSp
    split
    · rename_i heq; simp only [List.cons.injEq] at heq; exact absurd heq.1 h
    · rfl

theorem lstripSp_len : ∀ (l : Str), (lstripSp l).length ≤ l.length
  | [] => by simp [lstripSp]
  | c :: r => by
    rw [lstripSp_cons]
    split
    · have := lstripSp_len r; simp; omega
    · simp

/-- `' ' * diff + stripped_line` is the line -/
theorem lstripSp_pad : ∀ (l : Str), List.replicate (l.length - (lstripSp l).length) ' ' ++ lstripSp l = l
  | [] => by simp [lstripSp]
  | c :: r => by
    rw [lstripSp_cons]
    split
    · rename_i h
      subst h
      have h1 := lstripSp_len r
      have e : (' ' :: r).length - (lstripSp r).length = (r.length - (lstripSp r).length) + 1 := by
        simp only [List.length_cons]; omega
      rw [e, List.replicate_succ, List.cons_append, lstripSp_pad r]
    · simp

/-- the piece `CodeFence.read` appends for a line of a fence at indentation 0: the line itself -/
theorem fence_piece (l : Str) :
    (if l.length - (lstripSp l).length > 0 then List.replicate (l.length - (lstripSp l).length - 0) ' ' ++ lstripSp l
      else lstripSp l) = l := by
  have h := lstripSp_pad l
  split
  · simpa using h
  · rename_i hn
    have : l.length - (lstripSp l).length = 0 := by omega
    rw [this] at h
    simpa using h

theorem codeFenceLoop_step (d : Str) (fuel : Nat) (fw : FW) (buf : List Str) (l : Line) (hp : fw.peek = some l) :
    codeFenceLoop d 0 (fuel + 1) fw buf =
      if closes d l.s = true then (buf, fw.next) else codeFenceLoop d 0 fuel fw.next (l.s :: buf) := by
  simp only [codeFenceLoop, hp, fence_piece, closes]
  rfl

theorem codeFenceLoop_body (d : Str) (cl : Line) (hcl : closes d cl.s = true) (post : List Line) (start : Nat) :
    ∀ (body pre : List Line) (buf : List Str) (fuel : Nat), (∀ x ∈ body, closes d x.s = false) → body.length + 1 ≤ fuel →
    codeFenceLoop d 0 fuel ⟨pre ++ (body ++ cl :: post), pre.length, start⟩ buf =
      ((body.map (·.s)).reverse ++ buf, ⟨(pre ++ (body ++ [cl])) ++ post, (pre ++ (body ++ [cl])).length, start⟩)
  | [], pre, buf, fuel, _, hf => by
    obtain ⟨f, rfl⟩ : ∃ f, fuel = f + 1 := ⟨fuel - 1, by simp at hf; omega⟩
    rw [List.nil_append, codeFenceLoop_step d f _ buf cl (peek_at _ _ _ _), if_pos hcl, fw_next]
    simp
  | b :: body, pre, buf, fuel, hb, hf => by
    obtain ⟨f, rfl⟩ : ∃ f, fuel = f + 1 := ⟨fuel - 1, by simp at hf; omega⟩
    have hc := hb b (by simp)
    have ih := codeFenceLoop_body d cl hcl post start body (pre ++ [b]) (b.s :: buf) f
      (fun x hx => hb x (List.mem_cons_of_mem _ hx)) (by simp at hf; omega)
    rw [List.cons_append, codeFenceLoop_step d f _ buf b (peek_at _ _ _ _), hc, fw_next]
    simp only [Bool.false_eq_true, if_false]
    rw [ih]
    simp

/-- the closing line: the fence string again -/
theorem closes_self (c : Char) (d info : Str) (h : FenceOk c d info) : closes d (d ++ ['\n']) = true := by
  obtain ⟨r, hr⟩ := h.cons
  have h1 : c ≠ ' ' := by rcases h.ch with e | e <;> rw [e] <;> decide
  have hcs : ([' ', '\t', '\n'].contains c) = false := by rcases h.ch with e | e <;> rw [e] <;> decide
  have hl : lstripSp (d ++ ['\n']) = d ++ ['\n'] := by rw [hr, List.cons_append, lstripSp_cons, if_neg h1]
  have hrev : d.reverse = List.replicate d.length c := by
    conv => lhs; rw [h.rep]
    simp
  have hlen : d.length = r.length + 1 := by rw [hr]; simp
  have hrs : Py.rstripSet [' ', '\t', '\n'] (d ++ ['\n']) = d := by
    unfold Py.rstripSet
    rw [List.reverse_append, List.reverse_singleton, List.singleton_append, List.dropWhile_cons]
    rw [if_pos (by decide), hrev, hlen, List.replicate_succ, List.dropWhile_cons, hcs]
    simp only [Bool.false_eq_true, if_false]
    rw [← List.replicate_succ, ← hlen, ← hrev, List.reverse_reverse]
  have hall : d.all (fun x => some x == d.head?) = true := by
    rw [hr]
    simp only [List.head?_cons]
    rw [← hr, h.rep]
    simp
  simp only [closes, hl, hrs, hall, startsWith]
  simp

theorem readCodeFence_block (d info lang : Str) (l cl : Line) (hcl : closes d cl.s = true) (body pre post : List Line)
    (hb : ∀ x ∈ body, closes d x.s = false) (start : Nat) :
    readCodeFence ⟨pre ++ l :: (body ++ cl :: post), pre.length, start⟩ { prepend := 0, leader := d, info := info, lang := lang } =
      (body.map (·.s), ⟨(pre ++ l :: (body ++ [cl])) ++ post, (pre ++ l :: (body ++ [cl])).length, start⟩) := by
  unfold readCodeFence
  simp only [fw_next]
  rw [codeFenceLoop_body d cl hcl post start body (pre ++ [l]) [] _ hb (by simp [FW.remaining]; omega)]
  simp

/-- a fenced code block: `CodeFence` is the first type of the Markdown renderer's list that starts on the
    opening line; `read` consumes the body and the closing line -/
theorem tokLoop_fence_step (cfg : Cfg) (hty : cfg.types = markdownTypes) (g : Nat) (c : Char) (d info : Str)
    (h : FenceOk c d info) (l cl : Line) (hl : l.s = d ++ info ++ ['\n']) (hcl : cl.s = d ++ ['\n'])
    (body : List Line) (hb : ∀ x ∈ body, closes d x.s = false)
    (pre post : List Line) (start : Nat) (st : St) (acc : List Entry) (loose : Bool) :
    tokLoop cfg (g + 8) ⟨pre ++ l :: (body ++ cl :: post), pre.length, start⟩ st acc loose =
      tokLoop cfg (g + 7) ⟨(pre ++ l :: (body ++ [cl])) ++ post, (pre ++ l :: (body ++ [cl])).length, start⟩ st
        (.codeFence (body.map (·.s)) 0 d info (fenceLang info) (start + pre.length) l.origin :: acc) loose := by
  obtain ⟨r, hr⟩ := h.cons
  have hs : l.s = c :: (r ++ info ++ ['\n']) := by rw [hl, hr]; simp
  have hclose : closes d cl.s = true := by rw [hcl]; exact closes_self c d info h
  have hcf := codeFenceStart_line c d info h
  rw [← hl] at hcf
  have hrd := readCodeFence_block d info (fenceLang info) l cl hclose body pre post hb start
  obtain ⟨f1, f2⟩ := fch_misc c h.ch (r ++ info ++ ['\n'])
  have f3 := fch_html c h.ch (r ++ info ++ ['\n'])
  have f4 := fch_blockCode c h.ch (r ++ info ++ ['\n'])
  have f5 := fch_heading ⟨pre ++ l :: (body ++ cl :: post), pre.length, start⟩ c h.ch (r ++ info ++ ['\n'])
  have f6 := fch_quote c h.ch (r ++ info ++ ['\n'])
  rw [← hs] at f1 f2 f3 f4 f5 f6
  have e : g + 8 = (((((((g + 1) + 1) + 1) + 1) + 1) + 1) + 1) + 1 := by omega
  rw [e]
  simp only [tokLoop, peek_at, hty, markdownTypes, tryTypes, f1, f2, f3, f4, f5, f6, hcf, hrd, Bool.false_eq_true, if_false]


/-! ### `BlockCode.read` on a run of indented lines -/

/-- four spaces, then `t` -/
abbrev ind4 (t : Str) : Str := ' ' :: ' ' :: ' ' :: ' ' :: t

theorem ind4_blockCodeStart (t : Str) (hnb : isBlank (ind4 t) = false) : blockCodeStart (ind4 t) = true := by
  simp [blockCodeStart, hnb, replaceTab1, replaceFirst, startsWith]

theorem ind4_strip (t : Str) : blockCodeStrip (ind4 t) 0 = t := by
  simp [blockCodeStrip]

theorem lstrip_len : ∀ (s : Str), (lstrip s).length ≤ s.length
  | [] => by simp [lstrip]
  | c :: r => by
    simp only [lstrip]
    split
    · have := lstrip_len r; simp; omega
    · simp

theorem ind4_lstrip (t : Str) : lstrip (ind4 t) = lstrip t := by
  simp [lstrip, show pyIsSpace ' ' = true by decide]

theorem ind4_html (t : Str) : htmlBlockStart (ind4 t) = .ok none := by
  unfold htmlBlockStart
  simp only [ind4_lstrip]
  have := lstrip_len t
  have hlen : (ind4 t).length - (lstrip t).length ≥ 4 := by simp only [List.length_cons]; omega
  simp only [hlen, if_true]

/-- the run of indented lines itself -/
theorem blockCodeLoop_run (post : List Line) (start : Nat) :
    ∀ (cs pre : List Line) (buf : List Str) (fuel : Nat),
      (∀ x ∈ cs, isBlank x.s = false ∧ ∃ t, x.s = ind4 t) →
      blockCodeLoop (fuel + cs.length) ⟨pre ++ (cs ++ post), pre.length, start⟩ buf 0 =
        blockCodeLoop fuel ⟨(pre ++ cs) ++ post, (pre ++ cs).length, start⟩ ((cs.map (fun x => x.s.drop 4)).reverse ++ buf) 0
  | [], pre, buf, fuel, _ => by simp
  | x :: cs, pre, buf, fuel, h => by
    obtain ⟨hnb, t, ht⟩ := h x (by simp)
    have ih := blockCodeLoop_run post start cs (pre ++ [x]) (x.s.drop 4 :: buf) fuel (fun y hy => h y (List.mem_cons_of_mem _ hy))
    have e : fuel + (x :: cs).length = (fuel + cs.length) + 1 := by simp; omega
    have hs : blockCodeStart x.s = true := by rw [ht]; exact ind4_blockCodeStart t (by rw [← ht]; exact hnb)
    have hst : blockCodeStrip x.s 0 = x.s.drop 4 := by rw [ht, ind4_strip]; rfl
    rw [e, List.cons_append]
    simp only [blockCodeLoop, peek_at, hnb, hs, hst, Bool.false_eq_true, if_false, Bool.not_true, fw_next]
    rw [ih]
    simp

/-- what follows a run: the end of the buffer, or a "\n" line and then a line that is neither blank nor
    indented code -/
def CodeStop (post : List Line) : Prop :=
  post = [] ∨ ∃ b x post', post = b :: x :: post' ∧ b.s = ['\n'] ∧ isBlank x.s = false ∧ blockCodeStart x.s = false

theorem readBlockCode_run (cs pre post : List Line) (start : Nat)
    (h : ∀ x ∈ cs, isBlank x.s = false ∧ ∃ t, x.s = ind4 t) (hp : CodeStop post) :
    readBlockCode ⟨pre ++ (cs ++ post), pre.length, start⟩ =
      (cs.map (fun x => x.s.drop 4), ⟨(pre ++ cs) ++ post, (pre ++ cs).length, start⟩) := by
  unfold readBlockCode
  rcases hp with rfl | ⟨b, x, post', rfl, hb, hx1, hx2⟩
  · have e : FW.remaining ⟨pre ++ (cs ++ []), pre.length, start⟩ + 1 = 1 + cs.length := by simp [FW.remaining]; omega
    rw [e, blockCodeLoop_run [] start cs pre [] 1 h]
    simp only [List.append_nil, blockCodeLoop, peek_end]
    simp
  · have e : FW.remaining ⟨pre ++ (cs ++ b :: x :: post'), pre.length, start⟩ + 1 = (post'.length + 3) + cs.length := by
      simp [FW.remaining]; omega
    rw [e, blockCodeLoop_run (b :: x :: post') start cs pre [] (post'.length + 3) h]
    have hbb : isBlank b.s = true := by rw [hb]; decide
    have e2 : post'.length + 3 = ((post'.length + 1) + 1) + 1 := by omega
    rw [e2]
    simp only [blockCodeLoop, peek_at, hbb, if_true, fw_next]
    simp only [hx1, hx2, hb, Bool.false_eq_true, if_false, Bool.not_false, if_true]
    simp [FW.backstep]


/-- an indented code block: `BlockCode` is the first type of the Markdown renderer's list that starts on it -/
theorem tokLoop_icode_step (cfg : Cfg) (hty : cfg.types = markdownTypes) (g : Nat) (l : Line) (cs pre post : List Line)
    (h : ∀ x ∈ l :: cs, isBlank x.s = false ∧ ∃ t, x.s = ind4 t) (hbr : startsWith ['['] (lstrip l.s) = false)
    (hp : CodeStop post) (start : Nat) (st : St) (acc : List Entry) (loose : Bool) :
    tokLoop cfg (g + 5) ⟨pre ++ (l :: cs ++ post), pre.length, start⟩ st acc loose =
      tokLoop cfg (g + 4) ⟨(pre ++ l :: cs) ++ post, (pre ++ l :: cs).length, start⟩ st
        (.blockCode ((l :: cs).map (fun x => x.s.drop 4)) (start + pre.length) l.origin :: acc) loose := by
  obtain ⟨hnb, t, ht⟩ := h l (by simp)
  have f2 : Scan.blankLine l.s = false := by
    have : l.s.all ws = false := hnb
    simp only [Scan.blankLine, this, Bool.false_and]
  have f3 : htmlBlockStart l.s = .ok none := by rw [ht]; exact ind4_html t
  have f4 : blockCodeStart l.s = true := by rw [ht]; exact ind4_blockCodeStart t (by rw [← ht]; exact hnb)
  have hrd := readBlockCode_run (l :: cs) pre post start h hp
  have e : g + 5 = ((((g + 1) + 1) + 1) + 1) + 1 := by omega
  rw [e]
  simp only [List.cons_append] at hrd ⊢
  simp only [tokLoop, peek_at, hty, markdownTypes, tryTypes, hbr, f2, f3, f4, hrd, Bool.false_eq_true, if_false, if_true]


/-! ### the fragment with code blocks -/

/-- a block of the third fragment: a block of the second one (`Blk`: prose paragraph, ATX heading, thematic
    break), a fenced code block, or an indented code block -/
inductive Blk2 where
  | blk (b : Blk)
  | fence (delim info : Str) (body : List Str)
  | icode (lines : List Str)

/-- the source lines of one block, as the renderer writes them -/
def Blk2.lines : Blk2 → List Str
  | .blk b => b.lines
  | .fence d info body => (d ++ info ++ ['\n']) :: (body ++ [d ++ ['\n']])
  | .icode ls => ls

/-- a content line of a fenced block in normal form: one complete line (text + "\n", no other line-boundary
    character) that is not a closing fence for `d`, and whose text is empty or not all whitespace (the
    renderer's `prefix_lines` writes a line of only whitespace as an empty line) -/
def bodyLineOk (d l : Str) : Bool :=
  oneLine l && !closes d l && (l.dropLast.isEmpty || !l.dropLast.all pyIsSpace)

/-- a line of an indented code block in normal form: four spaces, then text that is not blank; one complete
    line; the first non-blank character is not `[` (`LinkReferenceDefinitionBlock.start` looks at it) -/
def codeLineOk (s : Str) : Bool :=
  startsWith [' ', ' ', ' ', ' '] s && !isBlank s && oneLine s && !startsWith ['['] (lstrip s)

/-- normal form (decidable).  `Blk`: as before.  Fenced block: the fence is three or more backticks or three
    or more tildes; the info string has no line-boundary character, does not begin with the fence character
    and contains no backtick when the fence is made of backticks; every content line is `bodyLineOk`; the
    closing line is the fence string again (by construction: `Blk2.lines`).  Indented block: at least one
    line, every line `codeLineOk`. -/
def Blk2.ok : Blk2 → Bool
  | .blk b => b.ok
  | .fence d info body =>
    decide (3 ≤ d.length) && (d.all (· == '`') || d.all (· == '~')) &&
      info.all (fun c => !isLineSep c) && info.head? != d.head? && !(d.head? == some '`' && info.contains '`') &&
      body.all (bodyLineOk d)
  | .icode ls => !ls.isEmpty && ls.all codeLineOk

def Blk2.isICode : Blk2 → Bool
  | .icode _ => true
  | _ => false

/-- no two indented code blocks next to each other (the parser reads them as one block) -/
def adjOk : Blk2 → List Blk2 → Bool
  | _, [] => true
  | it, it' :: rest => !(it.isICode && it'.isICode) && adjOk it' rest

/-- blocks separated by exactly one "\n" line -/
def itemsLines2 : Blk2 → List Blk2 → List Str
  | it, [] => it.lines
  | it, it' :: rest => it.lines ++ ['\n'] :: itemsLines2 it' rest

theorem all_eq_replicate (c : Char) : ∀ (d : Str), d.all (· == c) = true → d = List.replicate d.length c
  | [], _ => rfl
  | x :: d, h => by
    simp only [List.all_cons, Bool.and_eq_true, beq_iff_eq] at h
    rw [List.length_cons, List.replicate_succ, ← all_eq_replicate c d h.2, h.1]

structure BodyOk (d l : Str) : Prop where
  one : oneLine l = true
  open_ : closes d l = false
  vis : l.dropLast = [] ∨ l.dropLast.all pyIsSpace = false

theorem bodyOk_of (d l : Str) (h : bodyLineOk d l = true) : BodyOk d l := by
  simp only [bodyLineOk, Bool.and_eq_true, Bool.not_eq_eq_eq_not, Bool.not_true, Bool.or_eq_true,
    List.isEmpty_iff] at h
  exact ⟨h.1.1, h.1.2, h.2⟩

theorem fenceOk_of (d info : Str) (body : List Str) (h : (Blk2.fence d info body).ok = true) :
    (∃ c, FenceOk c d info) ∧ (∀ c ∈ info, isLineSep c = false) ∧ ∀ l ∈ body, BodyOk d l := by
  simp only [Blk2.ok, Bool.and_eq_true, decide_eq_true_eq, Bool.or_eq_true, bne_iff_ne, ne_eq,
    Bool.not_eq_eq_eq_not, Bool.not_true, Bool.and_eq_false_iff] at h
  obtain ⟨⟨⟨⟨⟨h1, h2⟩, h3⟩, h4⟩, h5⟩, h6⟩ := h
  have h3' : ∀ c ∈ info, isLineSep c = false := by
    intro c hc
    have := List.all_eq_true.mp h3 c hc
    simpa using this
  have hnl : '\n' ∉ info := by
    intro hm
    have := h3' _ hm
    revert this; decide
  have hb : ∀ l ∈ body, BodyOk d l := fun l hl => bodyOk_of d l (List.all_eq_true.mp h6 l hl)
  refine ⟨?_, h3', hb⟩
  rcases h2 with h2 | h2
  · have hr := all_eq_replicate '`' d h2
    have hd : d.head? = some '`' := by
      rw [hr]; cases hdl : d.length with
      | zero => omega
      | succ n => simp [List.replicate_succ]
    refine ⟨'`', Or.inl rfl, hr, h1, hnl, by rw [← hd]; exact h4, ?_⟩
    intro _
    rcases h5 with h5 | h5
    · rw [hd] at h5; simp at h5
    · simpa using h5
  · have hr := all_eq_replicate '~' d h2
    have hd : d.head? = some '~' := by
      rw [hr]; cases hdl : d.length with
      | zero => omega
      | succ n => simp [List.replicate_succ]
    exact ⟨'~', Or.inr rfl, hr, h1, hnl, by rw [← hd]; exact h4, by intro e; cases e⟩

structure CodeLineOk (s : Str) : Prop where
  nb : isBlank s = false
  ind : ∃ t, s = ind4 t
  one : oneLine s = true
  br : startsWith ['['] (lstrip s) = false

theorem codeLineOk_of (s : Str) (h : codeLineOk s = true) : CodeLineOk s := by
  simp only [codeLineOk, Bool.and_eq_true, Bool.not_eq_eq_eq_not, Bool.not_true] at h
  obtain ⟨⟨⟨h1, h2⟩, h3⟩, h4⟩ := h
  refine ⟨h2, ?_, h3, h4⟩
  obtain ⟨t, ht⟩ := List.isPrefixOf_iff_prefix.mp h1
  exact ⟨t, ht.symm⟩

theorem icodeOk_of (ls : List Str) (h : (Blk2.icode ls).ok = true) : ls ≠ [] ∧ ∀ s ∈ ls, CodeLineOk s := by
  simp only [Blk2.ok, Bool.and_eq_true, Bool.not_eq_eq_eq_not, Bool.not_true, List.isEmpty_eq_false_iff] at h
  exact ⟨h.1, fun s hs => codeLineOk_of s (List.all_eq_true.mp h.2 s hs)⟩


/-! ### one step of the loop per block -/

/-- the parse-buffer entry of a block whose first line is line `ln` (ghost origin `og`) -/
def itemEntry2 (ln og : Nat) : Blk2 → Entry
  | .blk b => itemEntry ln og b
  | .fence d info body => .codeFence body 0 d info (fenceLang info) ln og
  | .icode ls => .blockCode (ls.map (fun s => s.drop 4)) ln og

theorem numbered_map_s (k : Nat) (ls : List Str) (f : Str → Str) :
    (numbered k ls).map (fun x => f x.s) = ls.map f := by
  have := congrArg (List.map f) (numbered_s k ls)
  simpa [List.map_map, Function.comp_def] using this

theorem tokLoop_item2_step (cfg : Cfg) (hty : cfg.types = markdownTypes) (it : Blk2) (hok : it.ok = true) (g : Nat)
    (pre post : List Line) (hb : ∀ b, post.head? = some b → b.s = ['\n']) (hstop : it.isICode = true → CodeStop post)
    (start : Nat) (st : St) (acc : List Entry) (loose : Bool) :
    tokLoop cfg (g + 12) ⟨pre ++ (numbered pre.length it.lines ++ post), pre.length, start⟩ st acc loose =
      tokLoop cfg (g + 11) ⟨(pre ++ numbered pre.length it.lines) ++ post, (pre ++ numbered pre.length it.lines).length, start⟩ st
        (itemEntry2 (start + pre.length) (pre.length + 1) it :: acc) loose := by
  cases it with
  | blk b => exact tokLoop_item_step cfg hty b hok g pre post hb start st acc loose
  | fence d info body =>
    obtain ⟨⟨c, hf⟩, _, hbody⟩ := fenceOk_of d info body hok
    have e : numbered pre.length (Blk2.fence d info body).lines =
        { s := d ++ info ++ ['\n'], origin := pre.length + 1 } ::
          (numbered (pre.length + 1) body ++ [{ s := d ++ ['\n'], origin := pre.length + 1 + body.length + 1 }]) := by
      simp only [Blk2.lines, numbered_cons, numbered_append]
      rfl
    have h1 := tokLoop_fence_step cfg hty (g + 4) c d info hf { s := d ++ info ++ ['\n'], origin := pre.length + 1 }
      { s := d ++ ['\n'], origin := pre.length + 1 + body.length + 1 } rfl rfl (numbered (pre.length + 1) body)
      (fun x hx => (hbody _ (numbered_mem _ _ _ hx)).open_) pre post start st acc loose
    rw [e]
    simp only [numbered_s, itemEntry2] at h1 ⊢
    simp only [List.cons_append, List.append_assoc] at h1 ⊢
    exact h1
  | icode ls =>
    obtain ⟨hne, hl⟩ := icodeOk_of ls hok
    cases ls with
    | nil => exact absurd rfl hne
    | cons s0 ls' =>
      have hcs : ∀ x ∈ ({ s := s0, origin := pre.length + 1 } : Line) :: numbered (pre.length + 1) ls',
          isBlank x.s = false ∧ ∃ t, x.s = ind4 t := by
        intro x hx
        rw [← numbered_cons] at hx
        have := hl _ (numbered_mem _ _ _ hx)
        exact ⟨this.nb, this.ind⟩
      have h1 := tokLoop_icode_step cfg hty (g + 7) { s := s0, origin := pre.length + 1 } (numbered (pre.length + 1) ls')
        pre post hcs (hl s0 (by simp)).br (hstop rfl) start st acc loose
      simp only [Blk2.lines, numbered_cons, itemEntry2, List.map_cons] at h1 ⊢
      rw [numbered_map_s] at h1
      simp only [List.cons_append] at h1 ⊢
      exact h1


/-! ### the loop over a document of blocks -/

/-- the entries of a document: one per block, one `BlankLine` per separator -/
def itemEntries2 (ln og : Nat) : Blk2 → List Blk2 → List Entry
  | it, [] => [itemEntry2 ln og it]
  | it, it' :: rest =>
    itemEntry2 ln og it :: .blankLine (ln + it.lines.length) (og + it.lines.length) ::
      itemEntries2 (ln + it.lines.length + 1) (og + it.lines.length + 1) it' rest

/-- the first line of a block other than indented code: not blank, not indented code -/
theorem first_line_flush (it : Blk2) (hok : it.ok = true) (hni : it.isICode = false) :
    ∃ s ls, it.lines = s :: ls ∧ isBlank s = false ∧ blockCodeStart s = false := by
  cases it with
  | blk b =>
    cases b with
    | para q =>
      have f := itemParaFacts_of q hok
      cases q with
      | nil => exact absurd rfl f.ne
      | cons s q' =>
        have hq := Mistletoe.Props.C14.inertLine_quiet _ (f.inert s (by simp))
        exact ⟨s, q', rfl, hq.nb, hq.bc⟩
    | heading lv t =>
      have hk := headOk_of lv t hok
      obtain ⟨m, rfl⟩ : ∃ m, lv = m + 1 := ⟨lv - 1, by have := hk.h1; omega⟩
      refine ⟨_, [], rfl, ?_, ?_⟩
      · simp [hashes, List.replicate_succ, isBlank, show pyIsSpace '#' = false by decide]
      · simp only [hashes, List.replicate_succ, List.cons_append]; exact hash_blockCode _
    | hr c =>
      refine ⟨_, [], rfl, ?_, (hr_facts c (hrOk_of c hok)).2.1⟩
      rcases hrOk_of c hok with rfl | rfl | rfl <;> decide
  | fence d info body =>
    obtain ⟨⟨c, hf⟩, _, _⟩ := fenceOk_of d info body hok
    obtain ⟨r, hr⟩ := hf.cons
    have hsp : pyIsSpace c = false := by rcases hf.ch with e | e <;> rw [e] <;> decide
    refine ⟨_, _, rfl, ?_, ?_⟩
    · rw [hr]; simp [isBlank, hsp]
    · rw [hr]; simp only [List.cons_append]; exact fch_blockCode c hf.ch _
  | icode ls => simp [Blk2.isICode] at hni

theorem itemsLines2_head (it : Blk2) (rest : List Blk2) (s : Str) (ls : List Str) (h : it.lines = s :: ls) :
    ∃ ls', itemsLines2 it rest = s :: ls' := by
  cases rest with
  | nil => exact ⟨ls, by simp [itemsLines2, h]⟩
  | cons it' rest => exact ⟨ls ++ ['\n'] :: itemsLines2 it' rest, by simp only [itemsLines2, h, List.cons_append]⟩

theorem tokLoop_items2 (cfg : Cfg) (hty : cfg.types = markdownTypes) (start : Nat) (st : St) :
    ∀ (rest : List Blk2) (it : Blk2) (pre : List Line) (acc : List Entry) (loose : Bool) (gas : Nat),
      it.ok = true → (∀ x ∈ rest, x.ok = true) → adjOk it rest = true → 2 * rest.length + 13 ≤ gas →
      tokLoop cfg gas ⟨pre ++ numbered pre.length (itemsLines2 it rest), pre.length, start⟩ st acc loose =
        .ok ({ entries := acc.reverse ++ itemEntries2 (start + pre.length) (pre.length + 1) it rest, loose := loose }, st)
  | [], it, pre, acc, loose, gas, hok, _, _, hg => by
    obtain ⟨g, rfl⟩ : ∃ g, gas = g + 12 := ⟨gas - 12, by simp only [List.length_nil] at hg; omega⟩
    have h1 := tokLoop_item2_step cfg hty it hok g pre [] (by simp) (fun _ => Or.inl rfl) start st acc loose
    simp only [List.append_nil] at h1
    simp only [itemsLines2, itemEntries2]
    rw [h1, tokLoop_end]
    simp
  | it' :: rest, it, pre, acc, loose, gas, hok, hr, hadj, hg => by
    simp only [List.length_cons] at hg
    obtain ⟨g, rfl⟩ : ∃ g, gas = g + 12 := ⟨gas - 12, by omega⟩
    simp only [adjOk, Bool.and_eq_true, Bool.not_eq_eq_eq_not, Bool.not_true, Bool.and_eq_false_iff] at hadj
    let n := it.lines.length
    let b : Line := { s := ['\n'], origin := pre.length + n + 1 }
    have hlines : numbered pre.length (itemsLines2 it (it' :: rest)) =
        numbered pre.length it.lines ++ b :: numbered (pre.length + n + 1) (itemsLines2 it' rest) := by
      simp only [itemsLines2, numbered_append, numbered_cons]
      rfl
    have hstop : it.isICode = true → CodeStop (b :: numbered (pre.length + n + 1) (itemsLines2 it' rest)) := by
      intro hi
      have hni : it'.isICode = false := by
        rcases hadj.1 with h | h
        · rw [hi] at h; cases h
        · exact h
      obtain ⟨s, ls, h1, h2, h3⟩ := first_line_flush it' (hr it' (by simp)) hni
      obtain ⟨ls', h4⟩ := itemsLines2_head it' rest s ls h1
      refine Or.inr ⟨b, { s := s, origin := pre.length + n + 1 + 1 }, numbered (pre.length + n + 1 + 1) ls', ?_, rfl, h2, h3⟩
      rw [h4, numbered_cons]
    have h1 := tokLoop_item2_step cfg hty it hok g pre (b :: numbered (pre.length + n + 1) (itemsLines2 it' rest))
      (by intro b' hb'; simp only [List.head?_cons, Option.some.injEq] at hb'; subst hb'; rfl) hstop start st acc loose
    obtain ⟨g', rfl⟩ : ∃ g', g = g' + 2 := ⟨g - 2, by omega⟩
    have h2 := tokLoop_nl_step cfg (g' + 12) (by rw [mdTypes_len cfg hty]; omega) b (pre ++ numbered pre.length it.lines)
      (numbered (pre.length + n + 1) (itemsLines2 it' rest)) start st
      (itemEntry2 (start + pre.length) (pre.length + 1) it :: acc) loose rfl
    rw [mdTypes_bl cfg hty] at h2
    simp only [if_true] at h2
    have hlen : (pre ++ numbered pre.length it.lines ++ [b]).length = pre.length + n + 1 := by
      simp only [List.length_append, numbered_length, List.length_cons, List.length_nil]; rfl
    have ih := tokLoop_items2 cfg hty start st rest it' (pre ++ numbered pre.length it.lines ++ [b])
      (.blankLine (start + (pre ++ numbered pre.length it.lines).length) b.origin ::
        itemEntry2 (start + pre.length) (pre.length + 1) it :: acc) loose (g' + 12)
      (hr it' (by simp)) (fun x hx => hr x (List.mem_cons_of_mem _ hx)) hadj.2 (by omega)
    rw [hlines, h1]
    have e : g' + 2 + 11 = g' + 12 + 1 := by omega
    rw [e, h2, ← hlen, ih, hlen]
    simp only [itemEntries2, List.reverse_cons, List.append_assoc, List.singleton_append, List.length_append, numbered_length]
    have e1 : start + (pre.length + it.lines.length) = start + pre.length + it.lines.length := by omega
    have e2 : start + (pre.length + n + 1) = start + pre.length + it.lines.length + 1 := by omega
    have e3 : pre.length + n + 1 + 1 = pre.length + 1 + it.lines.length + 1 := by omega
    have e4 : b.origin = pre.length + 1 + it.lines.length := by show pre.length + n + 1 = _; omega
    rw [e1, e2, e3, e4]
    simp

/-- **the block parse of a document of blocks, in every parser state** -/
theorem tokenize_items2 (cfg : Cfg) (hty : cfg.types = markdownTypes) (it : Blk2) (rest : List Blk2)
    (hok : it.ok = true) (hr : ∀ x ∈ rest, x.ok = true) (hadj : adjOk it rest = true) (gas : Nat) (st : St) :
    tokenizeBlock cfg (gas + (2 * rest.length + 14)) (numbered 0 (itemsLines2 it rest)) 1 st =
      .ok ({ entries := itemEntries2 1 1 it rest, loose := false }, st) := by
  have e : gas + (2 * rest.length + 14) = (gas + (2 * rest.length + 13)) + 1 := by omega
  rw [e]
  have := tokLoop_items2 cfg hty 1 st rest it [] [] false (gas + (2 * rest.length + 13)) hok hr hadj (by omega)
  simpa [tokenizeBlock] using this


/-! ### the token constructors -/

open Mistletoe.Document (mkBlock mkBlocks inl stripNl)

/-- a complete line: text + "\n", no "\n" in the text -/
def Complete (t : Str) : Prop := t = t.dropLast ++ ['\n'] ∧ '\n' ∉ t.dropLast

theorem oneLine_complete (l : Str) (h : oneLine l = true) : Complete l := by
  simp only [oneLine, Bool.and_eq_true, beq_iff_eq, List.all_eq_true, Bool.not_eq_eq_eq_not, Bool.not_true] at h
  obtain ⟨ys, hys⟩ := List.getLast?_eq_some_iff.mp h.1
  have hd : l.dropLast = ys := by rw [hys, List.dropLast_concat]
  refine ⟨by rw [hd]; exact hys, ?_⟩
  intro hm
  have := h.2 _ hm
  revert this; decide

theorem lstripChar_ne (ch c : Char) (r : Str) (h : c ≠ ch) : lstripChar ch (c :: r) = c :: r := by
  simp [lstripChar, h]

/-- `''.join(lines).strip('\n') + '\n'` gives the joined lines back when the first line does not begin with
    "\n" and the last line has a non-empty text -/
theorem stripNl_lines (P u : Str) (c : Char) (r : Str) (hP : P ++ u = c :: r) (hc : c ≠ '\n') (hu : u ≠ []) (hn : '\n' ∉ u) :
    stripNl (P ++ u ++ ['\n']) ++ ['\n'] = P ++ u ++ ['\n'] := by
  have h1 : lstripChar '\n' (P ++ u ++ ['\n']) = P ++ u ++ ['\n'] := by
    rw [hP, List.cons_append]; exact lstripChar_ne _ _ _ hc
  have h2 : rstripChar '\n' (P ++ u ++ ['\n']) = P ++ u := by
    unfold rstripChar
    have e : (P ++ u ++ ['\n']).reverse = '\n' :: (u.reverse ++ P.reverse) := by simp
    rw [e]
    cases hr : u.reverse with
    | nil => exact absurd (List.reverse_eq_nil_iff.mp hr) hu
    | cons c' r' =>
      have hc' : c' ≠ '\n' := by
        intro e'
        have : c' ∈ u.reverse := by rw [hr]; simp
        exact hn (e' ▸ List.mem_reverse.mp this)
      have : lstripChar '\n' ('\n' :: (c' :: r' ++ P.reverse)) = c' :: r' ++ P.reverse := by
        simp only [lstripChar, if_true]
        exact lstripChar_ne _ _ _ hc'
      rw [this, ← hr]
      simp
  simp only [stripNl, stripChar, h1, h2]

/-- the text of an indented code line: the line without its four spaces is text + "\n", the text is not
    blank and has no "\n" -/
structure CodeText (t : Str) : Prop where
  comp : Complete t
  vis : t.dropLast.all pyIsSpace = false

theorem codeText_of (s : Str) (h : CodeLineOk s) : CodeText (s.drop 4) := by
  obtain ⟨t, rfl⟩ := h.ind
  have hc := oneLine_complete _ h.one
  have hnb : (ind4 t).all pyIsSpace = false := h.nb
  have ht : t ≠ [] := by
    intro e; subst e
    revert hnb; decide
  have hd : (ind4 t).dropLast = ind4 t.dropLast := by
    cases t with
    | nil => exact absurd rfl ht
    | cons a b => simp [List.dropLast]
  show CodeText t
  obtain ⟨h1, h2⟩ := hc
  rw [hd] at h1 h2
  have h1' : t = t.dropLast ++ ['\n'] := by
    simp only [List.cons_append, List.cons.injEq, true_and] at h1
    exact h1
  refine ⟨⟨h1', fun hm => h2 (by simp [hm])⟩, ?_⟩
  rw [h1'] at hnb
  simp only [List.all_cons, List.all_append, show pyIsSpace ' ' = true by decide, show pyIsSpace '\n' = true by decide,
    Bool.true_and, List.all_nil, Bool.and_true] at hnb
  exact hnb

theorem vis_ne {u : Str} (h : u.all pyIsSpace = false) : ∃ c r, u = c :: r := by
  cases u with
  | nil => simp at h
  | cons c r => exact ⟨c, r, rfl⟩

theorem stripNl_code : ∀ (ts : List Str), ts ≠ [] → (∀ t ∈ ts, CodeText t) →
    stripNl ts.flatten ++ ['\n'] = ts.flatten := by
  intro ts hne h
  have hd : ts = ts.dropLast ++ [ts.getLast hne] := (List.dropLast_concat_getLast hne).symm
  have hl := h _ (List.getLast_mem hne)
  obtain ⟨hc1, hc2⟩ := hl.comp
  have e : ts.flatten = ts.dropLast.flatten ++ (ts.getLast hne).dropLast ++ ['\n'] := by
    conv => lhs; rw [hd]
    rw [List.flatten_append]
    simp only [List.flatten_cons, List.flatten_nil, List.append_nil]
    conv => lhs; rw [hc1]
    simp
  -- the first character of the whole text
  have hfirst : ∃ c r, ts.dropLast.flatten ++ (ts.getLast hne).dropLast = c :: r ∧ c ≠ '\n' := by
    obtain ⟨t0, ts', hts⟩ := List.exists_cons_of_ne_nil hne
    have h0 := h t0 (by rw [hts]; simp)
    obtain ⟨c, r, hcr⟩ := vis_ne h0.vis
    have hcn : c ≠ '\n' := by
      intro e'
      exact h0.comp.2 (by rw [hcr, e']; simp)
    have hfl : ts.flatten = c :: (r ++ ['\n'] ++ ts'.flatten) := by
      rw [hts, List.flatten_cons]
      conv => lhs; rw [h0.comp.1, hcr]
      simp
    rw [e] at hfl
    cases hx : ts.dropLast.flatten ++ (ts.getLast hne).dropLast with
    | nil =>
      rw [hx] at hfl
      simp only [List.nil_append, List.cons.injEq] at hfl
      exact absurd hfl.1.symm hcn
    | cons c2 r2 =>
      rw [hx] at hfl
      simp only [List.cons_append, List.cons.injEq] at hfl
      exact ⟨c2, r2, rfl, by rw [hfl.1]; exact hcn⟩
  obtain ⟨c, r, hcr, hcn⟩ := hfirst
  obtain ⟨c', r', hu⟩ := vis_ne hl.vis
  rw [e]
  exact stripNl_lines _ _ c r hcr hcn (by rw [hu]; simp) hc2

/-- the block token of one block of the fragment -/
def itemBlock2 (ln : Nat) : Blk2 → Mistletoe.Block
  | .blk b => itemBlock ln b
  | .fence d info body => .codeFence (Unescape.escStrip false (fenceLang info)) 0 d info body.flatten ln
  | .icode ls => .blockCode (ls.map (fun s => s.drop 4)).flatten ln

/-- the children of `Document`: the blocks with `BlankLine` tokens between them -/
def itemBlocks2 (ln : Nat) : Blk2 → List Blk2 → List Mistletoe.Block
  | it, [] => [itemBlock2 ln it]
  | it, it' :: rest =>
    itemBlock2 ln it :: .blankLine (ln + it.lines.length) :: itemBlocks2 (ln + it.lines.length + 1) it' rest

theorem mkBlock_item2 (cfg : Document.Cfg) (fn : Footnotes.Table)
    (ht : ∀ t ∈ cfg.span, inertClass t = true) (hc : cfg.span.count .lineBreak = 1)
    (it : Blk2) (hok : it.ok = true) (ln og : Nat) :
    mkBlock cfg fn (itemEntry2 ln og it) = .ok (some (itemBlock2 ln it)) := by
  cases it with
  | blk b => exact mkBlock_item cfg fn ht hc b hok ln og
  | fence d info body => simp only [itemEntry2, itemBlock2, mkBlock]
  | icode ls =>
    obtain ⟨hne, hl⟩ := icodeOk_of ls hok
    have := stripNl_code (ls.map (fun s => s.drop 4)) (by simpa using hne)
      (by intro t ht'; obtain ⟨s, hs, rfl⟩ := List.mem_map.mp ht'; exact codeText_of s (hl s hs))
    simp only [itemEntry2, itemBlock2, mkBlock, this]

theorem mkBlocks_itemEntries2 (cfg : Document.Cfg) (fn : Footnotes.Table)
    (ht : ∀ t ∈ cfg.span, inertClass t = true) (hc : cfg.span.count .lineBreak = 1) :
    ∀ (rest : List Blk2) (it : Blk2) (ln og : Nat), it.ok = true → (∀ x ∈ rest, x.ok = true) →
    mkBlocks cfg fn (itemEntries2 ln og it rest) = .ok (itemBlocks2 ln it rest)
  | [], it, ln, og, hok, _ => by
    simp only [itemEntries2, itemBlocks2, mkBlocks, mkBlock_item2 cfg fn ht hc it hok ln og]
  | it' :: rest, it, ln, og, hok, hr => by
    have ih := mkBlocks_itemEntries2 cfg fn ht hc rest it' (ln + it.lines.length + 1) (og + it.lines.length + 1)
      (hr it' (by simp)) (fun x hx => hr x (List.mem_cons_of_mem _ hx))
    simp only [itemEntries2, itemBlocks2, mkBlocks]
    rw [mkBlock_item2 cfg fn ht hc it hok ln og]
    simp only [mkBlock, ih]


/-! ### the renderer -/

theorem splitNlAux_text : ∀ (u rest cur : Str), '\n' ∉ u → splitNlAux (u ++ rest) cur = splitNlAux rest (u.reverse ++ cur)
  | [], _, _, _ => by simp
  | c :: u, rest, cur, h => by
    have hc : c ≠ '\n' := fun e => h (by simp [e])
    have ih := splitNlAux_text u rest (c :: cur) (fun e => h (List.mem_cons_of_mem _ e))
    simp only [List.cons_append, splitNlAux, hc, if_false, ih]
    simp

/-- `content[:-1].split("\n")` on the joined complete lines: the texts of the lines -/
theorem splitNl_lines : ∀ (ts : List Str), ts ≠ [] → (∀ t ∈ ts, Complete t) →
    splitNl ts.flatten.dropLast = ts.map List.dropLast
  | [], h, _ => absurd rfl h
  | [t], _, h => by
    obtain ⟨h1, h2⟩ := h t (by simp)
    have e : [t].flatten.dropLast = t.dropLast := by simp
    rw [e]
    have := splitNlAux_text t.dropLast [] [] h2
    simp only [List.append_nil] at this
    simp [splitNl, this, splitNlAux]
  | t :: t2 :: ts, _, h => by
    obtain ⟨h1, h2⟩ := h t (by simp)
    have ih := splitNl_lines (t2 :: ts) (by simp) (fun x hx => h x (List.mem_cons_of_mem _ hx))
    have hne : (t2 :: ts).flatten ≠ [] := by
      have := (h t2 (by simp)).1
      intro e
      simp only [List.flatten_cons, List.append_eq_nil_iff] at e
      rw [e.1] at this
      simp at this
    have e : (t :: t2 :: ts).flatten.dropLast = t.dropLast ++ '\n' :: (t2 :: ts).flatten.dropLast := by
      rw [List.flatten_cons, List.dropLast_append_of_ne_nil hne]
      conv => lhs; rw [h1]
      simp
    rw [e]
    simp only [splitNl] at ih ⊢
    rw [splitNlAux_text _ _ _ h2]
    simp only [splitNlAux, if_true, ih]
    simp

theorem prefixLinesAux_vis (p : Str) : ∀ (ls : List Str), (∀ l ∈ ls, p ++ l = [] ∨ (p ++ l).all pyIsSpace = false) →
    prefixLinesAux p ls = ls.map (p ++ ·)
  | [], _ => rfl
  | l :: ls, h => by
    have ih := prefixLinesAux_vis p ls (fun x hx => h x (List.mem_cons_of_mem _ hx))
    have : (!(p ++ l).isEmpty && (p ++ l).all pyIsSpace) = false := by
      rcases h l (by simp) with e | e
      · rw [e]; rfl
      · rw [e]; simp
    simp only [prefixLinesAux, this, Bool.false_eq_true, if_false, ih, List.map_cons]

/-- `prefix_lines(lines, p)` when no prefixed line is all whitespace (such lines are written empty) -/
theorem prefixLines_vis (p : Str) (ls : List Str) (h : ∀ l ∈ ls, p ++ l = [] ∨ (p ++ l).all pyIsSpace = false) :
    prefixLines ls p none = ls.map (p ++ ·) := by
  cases ls with
  | nil => rfl
  | cons l ls =>
    have : (!(p ++ l).isEmpty && (p ++ l).all pyIsSpace) = false := by
      rcases h l (by simp) with e | e
      · rw [e]; rfl
      · rw [e]; simp
    simp only [prefixLines, this, Bool.false_eq_true, if_false, List.map_cons,
      prefixLinesAux_vis p ls (fun x hx => h x (List.mem_cons_of_mem _ hx))]

/-- the lines the renderer writes for one block -/
def itemOut2 : Blk2 → List Str
  | .blk b => itemOut b
  | .fence d info body => (d ++ info) :: (body.map List.dropLast ++ [d])
  | .icode ls => ls.map List.dropLast

def itemsOut2 : Blk2 → List Blk2 → List Str
  | it, [] => itemOut2 it
  | it, it' :: rest => itemOut2 it ++ [] :: itemsOut2 it' rest

theorem renderBlock_item2 (o : Opts) (it : Blk2) (hok : it.ok = true) (ln : Nat) :
    renderBlock o none (itemBlock2 ln it) = .ok (itemOut2 it) := by
  cases it with
  | blk b => exact renderBlock_item o b hok ln
  | fence d info body =>
    obtain ⟨_, _, hbody⟩ := fenceOk_of d info body hok
    simp only [itemBlock2, itemOut2, renderBlock, spaces, List.replicate_zero, List.nil_append]
    cases body with
    | nil => simp
    | cons l body' =>
      have hne : (l :: body').flatten.isEmpty = false := by
        have := (oneLine_complete l (hbody l (by simp)).one).1
        cases l with
        | nil => simp at this
        | cons a b => rfl
      have h1 := splitNl_lines (l :: body') (by simp) (fun t ht => oneLine_complete t (hbody t ht).one)
      have h2 := prefixLines_vis [] ((l :: body').map List.dropLast) (by
        intro x hx
        obtain ⟨t, ht, rfl⟩ := List.mem_map.mp hx
        exact (hbody t ht).vis)
      simp only [hne, Bool.false_eq_true, if_false, codeLines, h1, h2, List.nil_append, List.map_id']
  | icode ls =>
    obtain ⟨hne, hl⟩ := icodeOk_of ls hok
    have hct : ∀ t ∈ ls.map (fun s => s.drop 4), CodeText t := by
      intro t ht'; obtain ⟨s, hs, rfl⟩ := List.mem_map.mp ht'; exact codeText_of s (hl s hs)
    have h1 := splitNl_lines (ls.map (fun s => s.drop 4)) (by simpa using hne) (fun t ht => (hct t ht).comp)
    have h2 := prefixLines_vis (spaces 4) ((ls.map (fun s => s.drop 4)).map List.dropLast) (by
      intro x hx
      obtain ⟨t, ht, rfl⟩ := List.mem_map.mp hx
      right
      simp only [List.all_append, (hct t ht).vis, Bool.and_false])
    simp only [itemBlock2, itemOut2, renderBlock, codeLines, h1, h2]
    simp only [List.map_map]
    congr 1
    apply List.map_congr_left
    intro s hs
    obtain ⟨t, rfl⟩ := (hl s hs).ind
    have ht : t ≠ [] := by
      have := (codeText_of _ (hl _ hs)).comp.1
      intro e
      rw [e] at this
      simp at this
    cases t with
    | nil => exact absurd rfl ht
    | cons a b => simp [spaces, List.replicate, List.dropLast]

theorem renderBlocks_items2 (o : Opts) : ∀ (rest : List Blk2) (it : Blk2) (ln : Nat),
    it.ok = true → (∀ x ∈ rest, x.ok = true) →
    renderBlocks o none (itemBlocks2 ln it rest) = .ok (itemsOut2 it rest)
  | [], it, ln, hok, _ => by
    simp only [itemBlocks2, itemsOut2, renderBlocks, renderBlock_item2 o it hok ln]
    simp
  | it' :: rest, it, ln, hok, hr => by
    have ih := renderBlocks_items2 o rest it' (ln + it.lines.length + 1) (hr it' (by simp)) (fun x hx => hr x (List.mem_cons_of_mem _ hx))
    simp only [itemBlocks2, itemsOut2, renderBlocks, renderBlock_item2 o it hok ln, renderBlock, ih]
    simp


/-! ### the text -/

theorem dropLast_nl_lines (ls : List Str) (h : ∀ l ∈ ls, Complete l) : (ls.map List.dropLast).map (· ++ ['\n']) = ls := by
  rw [List.map_map]
  conv => rhs; rw [← List.map_id ls]
  exact List.map_congr_left (fun l hl => (h l hl).1.symm)

theorem itemOut2_lines (it : Blk2) (hok : it.ok = true) : (itemOut2 it).map (· ++ ['\n']) = it.lines := by
  cases it with
  | blk b => exact itemOut_lines b hok
  | fence d info body =>
    obtain ⟨_, _, hbody⟩ := fenceOk_of d info body hok
    simp only [itemOut2, Blk2.lines, List.map_cons, List.map_append, List.map_nil,
      dropLast_nl_lines body (fun l hl => oneLine_complete l (hbody l hl).one)]
  | icode ls =>
    obtain ⟨_, hl⟩ := icodeOk_of ls hok
    exact dropLast_nl_lines ls (fun l hl' => oneLine_complete l (hl l hl').one)

theorem itemsOut2_lines : ∀ (rest : List Blk2) (it : Blk2), it.ok = true → (∀ x ∈ rest, x.ok = true) →
    (itemsOut2 it rest).map (· ++ ['\n']) = itemsLines2 it rest
  | [], it, hok, _ => by simp only [itemsOut2, itemsLines2, itemOut2_lines it hok]
  | it' :: rest, it, hok, hr => by
    have ih := itemsOut2_lines rest it' (hr it' (by simp)) (fun x hx => hr x (List.mem_cons_of_mem _ hx))
    simp only [itemsOut2, itemsLines2, List.map_append, List.map_cons, itemOut2_lines it hok, ih, List.nil_append]

/-- a string without line-boundary characters, then "\n", is one line -/
theorem oneLine_text (u : Str) (h : ∀ c ∈ u, isLineSep c = false) : oneLine (u ++ ['\n']) = true := by
  simp only [oneLine, Bool.and_eq_true, beq_iff_eq, List.all_eq_true, Bool.not_eq_eq_eq_not, Bool.not_true]
  refine ⟨by rw [List.getLast?_append]; rfl, ?_⟩
  intro c hc
  rw [List.dropLast_concat] at hc
  exact h c hc

theorem item2_oneLine (it : Blk2) (hok : it.ok = true) : ∀ l ∈ it.lines, oneLine l = true := by
  cases it with
  | blk b => exact item_oneLine b hok
  | fence d info body =>
    obtain ⟨⟨c, hf⟩, hinfo, hbody⟩ := fenceOk_of d info body hok
    have hd : ∀ x ∈ d, isLineSep x = false := by
      intro x hx
      rw [hf.rep] at hx
      simp only [List.mem_replicate] at hx
      rw [hx.2]
      rcases hf.ch with e | e <;> rw [e] <;> decide
    intro l hl
    simp only [Blk2.lines, List.mem_cons, List.mem_append, List.mem_nil_iff, or_false] at hl
    rcases hl with rfl | hl | rfl
    · apply oneLine_text
      intro x hx
      rcases List.mem_append.mp hx with hx | hx
      · exact hd x hx
      · exact hinfo x hx
    · exact (hbody l hl).one
    · exact oneLine_text d hd
  | icode ls =>
    obtain ⟨_, hl⟩ := icodeOk_of ls hok
    exact fun l hl' => (hl l hl').one

theorem items2_oneLine : ∀ (rest : List Blk2) (it : Blk2), it.ok = true → (∀ x ∈ rest, x.ok = true) →
    ∀ l ∈ itemsLines2 it rest, oneLine l = true
  | [], it, hok, _ => by simpa [itemsLines2] using item2_oneLine it hok
  | it' :: rest, it, hok, hr => by
    have ih := items2_oneLine rest it' (hr it' (by simp)) (fun x hx => hr x (List.mem_cons_of_mem _ hx))
    intro l hl
    simp only [itemsLines2, List.mem_append, List.mem_cons] at hl
    rcases hl with hl | rfl | hl
    · exact item2_oneLine it hok l hl
    · decide
    · exact ih l hl

theorem item2_lines_ne (it : Blk2) (hok : it.ok = true) : it.lines ≠ [] := by
  cases it with
  | blk b => exact item_lines_len_pos b hok
  | fence d info body => simp [Blk2.lines]
  | icode ls => exact (icodeOk_of ls hok).1

theorem itemsLines2_ne (it : Blk2) (rest : List Blk2) (hok : it.ok = true) : itemsLines2 it rest ≠ [] := by
  have := item2_lines_ne it hok
  cases rest <;> simp [itemsLines2, this]

end Mistletoe.MdRound

/-! ### C09 for the fragment with code blocks -/
namespace Mistletoe.MdRoundCode
open Mistletoe Mistletoe.Py Mistletoe.Block Mistletoe.Inline Mistletoe.InertInline Mistletoe.MdRound
open Mistletoe.Props.C14 (inertLine joinBlank markdownTypes)

/-- **Paragraphs, ATX headings, thematic breaks, fenced code blocks and indented code blocks in the
    renderer's normal form are reproduced byte for byte** (top level).  The blocks `it, rest` (`Blk2.ok`) are
    separated by single empty lines, no two indented code blocks are adjacent (`adjOk`); the block token types
    are the Markdown renderer's list, the span classes are covered ones with `LineBreak` once.  Then
    `Document(lines)` succeeds, its children are `Paragraph` / `Heading` / `ThematicBreak` / `CodeFence` /
    `BlockCode` tokens with `BlankLine`s between them, and `MarkdownRenderer().render` (no line limit) gives
    back exactly the concatenated lines.
    `_partial`: the normal form `Blk2.ok` is a hypothesis.  For a fenced block it excludes what the renderer
    (or the parser) does change: a content line made only of whitespace (written back empty by `prefix_lines`),
    an info string that begins with the fence character or, behind backticks, contains a backtick (not a
    fence), content lines that close the fence, an indented opening fence, a missing closing fence. -/
theorem C09_code_blocks_exact_partial (cfg : Document.Cfg) (hty : cfg.block.types = markdownTypes)
    (ht : ∀ t ∈ cfg.span, inertClass t = true) (hc : cfg.span.count .lineBreak = 1)
    (it : Blk2) (rest : List Blk2) (hok : it.ok = true) (hrest : ∀ x ∈ rest, x.ok = true) (hadj : adjOk it rest = true)
    (o : Markdown.Opts) (ho : o.maxLineLength = none) (gas : Nat) :
    ∃ d, Document.parseLines cfg (gas + (2 * rest.length + 14)) (itemsLines2 it rest) = .ok d ∧
      d.kids = itemBlocks2 1 it rest ∧
      Markdown.renderRes o d = .ok (itemsLines2 it rest).flatten ∧
      Markdown.render o d = (itemsLines2 it rest).flatten := by
  have hphase : blockPhase cfg.block (gas + (2 * rest.length + 14)) (itemsLines2 it rest) =
      .ok ({ entries := itemEntries2 1 1 it rest, loose := false }, {}) :=
    tokenize_items2 cfg.block hty it rest hok hrest hadj gas {}
  have hmk := mkBlocks_itemEntries2 cfg (Document.footnotesOf []) ht hc rest it 1 1 hok hrest
  have hout := renderBlocks_items2 o rest it 1 hok hrest
  have htext : Markdown.joinLines (itemsOut2 it rest) = (itemsLines2 it rest).flatten := by
    rw [joinLines_eq, itemsOut2_lines rest it hok hrest]
  have hres : Markdown.renderRes o { kids := itemBlocks2 1 it rest, footnotes := Document.footnotesOf [] } =
      .ok (itemsLines2 it rest).flatten := by
    simp only [Markdown.renderRes, ho, hout, htext]
  refine ⟨{ kids := itemBlocks2 1 it rest, footnotes := Document.footnotesOf [] }, ?_, rfl, hres, ?_⟩
  · unfold Document.parseLines
    rw [hphase]
    simp only
    rw [hmk]
  · simp only [Markdown.render, hres]

/-- **The same inside `k` nested block quotes** ("> " before every line, the way the renderer writes them),
    for tab-free lines (`Quote.convert_leading_tabs` rewrites tabs). -/
theorem C09_quoted_code_blocks_exact_partial (cfg : Document.Cfg) (hty : cfg.block.types = markdownTypes)
    (ht : ∀ t ∈ cfg.span, inertClass t = true) (hc : cfg.span.count .lineBreak = 1)
    (it : Blk2) (rest : List Blk2) (hok : it.ok = true) (hrest : ∀ x ∈ rest, x.ok = true) (hadj : adjOk it rest = true)
    (hnt : ∀ l ∈ itemsLines2 it rest, '\t' ∉ l) (k : Nat)
    (o : Markdown.Opts) (ho : o.maxLineLength = none) (gas : Nat) :
    ∃ d, Document.parseLines cfg (gas + (2 * rest.length + 14) + k * 8) (qStrs k (itemsLines2 it rest)) = .ok d ∧
      d.kids = qBlocks 1 (itemBlocks2 1 it rest) k ∧
      Markdown.renderRes o d = .ok (qStrs k (itemsLines2 it rest)).flatten ∧
      Markdown.render o d = (qStrs k (itemsLines2 it rest)).flatten := by
  obtain ⟨s, ss', hss⟩ : ∃ s ss', itemsLines2 it rest = s :: ss' := by
    cases hj : itemsLines2 it rest with
    | nil => exact absurd hj (itemsLines2_ne it rest hok)
    | cons s ss' => exact ⟨s, ss', rfl⟩
  have hnum : Mistletoe.Props.C14.numbered 0 (itemsLines2 it rest) = { s := s, origin := 1 } :: Mistletoe.Props.C14.numbered 1 ss' := by
    rw [hss, Mistletoe.Props.C14.numbered_cons]
  have h0 : ∀ st, tokenizeBlock cfg.block (gas + (2 * rest.length + 14)) ({ s := s, origin := 1 } :: Mistletoe.Props.C14.numbered 1 ss') 1 st =
      .ok ({ entries := itemEntries2 1 1 it rest, loose := false }, st) := by
    intro st
    have := tokenize_items2 cfg.block hty it rest hok hrest hadj gas st
    rwa [hnum] at this
  have hnt' : ∀ l ∈ ({ s := s, origin := 1 } : Line) :: Mistletoe.Props.C14.numbered 1 ss', '\t' ∉ l.s := by
    intro l hl
    rw [← hnum] at hl
    exact hnt _ (Mistletoe.Props.C14.numbered_mem _ _ _ hl)
  obtain ⟨st', hq, hd⟩ := tokenize_qLines cfg.block
    [.linkRefDefBlock, .blankLine, .htmlBlock, .blockCode, .heading] [.codeFence, .thematicBreak, .list, .table, .paragraph]
    (by rw [hty]; rfl) (by decide) (by decide) _ _ hnt' 1 _ _ h0 k {}
  have hphase : blockPhase cfg.block (gas + (2 * rest.length + 14) + k * 8) (qStrs k (itemsLines2 it rest)) =
      .ok ({ entries := qEntries 1 1 (itemEntries2 1 1 it rest) k, loose := false }, st') := by
    have e : ∀ g ls, blockPhase cfg.block g ls = tokenizeBlock cfg.block g (Mistletoe.Props.C14.numbered 0 ls) 1 {} := fun _ _ => rfl
    rw [e, numbered_qStrs, hnum]
    exact hq
  have hdefs : st'.defs = [] := hd
  have hmk := mkBlocks_qEntries cfg (Document.footnotesOf []) 1 1 _ _
    (mkBlocks_itemEntries2 cfg (Document.footnotesOf []) ht hc rest it 1 1 hok hrest) k
  have hout := renderBlocks_qBlocks o 1 _ _ (renderBlocks_items2 o rest it 1 hok hrest) k
  have htext : Markdown.joinLines (qStrs k (itemsOut2 it rest)) = (qStrs k (itemsLines2 it rest)).flatten := by
    rw [joinLines_eq, qStrs_nl, itemsOut2_lines rest it hok hrest]
  have hres : Markdown.renderRes o { kids := qBlocks 1 (itemBlocks2 1 it rest) k, footnotes := Document.footnotesOf [] } =
      .ok (qStrs k (itemsLines2 it rest)).flatten := by
    simp only [Markdown.renderRes, ho, hout, htext]
  refine ⟨{ kids := qBlocks 1 (itemBlocks2 1 it rest) k, footnotes := Document.footnotesOf [] }, ?_, rfl, hres, ?_⟩
  · unfold Document.parseLines
    rw [hphase]
    simp only [hdefs]
    rw [hmk]
  · simp only [Markdown.render, hres]

theorem markdown_cfg_facts (cfg : Document.Cfg) (hcfg : Config.markdown = some cfg) :
    cfg.block.types = markdownTypes ∧ (∀ t ∈ cfg.span, inertClass t = true) ∧ cfg.span.count .lineBreak = 1 := by
  obtain ⟨_, ht, hc⟩ := Mistletoe.Props.C14.C14_config_covered cfg (Or.inr (Or.inl hcfg))
  have hty : cfg.block.types = markdownTypes := by
    have := Mistletoe.Props.C14.C14_config_current.2
    rw [hcfg] at this
    simpa using this
  exact ⟨hty, ht, hc⟩

/-- **The same from a `str`, for the token lists of the working tree** (`Config.markdown`), with the two
    corollaries: rendering again reproduces the text, and the rendered text parses like the original under
    every configuration (same document, same link definitions, same HTML). -/
theorem C09_code_blocks_roundtrip_markdown (cfg : Document.Cfg) (hcfg : Config.markdown = some cfg)
    (it : Blk2) (rest : List Blk2) (hok : it.ok = true) (hrest : ∀ x ∈ rest, x.ok = true) (hadj : adjOk it rest = true)
    (o : Markdown.Opts) (ho : o.maxLineLength = none) (gas : Nat) :
    ∃ d, Document.parse cfg (gas + (2 * rest.length + 14)) (itemsLines2 it rest).flatten = .ok d ∧
      Markdown.render o d = (itemsLines2 it rest).flatten ∧
      (∃ d', Document.parse cfg (gas + (2 * rest.length + 14)) (Markdown.render o d) = .ok d' ∧
        Markdown.render o d' = Markdown.render o d) ∧
      (∀ (cfg' : Document.Cfg) (g : Nat),
        Document.parse cfg' g (Markdown.render o d) = Document.parse cfg' g (itemsLines2 it rest).flatten) ∧
      (∀ (hopts : Html.Opts) (g : Nat),
        Config.renderHtml hopts g (Markdown.render o d) = Config.renderHtml hopts g (itemsLines2 it rest).flatten) := by
  obtain ⟨hty, ht, hc⟩ := markdown_cfg_facts cfg hcfg
  have h1 := items2_oneLine rest it hok hrest
  obtain ⟨d, h, _, _, h3⟩ := C09_code_blocks_exact_partial cfg hty ht hc it rest hok hrest hadj o ho gas
  rw [← parse_lines cfg _ _ h1] at h
  refine ⟨d, h, h3, ⟨d, ?_, rfl⟩, fun _ _ => by rw [h3], fun _ _ => by rw [h3]⟩
  rw [h3]; exact h

/-- the quoted version from a `str`, with the same corollaries -/
theorem C09_quoted_code_blocks_roundtrip_markdown (cfg : Document.Cfg) (hcfg : Config.markdown = some cfg)
    (it : Blk2) (rest : List Blk2) (hok : it.ok = true) (hrest : ∀ x ∈ rest, x.ok = true) (hadj : adjOk it rest = true)
    (hnt : ∀ l ∈ itemsLines2 it rest, '\t' ∉ l) (k : Nat)
    (o : Markdown.Opts) (ho : o.maxLineLength = none) (gas : Nat) :
    ∃ d, Document.parse cfg (gas + (2 * rest.length + 14) + k * 8) (qStrs k (itemsLines2 it rest)).flatten = .ok d ∧
      Markdown.render o d = (qStrs k (itemsLines2 it rest)).flatten ∧
      (∃ d', Document.parse cfg (gas + (2 * rest.length + 14) + k * 8) (Markdown.render o d) = .ok d' ∧
        Markdown.render o d' = Markdown.render o d) ∧
      (∀ (cfg' : Document.Cfg) (g : Nat),
        Document.parse cfg' g (Markdown.render o d) = Document.parse cfg' g (qStrs k (itemsLines2 it rest)).flatten) ∧
      (∀ (hopts : Html.Opts) (g : Nat),
        Config.renderHtml hopts g (Markdown.render o d) = Config.renderHtml hopts g (qStrs k (itemsLines2 it rest)).flatten) := by
  obtain ⟨hty, ht, hc⟩ := markdown_cfg_facts cfg hcfg
  have h1 := qStrs_oneLine k _ (items2_oneLine rest it hok hrest)
  obtain ⟨d, h, _, _, h3⟩ := C09_quoted_code_blocks_exact_partial cfg hty ht hc it rest hok hrest hadj hnt k o ho gas
  rw [← parse_lines cfg _ _ h1] at h
  refine ⟨d, h, h3, ⟨d, ?_, rfl⟩, fun _ _ => by rw [h3], fun _ _ => by rw [h3]⟩
  rw [h3]; exact h


/-! ### Non-vacuity -/

def L (s : String) : Str := s.toList

/-- the Markdown renderer's token lists as literals -/
def mdCfg : Document.Cfg :=
  { block := { types := markdownTypes },
    span := [.escapeSequence, .htmlSpan, .strikethrough, .autoLink, .coreTokens, .inlineCode, .lineBreak] }

theorem mdCfg_ok : mdCfg.block.types = markdownTypes ∧ (∀ t ∈ mdCfg.span, inertClass t = true) ∧
    mdCfg.span.count .lineBreak = 1 := by decide

/-- `mdCfg` is the configuration of the working tree (so the examples are about `Config.markdown`) -/
example : Config.markdown.map (fun c => (c.block.types, c.block.tableInterrupt, c.span)) =
    some (mdCfg.block.types, mdCfg.block.tableInterrupt, mdCfg.span) := by decide +kernel

/-- `# T`, a fenced block with info `py` and three content lines (one empty, one starting with `#`), a paragraph -/
def doc1 : Blk2 := .blk (.heading 1 (L "T"))
def doc1rest : List Blk2 :=
  [.fence (L "```") (L "py") [L "x = 1\n", L "\n", L "# not a heading\n"], .blk (.para [L "last line.\n"])]

theorem doc1_ok : doc1.ok = true ∧ (∀ x ∈ doc1rest, x.ok = true) ∧ adjOk doc1 doc1rest = true := by decide +kernel

example : (itemsLines2 doc1 doc1rest).flatten = L "# T\n\n```py\nx = 1\n\n# not a heading\n```\n\nlast line.\n" := by
  decide +kernel

/-- the theorem applies … -/
example : ∃ d, Document.parseLines mdCfg 18 (itemsLines2 doc1 doc1rest) = .ok d ∧
    Markdown.render {} d = (itemsLines2 doc1 doc1rest).flatten := by
  obtain ⟨d, h1, _, _, h3⟩ := C09_code_blocks_exact_partial mdCfg mdCfg_ok.1 mdCfg_ok.2.1 mdCfg_ok.2.2
    doc1 doc1rest doc1_ok.1 doc1_ok.2.1 doc1_ok.2.2 {} rfl 0
  exact ⟨d, h1, h3⟩

/-- … and the kernel evaluation of parser and renderer on that text agrees -/
example : (Document.parse mdCfg 18 (L "# T\n\n```py\nx = 1\n\n# not a heading\n```\n\nlast line.\n")).bind
    (fun d => Markdown.renderRes {} d) = .ok (L "# T\n\n```py\nx = 1\n\n# not a heading\n```\n\nlast line.\n") := by
  decide +kernel

/-- a tilde fence whose info string contains a backtick and ends in spaces, with an empty body; an indented
    code block (deeper indentation kept); a backtick fence of four with a three-backtick content line and a
    content line indented by four spaces that looks like a fence; all inside two block quotes -/
def doc2 : Blk2 := .fence (L "~~~") (L " a`b  ") []
def doc2rest : List Blk2 :=
  [.icode [L "    code\n", L "      deeper [x]\n"], .blk (.hr '*'),
   .fence (L "````") (L "") [L "```\n", L "    ````\n", L "  text \n"], .icode [L "    last\n"]]

theorem doc2_ok : doc2.ok = true ∧ (∀ x ∈ doc2rest, x.ok = true) ∧ adjOk doc2 doc2rest = true ∧
    (∀ l ∈ itemsLines2 doc2 doc2rest, '\t' ∉ l) := by decide +kernel

example : ∃ d, Document.parseLines mdCfg 38 (qStrs 2 (itemsLines2 doc2 doc2rest)) = .ok d ∧
    Markdown.render {} d = (qStrs 2 (itemsLines2 doc2 doc2rest)).flatten := by
  obtain ⟨d, h1, _, _, h3⟩ := C09_quoted_code_blocks_exact_partial mdCfg mdCfg_ok.1 mdCfg_ok.2.1 mdCfg_ok.2.2
    doc2 doc2rest doc2_ok.1 doc2_ok.2.1 doc2_ok.2.2.1 doc2_ok.2.2.2 2 {} rfl 0
  exact ⟨d, h1, h3⟩

example : (itemsLines2 doc2 doc2rest).flatten =
    L "~~~ a`b  \n~~~\n\n    code\n      deeper [x]\n\n***\n\n````\n```\n    ````\n  text \n````\n\n    last\n" := by
  decide +kernel

example : (Document.parse mdCfg 22
      (L "~~~ a`b  \n~~~\n\n    code\n      deeper [x]\n\n***\n\n````\n```\n    ````\n  text \n````\n\n    last\n")).bind
    (fun d => Markdown.renderRes {} d) =
      .ok (L "~~~ a`b  \n~~~\n\n    code\n      deeper [x]\n\n***\n\n````\n```\n    ````\n  text \n````\n\n    last\n") := by
  decide +kernel

example : (Document.parse mdCfg 30 (L "> ```py\n> x\n> \n> ```\n> \n>     code\n")).bind (fun d => Markdown.renderRes {} d) =
    .ok (L "> ```py\n> x\n> \n> ```\n> \n>     code\n") := by decide +kernel

/-- the round trip from the `str` under `Config.markdown` -/
example (cfg : Document.Cfg) (hcfg : Config.markdown = some cfg) :
    ∃ d, Document.parse cfg 18 (itemsLines2 doc1 doc1rest).flatten = .ok d ∧
      Markdown.render {} d = (itemsLines2 doc1 doc1rest).flatten := by
  obtain ⟨d, h1, h2, _⟩ := C09_code_blocks_roundtrip_markdown cfg hcfg doc1 doc1rest doc1_ok.1 doc1_ok.2.1 doc1_ok.2.2 {} rfl 0
  exact ⟨d, h1, h2⟩

/-! ### what the normal form excludes (model and implementation agree; run on /repo, see the report)

  * a content line made only of whitespace is written back empty (`prefix_lines`: `prefixed.isspace()`);
  * a tilde info string beginning with `~` belongs to the fence (so the closing fence written is longer);
  * a content line that closes the fence ends the block. -/
example : bodyLineOk (L "```") (L "   \n") = false := by decide +kernel
example : (Document.parse mdCfg 18 (L "```\n   \n```\n")).bind (fun d => Markdown.renderRes {} d) = .ok (L "```\n\n```\n") := by
  decide +kernel
example : (Blk2.fence (L "~~~") (L "~x") [L "y\n"]).ok = false := by decide +kernel
example : (Document.parse mdCfg 18 (L "~~~~x\ny\n~~~\n")).bind (fun d => Markdown.renderRes {} d) = .ok (L "~~~~x\ny\n~~~\n~~~~\n") := by
  decide +kernel
example : bodyLineOk (L "```") (L "````\n") = false := by decide +kernel
example : (Document.parse mdCfg 18 (L "```\n````\n```\n")).bind (fun d => Markdown.renderRes {} d) = .ok (L "```\n```\n```\n```\n") := by
  decide +kernel

/-- two adjacent indented code blocks are outside `adjOk` only because the parser reads them as ONE `BlockCode`
    (the tree is not `itemBlocks2`); the text is still reproduced -/
example : (Document.parse mdCfg 18 (L "    a\n\n    b\n")).bind (fun d => Markdown.renderRes {} d) = .ok (L "    a\n\n    b\n") := by
  decide +kernel

end Mistletoe.MdRoundCode
