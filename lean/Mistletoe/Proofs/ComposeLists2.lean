/-
  C03 with lists, second part: the block token constructors on the entries `Proofs/ComposeLists.lean` establishes,
  the HTML written directly from the tree, `Document(text)` and the bundled HTML configuration.
-/
import Mistletoe.Proofs.ComposeLists
namespace Mistletoe.ComposeL
open Mistletoe Mistletoe.Py Mistletoe.Scan Mistletoe.Compose
open Mistletoe.Block hiding numbered numbered_cons numbered_append
open Mistletoe.Props.C14 (defaultTypes inertLine numbered numbered_cons numbered_append numbered_length numbered_mem numbered_s)
open Mistletoe.InertInline (inertBody inertText proseLine oneLine proseInlines inertClass flat_append flat_prose)
open Mistletoe.Document (joinNl mkBlock mkBlocks mkItems)
open Mistletoe.Html Mistletoe.Escape

/-! ### The block token constructors on the expected entries -/

mutual
/-- the block token expected for a node whose first line is line `n` -/
def block2 (n : Nat) : T2 → Mistletoe.Block
  | .para ls => .paragraph (proseInlines (ls.map strip)) n
  | .heading lv t line => .heading lv (closingOf line) [.rawText t] n
  | .hr line => .thematicBreak (Document.stripNl line) n
  | .quote _ kids => .quote (blocks2 n kids) n
  | .list o s mk pad loose items => .list loose (if o then some s else none) (itemBlocks o mk pad loose s n items) n
def blocks2 (n : Nat) : List T2 → List Mistletoe.Block
  | [] => []
  | t :: rest => block2 n t :: blocks2 (n + (write2 t).length + 1) rest
def itemBlocks (o : Bool) (mk : Char) (pad : Nat) (loose : Bool) (s : Nat) (n : Nat) : List (List T2) → List Mistletoe.Block
  | [] => []
  | it :: rest =>
    .listItem (leaderOf o s mk) 0 ((leaderOf o s mk).length + pad) ((loose && !rest.isEmpty) || decide (1 < it.length)) (blocks2 n it) n
      :: itemBlocks o mk pad loose (s + 1) (n + (writes2 it).length + (sepS loose).length) rest
end

def itemLooseB : Mistletoe.Block → Bool
  | .listItem _ _ _ l _ _ => l
  | _ => false

/-- the looseness `List.__init__` computes from the items -/
def itemsLoose (loose : Bool) : List (List T2) → Bool
  | [] => false
  | it :: rest => ((loose && !rest.isEmpty) || decide (1 < it.length)) || itemsLoose loose rest

theorem any_itemBlocks (o : Bool) (mk : Char) (pad : Nat) (loose : Bool) : ∀ (s n : Nat) (items : List (List T2)),
    (itemBlocks o mk pad loose s n items).any itemLooseB = itemsLoose loose items
  | _, _, [] => rfl
  | s, n, it :: rest => by
    simp only [itemBlocks, List.any_cons, itemLooseB, itemsLoose, any_itemBlocks o mk pad loose _ _ rest]

theorem itemsLoose_false : ∀ (items : List (List T2)), items.all (fun it => it.length == 1) = true → itemsLoose false items = false
  | [], _ => rfl
  | it :: rest, h => by
    simp only [List.all_cons, Bool.and_eq_true, beq_iff_eq] at h
    simp only [itemsLoose, Bool.false_and, Bool.false_or, h.1, itemsLoose_false rest h.2]
    decide

/-- `loose` is the looseness the constructor computes -/
theorem itemsLoose_eq (loose : Bool) (items : List (List T2))
    (h : (if loose then decide (2 ≤ items.length) || items.any (fun it => decide (1 < it.length))
          else items.all (fun it => it.length == 1)) = true) : itemsLoose loose items = loose := by
  cases loose with
  | false => exact itemsLoose_false items (by simpa using h)
  | true =>
    simp only [if_true, Bool.or_eq_true, decide_eq_true_eq, List.any_eq_true] at h
    cases items with
    | nil =>
      rcases h with h | ⟨x, hx, _⟩
      · simp at h
      · simp at hx
    | cons it rest =>
      cases rest with
      | cons it' r => simp [itemsLoose]
      | nil =>
        rcases h with h | ⟨x, hx, hx2⟩
        · simp at h
        · simp only [List.mem_singleton] at hx
          subst hx
          simp [itemsLoose, hx2]

theorem mkBlock_of_single2 (cfg : Document.Cfg) (fn : Footnotes.Table) (e : Entry) (b : Mistletoe.Block)
    (h : mkBlocks cfg fn [e] = .ok [b]) : mkBlock cfg fn e = .ok (some b) := Compose.mkBlock_of_single cfg fn e b h

mutual
theorem mkBlock_entry2 (cfg : Document.Cfg) (fn : Footnotes.Table) (ht : ∀ t ∈ cfg.span, inertClass t = true)
    (hc : cfg.span.count .lineBreak = 1) : ∀ (t : T2), t.ok = true → ∀ (n : Nat),
    mkBlock cfg fn (entry2 n t) = .ok (some (block2 n t))
  | .para ls, h, n => by
    have hp := paraOk_of ls (by simpa [T2.ok, T.ok] using h)
    exact mkBlock_of_single2 cfg fn _ _ (InertInline.mkBlocks_prose cfg fn ls n n ht hc hp.ne hp.prose hp.body)
  | .heading lv t line, h, n => by
    have hh := headOk_of lv t line (by simpa [T2.ok, T.ok] using h)
    have hin : Document.inl cfg fn t = .ok [.rawText t] := InertInline.tokenizeInner_inert cfg.span fn t ht hh.inert hh.ne
    simp only [entry2, block2, mkBlock, hin]
  | .hr line, h, n => by
    simp only [entry2, block2, mkBlock]
  | .quote bare kids, h, n => by
    obtain ⟨_, hk, _⟩ := quoteOk2_of bare kids h
    simp only [entry2, block2, mkBlock, mkBlocks_entries2 cfg fn ht hc kids hk n]
  | .list o s mk pad loose items, h, n => by
    have hl := listOk_of o s mk pad loose items h
    have hits := mkItems_items2 cfg fn ht hc o mk pad loose s n items hl.its
    simp only [entry2, block2, mkBlock, hits]
    cases items with
    | nil => exact absurd rfl hl.ne
    | cons it rest =>
      obtain ⟨_, _, hlead, _⟩ := okItems_cons o mk pad s it rest hl.its
      simp only [items2]
      have hany := any_itemBlocks o mk pad loose s n (it :: rest)
      rw [itemsLoose_eq loose _ hl.looseC] at hany
      have hA : ∀ (f : Mistletoe.Block → Bool), (∀ b, f b = itemLooseB b) →
          (itemBlocks o mk pad loose s n (it :: rest)).any f = loose := by
        intro f hf
        refine Eq.trans ?_ hany
        congr 1; funext b; exact hf b
      rw [hA _ (by intro b; cases b <;> rfl)]
      cases o with
      | false => simp [leaderOf]
      | true =>
        obtain ⟨d, e, hd, _, h1, _, _⟩ := leaderOk_ordered _ hlead
        simp only [leaderOf, if_true] at hd ⊢
        have e1 : natDigits s = d := (List.append_inj' hd (by simp)).1
        have hne : ((natDigits s ++ [mk]).length != 1) = true := by
          rw [e1]; simp only [List.length_append, List.length_singleton, bne_iff_ne, ne_eq]; omega
        simp only [hne, if_true, List.dropLast_concat, hl.start rfl]
theorem mkBlocks_entries2 (cfg : Document.Cfg) (fn : Footnotes.Table) (ht : ∀ t ∈ cfg.span, inertClass t = true)
    (hc : cfg.span.count .lineBreak = 1) : ∀ (ts : List T2), T2.oks ts = true → ∀ (n : Nat),
    mkBlocks cfg fn (entries2 n ts) = .ok (blocks2 n ts)
  | [], _, _ => by simp [entries2, blocks2, mkBlocks]
  | t :: rest, h, n => by
    obtain ⟨h1, h2, _⟩ := oks2_cons t rest h
    simp only [entries2, blocks2, mkBlocks, mkBlock_entry2 cfg fn ht hc t h1 n,
      mkBlocks_entries2 cfg fn ht hc rest h2 _]
theorem mkItems_items2 (cfg : Document.Cfg) (fn : Footnotes.Table) (ht : ∀ t ∈ cfg.span, inertClass t = true)
    (hc : cfg.span.count .lineBreak = 1) (o : Bool) (mk : Char) (pad : Nat) (loose : Bool) : ∀ (s n : Nat) (items : List (List T2)),
    T2.okItems o mk pad s items = true →
    mkItems cfg fn (items2 o mk pad loose s n items) = .ok (itemBlocks o mk pad loose s n items)
  | _, _, [], _ => by simp [items2, itemBlocks, mkItems]
  | s, n, it :: rest, h => by
    obtain ⟨_, hit, _, _, _, hrest⟩ := okItems_cons o mk pad s it rest h
    simp only [items2, itemBlocks, mkItems, mkBlocks_entries2 cfg fn ht hc it hit n,
      mkItems_items2 cfg fn ht hc o mk pad loose _ _ rest hrest]
end

/-- **`Document(lines)` on a written document** -/
theorem parseLines_writes2 (cfg : Document.Cfg) (ti : Bool) (hb : cfg.block = dcfg ti)
    (ht : ∀ t ∈ cfg.span, inertClass t = true) (hc : cfg.span.count .lineBreak = 1)
    (ts : List T2) (h : T2.oks ts = true) (hne : ts ≠ []) (gas : Nat) (hg : needs2 ts ≤ gas) :
    Document.parseLines cfg gas (writes2 ts) = .ok { kids := blocks2 1 ts, footnotes := [] } := by
  unfold Document.parseLines
  rw [hb, blockPhase_writes2 ti ts h hne gas hg]
  simp only
  rw [mkBlocks_entries2 cfg _ ht hc ts h 1]
  rfl


/-! ### HTML written directly from the tree -/

def isPara2 : T2 → Bool
  | .para _ => true
  | _ => false

/-- `<ul>` or `<ol>` (with `start="n"` unless n = 1), newline, the items separated by newlines, newline, the closing tag -/
def listHtml (o : Bool) (st : Nat) (inner : Str) : Str :=
  (if o then "<ol".toList ++ (if st != 1 then " start=\"".toList ++ natDigits st ++ "\"".toList else []) ++ ">".toList
   else "<ul>".toList) ++ '\n' :: inner ++ '\n' :: (if o then "</ol>".toList else "</ul>".toList)

/-- `<li>`, the blocks of the item separated by newlines, `</li>`; a newline after `<li>` and before `</li>`, except, in a
    tight list (`s`), next to a paragraph (which is written without `<p>` there) -/
def itemHtml (s : Bool) (it : List T2) (inner : Str) : Str :=
  match it with
  | [] => "<li></li>".toList
  | first :: _ =>
    "<li>".toList ++ (if s && isPara2 first then [] else ['\n']) ++ inner
      ++ (if s && (it.getLast?.map isPara2).getD false then [] else ['\n']) ++ "</li>".toList

mutual
/-- the HTML of one node; `s`: directly inside an item of a tight list -/
def html2 (q : Quotes) (s : Bool) : T2 → Str
  | .para ls => if s then escapeHtmlText q.dq q.sq (joinNl (ls.map strip)) else paraHtml q ls
  | .heading lv t _ => headHtml q lv t
  | .hr _ => hrHtml
  | .quote _ kids => quoteHtml (htmlAfter q kids)
  | .list o st _ _ loose items => listHtml o st (htmlItems q (!loose) items)
/-- nodes, each followed by a newline (document, quote) -/
def htmlAfter (q : Quotes) : List T2 → Str
  | [] => []
  | t :: rest => html2 q false t ++ '\n' :: htmlAfter q rest
/-- nodes separated by newlines (list item) -/
def htmlSep (q : Quotes) (s : Bool) : List T2 → Str
  | [] => []
  | t :: rest =>
    match rest with
    | [] => html2 q s t
    | _ :: _ => html2 q s t ++ '\n' :: htmlSep q s rest
/-- items separated by newlines -/
def htmlItems (q : Quotes) (s : Bool) : List (List T2) → Str
  | [] => []
  | it :: rest =>
    match rest with
    | [] => itemHtml s it (htmlSep q s it)
    | _ :: _ => itemHtml s it (htmlSep q s it) ++ '\n' :: htmlItems q s rest
end

/-- the HTML of the document -/
def htmlOf2 (o : Opts) (ts : List T2) : Str := htmlAfter o.q ts

theorem isParagraph_block2 (n : Nat) : ∀ (t : T2), isParagraph (block2 n t) = isPara2 t
  | .para _ => rfl
  | .heading _ _ _ => rfl
  | .hr _ => rfl
  | .quote _ _ => rfl
  | .list .. => rfl

theorem blocks2_getLast : ∀ (ts : List T2) (n : Nat),
    ((blocks2 n ts).getLast?.map isParagraph).getD false = (ts.getLast?.map isPara2).getD false
  | [], _ => rfl
  | [t], n => by simp [blocks2, isParagraph_block2]
  | t :: t' :: r, n => by
    have ih := blocks2_getLast (t' :: r) (n + (write2 t).length + 1)
    simp only [blocks2, List.getLast?_cons_cons] at ih ⊢
    exact ih

theorem flat_cons2 (e : Ev) (es : List Ev) : flat (e :: es) = flatEv e ++ flat es := by simp [flat]

theorem flat_list (q : Quotes) (s : Bool) (o : Bool) (st : Nat) (loose : Bool) (its : List Mistletoe.Block) (n : Nat) :
    flat (renderBlock q s (.list loose (if o then some st else none) its n)) =
      listHtml o st (flat (renderSep q (!loose) its)) := by
  cases o with
  | false => simp [renderBlock, flat, flatEv, flatAttrs, listHtml, nl]
  | true =>
    by_cases h1 : st = 1
    · subst h1; simp [renderBlock, flat, flatEv, flatAttrs, listHtml, nl]
    · have : (st != 1) = true := by simpa using h1
      simp [renderBlock, flat, flatEv, flatAttrs, listHtml, nl, this]

theorem flat_li_open : flat [Ev.otag "li".toList []] = "<li>".toList := by decide +kernel
theorem flat_li_close : flat [Ev.ctag "li".toList] = "</li>".toList := by decide +kernel
theorem flat_li_empty : flat [Ev.otag "li".toList [], Ev.ctag "li".toList] = "<li></li>".toList := by decide +kernel
theorem flat_if_nl (c : Bool) : flat (if c = true then [] else [nl]) = if c = true then [] else ['\n'] := by
  cases c <;> rfl

theorem flat_item2_nil (q : Quotes) (s : Bool) (n : Nat) (ld : Str) (ind pre : Nat) (lo : Bool) :
    flat (renderBlock q s (.listItem ld ind pre lo [] n)) = "<li></li>".toList := by
  simp only [renderBlock]
  exact flat_li_empty

theorem flat_item2_cons (q : Quotes) (s : Bool) (n : Nat) (ld : Str) (ind pre : Nat) (lo : Bool) (b : Mistletoe.Block) (bs : List Mistletoe.Block) :
    flat (renderBlock q s (.listItem ld ind pre lo (b :: bs) n)) =
     "<li>".toList ++ (if (s && isParagraph b) = true then [] else ['\n']) ++ flat (renderSep q s (b :: bs)) ++
      (if (s && ((b :: bs).getLast?.map isParagraph).getD false) = true then [] else ['\n']) ++ "</li>".toList := by
  simp only [renderBlock, flat_append, flat_li_open, flat_li_close, flat_if_nl]
  generalize (b :: bs).getLast? = x
  cases x <;> rfl

theorem itemHtml_nil (s : Bool) (inner : Str) : itemHtml s [] inner = "<li></li>".toList := rfl
theorem itemHtml_cons (s : Bool) (first : T2) (rest : List T2) (inner : Str) : itemHtml s (first :: rest) inner =
    "<li>".toList ++ (if s && isPara2 first then [] else ['\n']) ++ inner
      ++ (if s && ((first :: rest).getLast?.map isPara2).getD false then [] else ['\n']) ++ "</li>".toList := rfl

theorem flat_item2 (q : Quotes) (s : Bool) (it : List T2) (n : Nat) (ld : Str) (ind pre : Nat) (lo : Bool)
    (h : flat (renderSep q s (blocks2 n it)) = htmlSep q s it) :
    flat (renderBlock q s (.listItem ld ind pre lo (blocks2 n it) n)) = itemHtml s it (htmlSep q s it) := by
  cases it with
  | nil =>
    simp only [blocks2]
    rw [itemHtml_nil]
    exact flat_item2_nil q s n ld ind pre lo
  | cons first rest =>
    have hlast := blocks2_getLast (first :: rest) n
    simp only [blocks2] at h hlast
    simp only [blocks2]
    rw [itemHtml_cons, flat_item2_cons, h, hlast, isParagraph_block2]

theorem htmlItems_cons2 (q : Quotes) (s : Bool) (it it' : List T2) (r : List (List T2)) :
    htmlItems q s (it :: it' :: r) = itemHtml s it (htmlSep q s it) ++ '\n' :: htmlItems q s (it' :: r) := by
  simp [htmlItems]

mutual
theorem flat_block2 (q : Quotes) : ∀ (t : T2) (s : Bool) (n : Nat), flat (renderBlock q s (block2 n t)) = html2 q s t
  | .para ls, s, n => by
    simp only [block2, html2, paraHtml, renderBlock]
    cases s with
    | true => simp only [if_true, flat_prose]
    | false =>
      simp only [Bool.false_eq_true, if_false, flat_append, flat_prose]
      simp [flat, flatEv, flatAttrs]
  | .heading lv t line, s, n => by
    simp only [block2, html2, headHtml]
    simp only [renderBlock, renderInlines, renderInline, flat_cons2, Compose.flat_nil,
      flatEv, flatAttrs, List.append_nil, List.append_assoc, List.cons_append, List.nil_append]
  | .hr line, s, n => by
    simp only [block2, html2, hrHtml, renderBlock]
    decide
  | .quote _ kids, s, n => by
    simp only [block2, html2]
    simp only [renderBlock, flat_append, flat_after2 q kids n]
    generalize htmlAfter q kids = x
    have h1 : flat [Ev.otag "blockquote".toList [], nl] = ['<', 'b', 'l', 'o', 'c', 'k', 'q', 'u', 'o', 't', 'e', '>', '\n'] := by
      decide +kernel
    have h2 : flat [Ev.ctag "blockquote".toList] = ['<', '/', 'b', 'l', 'o', 'c', 'k', 'q', 'u', 'o', 't', 'e', '>'] := by
      decide +kernel
    rw [h1, h2, quoteHtml]
  | .list o st mk pad loose items, s, n => by
    simp only [block2, html2]
    rw [flat_list, flat_items2 q o mk pad loose (!loose) items st n]
theorem flat_after2 (q : Quotes) : ∀ (ts : List T2) (n : Nat),
    flat (renderAfterEach q false (blocks2 n ts)) = htmlAfter q ts
  | [], _ => by simp [blocks2, renderAfterEach, htmlAfter, flat]
  | t :: rest, n => by
    simp only [blocks2, htmlAfter]
    simp only [renderAfterEach, flat_append, flat_block2 q t false n, flat_after2 q rest _]
    simp [flat, flatEv, nl]
theorem flat_sep2 (q : Quotes) (s : Bool) : ∀ (ts : List T2) (n : Nat),
    flat (renderSep q s (blocks2 n ts)) = htmlSep q s ts
  | [], _ => by simp [blocks2, renderSep, htmlSep, flat]
  | [t], n => by simp only [blocks2, renderSep, htmlSep, flat_block2 q t s n]
  | t :: t' :: r, n => by
    have ih := flat_sep2 q s (t' :: r) (n + (write2 t).length + 1)
    simp only [blocks2, htmlSep] at ih ⊢
    simp only [renderSep, flat_append, flat_block2 q t s n, ih]
    simp [flat, flatEv, nl]
theorem flat_items2 (q : Quotes) (o : Bool) (mk : Char) (pad : Nat) (loose : Bool) (s : Bool) : ∀ (items : List (List T2)) (st n : Nat),
    flat (renderSep q s (itemBlocks o mk pad loose st n items)) = htmlItems q s items
  | [], _, _ => by simp [itemBlocks, renderSep, htmlItems, flat]
  | [it], st, n => by
    simp only [itemBlocks, renderSep, htmlItems]
    exact flat_item2 q s it n _ _ _ _ (flat_sep2 q s it n)
  | it :: it' :: r, st, n => by
    have ih := flat_items2 q o mk pad loose s (it' :: r) (st + 1) (n + (writes2 it).length + (sepS loose).length)
    rw [htmlItems_cons2, ← ih]
    simp only [itemBlocks, renderSep, flat_append]
    rw [flat_item2 q s it n _ _ _ _ (flat_sep2 q s it n)]
    simp [flat, flatEv, nl]
end


theorem listHtml_ne (o : Bool) (st : Nat) (x : Str) : listHtml o st x ≠ [] := by
  unfold listHtml
  exact List.append_ne_nil_of_right_ne_nil _ (List.cons_ne_nil _ _)

theorem html2_ne (q : Quotes) : ∀ (t : T2), html2 q false t ≠ []
  | .para _ => by simp [html2, paraHtml]
  | .heading _ _ _ => by simp [html2, headHtml]
  | .hr _ => by simp [html2, hrHtml]
  | .quote _ _ => by simp only [html2]; exact quoteHtml_ne _
  | .list .. => by simp only [html2]; exact listHtml_ne _ _ _

/-- **the HTML renderer on the expected document** -/
theorem render_blocks2 (o : Opts) (ts : List T2) (hne : ts ≠ []) (fn : List (Str × Str × Str)) :
    render o { kids := blocks2 1 ts, footnotes := fn } = htmlOf2 o ts := by
  obtain ⟨t, rest, rfl⟩ : ∃ t rest, ts = t :: rest := by
    cases ts with
    | nil => exact absurd rfl hne
    | cons t rest => exact ⟨t, rest, rfl⟩
  have hk : blocks2 1 (t :: rest) = block2 1 t :: blocks2 (1 + (write2 t).length + 1) rest := by simp [blocks2]
  have hnonempty : (flat (renderSep o.q false (blocks2 1 (t :: rest)))).isEmpty = false := by
    rw [hk]
    cases hr : blocks2 (1 + (write2 t).length + 1) rest with
    | nil =>
      simp only [renderSep, flat_block2]
      simpa using html2_ne o.q t
    | cons b bs =>
      simp only [renderSep, flat_append, flat_block2]
      simp [html2_ne o.q t]
  have hd : renderDoc o.q { kids := blocks2 1 (t :: rest), footnotes := fn } =
      renderSep o.q false (blocks2 1 (t :: rest)) ++ [nl] := by
    simp only [renderDoc, hk]
    rw [← hk, hnonempty]
    simp
  rw [render, hd, flat_append]
  have : flat [nl] = ['\n'] := rfl
  rw [this, Compose.flat_sep_afterEach o.q false _ (by rw [hk]; simp), flat_after2]
  rfl

/-! ### From the text as one `str`, and the bundled HTML configuration -/

/-- **`Document(text)`** for the written lines concatenated into one string -/
theorem parse_writes2 (cfg : Document.Cfg) (ti : Bool) (hb : cfg.block = dcfg ti)
    (ht : ∀ t ∈ cfg.span, inertClass t = true) (hc : cfg.span.count .lineBreak = 1)
    (ts : List T2) (h : T2.oks ts = true) (hne : ts ≠ []) (gas : Nat) (hg : needs2 ts ≤ gas) :
    Document.parse cfg gas (writes2 ts).flatten = .ok { kids := blocks2 1 ts, footnotes := [] } := by
  rw [InertInline.parse_lines cfg _ (writes2 ts) (fun l hl => lineOk_oneLine ((writes2_lineOk ts h).1 l hl))]
  exact parseLines_writes2 cfg ti hb ht hc ts h hne gas hg

/-- **end to end**: `HtmlRenderer(**opts).render(Document(text))` on the written text is the HTML written
    directly from the tree -/
theorem renderHtml_writes2 (o : Opts) (ts : List T2) (h : T2.oks ts = true) (hne : ts ≠ []) (gas : Nat) (hg : needs2 ts ≤ gas) :
    Config.renderHtml o gas (writes2 ts).flatten = some (htmlOf2 o ts) := by
  unfold Config.renderHtml
  cases hc : Config.html with
  | none =>
    have := Props.C14.C14_config_current.1
    rw [hc] at this
    cases this
  | some cfg =>
    obtain ⟨hb, ht, hcnt⟩ := Compose.html_config cfg hc
    simp only
    rw [parse_writes2 cfg _ hb ht hcnt ts h hne gas hg]
    simp only
    rw [render_blocks2 o ts hne]


/-! ### C03 with lists: the statements

  INSIDE the fragment (tree type `T2`, well-formedness `T2.oks`, decidable): everything `Props/C03.lean` covers
  (paragraphs of inert lines, ATX headings and thematic breaks in any spelling, block quotes with "> " or ">") and
  bullet lists (`-`, `+`, `*`) and ordered lists (numbers `start`, `start + 1`, …, up to nine digits, delimiter `.` or `)`),
  one to four spaces after the marker, TIGHT (no blank line between items, one block per item) or LOOSE (one blank line
  between items; an item holds one or more blocks separated by one blank line), any number of items; an item holds any
  blocks of the fragment - paragraphs (one or more lines), headings, thematic breaks, quotes, lists - to any depth;
  lists inside quotes, quotes inside lists.  Continuation lines are indented by the width of marker + padding.

  OUTSIDE (in addition to what `Props/C03.lean` lists): two lists in a row (same marker type: one list, by the
  specification too; other marker type: the "\n" line between them is taken into the last item, see the examples); a
  block behind a list whose first line begins with a space; an item whose first line begins with whitespace, is empty
  or is a blank line; marker indentation 1-3; lazy continuation lines; a tight list whose items hold two blocks (a
  paragraph directly followed by a nested list); more than one blank line between items. -/

/-- **The block phase parses a written tree back (lists included).**  For every well-formed forest `ts`, either
    `tableInterrupt`, every gas ≥ `needs2 ts`: one entry per top-level node; a `List` entry holds one `Item` per item of the
    tree - content the entries of the item's blocks, `loose` = "a blank line follows inside the list, or more than one
    block", indentation 0, content offset = marker width + padding, the marker as leader - every entry and item
    reporting the line the writer put it on; no link definition is found. -/
theorem C03_lists_block_phase_partial (ti : Bool) (ts : List T2) (h : T2.oks ts = true) (hne : ts ≠ []) (gas : Nat)
    (hg : needs2 ts ≤ gas) :
    blockPhase { types := Props.C14.defaultTypes, tableInterrupt := ti } gas (writes2 ts) =
      .ok ({ entries := entries2 1 ts, loose := decide (1 < ts.length) }, {}) :=
  blockPhase_writes2 ti ts h hne gas hg

/-- the same at an arbitrary place: lines numbered from `k + 1`, any state, with or without a final "\n" line -/
theorem C03_lists_tokenize_partial (ti : Bool) (ts : List T2) (h : T2.oks ts = true) (hne : ts ≠ []) (tail : Bool) (k : Nat) (st : St)
    (gas : Nat) (hg : needs2 ts ≤ gas) :
    tokenizeBlock { types := Props.C14.defaultTypes, tableInterrupt := ti } gas (numbered k (writes2 ts ++ sepS tail)) (k + 1) st =
      .ok ({ entries := entries2 (k + 1) ts, loose := decide (1 < ts.length) || tail },
           { setext := st.setext || touches ts, defs := st.defs }) :=
  nodes_claim ti ts h hne tail k st gas hg

/-- **`Document(lines)` is the tree.**  The document's children are the expected block tokens: paragraphs, headings,
    thematic breaks, quotes as in `Props/C03.lean`; a `List` token per list node with `loose` as the tree says, `start` the
    tree's start number (ordered) or `None` (bullet), and one `ListItem` per item (leader, indentation 0, content offset,
    looseness, the item's blocks) - each with the line number the writer put it on; no footnotes. -/
theorem C03_lists_document_partial (cfg : Document.Cfg) (ti : Bool)
    (hb : cfg.block = { types := Props.C14.defaultTypes, tableInterrupt := ti })
    (ht : ∀ t ∈ cfg.span, inertClass t = true) (hc : cfg.span.count .lineBreak = 1)
    (ts : List T2) (h : T2.oks ts = true) (hne : ts ≠ []) (gas : Nat) (hg : needs2 ts ≤ gas) :
    Document.parseLines cfg gas (writes2 ts) = .ok { kids := blocks2 1 ts, footnotes := [] } ∧
    Document.parse cfg gas (writes2 ts).flatten = .ok { kids := blocks2 1 ts, footnotes := [] } :=
  ⟨parseLines_writes2 cfg ti hb ht hc ts h hne gas hg, parse_writes2 cfg ti hb ht hc ts h hne gas hg⟩

/-- **The HTML of the expected document is the HTML written directly from the tree**, for every quote option. -/
theorem C03_lists_render_partial (o : Opts) (ts : List T2) (hne : ts ≠ []) (fn : List (Str × Str × Str)) :
    render o { kids := blocks2 1 ts, footnotes := fn } = htmlOf2 o ts :=
  render_blocks2 o ts hne fn

/-- **End to end.**  `HtmlRenderer(**opts).render(Document(text))`, with the token lists the HTML renderer installs in the
    working tree, on the text written out from a well-formed forest, returns the HTML written directly from the forest:
    `<ul>` / `<ol>` (`start="n"` unless n = 1), one `<li>` per item, paragraphs of a tight list without `<p>`, those of
    a loose list with `<p>` and on lines of their own; everything else as in `Props/C03.lean`. -/
theorem C03_lists_html_partial (o : Opts) (ts : List T2) (h : T2.oks ts = true) (hne : ts ≠ []) (gas : Nat) (hg : needs2 ts ≤ gas) :
    Config.renderHtml o gas (writes2 ts).flatten = some (htmlOf2 o ts) :=
  renderHtml_writes2 o ts h hne gas hg

/-! ### Non-vacuity -/

def L (s : String) : Str := s.toList

/-- a tight three-item bullet list (the second item a two-line paragraph) between two paragraphs -/
def sampleA : List T2 := [
  .para [L "before the list\n"],
  .list false 0 '-' 1 false [[.para [L "one\n"]], [.para [L "two, first line\n", L "second & last line\n"]], [.para [L "three\n"]]],
  .para [L "after the list\n"]]

/-- a loose ordered list starting at 7 (delimiter ")", two spaces): an item of a paragraph and a quote; an item that is a
    heading; an item of a nested loose bullet list (whose second item has two paragraphs) and a paragraph; then a
    thematic break; then a quote holding a tight bullet list whose second item is a tight ordered list -/
def sampleB : List T2 := [
  .list true 7 ')' 2 true [
    [.para [L "seven\n"], .quote false [.para [L "quoted\n"], .hr (L "***\n")]],
    [.heading 2 (L "eight") (L "## eight ##\n")],
    [.list false 0 '*' 3 true [[.para [L "n1\n"]], [.para [L "n2\n"], .para [L "n2 b\n"]]], .para [L "end of nine\n"]]],
  .hr (L "___\n"),
  .quote false [.list false 0 '+' 1 false [[.para [L "a\n"]], [.list true 1 '.' 1 false [[.para [L "b\n"]], [.para [L "c\n"]]]]]]]

theorem sampleA_ok : T2.oks sampleA = true := by decide +kernel
theorem sampleB_ok : T2.oks sampleB = true := by decide +kernel

/-- what the writer produces -/
example : (writes2 sampleA).flatten =
    L "before the list\n\n- one\n- two, first line\n  second & last line\n- three\n\nafter the list\n" := by decide +kernel
example : (writes2 sampleB).flatten =
    L "7)  seven\n\n    > quoted\n    > \n    > ***\n\n8)  ## eight ##\n\n9)  *   n1\n\n    *   n2\n\n        n2 b\n\n    end of nine\n\n___\n\n> + a\n> + 1. b\n>   2. c\n" := by
  decide +kernel

/-- the HTML written directly from the trees; the real renderer returns these strings for the two texts above -/
def htmlA : Str :=
  L "<p>before the list</p>\n<ul>\n<li>one</li>\n<li>two, first line\nsecond &amp; last line</li>\n<li>three</li>\n</ul>\n<p>after the list</p>\n"
def htmlB : Str :=
  L "<ol start=\"7\">\n<li>\n<p>seven</p>\n<blockquote>\n<p>quoted</p>\n<hr />\n</blockquote>\n</li>\n<li>\n<h2>eight</h2>\n</li>\n<li>\n<ul>\n<li>\n<p>n1</p>\n</li>\n<li>\n<p>n2</p>\n<p>n2 b</p>\n</li>\n</ul>\n<p>end of nine</p>\n</li>\n</ol>\n<hr />\n<blockquote>\n<ul>\n<li>a</li>\n<li>\n<ol>\n<li>b</li>\n<li>c</li>\n</ol>\n</li>\n</ul>\n</blockquote>\n"

example : htmlOf2 {} sampleA = htmlA ∧ htmlOf2 {} sampleB = htmlB := by
  refine ⟨?_, ?_⟩ <;> decide +kernel

example : needs2 sampleA = 169 ∧ needs2 sampleB = 489 := by decide +kernel

/-- instances of `C03_lists_html_partial` -/
example : Config.renderHtml {} 169 (writes2 sampleA).flatten = some htmlA := by
  rw [C03_lists_html_partial {} sampleA sampleA_ok (by decide) 169 (by decide +kernel)]
  decide +kernel
example : Config.renderHtml {} 489 (writes2 sampleB).flatten = some htmlB := by
  rw [C03_lists_html_partial {} sampleB sampleB_ok (by decide) 489 (by decide +kernel)]
  decide +kernel

/-- the same two facts by evaluating the model on the text, without the theorem -/
example : Config.renderHtml {} 169 (writes2 sampleA).flatten = some htmlA := by decide +kernel
example : Config.renderHtml {} 489 (writes2 sampleB).flatten = some htmlB := by decide +kernel

mutual
/-- equality test on the entries that occur here -/
def sameE : Entry → Entry → Bool
  | .paragraph a l o, .paragraph a' l' o' => a == a' && l == l' && o == o'
  | .heading lv c cl l o, .heading lv' c' cl' l' o' => lv == lv' && c == c' && cl == cl' && l == l' && o == o'
  | .thematicBreak s l o, .thematicBreak s' l' o' => s == s' && l == l' && o == o'
  | .quote es lo l o, .quote es' lo' l' o' => sameEs es es' && lo == lo' && l == l' && o == o'
  | .list is l o, .list is' l' o' => sameIs is is' && l == l' && o == o'
  | _, _ => false
def sameIs : List Item → List Item → Bool
  | [], [] => true
  | i :: is, i' :: is' => sameI i i' && sameIs is is'
  | _, _ => false
def sameI : Item → Item → Bool
  | .mk inner lo ind pre ld ln og, .mk inner' lo' ind' pre' ld' ln' og' =>
    sameEs inner inner' && lo == lo' && ind == ind' && pre == pre' && ld == ld' && ln == ln' && og == og'
def sameEs : List Entry → List Entry → Bool
  | [], [] => true
  | e :: es, e' :: es' => sameE e e' && sameEs es es'
  | _, _ => false
end

def sameR : Res (Buf × St) → List Entry → Bool → Bool
  | .ok (b, st), es, lo => sameEs b.entries es && b.loose == lo && st.setext && st.defs.isEmpty
  | .err _, _, _ => false

/-- the entries `C03_lists_block_phase_partial` states for the first sample, written out: the list on line 3, its items
    on lines 3, 4, 6, not loose, indentation 0, content offset 2, leader "-" -/
example : sameEs (entries2 1 sampleA)
    [.paragraph [L "before the list\n"] 1 1,
     .list [.mk [.paragraph [L "one\n"] 3 3] false 0 2 ['-'] 3 3,
            .mk [.paragraph [L "two, first line\n", L "second & last line\n"] 4 4] false 0 2 ['-'] 4 4,
            .mk [.paragraph [L "three\n"] 6 6] false 0 2 ['-'] 6 6] 3 3,
     .paragraph [L "after the list\n"] 8 8] = true := by decide +kernel

/-- the block phase evaluated in the kernel, independently of the theorem, gives the stated entries (both samples) -/
example : sameR (blockPhase (dcfg true) 169 (writes2 sampleA)) (entries2 1 sampleA) true = true := by decide +kernel
example : sameR (blockPhase (dcfg true) 489 (writes2 sampleB)) (entries2 1 sampleB) true = true := by decide +kernel
/-- the comparison does tell trees apart: the same list read as loose is not what comes out -/
example : sameR (blockPhase (dcfg true) 169 (writes2 sampleA))
    (entries2 1 [.para [L "before the list\n"],
      .list false 0 '-' 1 true [[.para [L "one\n"]], [.para [L "two, first line\n", L "second & last line\n"]], [.para [L "three\n"]]],
      .para [L "after the list\n"]]) true = false := by decide +kernel

/-- the predicate is not trivially true: `* ***` (marker + first line is a thematic break), an item whose first line begins
    with a space, pad 5, an ordered list reaching ten digits, a bullet that is none, a "loose" list of one one-block item,
    a tight list with a two-block item; two lists in a row; a paragraph that begins with a space behind a list -/
example : [T2.list false 0 '*' 1 false [[.hr (L "***\n")]], T2.list false 0 '-' 1 false [[.para [L " a\n"]]],
    T2.list false 0 '-' 5 false [[.para [L "a\n"]]], T2.list true 999999999 '.' 1 false [[.para [L "a\n"]], [.para [L "b\n"]]],
    T2.list false 0 'x' 1 false [[.para [L "a\n"]]], T2.list false 0 '-' 1 true [[.para [L "a\n"]]],
    T2.list false 0 '-' 1 false [[.para [L "a\n"], .para [L "b\n"]]]].map T2.ok = List.replicate 7 false := by
  decide +kernel
example : T2.oks [.list false 0 '-' 1 false [[.para [L "a\n"]]], .list false 0 '*' 1 false [[.para [L "b\n"]]]] = false ∧
    T2.oks [.list false 0 '-' 1 false [[.para [L "a\n"]]], .para [L "  b\n"]] = false ∧
    T2.oks [.list false 0 '-' 1 false [[.para [L "a\n"]]], .para [L "b\n"]] = true := by
  refine ⟨?_, ?_, ?_⟩ <;> decide +kernel

/-- **Why no list behind a list.**  `- a`, blank, `* b`: `ListItem.read` hands the "\n" line to the first item (it sees the
    next marker before it would drop trailing blank lines), so the dispatcher never sees a blank line and the buffer is
    not marked loose, whereas two blocks separated by a blank line make a loose buffer everywhere else (the real
    `tokenize_block` does the same; the HTML is not affected: `<ul><li>a</li></ul><ul><li>b</li></ul>`) -/
example : sameR (blockPhase (dcfg true) 100 [L "- a\n", L "\n", L "* b\n"])
    [.list [.mk [.paragraph [L "a\n"] 1 1] false 0 2 ['-'] 1 1] 1 1, .list [.mk [.paragraph [L "b\n"] 3 3] false 0 2 ['*'] 3 3] 3 3]
    false = true := by decide +kernel
/-- same marker type: one loose list (in the specification, too) -/
example : sameR (blockPhase (dcfg true) 100 [L "- a\n", L "\n", L "- b\n"])
    [.list [.mk [.paragraph [L "a\n"] 1 1] true 0 2 ['-'] 1 1, .mk [.paragraph [L "b\n"] 3 3] false 0 2 ['-'] 3 3] 1 1] false = true := by
  decide +kernel
/-- **Why the block behind a list must not begin with a space**: two spaces are the content offset of "- " -/
example : sameR (blockPhase (dcfg true) 100 [L "- a\n", L "\n", L "  b\n"])
    [.list [.mk [.paragraph [L "a\n"] 1 1, .paragraph [L "b\n"] 3 3] true 0 2 ['-'] 1 1] 1 1] false = true := by decide +kernel

end Mistletoe.ComposeL
