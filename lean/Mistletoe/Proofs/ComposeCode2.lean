/-
  C03 with fenced code blocks and setext headings (`Proofs/ComposeCode.lean`): non-vacuity, part 1 (fenced code blocks;
  setext headings are in `Proofs/ComposeCode3.lean`).  A sample forest - a fenced block inside a loose list item inside a
  quote, and more - is well-formed by kernel evaluation; the theorems apply to it; evaluating the model on the written
  text in the kernel, independently of the theorems, gives the same HTML; the real `mistletoe.markdown` returns this
  string for this text.  Then what the predicate rejects and accepts, and the counterexample that shaped it.
-/
import Mistletoe.Proofs.ComposeCode
namespace Mistletoe.ComposeC
open Mistletoe Mistletoe.Py Mistletoe.Scan Mistletoe.Compose
open Mistletoe.Block hiding numbered numbered_cons numbered_append
open Mistletoe.Html

/-! ### Non-vacuity -/

def L (s : String) : Str := s.toList

/-- a quote holding a loose bullet list: the first item a paragraph and a backtick fence with a language, a blank content
    line and characters to escape; the second item a tilde fence (longer closing fence with trailing spaces, an info string
    with backticks, a shorter tilde fence as content).  Then, at top level, a fence of four backticks at indentation 2
    (content lines indented 3, 1, 0; a fence of three backticks as content; closing fence at indentation 3), then a
    paragraph. -/
def sampleC : List T3 := [
  .quote false [
    .list false 0 '-' 1 true [
      [.para [L "intro\n"], .fence 0 (L "```") (L "python") [L "def f(x):\n", L "\n", L "    return x < 1 & \"a\"\n"] (L "```\n")],
      [.fence 0 (L "~~~~") (L " c++ extra ``` ") [L "~~~\n", L "code\n"] (L "~~~~~  \n")]]],
  .fence 2 (L "````") (L "") [L "   indented three\n", L " one\n", L "```\n"] (L "   ````\n"),
  .para [L "after\n"]]

theorem sampleC_ok : T3.oks sampleC = true := by decide +kernel

/-- what the writer produces -/
example : (writes3 sampleC).flatten =
    L "> - intro\n> \n>   ```python\n>   def f(x):\n> \n>       return x < 1 & \"a\"\n>   ```\n> \n> - ~~~~ c++ extra ``` \n>   ~~~\n>   code\n>   ~~~~~  \n\n  ````\n   indented three\n one\n```\n   ````\n\nafter\n" := by
  decide +kernel

/-- the HTML written directly from the tree; `mistletoe.markdown` returns this string for the text above -/
def htmlC : Str :=
  L "<blockquote>\n<ul>\n<li>\n<p>intro</p>\n<pre><code class=\"language-python\">def f(x):\n\n    return x &lt; 1 &amp; \"a\"\n</code></pre>\n</li>\n<li>\n<pre><code class=\"language-c++\">~~~\ncode\n</code></pre>\n</li>\n</ul>\n</blockquote>\n<pre><code> indented three\none\n```\n</code></pre>\n<p>after</p>\n"

example : htmlOf3 {} sampleC = htmlC := by decide +kernel
example : needs3 sampleC = 182 := by decide +kernel

/-- an instance of `C03_code_html_partial` -/
example : Config.renderHtml {} 182 (writes3 sampleC).flatten = some htmlC := by
  rw [C03_code_html_partial {} sampleC sampleC_ok (by decide) 182 (by decide +kernel)]
  decide +kernel

/-- the same fact by evaluating the model on the text, without the theorem -/
example : Config.renderHtml {} 182 (writes3 sampleC).flatten = some htmlC := by decide +kernel

/-- the predicate is not trivially true: a fence of two backticks, a mixed fence, indentation 4, a backtick in the info
    string of a backtick fence, an info string that begins with the fence character, a content line that closes the fence,
    a closing line that is too short, a closing line of the other character, a closing line with text behind the fence,
    a tab in a content line -/
example : [T3.fence 0 (L "``") [] [] (L "``\n"), T3.fence 0 (L "``~") [] [] (L "``~\n"), T3.fence 4 (L "```") [] [] (L "```\n"),
    T3.fence 0 (L "```") (L "a`b") [] (L "```\n"), T3.fence 0 (L "~~~") (L "~a") [] (L "~~~\n"),
    T3.fence 0 (L "```") [] [L "  ````\n"] (L "```\n"), T3.fence 0 (L "````") [] [] (L "```\n"),
    T3.fence 0 (L "```") [] [] (L "~~~\n"), T3.fence 0 (L "```") [] [] (L "``` x\n"),
    T3.fence 0 (L "```") [] [L "\tx\n"] (L "```\n")].map T3.ok = List.replicate 10 false := by
  decide +kernel
/-- … and what it does accept: an empty block, a tilde fence with backticks in the info string, content lines that look
    like blocks and like shorter or other fences, a longer closing fence at indentation 3 with trailing spaces -/
example : [T3.fence 0 (L "```") [] [] (L "```\n"), T3.fence 3 (L "~~~") (L " a`b ~ ") [L "# x\n", L "- y\n", L "> z\n", L "***\n", L "\n"] (L "~~~\n"),
    T3.fence 1 (L "````") (L "x") [L "```\n", L "~~~~\n", L "    ````\n", L "```` x\n"] (L "   `````   \n")].map T3.ok = List.replicate 3 true := by
  decide +kernel
/-- a fence at indentation 2 is not accepted as the first block of a list item, nor directly behind a list -/
example : T3.ok (.list false 0 '-' 1 false [[.fence 2 (L "```") [] [] (L "```\n")]]) = false ∧
    T3.oks [.list false 0 '-' 1 false [[.para [L "a\n"]]], .fence 2 (L "```") [] [] (L "```\n")] = false ∧
    T3.oks [.list false 0 '-' 1 false [[.para [L "a\n"]]], .fence 0 (L "```") [] [] (L "```\n")] = true := by
  refine ⟨?_, ?_, ?_⟩ <;> decide +kernel

/-- **A content line that begins like the fence** (the defect this proof found, repaired in /repo by 99c8328): the
    specification lets a closing fence be followed by spaces only, so in "```", "```abc", "x", "```" the second line is
    content.  The pinned `CodeFence.read` asked only that the stripped line begin with the opening fence string and be one
    word, took "```abc" for the closing line and went on with a paragraph and a second (unclosed) fence.  After the repair
    such a line is in the fragment and the theorem covers it. -/
example : Config.renderHtml {} 100 (L "```\n```abc\nx\n```\n") = some (L "<pre><code>```abc\nx\n</code></pre>\n") := by
  decide +kernel
example : T3.ok (.fence 0 (L "```") [] [L "```abc\n", L "x\n"] (L "```\n")) = true := by decide +kernel

#print axioms C03_code_block_phase_partial
#print axioms C03_code_document_partial
#print axioms C03_code_render_partial
#print axioms C03_code_html_partial

end Mistletoe.ComposeC
