/-
  C03 with fenced code blocks and setext headings (`Proofs/ComposeCode.lean`): non-vacuity.  Two sample forests - a
  fenced block inside a loose list item inside a quote (and more), setext headings at top level and inside list items -
  are well-formed by kernel evaluation; the theorems apply to them; evaluating the model on the written text in the
  kernel, independently of the theorems, gives the same HTML; the real `mistletoe.markdown` returns these strings for
  these texts.  Then what the predicates reject, and the two counterexamples that shaped them.
-/
import Mistletoe.Proofs.ComposeCode
namespace Mistletoe.ComposeC
open Mistletoe Mistletoe.Py Mistletoe.Scan Mistletoe.Compose
open Mistletoe.Block hiding numbered numbered_cons numbered_append
open Mistletoe.Html

/-! ### Non-vacuity -/

def L (s : String) : Str := s.toList

/-- a quote holding a loose bullet list: the first item a paragraph and a backtick fence with a language, a blank content
    line and characters to escape; the second item a tilde fence (longer closing fence with trailing spaces, an info string
    with backticks, a shorter tilde fence as content).  Then, at top level, a fence of four backticks at indentation 2
    (content lines indented 3, 1, 0; a fence of three backticks as content; closing fence at indentation 3), then a
    paragraph. -/
def sampleC : List T3 := [
  .quote false [
    .list false 0 '-' 1 true [
      [.para [L "intro\n"], .fence 0 (L "```") (L "python") [L "def f(x):\n", L "\n", L "    return x < 1 & \"a\"\n"] (L "```\n")],
      [.fence 0 (L "~~~~") (L " c++ extra ``` ") [L "~~~\n", L "code\n"] (L "~~~~~  \n")]]],
  .fence 2 (L "````") (L "") [L "   indented three\n", L " one\n", L "```\n"] (L "   ````\n"),
  .para [L "after\n"]]

theorem sampleC_ok : T3.oks sampleC = true := by decide +kernel

/-- what the writer produces -/
example : (writes3 sampleC).flatten =
    L "> - intro\n> \n>   ```python\n>   def f(x):\n> \n>       return x < 1 & \"a\"\n>   ```\n> \n> - ~~~~ c++ extra ``` \n>   ~~~\n>   code\n>   ~~~~~  \n\n  ````\n   indented three\n one\n```\n   ````\n\nafter\n" := by
  decide +kernel

/-- the HTML written directly from the tree; `mistletoe.markdown` returns this string for the text above -/
def htmlC : Str :=
  L "<blockquote>\n<ul>\n<li>\n<p>intro</p>\n<pre><code class=\"language-python\">def f(x):\n\n    return x &lt; 1 &amp; \"a\"\n</code></pre>\n</li>\n<li>\n<pre><code class=\"language-c++\">~~~\ncode\n</code></pre>\n</li>\n</ul>\n</blockquote>\n<pre><code> indented three\none\n```\n</code></pre>\n<p>after</p>\n"

example : htmlOf3 {} sampleC = htmlC := by decide +kernel
example : needs3 sampleC = 182 := by decide +kernel

/-- an instance of `C03_code_html_partial` -/
example : Config.renderHtml {} 182 (writes3 sampleC).flatten = some htmlC := by
  rw [C03_code_html_partial {} sampleC sampleC_ok (by decide) 182 (by decide +kernel)]
  decide +kernel

/-- the same fact by evaluating the model on the text, without the theorem -/
example : Config.renderHtml {} 182 (writes3 sampleC).flatten = some htmlC := by decide +kernel

/-- the predicate is not trivially true: a fence of two backticks, a mixed fence, indentation 4, a backtick in the info
    string of a backtick fence, an info string that begins with the fence character, a content line that closes the fence,
    a closing line that is too short, a closing line of the other character, a closing line with text behind the fence,
    a tab in a content line -/
example : [T3.fence 0 (L "``") [] [] (L "``\n"), T3.fence 0 (L "``~") [] [] (L "``~\n"), T3.fence 4 (L "```") [] [] (L "```\n"),
    T3.fence 0 (L "```") (L "a`b") [] (L "```\n"), T3.fence 0 (L "~~~") (L "~a") [] (L "~~~\n"),
    T3.fence 0 (L "```") [] [L "  ````\n"] (L "```\n"), T3.fence 0 (L "````") [] [] (L "```\n"),
    T3.fence 0 (L "```") [] [] (L "~~~\n"), T3.fence 0 (L "```") [] [] (L "``` x\n"),
    T3.fence 0 (L "```") [] [L "\tx\n"] (L "```\n")].map T3.ok = List.replicate 10 false := by
  decide +kernel
/-- … and what it does accept: an empty block, a tilde fence with backticks in the info string, content lines that look
    like blocks and like shorter or other fences, a longer closing fence at indentation 3 with trailing spaces -/
example : [T3.fence 0 (L "```") [] [] (L "```\n"), T3.fence 3 (L "~~~") (L " a`b ~ ") [L "# x\n", L "- y\n", L "> z\n", L "***\n", L "\n"] (L "~~~\n"),
    T3.fence 1 (L "````") (L "x") [L "```\n", L "~~~~\n", L "    ````\n", L "```` x\n"] (L "   `````   \n")].map T3.ok = List.replicate 3 true := by
  decide +kernel
/-- a fence at indentation 2 is not accepted as the first block of a list item, nor directly behind a list -/
example : T3.ok (.list false 0 '-' 1 false [[.fence 2 (L "```") [] [] (L "```\n")]]) = false ∧
    T3.oks [.list false 0 '-' 1 false [[.para [L "a\n"]]], .fence 2 (L "```") [] [] (L "```\n")] = false ∧
    T3.oks [.list false 0 '-' 1 false [[.para [L "a\n"]]], .fence 0 (L "```") [] [] (L "```\n")] = true := by
  refine ⟨?_, ?_, ?_⟩ <;> decide +kernel

/-- setext headings: two text lines over `===`; one line over `---` (NOT a paragraph and a thematic break); inside the
    items of a loose bullet list (underline ` -  `, then a fenced block; underline indented by three spaces); a thematic
    break `---` behind the list; a quote; a tight ordered list whose only item is a heading -/
def sampleD : List T3 := [
  .setext 1 [L "Title line one\n", L "and two\n"] (L "===\n"),
  .para [L "text\n"],
  .setext 2 [L "Sub & heading\n"] (L "---\n"),
  .list false 0 '-' 1 true [
    [.setext 2 [L "in item\n"] (L " -  \n"), .fence 0 (L "```") [] [L "x\n"] (L "```\n")],
    [.setext 1 [L "second\n"] (L "   =====\n")]],
  .hr (L "---\n"),
  .quote false [.para [L "quoted\n"]],
  .list true 3 '.' 2 false [[.setext 2 [L "tight\n"] (L "--\n")]]]

theorem sampleD_ok : T3.oks sampleD = true := by decide +kernel

example : (writes3 sampleD).flatten =
    L "Title line one\nand two\n===\n\ntext\n\nSub & heading\n---\n\n- in item\n   -  \n\n  ```\n  x\n  ```\n\n- second\n     =====\n\n---\n\n> quoted\n\n3.  tight\n    --\n" := by
  decide +kernel

/-- `mistletoe.markdown` returns this string for the text above -/
def htmlD : Str :=
  L "<h1>Title line one\nand two</h1>\n<p>text</p>\n<h2>Sub &amp; heading</h2>\n<ul>\n<li>\n<h2>in item</h2>\n<pre><code>x\n</code></pre>\n</li>\n<li>\n<h1>second</h1>\n</li>\n</ul>\n<hr />\n<blockquote>\n<p>quoted</p>\n</blockquote>\n<ol start=\"3\">\n<li>\n<h2>tight</h2>\n</li>\n</ol>\n"

example : htmlOf3 {} sampleD = htmlD ∧ needs3 sampleD = 325 := by
  refine ⟨?_, ?_⟩ <;> decide +kernel

/-- an instance of `C03_code_html_partial`, and the same fact by evaluation -/
example : Config.renderHtml {} 325 (writes3 sampleD).flatten = some htmlD := by
  rw [C03_code_html_partial {} sampleD sampleD_ok (by decide) 325 (by decide +kernel)]
  decide +kernel
example : Config.renderHtml {} 325 (writes3 sampleD).flatten = some htmlD := by decide +kernel

/-- every underline of the specification's shape with at most 3 + 6 + 3 characters passes `ulOk` (192 lines): the facts
    about the scanners that `ulOk` lists hold for them -/
def ulAll : List (Nat × Str) :=
  [(1, '='), (2, '-')].flatMap (fun p => (List.range 4).flatMap (fun n => (List.range 6).flatMap (fun m => (List.range 4).map (fun t =>
    (p.1, sp n ++ List.replicate (m + 1) p.2 ++ sp t ++ ['\n'])))))
example : ulAll.length = 192 ∧ ulAll.all (fun p => ulOk p.1 p.2) = true := by
  refine ⟨?_, ?_⟩ <;> decide +kernel
/-- … and it rejects: four spaces, a mixed run, text behind the run, the wrong level, no run -/
example : [ulOk 1 (L "    ===\n"), ulOk 1 (L "==-\n"), ulOk 2 (L "--- x\n"), ulOk 2 (L "===\n"), ulOk 1 (L "\n"), ulOk 2 (L "- -\n")] =
    List.replicate 6 false := by decide +kernel

/-- **Why no setext heading inside a quote** (recorded finding): `Quote.read` parses its content with
    `Paragraph.parse_setext` off; text and underline come out as one paragraph (the real `mistletoe.markdown` returns the
    same string; the specification gives `<blockquote><h1>a</h1></blockquote>`).  `T3.ok` excludes it. -/
example : Config.renderHtml {} 100 (L "> a\n> ===\n") = some (L "<blockquote>\n<p>a\n===</p>\n</blockquote>\n") := by
  decide +kernel
example : T3.oks [.quote false [.setext 1 [L "a\n"] (L "===\n")]] = false ∧
    T3.oks [.quote false [.list false 0 '-' 1 false [[.setext 1 [L "a\n"] (L "===\n")]]]] = false ∧
    T3.oks [.list false 0 '-' 1 false [[.setext 1 [L "a\n"] (L "===\n")]]] = true := by
  refine ⟨?_, ?_, ?_⟩ <;> decide +kernel

/-- **Why a content line must not pass `CodeFence.read`'s closing test** (new finding): the specification lets a closing
    fence be followed by spaces only, so in "```", "```abc", "x", "```" the second line is content
    (`<pre><code>```abc\nx\n</code></pre>`); `CodeFence.read` asks only that the stripped line begin with the opening
    fence string and be one word, takes "```abc" for the closing line, and goes on with a paragraph and a second
    (unclosed) fence.  The real `mistletoe.markdown` returns the same string as the model (also with tildes). -/
example : Config.renderHtml {} 100 (L "```\n```abc\nx\n```\n") = some (L "<pre><code></code></pre>\n<p>x</p>\n<pre><code></code></pre>\n") := by
  decide +kernel
example : T3.ok (.fence 0 (L "```") [] [L "```abc\n", L "x\n"] (L "```\n")) = false := by decide +kernel

#print axioms C03_code_block_phase_partial
#print axioms C03_code_document_partial
#print axioms C03_code_render_partial
#print axioms C03_code_html_partial

end Mistletoe.ComposeC
