/-
  C19, clause "… one entry per heading …, carrying the heading's plain text".

  `TocRenderer.render_heading` renders the heading to HTML and `parse_rendered_heading` applies
  `re.sub(r'<.+?>', '', rendered)` (`Toc.stripTags`).  Proved here:

  * `stripTags` does not depend on its fuel (`strip_fuel`), removes a tag `<d…>` whose inside has no newline
    and no `>` (`strip_tag`), and copies text without `<` (`strip_text`);
  * for a heading whose children are raw text, emphasis, strong, strikethrough, inline code and escape
    sequences, nested at will (`plainInlines`), the regex removes exactly the tags the renderer wrote
    (`<hN>`, `<em>`, `<strong>`, `<del>`, `<code>` and their closers) and what is left is the HTML-escaped
    concatenation of the leaf strings, WHATEVER these strings are (`C19_escaped_text`): the escaper leaves no
    `<` in text;
  * when the leaf strings contain none of `<`, `>`, `&` (nor `"` when `html_escape_double_quotes`, nor `'` when
    `html_escape_single_quotes` is set) escaping is the identity and the entry carries the plain text itself
    (`C19_plain_text` for `[.rawText t]`, `C19_plain_text_inlines` in general).
-/
import Mistletoe.Model.Toc
import Mistletoe.Proofs.Html
namespace Mistletoe.Toc
open Mistletoe Mistletoe.Html Mistletoe.Escape Mistletoe.Pred

/-! ## The regex, one step at a time -/

theorem strip_zero (s : Str) : stripTagsAux 0 s = s := by
  cases s <;> rfl

theorem strip_step_nil (f : Nat) : stripTagsAux (f + 1) [] = [] := rfl

theorem strip_step_other (f : Nat) (c : Char) (rest : Str) (hc : c ≠ '<') :
    stripTagsAux (f + 1) (c :: rest) = c :: stripTagsAux f rest := by
  simp [stripTagsAux, hc]

theorem strip_step_lt_end (f : Nat) : stripTagsAux (f + 1) ['<'] = ['<'] := by
  simp [stripTagsAux]

theorem strip_step_nl (f : Nat) (rest : Str) :
    stripTagsAux (f + 1) ('<' :: '\n' :: rest) = '<' :: stripTagsAux f ('\n' :: rest) := by
  simp [stripTagsAux]

theorem strip_step_some (f : Nat) (d : Char) (rest after : Str) (hd : d ≠ '\n') (h : findClose rest = some after) :
    stripTagsAux (f + 1) ('<' :: d :: rest) = stripTagsAux f after := by
  simp [stripTagsAux, hd, h]

theorem strip_step_none (f : Nat) (d : Char) (rest : Str) (hd : d ≠ '\n') (h : findClose rest = none) :
    stripTagsAux (f + 1) ('<' :: d :: rest) = '<' :: stripTagsAux f (d :: rest) := by
  simp [stripTagsAux, hd, h]

theorem findClose_length : ∀ (s after : Str), findClose s = some after → after.length < s.length
  | [], _, h => by simp [findClose] at h
  | c :: rest, after, h => by
    simp only [findClose] at h
    split at h
    · cases h
    · split at h
      · cases h; simp
      · have := findClose_length rest after h
        simp only [List.length_cons]; omega

/-- the first `>` after a body without newline and without `>` -/
theorem findClose_body : ∀ (body rest : Str), (∀ c ∈ body, c ≠ '\n' ∧ c ≠ '>') →
    findClose (body ++ '>' :: rest) = some rest
  | [], rest, _ => by simp [findClose]
  | c :: body, rest, h => by
    have hc := h c (List.mem_cons_self ..)
    simp only [List.cons_append, findClose, hc.1, hc.2, if_false]
    exact findClose_body body rest (fun x hx => h x (List.mem_cons_of_mem _ hx))

/-- **the fuel of `stripTagsAux` is immaterial once it covers the string** (each step consumes one unit of
    fuel and at least one character) -/
theorem strip_fuel (fuel : Nat) : ∀ (s : Str), s.length ≤ fuel → stripTagsAux fuel s = stripTagsAux s.length s := by
  induction fuel using Nat.strongRecOn with
  | _ fuel ih =>
    intro s hs
    cases s with
    | nil => cases fuel <;> rfl
    | cons c rest =>
      cases fuel with
      | zero => simp at hs
      | succ f =>
        have hr : rest.length ≤ f := by simpa using hs
        have ihf := ih f (Nat.lt_succ_self f)
        show stripTagsAux (f + 1) (c :: rest) = stripTagsAux (rest.length + 1) (c :: rest)
        by_cases hc : c = '<'
        · subst hc
          cases rest with
          | nil => rw [strip_step_lt_end, strip_step_lt_end]
          | cons d rest' =>
            by_cases hd : d = '\n'
            · subst hd
              rw [strip_step_nl, strip_step_nl, ihf _ hr]
            · cases hf : findClose rest' with
              | none => rw [strip_step_none _ _ _ hd hf, strip_step_none _ _ _ hd hf, ihf _ hr]
              | some after =>
                have hl := findClose_length _ _ hf
                simp only [List.length_cons] at hr
                rw [strip_step_some _ _ _ _ hd hf, strip_step_some _ _ _ _ hd hf]
                rw [ihf after (by omega),
                  ih (d :: rest').length (by simp only [List.length_cons]; omega) after
                    (by simp only [List.length_cons]; omega)]
        · rw [strip_step_other _ _ _ hc, strip_step_other _ _ _ hc, ihf _ hr]

/-- `re.sub(r'<.+?>', '', s)` with exactly the fuel the string needs -/
def strip (s : Str) : Str := stripTagsAux s.length s

theorem stripTags_eq (s : Str) : stripTags s = strip s := strip_fuel _ s (Nat.le_succ _)

theorem strip_nil : strip [] = [] := rfl

/-- a character other than `<` is copied -/
theorem strip_cons (c : Char) (rest : Str) (hc : c ≠ '<') : strip (c :: rest) = c :: strip rest := by
  unfold strip
  simp only [List.length_cons]
  rw [strip_step_other _ _ _ hc]

/-- **text without `<` is copied** -/
theorem strip_text : ∀ (s rest : Str), (∀ c ∈ s, c ≠ '<') → strip (s ++ rest) = s ++ strip rest
  | [], _, _ => rfl
  | c :: s, rest, h => by
    rw [List.cons_append, strip_cons _ _ (h c (List.mem_cons_self ..)),
      strip_text s rest (fun x hx => h x (List.mem_cons_of_mem _ hx))]
    rfl

/-- **a tag is removed**: `<`, one character that is not a newline, a body without newline and `>`, `>` -/
theorem strip_tag (d : Char) (body rest : Str) (hd : d ≠ '\n') (hb : ∀ c ∈ body, c ≠ '\n' ∧ c ≠ '>') :
    strip ('<' :: d :: (body ++ '>' :: rest)) = strip rest := by
  have hf := findClose_body body rest hb
  unfold strip
  simp only [List.length_cons]
  rw [strip_step_some _ _ _ _ hd hf]
  exact strip_fuel _ rest (by simp only [List.length_append, List.length_cons]; omega)

/-! ## Event lists made of attribute-free tags and text without `<` -/

/-- a tag name the regex reads over: no newline, no `>` -/
def tagOk (t : Str) : Bool := t.all (fun c => c != '\n' && c != '>')

/-- an attribute-free open tag with a non-empty name, a close tag, or text without `<` -/
def simpleEv : Ev → Bool
  | .otag t [] => !t.isEmpty && tagOk t
  | .ctag t => tagOk t
  | .text s => s.all (fun c => c != '<')
  | _ => false

/-- the text events, concatenated -/
def textOf : List Ev → Str
  | [] => []
  | .text s :: rest => s ++ textOf rest
  | _ :: rest => textOf rest

theorem textOf_append : ∀ (a b : List Ev), textOf (a ++ b) = textOf a ++ textOf b
  | [], _ => rfl
  | e :: a, b => by
    cases e <;> simp [textOf, textOf_append a b]

theorem tagOk_iff (t : Str) : tagOk t = true ↔ ∀ c ∈ t, c ≠ '\n' ∧ c ≠ '>' := by
  simp [tagOk, List.all_eq_true]

theorem strip_ev (e : Ev) (h : simpleEv e = true) (rest : Str) :
    strip (flatEv e ++ rest) = textOf [e] ++ strip rest := by
  cases e with
  | otag t as =>
    cases as with
    | cons _ _ => simp [simpleEv] at h
    | nil =>
      cases t with
      | nil => simp [simpleEv] at h
      | cons d body =>
        simp only [simpleEv, List.isEmpty_cons, Bool.not_false, Bool.true_and] at h
        have hall := (tagOk_iff _).mp h
        have e1 : flatEv (.otag (d :: body) []) ++ rest = '<' :: d :: (body ++ '>' :: rest) := by
          simp [flatEv, flatAttrs]
        rw [e1, strip_tag d body rest (hall d (List.mem_cons_self ..)).1
          (fun c hc => hall c (List.mem_cons_of_mem _ hc))]
        rfl
  | ctag t =>
    simp only [simpleEv] at h
    have hall := (tagOk_iff _).mp h
    have e1 : flatEv (.ctag t) ++ rest = '<' :: '/' :: (t ++ '>' :: rest) := by
      simp [flatEv]
    rw [e1, strip_tag '/' t rest (by decide) hall]
    rfl
  | vtag t as => simp [simpleEv] at h
  | text s =>
    simp only [simpleEv, List.all_eq_true, bne_iff_ne, ne_eq] at h
    simp only [flatEv, textOf, List.append_nil]
    exact strip_text s rest h
  | raw s => simp [simpleEv] at h

/-- **on the spelling of simple events the regex leaves exactly the text events** -/
theorem strip_flat : ∀ (evs : List Ev), evs.all simpleEv = true → ∀ (rest : Str),
    strip (flat evs ++ rest) = textOf evs ++ strip rest
  | [], _, rest => rfl
  | e :: evs, h, rest => by
    simp only [List.all_cons, Bool.and_eq_true] at h
    have e1 : flat (e :: evs) ++ rest = flatEv e ++ (flat evs ++ rest) := by simp [flat]
    rw [e1, strip_ev e h.1, strip_flat evs h.2 rest]
    have e2 : textOf (e :: evs) = textOf [e] ++ textOf evs := textOf_append [e] evs
    rw [e2, List.append_assoc]

theorem stripTags_flat (evs : List Ev) (h : evs.all simpleEv = true) : stripTags (flat evs) = textOf evs := by
  have := strip_flat evs h []
  rw [stripTags_eq]
  simpa [strip_nil] using this

/-! ## The heading tags and the inline tags are simple; escaped text has no `<` -/

theorem natDigitsAux_mem (fuel : Nat) : ∀ (n : Nat) (acc : Str), ∀ c ∈ natDigitsAux fuel n acc, c ∈ decDigits ∨ c ∈ acc := by
  induction fuel with
  | zero =>
    intro n acc c hc
    simp only [natDigitsAux, List.mem_cons] at hc
    rcases hc with rfl | hc
    · exact .inl (decDigit_mem n)
    · exact .inr hc
  | succ f ih =>
    intro n acc c hc
    simp only [natDigitsAux] at hc
    split at hc
    · simp only [List.mem_cons] at hc
      rcases hc with rfl | hc
      · exact .inl (decDigit_mem n)
      · exact .inr hc
    · rcases ih _ _ c hc with h | h
      · exact .inl h
      · simp only [List.mem_cons] at h
        rcases h with rfl | h
        · exact .inl (decDigit_mem n)
        · exact .inr h

/-- `h` and the decimal digits of the level: a tag name without newline and `>`, for EVERY level -/
theorem headingTag_ok (l : Nat) : tagOk ('h' :: natDigits l) = true := by
  rw [tagOk_iff]
  intro c hc
  simp only [List.mem_cons] at hc
  rcases hc with rfl | hc
  · decide
  · have hd : ∀ x ∈ decDigits, x ≠ '\n' ∧ x ≠ '>' := by decide
    rcases natDigitsAux_mem l l [] c hc with h | h
    · exact hd c h
    · cases h

/-- text that is `safeText` (no `<`, no `>`, `&` only in references) has no `<` -/
theorem safeText_no_lt : ∀ (s : Str), safeText s = true → s.all (fun c => c != '<') = true
  | [], _ => rfl
  | c :: rest, h => by
    simp only [safeText] at h
    split at h
    · rename_i hc
      simp only [Bool.and_eq_true] at h
      subst hc
      simp only [List.all_cons, Bool.and_eq_true]
      exact ⟨by decide, safeText_no_lt rest h.2⟩
    · simp only [Bool.and_eq_true] at h
      simp only [List.all_cons, Bool.and_eq_true]
      exact ⟨h.1.1, safeText_no_lt rest h.2⟩

theorem escaped_simple (q : Quotes) (c : Str) : simpleEv (.text (escapeHtmlText q.dq q.sq c)) = true :=
  safeText_no_lt _ (safeText_escapeHtmlText q.dq q.sq c)

theorem escapeHtmlText_append (dq sq : Bool) (a b : Str) :
    escapeHtmlText dq sq (a ++ b) = escapeHtmlText dq sq a ++ escapeHtmlText dq sq b := by
  unfold escapeHtmlText mapChars
  exact List.flatMap_append

mutual
/-- inline tokens that render to attribute-free tags and escaped text only: raw text, emphasis, strong,
    strikethrough, inline code, escape sequences, nested at will -/
def plainInline : Inline → Bool
  | .rawText _ => true
  | .emphasis _ k => plainInlines k
  | .strong _ k => plainInlines k
  | .strikethrough k => plainInlines k
  | .inlineCode _ _ _ => true
  | .escapeSequence _ => true
  | _ => false
def plainInlines : List Inline → Bool
  | [] => true
  | i :: is => plainInline i && plainInlines is
end

mutual
/-- the plain text of such a token: its leaf strings, concatenated in order -/
def leafText : Inline → Str
  | .rawText c => c
  | .emphasis _ k => leafTexts k
  | .strong _ k => leafTexts k
  | .strikethrough k => leafTexts k
  | .inlineCode _ _ c => c
  | .escapeSequence c => c
  | _ => []
def leafTexts : List Inline → Str
  | [] => []
  | i :: is => leafText i ++ leafTexts is
end

theorem all_simple_append (a b : List Ev) (ha : a.all simpleEv = true) (hb : b.all simpleEv = true) :
    (a ++ b).all simpleEv = true := by
  rw [List.all_append, ha, hb]; rfl

/-- `[<t>] ++ inner ++ [</t>]` for an attribute-free tag -/
theorem wrap_simple (t : Str) (hne : t ≠ []) (ht : tagOk t = true) (inner : List Ev) (text : Str)
    (hi : inner.all simpleEv = true ∧ textOf inner = text) :
    ([Ev.otag t []] ++ inner ++ [Ev.ctag t]).all simpleEv = true ∧
    textOf ([Ev.otag t []] ++ inner ++ [Ev.ctag t]) = text := by
  have ho : simpleEv (.otag t []) = true := by
    cases t with
    | nil => exact absurd rfl hne
    | cons d b => simpa [simpleEv] using ht
  refine ⟨?_, ?_⟩
  · simp only [List.all_append, List.all_cons, List.all_nil, Bool.and_true, Bool.and_eq_true]
    exact ⟨⟨ho, hi.1⟩, by simpa [simpleEv] using ht⟩
  · rw [textOf_append, textOf_append, hi.2]
    simp [textOf]

mutual
theorem inline_simple (q : Quotes) : ∀ (i : Inline), plainInline i = true →
    (renderInline q i).all simpleEv = true ∧ textOf (renderInline q i) = escapeHtmlText q.dq q.sq (leafText i)
  | .rawText c, _ => by
    simp only [renderInline, leafText, textOf, List.append_nil, List.all_cons, List.all_nil, Bool.and_true]
    exact ⟨escaped_simple q c, trivial⟩
  | .emphasis _ k, h => by
    simp only [plainInline] at h
    simp only [renderInline, leafText]
    exact wrap_simple _ (by decide) (by decide) _ _ (inlines_simple q k h)
  | .strong _ k, h => by
    simp only [plainInline] at h
    simp only [renderInline, leafText]
    exact wrap_simple _ (by decide) (by decide) _ _ (inlines_simple q k h)
  | .strikethrough k, h => by
    simp only [plainInline] at h
    simp only [renderInline, leafText]
    exact wrap_simple _ (by decide) (by decide) _ _ (inlines_simple q k h)
  | .inlineCode _ _ c, _ => by
    simp only [renderInline, leafText]
    have := wrap_simple "code".toList (by decide) (by decide) [.text (escapeHtmlText q.dq q.sq c)]
      (escapeHtmlText q.dq q.sq c)
      ⟨by simp only [List.all_cons, List.all_nil, Bool.and_true]; exact escaped_simple q c, by simp [textOf]⟩
    simpa using this
  | .escapeSequence c, _ => by
    simp only [renderInline, leafText, textOf, List.append_nil, List.all_cons, List.all_nil, Bool.and_true]
    exact ⟨escaped_simple q c, trivial⟩
  | .image .., h => by simp [plainInline] at h
  | .link .., h => by simp [plainInline] at h
  | .autoLink .., h => by simp [plainInline] at h
  | .lineBreak .., h => by simp [plainInline] at h
  | .htmlSpan _, h => by simp [plainInline] at h
  | .math _, h => by simp [plainInline] at h
  | .githubWiki .., h => by simp [plainInline] at h
  | .xwikiMacroStart _, h => by simp [plainInline] at h
  | .xwikiMacroEnd _, h => by simp [plainInline] at h
  | .linkRefDef .., h => by simp [plainInline] at h
theorem inlines_simple (q : Quotes) : ∀ (k : List Inline), plainInlines k = true →
    (renderInlines q k).all simpleEv = true ∧ textOf (renderInlines q k) = escapeHtmlText q.dq q.sq (leafTexts k)
  | [], _ => ⟨rfl, rfl⟩
  | i :: is, h => by
    simp only [plainInlines, Bool.and_eq_true] at h
    obtain ⟨h1, h2⟩ := inline_simple q i h.1
    obtain ⟨h3, h4⟩ := inlines_simple q is h.2
    simp only [renderInlines, leafTexts]
    exact ⟨all_simple_append _ _ h1 h3, by rw [textOf_append, h2, h4, escapeHtmlText_append]⟩
end

/-- **what `parse_rendered_heading` returns for a heading with such children**: the regex removes the heading
    tags and the inline tags, and nothing else — for every level and every leaf string -/
theorem heading_content (q : Quotes) (l : Nat) (k : List Inline) (hk : plainInlines k = true) :
    stripTags (flat ([Ev.otag ('h' :: natDigits l) []] ++ renderInlines q k ++ [Ev.ctag ('h' :: natDigits l)]))
      = escapeHtmlText q.dq q.sq (leafTexts k) := by
  have := wrap_simple ('h' :: natDigits l) (by simp) (headingTag_ok l) _ _ (inlines_simple q k hk)
  rw [stripTags_flat _ this.1, this.2]

/-! ## When escaping is the identity -/

/-- a character `escape_html_text` leaves alone under the quote options `q`: not `<`, `>`, `&`; not `"` when
    `html_escape_double_quotes`; not `'` when `html_escape_single_quotes` -/
def plainChar (q : Quotes) (c : Char) : Bool :=
  c != '<' && c != '>' && c != '&' && !(q.dq && c == '"') && !(q.sq && c == '\'')

/-- text made of such characters -/
def plainStr (q : Quotes) (t : Str) : Bool := t.all (plainChar q)

/-- the probed ASCII table maps every plain character to itself -/
def tblIdent (q : Quotes) (tbl : List Str) : Bool :=
  (List.range 128).all (fun n => !plainChar q (Char.ofNat n) || tbl.getD n [Char.ofNat n] == [Char.ofNat n])

theorem mapChars_ident_of (q : Quotes) (tbl : List Str) (ht : tblIdent q tbl = true) :
    ∀ (s : Str), plainStr q s = true → mapChars tbl ident s = s
  | [], _ => rfl
  | c :: s, h => by
    simp only [plainStr, List.all_cons, Bool.and_eq_true] at h
    have ih := mapChars_ident_of q tbl ht s h.2
    unfold mapChars at ih ⊢
    rw [List.flatMap_cons, ih]
    have hc : (if c.toNat < 128 then tbl.getD c.toNat [c] else ident c) = [c] := by
      split
      · rename_i hlt
        have := List.all_eq_true.mp ht c.toNat (List.mem_range.mpr hlt)
        rw [Char.ofNat_toNat] at this
        simpa [h.1] using this
      · rfl
    rw [hc]; rfl

/-- **on plain text `escape_html_text` is the identity**, under each of the four quote options (the tables
    are the ones probed from /repo) -/
theorem escape_ident (q : Quotes) (s : Str) (h : plainStr q s = true) : escapeHtmlText q.dq q.sq s = s := by
  obtain ⟨dq, sq⟩ := q
  cases dq <;> cases sq
  · exact mapChars_ident_of ⟨false, false⟩ _ (by decide +kernel) s h
  · exact mapChars_ident_of ⟨false, true⟩ _ (by decide +kernel) s h
  · exact mapChars_ident_of ⟨true, false⟩ _ (by decide +kernel) s h
  · exact mapChars_ident_of ⟨true, true⟩ _ (by decide +kernel) s h

/-- the condition is exact on ASCII: every other character is changed by the escaper -/
example : ∀ dq ∈ [false, true], ∀ sq ∈ [false, true], (List.range 128).all (fun n =>
    plainChar ⟨dq, sq⟩ (Char.ofNat n) == (escapeHtmlText dq sq [Char.ofNat n] == [Char.ofNat n])) = true := by
  decide +kernel

end Mistletoe.Toc

namespace Mistletoe.Props.C19
open Mistletoe Mistletoe.Html Mistletoe.Toc Mistletoe.Escape

/-- the side effect of `render_heading` for a heading whose plain text is `c` -/
def entryWith (cfg : Cfg) (l : Nat) (c : Str) : List (Nat × Str) :=
  if (cfg.omitTitle && l == 1) || decide (l > cfg.depth) || cfg.excluded c then [] else [(l, c)]

/-- **the entry of a heading made of raw text, emphasis, strong, strikethrough, inline code and escape
    sequences carries the HTML-escaped concatenation of its leaf strings** — whatever they contain, for every
    level and every option set: `re.sub(r'<.+?>', '', rendered)` removes exactly the tags the renderer wrote. -/
theorem C19_escaped_text (q : Quotes) (cfg : Cfg) (l : Nat) (k : List Inline) (hk : plainInlines k = true) :
    entry q cfg l k = entryWith cfg l (escapeHtmlText q.dq q.sq (leafTexts k)) := by
  unfold entry entryWith
  simp only [heading_content q l k hk]

/-- **C19, plain text (generalised)**: if moreover the leaf strings hold no character the escaper changes
    (`plainStr`: no `<`, `>`, `&`; no `"` / `'` when the corresponding option is on), the entry carries the
    concatenated plain text itself: the tags `<hN>`, `<em>`, `<strong>`, `<del>`, `<code>` are stripped. -/
theorem C19_plain_text_inlines (q : Quotes) (cfg : Cfg) (l : Nat) (k : List Inline) (hk : plainInlines k = true)
    (ht : plainStr q (leafTexts k) = true) : entry q cfg l k = entryWith cfg l (leafTexts k) := by
  rw [C19_escaped_text q cfg l k hk, escape_ident q _ ht]

/-- **C19, plain text**: for a heading of level `l` whose only child is the raw text `t`, with `t` free of `<`,
    `>`, `&` (and of `"` resp. `'` when `html_escape_double_quotes` resp. `html_escape_single_quotes` is set —
    with the default options both quotes are allowed), the collected entry, when the heading qualifies, is
    `(l, t)`: the regex removes exactly the opening and the closing heading tag. -/
theorem C19_plain_text (q : Quotes) (cfg : Cfg) (l : Nat) (t : Str) (ht : plainStr q t = true) :
    entry q cfg l [.rawText t] =
      if (cfg.omitTitle && l == 1) || decide (l > cfg.depth) || cfg.excluded t then [] else [(l, t)] := by
  have := C19_plain_text_inlines q cfg l [.rawText t] rfl (by simpa [leafTexts, leafText] using ht)
  simpa [leafTexts, leafText, entryWith] using this

/-- the same, read off the collection: every entry an ATX or setext heading `[.rawText t]` contributes has text `t` -/
theorem C19_plain_text_collect (q : Quotes) (cfg : Cfg) (l : Nat) (t : Str) (ht : plainStr q t = true) (x : Str) (ln : Nat) :
    (∀ e ∈ collect q cfg (.heading l x [.rawText t] ln), e = (l, t)) ∧
    (∀ e ∈ collect q cfg (.setextHeading l x [.rawText t] ln), e = (l, t)) ∧
    (¬ (cfg.omitTitle = true ∧ l = 1) → l ≤ cfg.depth → cfg.excluded t = false →
      collect q cfg (.heading l x [.rawText t] ln) = [(l, t)]) := by
  have h := C19_plain_text q cfg l t ht
  refine ⟨?_, ?_, ?_⟩
  · intro e he
    simp only [collect, h] at he
    split at he
    · cases he
    · simpa using he
  · intro e he
    simp only [collect, h] at he
    split at he
    · cases he
    · simpa using he
  · intro h1 h2 h3
    simp only [collect, h]
    have : ((cfg.omitTitle && l == 1) || decide (l > cfg.depth) || cfg.excluded t) = false := by
      simp only [Bool.or_eq_false_iff, Bool.and_eq_false_iff, decide_eq_false_iff_not, h3, and_true]
      refine ⟨?_, by omega⟩
      cases ho : cfg.omitTitle
      · exact .inl rfl
      · right
        simp only [beq_eq_false_iff_ne, ne_eq]
        intro hl; exact h1 ⟨ho, hl⟩
    rw [this]; rfl

/-! ### Non-vacuity -/

/-- quotes are plain under the default options; the entry is the text -/
example : plainStr ⟨false, false⟩ "Intro: 'x' \"y\" – z".toList = true ∧
    entry ⟨false, false⟩ {} 2 [.rawText "Intro: 'x' \"y\" – z".toList] = [(2, "Intro: 'x' \"y\" – z".toList)] := by
  decide +kernel

/-- formatted title: `## a *b* **`c`** ~~d~~ \*` -/
def sampleKids : List Inline :=
  [.rawText "a ".toList, .emphasis "*".toList [.rawText "b".toList], .rawText " ".toList,
   .strong "**".toList [.inlineCode "`".toList [] "c".toList], .rawText " ".toList,
   .strikethrough [.rawText "d".toList], .rawText " ".toList, .escapeSequence "*".toList]

example : plainInlines sampleKids = true ∧ plainStr ⟨true, true⟩ (leafTexts sampleKids) = true ∧
    String.ofList (flat ([Ev.otag ('h' :: natDigits 3) []] ++ renderInlines ⟨true, true⟩ sampleKids ++ [Ev.ctag ('h' :: natDigits 3)]))
      = "<h3>a <em>b</em> <strong><code>c</code></strong> <del>d</del> *</h3>" ∧
    entry ⟨true, true⟩ {} 3 sampleKids = [(3, "a b c d *".toList)] := by
  decide +kernel

/-- the theorems applied -/
example : entry ⟨true, true⟩ {} 3 sampleKids = [(3, leafTexts sampleKids)] :=
  C19_plain_text_inlines ⟨true, true⟩ {} 3 sampleKids (by decide +kernel) (by decide +kernel)

/-- the hypothesis is needed: a `<` in the text reaches the entry in escaped form (which is what
    `C19_escaped_text` says), and an entry is dropped when the heading does not qualify -/
example : entry ⟨false, false⟩ {} 2 [.rawText "a<b>&".toList] = [(2, "a&lt;b&gt;&amp;".toList)] ∧
    entry ⟨false, false⟩ {} 1 [.rawText "t".toList] = [] ∧ entry ⟨false, false⟩ {} 6 [.rawText "t".toList] = [] ∧
    entry ⟨false, false⟩ { omitTitle := false } 1 [.rawText "t".toList] = [(1, "t".toList)] := by
  decide +kernel

/-- outside `plainInlines`: a tag the regex does NOT remove.  `.` does not match a newline, so a link title
    holding a line ending (possible in a setext heading) keeps `<a …>` in the entry while `</a>` goes -/
example : String.ofList (stripTags (flat (renderInlines ⟨false, false⟩
      [.link "u".toList "x\ny".toList .uri none none [.rawText "t".toList]]))) = "<a href=\"u\" title=\"x\ny\">t" := by
  decide +kernel

end Mistletoe.Props.C19

section Audit
open Mistletoe.Props.C19 Mistletoe.Toc
#print axioms strip_fuel
#print axioms C19_escaped_text
#print axioms C19_plain_text_inlines
#print axioms C19_plain_text
#print axioms C19_plain_text_collect
end Audit
