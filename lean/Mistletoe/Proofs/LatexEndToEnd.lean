/-
  C17 end to end: parser followed by the LaTeX renderer, for EVERY text.

  `Props/C17.lean` (`C17_structure`) holds for every token tree with no hypothesis;
  `Proofs/LatexTotal.lean` (`C01_latex_total`) says that under the LaTeX renderer's own token lists every
  text parses and the renderer either returns `Latex.render d` or raises the documented `\verb` refusal.
  Composed: for every text, `LaTeXRenderer().render(Document(text))` either refuses (and then some inline
  code of the document contains every `verb_delimiters` character) or returns the spelling of an event list
  with properly nested groups/environments, the renderer's own commands only, and every piece of document
  text, URL and `\verb` delimiter safe.
-/
import Mistletoe.Props.C17
import Mistletoe.Proofs.LatexTotal

namespace Mistletoe.Props.C17
open Mistletoe Mistletoe.Block Mistletoe.Lines

/-- **Every document the LaTeX configuration parses**: the renderer refuses, or its output is the spelling
    of a well-formed event list (for every gas; no hypothesis on the tree). -/
theorem C17_parsed (cfg : Document.Cfg) (hc : Config.latex = some cfg) (gas : Nat) (t : Str) (d : Doc)
    (h : Document.parse cfg gas t = .ok d) :
    (Latex.renderRes d = .err (.refusal 0) ∧ ∃ c ∈ Latex.codes d, Latex.UsesAllDelims c) ∨
    (Latex.renderRes d = .ok (Latex.flat (Latex.renderDoc d)) ∧ PredLatex.WellFormed (Latex.renderDoc d)) := by
  rcases Props.C01.C01_latex_total_or_refusal cfg hc gas t d h with ⟨out, ho⟩ | hr
  · right
    have := Latex.renderRes_ok d ho
    subst this
    exact ⟨by rw [ho, (C17_structure d).1], (C17_structure d).2⟩
  · left; exact hr

/-- **`LaTeXRenderer().render(Document(text))`, for every text**: with the token lists the LaTeX renderer
    installs (regenerated from /repo) and enough gas, the parse returns a document `d`, and EITHER the renderer
    raises the documented refusal (`RuntimeError('Unable to find delimiter for verb macro')`: some inline code of
    `d` contains all 42 delimiter characters) OR it returns `flat (renderDoc d)` where `renderDoc d` is
    `WellFormed`: brace groups and `\begin`/`\end` pairs properly nested, only the renderer's commands,
    environments and literal template text, every piece of document text `SafeText`, every URL `UrlSafe`, every
    `\verb` delimiter absent from its code. -/
theorem C17_every_text (cfg : Document.Cfg) (hc : Config.latex = some cfg) (gas : Nat) (t : Str)
    (hg : gasBound cfg.block (docBuf (normalize (.str t))) ≤ gas) :
    ∃ d, Document.parse cfg gas t = .ok d ∧ Config.renderLatex gas t = some (Latex.renderRes d) ∧
      ((Latex.renderRes d = .err (.refusal 0) ∧ ∃ c ∈ Latex.codes d, Latex.UsesAllDelims c) ∨
       (Latex.renderRes d = .ok (Latex.flat (Latex.renderDoc d)) ∧ PredLatex.WellFormed (Latex.renderDoc d))) := by
  obtain ⟨d, hd⟩ := Props.C01.C01_parse_terminates cfg gas t hg
  refine ⟨d, hd, ?_, C17_parsed cfg hc gas t d hd⟩
  simp [Config.renderLatex, hc, hd, Res.bind]

/-! ### Non-vacuity -/

/-- a text full of LaTeX specials: an escape sequence, `%`, a math span, `#`, `&`, a brace, an inline code with
    the first delimiter in it, an image whose URL holds a brace, a raw tag (plain text for this renderer) -/
def hostileText : Str := "\\{ 50% $x_1^2$ #1 & } `a|b` ![i](x}y) <b>".toList

/-- the output of the real code: `mistletoe.markdown('\\{ 50% $x_1^2$ #1 & } `a|b` ![i](x}y) <b>', LaTeXRenderer)` -/
example : Config.renderLatex 50 hostileText = some (.ok
    "\\documentclass{article}\n\\usepackage{amsmath}\n\\usepackage{amsfonts}\n\\usepackage{amssymb}\n\\usepackage{graphicx}\n\\begin{document}\n\n\\{ 50\\% $x_1^2$ \\#1 \\& \\} \\verb!a|b! \n\\includegraphics{x\\%7Dy}\n <b>\n\\end{document}\n".toList) := by
  decide +kernel

/-- the theorem applied: configuration known, gas bound satisfiable -/
example : ∃ d, Document.parse (Config.latex.get (by decide +kernel)) 6000 hostileText = .ok d ∧
    Config.renderLatex 6000 hostileText = some (Latex.renderRes d) ∧
    ((Latex.renderRes d = .err (.refusal 0) ∧ ∃ c ∈ Latex.codes d, Latex.UsesAllDelims c) ∨
     (Latex.renderRes d = .ok (Latex.flat (Latex.renderDoc d)) ∧ PredLatex.WellFormed (Latex.renderDoc d))) :=
  C17_every_text (Config.latex.get (by decide +kernel)) (Option.some_get _).symm 6000 _ (by decide +kernel)

/-- both sides of the disjunction occur: the refusal witness of Proofs/LatexTotal.lean -/
example : Config.renderLatex 50 Props.C01.refusalText = some (.err (.refusal 0)) := by decide +kernel

end Mistletoe.Props.C17

section Audit
open Mistletoe.Props.C17
#print axioms C17_parsed
#print axioms C17_every_text
end Audit
