/-
  C13, block token constructors: `make_tokens` (Document.mkBlock / mkBlocks / mkItems, tableRow /
  tableRows) copies the line numbers of the parse buffer into the tokens and never recomputes them.
  The pre-order listing (kind, line_number) of the blocks of a document equals the listing computed
  from the parse buffer alone.
-/
import Mistletoe.Proofs.DocTotal
namespace Mistletoe.Document
open Mistletoe Mistletoe.Py Mistletoe.Scan Mistletoe.Block Mistletoe.Inline

/-- kinds of block tokens (one per AST constructor) -/
inductive BKind where
  | paragraph | heading | setextHeading | quote | blockCode | codeFence | list | listItem
  | table | tableRow | tableCell | thematicBreak | htmlBlock | blankLine | linkRefDefBlock
  deriving Repr, DecidableEq, Inhabited

/-- `token.line_number` -/
def blockLn : Mistletoe.Block → Nat
  | .paragraph _ ln => ln
  | .heading _ _ _ ln => ln
  | .setextHeading _ _ _ ln => ln
  | .quote _ ln => ln
  | .blockCode _ ln => ln
  | .codeFence _ _ _ _ _ ln => ln
  | .list _ _ _ ln => ln
  | .listItem _ _ _ _ _ ln => ln
  | .table _ _ _ ln => ln
  | .tableRow _ _ ln => ln
  | .tableCell _ _ ln => ln
  | .thematicBreak _ ln => ln
  | .htmlBlock _ ln => ln
  | .blankLine ln => ln
  | .linkRefDefBlock _ ln => ln

def blockKind : Mistletoe.Block → BKind
  | .paragraph _ _ => .paragraph
  | .heading _ _ _ _ => .heading
  | .setextHeading _ _ _ _ => .setextHeading
  | .quote _ _ => .quote
  | .blockCode _ _ => .blockCode
  | .codeFence _ _ _ _ _ _ => .codeFence
  | .list _ _ _ _ => .list
  | .listItem _ _ _ _ _ _ => .listItem
  | .table _ _ _ _ => .table
  | .tableRow _ _ _ => .tableRow
  | .tableCell _ _ _ => .tableCell
  | .thematicBreak _ _ => .thematicBreak
  | .htmlBlock _ _ => .htmlBlock
  | .blankLine _ => .blankLine
  | .linkRefDefBlock _ _ => .linkRefDefBlock

mutual
/-- pre-order listing (kind, line_number) of a block and everything nested in it: list items,
    the children of quotes and items, table header, rows and cells -/
def blockLns : Mistletoe.Block → List (BKind × Nat)
  | .paragraph _ ln => [(.paragraph, ln)]
  | .heading _ _ _ ln => [(.heading, ln)]
  | .setextHeading _ _ _ ln => [(.setextHeading, ln)]
  | .quote kids ln => (.quote, ln) :: blocksLns kids
  | .blockCode _ ln => [(.blockCode, ln)]
  | .codeFence _ _ _ _ _ ln => [(.codeFence, ln)]
  | .list _ _ items ln => (.list, ln) :: blocksLns items
  | .listItem _ _ _ _ kids ln => (.listItem, ln) :: blocksLns kids
  | .table _ header rows ln => (.table, ln) :: (blocksLns header ++ blocksLns rows)
  | .tableRow _ cells ln => (.tableRow, ln) :: blocksLns cells
  | .tableCell _ _ ln => [(.tableCell, ln)]
  | .thematicBreak _ ln => [(.thematicBreak, ln)]
  | .htmlBlock _ ln => [(.htmlBlock, ln)]
  | .blankLine ln => [(.blankLine, ln)]
  | .linkRefDefBlock _ ln => [(.linkRefDefBlock, ln)]
def blocksLns : List Mistletoe.Block → List (BKind × Nat)
  | [] => []
  | b :: bs => blockLns b ++ blocksLns bs
end

def docLns (d : Doc) : List (BKind × Nat) := blocksLns d.kids

/-- the head of the listing of a block is its own kind and number -/
theorem blockLns_head (b : Mistletoe.Block) : (blockLns b).head? = some (blockKind b, blockLn b) := by
  cases b <;> simp [blockLns, blockKind, blockLn]

/-! ### The same listing, computed from the parse buffer alone -/

/-- the cells `TableRow.__init__` finds in a line -/
def cellsOf (line : Str) : List Str := (splitPipes (strip line) none []).filter (fun c => !c.isEmpty)

/-- one table row numbered `n`: the row and its cells (`zip_longest` of the cells and the alignment) -/
def rowLns (line : Str) (nAlign : Nat) (n : Nat) : List (BKind × Nat) :=
  (.tableRow, n) :: List.replicate (max (cellsOf line).length (if nAlign = 0 then 1 else nAlign)) (.tableCell, n)

/-- consecutive rows numbered `n, n+1, …` -/
def rowsLns : List Str → Nat → Nat → List (BKind × Nat)
  | [], _, _ => []
  | l :: rest, nAlign, n => rowLns l nAlign n ++ rowsLns rest nAlign (n + 1)

mutual
/-- listing of an entry.  `useOg = false`: the numbers the entry reports (`ln`, and `startLine` for
    the rows of a table); `useOg = true`: the ghost origin of the line the entry was found on
    (header row = that line, body row k = that line + 2 + k).  A Footnote entry yields no token. -/
def entryLnsG (useOg : Bool) : Entry → List (BKind × Nat)
  | .blockCode _ ln og => [(.blockCode, if useOg then og else ln)]
  | .heading _ _ _ ln og => [(.heading, if useOg then og else ln)]
  | .quote inner _ ln og => (.quote, if useOg then og else ln) :: entriesLnsG useOg inner
  | .codeFence _ _ _ _ _ ln og => [(.codeFence, if useOg then og else ln)]
  | .thematicBreak _ ln og => [(.thematicBreak, if useOg then og else ln)]
  | .list items ln og => (.list, if useOg then og else ln) :: itemsLnsG useOg items
  | .table lines startLine ln og =>
    let sl := if useOg then og else startLine
    (.table, if useOg then og else ln) ::
      (match lines with
       | l0 :: l1 :: rest =>
         if l1.contains '-' then rowLns l0 (findAligns l1).length sl ++ rowsLns rest (findAligns l1).length (sl + 2)
         else rowsLns lines 0 sl
       | _ => [])
  | .footnote _ _ _ => []
  | .linkRefDefs _ ln og => [(.linkRefDefBlock, if useOg then og else ln)]
  | .paragraph _ ln og => [(.paragraph, if useOg then og else ln)]
  | .setext _ ln og => [(.setextHeading, if useOg then og else ln)]
  | .htmlBlock _ ln og => [(.htmlBlock, if useOg then og else ln)]
  | .blankLine ln og => [(.blankLine, if useOg then og else ln)]
def entriesLnsG (useOg : Bool) : List Entry → List (BKind × Nat)
  | [] => []
  | e :: es => entryLnsG useOg e ++ entriesLnsG useOg es
def itemsLnsG (useOg : Bool) : List Item → List (BKind × Nat)
  | [] => []
  | .mk inner _ _ _ _ ln og :: is => ((.listItem, if useOg then og else ln) :: entriesLnsG useOg inner) ++ itemsLnsG useOg is
end

/-- listing from the numbers the buffer reports -/
abbrev entryLns := entryLnsG false
abbrev entriesLns := entriesLnsG false
/-- listing from the ghost origins -/
abbrev entriesOgs := entriesLnsG true

/-! ### The constructors copy the numbers -/

theorem blocksLns_append : ∀ (a b : List Mistletoe.Block), blocksLns (a ++ b) = blocksLns a ++ blocksLns b
  | [], b => by simp [blocksLns]
  | x :: xs, b => by simp [blocksLns, blocksLns_append xs b]

theorem zipLongest_length : ∀ (cs : List Str) (as : List (Option Nat)), (zipLongest cs as).length = max cs.length as.length
  | [], as => by simp [zipLongest]
  | c :: cs, [] => by simp [zipLongest, zipLongest_length cs []]
  | c :: cs, a :: as => by simp only [zipLongest, List.length_cons, zipLongest_length cs as]; omega

theorem tableRow_go_lns (cfg : Cfg) (fn : Footnotes.Table) (ln : Nat) :
    ∀ (zs : List (Option Str × Option Nat)) (cs : List Mistletoe.Block), tableRow.go cfg fn ln zs = .ok cs →
      blocksLns cs = List.replicate zs.length (.tableCell, ln)
  | [], cs, h => by simp only [tableRow.go] at h; cases h; rfl
  | (c, a) :: rest, cs, h => by
    simp only [tableRow.go] at h
    split at h
    · cases h
    · split at h
      · cases h
      · rename_i more hmore
        cases h
        simp only [blocksLns, blockLns, List.length_cons, List.replicate_succ, tableRow_go_lns cfg fn ln rest more hmore]
        rfl

/-- `TableRow(line, row_align, line_number)`: the row and every cell carry `line_number` -/
theorem tableRow_lns (cfg : Cfg) (fn : Footnotes.Table) (line : Str) (al : List (Option Nat)) (n : Nat) (r : Mistletoe.Block)
    (h : tableRow cfg fn line al n = .ok r) : blockLns r = rowLns line al.length n := by
  unfold tableRow at h
  simp only at h
  split at h
  · cases h
  · rename_i cs hcs
    cases h
    have := tableRow_go_lns cfg fn n _ cs hcs
    simp only [blockLns, rowLns, this, zipLongest_length, cellsOf]
    congr 3
    cases al with
    | nil => simp
    | cons a as => simp

theorem tableRows_lns (cfg : Cfg) (fn : Footnotes.Table) : ∀ (ls : List Str) (al : List (Option Nat)) (n : Nat) (rs : List Mistletoe.Block),
    tableRows cfg fn ls al n = .ok rs → blocksLns rs = rowsLns ls al.length n
  | [], _, _, rs, h => by simp only [tableRows] at h; cases h; rfl
  | l :: rest, al, n, rs, h => by
    simp only [tableRows] at h
    split at h
    · cases h
    · rename_i r hr
      split at h
      · cases h
      · rename_i more hmore
        cases h
        simp only [blocksLns, rowsLns, tableRow_lns cfg fn l al n r hr, tableRows_lns cfg fn rest al (n + 1) more hmore]

theorem mapRes_length {α β} (f : α → Res β) : ∀ (xs : List α) (ys : List β), mapRes f xs = .ok ys → ys.length = xs.length
  | [], ys, h => by simp only [mapRes] at h; cases h; rfl
  | x :: xs, ys, h => by
    simp only [mapRes] at h
    split at h
    · cases h
    · split at h
      · cases h
      · rename_i zs hzs
        cases h
        simp only [List.length_cons, mapRes_length f xs zs hzs]

/-- listing of what `mkBlock` returns (`None` for a Footnote entry) -/
def optLns : Option Mistletoe.Block → List (BKind × Nat)
  | some b => blockLns b
  | none => []

mutual
theorem mkBlock_lns (cfg : Cfg) (fn : Footnotes.Table) :
    ∀ (e : Entry) (b : Option Mistletoe.Block), mkBlock cfg fn e = .ok b → optLns b = entryLns e
  | .blockCode ls ln og, b, h => by simp only [mkBlock] at h; cases h; rfl
  | .heading lvl content closing ln og, b, h => by
    simp only [mkBlock] at h
    split at h
    · cases h
    · cases h; rfl
  | .quote inner lo ln og, b, h => by
    simp only [mkBlock] at h
    split at h
    · cases h
    · rename_i kids hk
      cases h
      simp only [optLns, blockLns, entryLns, entryLnsG, mkBlocks_lns cfg fn inner kids hk]
      rfl
  | .codeFence ls p ld info lang ln og, b, h => by simp only [mkBlock] at h; cases h; rfl
  | .thematicBreak line ln og, b, h => by simp only [mkBlock] at h; cases h; rfl
  | .list items ln og, b, h => by
    simp only [mkBlock] at h
    split at h
    · cases h
    · rename_i its hits
      split at h
      · cases h
      · cases h
        simp only [optLns, blockLns, entryLns, entryLnsG, mkItems_lns cfg fn _ its hits]
        rfl
  | .table lines sl ln og, b, h => by
    simp only [mkBlock] at h
    split at h
    · rename_i l0 l1 rest
      split at h
      · rename_i hdash
        split at h
        · cases h
        · rename_i al hal
          have hlen := mapRes_length parseAlign _ al hal
          split at h
          · cases h
          · rename_i hd hhd
            split at h
            · cases h
            · rename_i rows hrows
              cases h
              simp only [optLns, blockLns, blocksLns, entryLns, entryLnsG, hdash, if_true, List.append_nil,
                tableRow_lns cfg fn l0 al sl hd hhd, tableRows_lns cfg fn rest al (sl + 2) rows hrows, hlen]
              rfl
      · rename_i hdash
        split at h
        · cases h
        · rename_i rows hrows
          cases h
          have := tableRows_lns cfg fn _ [] sl rows hrows
          simp only [optLns, blockLns, blocksLns, entryLns, entryLnsG, hdash, this, List.length_nil, List.nil_append]
          rfl
    · cases h
  | .footnote ms ln og, b, h => by simp only [mkBlock] at h; cases h; rfl
  | .linkRefDefs ms ln og, b, h => by simp only [mkBlock] at h; cases h; rfl
  | .paragraph lines ln og, b, h => by
    simp only [mkBlock] at h
    split at h
    · cases h
    · cases h; rfl
  | .setext lines ln og, b, h => by
    simp only [mkBlock] at h
    split at h
    · cases h
    · split at h
      · cases h
      · cases h; rfl
  | .htmlBlock lines ln og, b, h => by simp only [mkBlock] at h; cases h; rfl
  | .blankLine ln og, b, h => by simp only [mkBlock] at h; cases h; rfl
theorem mkBlocks_lns (cfg : Cfg) (fn : Footnotes.Table) :
    ∀ (es : List Entry) (bs : List Mistletoe.Block), mkBlocks cfg fn es = .ok bs → blocksLns bs = entriesLns es
  | [], bs, h => by simp only [mkBlocks] at h; cases h; rfl
  | e :: es, bs, h => by
    simp only [mkBlocks] at h
    split at h
    · cases h
    · rename_i b hb
      split at h
      · cases h
      · rename_i bs' hbs
        cases h
        have h1 : optLns b = entryLnsG false e := mkBlock_lns cfg fn e b hb
        have h2 : blocksLns bs' = entriesLnsG false es := mkBlocks_lns cfg fn es bs' hbs
        simp only [entriesLns, entriesLnsG]
        rw [← h1, ← h2]
        cases b <;> simp [optLns, blocksLns]
theorem mkItems_lns (cfg : Cfg) (fn : Footnotes.Table) :
    ∀ (is : List Item) (bs : List Mistletoe.Block), mkItems cfg fn is = .ok bs → blocksLns bs = itemsLnsG false is
  | [], bs, h => by simp only [mkItems] at h; cases h; rfl
  | .mk inner lo ind pre ld ln og :: rest, bs, h => by
    simp only [mkItems] at h
    split at h
    · cases h
    · rename_i kids hk
      split at h
      · cases h
      · rename_i more hmore
        cases h
        simp only [blocksLns, blockLns, itemsLnsG, mkBlocks_lns cfg fn inner kids hk, mkItems_lns cfg fn rest more hmore]
        rfl
end

/-! ### Reported numbers = ghost origins -/

mutual
theorem entryLns_eq_ogs : ∀ (e : Entry), EntryOk e → entryLnsG false e = entryLnsG true e
  | .blockCode _ ln og, h => by simp only [EntryOk] at h; subst h; rfl
  | .heading _ _ _ ln og, h => by simp only [EntryOk] at h; subst h; rfl
  | .quote inner _ ln og, h => by
    simp only [EntryOk] at h
    obtain ⟨h1, h2⟩ := h; subst h1
    simp only [entryLnsG, entriesLns_eq_ogs inner h2]; rfl
  | .codeFence _ _ _ _ _ ln og, h => by simp only [EntryOk] at h; subst h; rfl
  | .thematicBreak _ ln og, h => by simp only [EntryOk] at h; subst h; rfl
  | .list items ln og, h => by
    simp only [EntryOk] at h
    obtain ⟨h1, h2⟩ := h; subst h1
    simp only [entryLnsG, itemsLns_eq_ogs items h2]; rfl
  | .table lines sl ln og, h => by
    simp only [EntryOk] at h
    obtain ⟨h1, h2⟩ := h; subst h1; subst h2
    rfl
  | .footnote _ ln og, _ => rfl
  | .linkRefDefs _ ln og, h => by simp only [EntryOk] at h; subst h; rfl
  | .paragraph _ ln og, h => by simp only [EntryOk] at h; subst h; rfl
  | .setext _ ln og, h => by simp only [EntryOk] at h; subst h; rfl
  | .htmlBlock _ ln og, h => by simp only [EntryOk] at h; subst h; rfl
  | .blankLine ln og, h => by simp only [EntryOk] at h; subst h; rfl
theorem entriesLns_eq_ogs : ∀ (es : List Entry), EntriesOk es → entriesLnsG false es = entriesLnsG true es
  | [], _ => rfl
  | e :: es, h => by
    simp only [EntriesOk] at h
    simp only [entriesLnsG, entryLns_eq_ogs e h.1, entriesLns_eq_ogs es h.2]
theorem itemsLns_eq_ogs : ∀ (is : List Item), ItemsOk is → itemsLnsG false is = itemsLnsG true is
  | [], _ => rfl
  | .mk inner _ _ _ _ ln og :: is, h => by
    simp only [ItemsOk, ItemOk] at h
    obtain ⟨⟨h1, h2⟩, h3⟩ := h; subst h1
    simp only [itemsLnsG, entriesLns_eq_ogs inner h2, itemsLns_eq_ogs is h3]; rfl
end

/-- **`Document(lines)`: every block token at every depth reports the origin of the line it was found
    on.**  The pre-order listing (kind, line_number) of the document equals the listing of ghost
    origins computed from the parse buffer. -/
theorem parseLines_lns (cfg : Cfg) (gas : Nat) (lines : List Str) (d : Doc) (hl : ∀ s ∈ lines, NlEnd s)
    (h : parseLines cfg gas lines = .ok d) :
    ∃ b st, blockPhase cfg.block gas lines = .ok (b, st) ∧ docLns d = entriesLns b.entries ∧ docLns d = entriesOgs b.entries := by
  unfold parseLines at h
  split at h
  · cases h
  · rename_i buf st hb
    simp only at h
    split at h
    · cases h
    · rename_i kids hk
      cases h
      have h1 := mkBlocks_lns cfg _ buf.entries kids hk
      have hok : EntriesOk buf.entries := by
        unfold blockPhase at hb
        refine tokenizeBlock_ok cfg.block gas _ _ _ _ _ hb (by simpa using originsFrom_zipIdx lines 0) (allNlEnd_zipIdx lines hl)
      exact ⟨buf, st, hb, h1, h1.trans (entriesLns_eq_ogs _ hok)⟩

end Mistletoe.Document

namespace Mistletoe.Document
open Mistletoe Mistletoe.Block

/-- the rows of a table are numbered consecutively: row k of `ls` gets `n + k` -/
theorem rowsLns_eq : ∀ (ls : List Str) (a n : Nat), rowsLns ls a n = (ls.zipIdx n).flatMap (fun (l, k) => rowLns l a k)
  | [], _, _ => rfl
  | l :: rest, a, n => by
    simp only [rowsLns, List.zipIdx_cons, List.flatMap_cons, rowsLns_eq rest a (n + 1)]

end Mistletoe.Document
