/-
  C14, continuation lines.  `inertLine` (Props/C14.lean) asks of every line of a paragraph what `tokenize_block` asks only
  of its FIRST line (no token type starts).  For the 2nd, 3rd … line `Paragraph.read` asks only
  `check_interrupts_paragraph` of each token type, the setext test and the thematic-break test.
-/
import Mistletoe.Props.C14_Wide
namespace Mistletoe.InertCont
open Mistletoe Mistletoe.Py Mistletoe.Scan Mistletoe.Block

/-- what `Paragraph.read` needs of a continuation line -/
structure ContQuiet (s : Str) : Prop where
  nb : isBlank s = false
  hd : Scan.heading s = none
  qt : quoteStart s = false
  cf : codeFenceStart s = none
  tb : Scan.thematicBreak s = false
  li : listInterrupts s = false
  html : htmlBlockStart s = .ok none ∨ ∃ e, htmlBlockStart s = .ok (some (7, e))
  se : setext s = false
  dr : (delimiterRow s && s.contains '|') = false

theorem listInterrupts_none (s : Str) (h : Scan.listItem s = none) : listInterrupts s = false := by
  unfold listInterrupts; rw [parseMarker_none s h]

theorem contQuiet_of_quiet (s : Str) (h : Quiet s) : ContQuiet s :=
  ⟨h.nb, h.hd, h.qt, h.cf, h.tb, listInterrupts_none s h.li, Or.inl h.html, h.se, by rw [h.dr]; rfl⟩

/-- `Table.read`'s loop only appends lines containing `|` -/
theorem tableLoop_shape_bar : ∀ (fuel : Nat) (fw : FW) (buf : List Str),
    (tableLoop fuel fw buf).1 = buf ∨
      ∃ l more, fw.peek = some l ∧ l.s.contains '|' = true ∧ (tableLoop fuel fw buf).1 = more ++ l.s :: buf
  | 0, _, _ => Or.inl rfl
  | fuel + 1, fw, buf => by
    simp only [tableLoop]
    split
    · rename_i l hp
      split
      · rename_i hc
        right
        rcases tableLoop_shape_bar fuel fw.next (l.s :: buf) with h | ⟨l', more, _, _, h⟩
        · exact ⟨l, [], hp, hc, by rw [h]; rfl⟩
        · exact ⟨l, more ++ [l'.s], hp, hc, by rw [h]; simp⟩
      · exact Or.inl rfl
    · exact Or.inl rfl

/-- `Table.read` fails unless the next line contains `|` and is a delimiter row -/
theorem readTable_none_bar (pre : List Line) (l : Line) (rest : List Line) (start : Nat)
    (h : ∀ l', rest.head? = some l' → (delimiterRow l'.s && l'.s.contains '|') = false) :
    readTable ⟨pre ++ l :: rest, pre.length, start⟩ = none := by
  unfold readTable
  rw [peek_at]
  simp only
  have hn : (FW.next ⟨pre ++ l :: rest, pre.length, start⟩) = ⟨pre ++ l :: rest, pre.length + 1, start⟩ := rfl
  rw [hn]
  have hs := tableLoop_shape_bar (FW.remaining ⟨pre ++ l :: rest, pre.length, start⟩ + 1) ⟨pre ++ l :: rest, pre.length + 1, start⟩ [l.s]
  generalize tableLoop (FW.remaining ⟨pre ++ l :: rest, pre.length, start⟩ + 1) ⟨pre ++ l :: rest, pre.length + 1, start⟩ [l.s] = r at hs
  obtain ⟨b, f⟩ := r
  simp only at hs ⊢
  rcases hs with rfl | ⟨l', more, hp, hc, rfl⟩
  · simp
  · rw [peek_succ] at hp
    have := h l' hp
    rw [hc, Bool.and_true] at this
    simp [this]

theorem anyInterrupt_cont (cfg : Cfg) (fw : FW) (l : Line) (skip : BTok) (hp : fw.peek = some l) (hq : ContQuiet l.s)
    (ht : readTable fw = none) : ∀ ts, anyInterrupt cfg fw skip false ts = .ok false
  | [] => rfl
  | t :: ts => by
    have ih := anyInterrupt_cont cfg fw l skip hp hq ht ts
    simp only [anyInterrupt]
    split
    · exact ih
    · have : interruptsOne cfg fw t = .ok false := by
        unfold interruptsOne
        rw [hp]
        rcases hq.html with hh | ⟨e, hh⟩
        · cases t <;> simp [hq.hd, hq.qt, hq.cf, hq.tb, hh, ht, hq.li]
        · cases t <;> simp [hq.hd, hq.qt, hq.cf, hq.tb, hh, ht, hq.li]
      rw [this]; exact ih

theorem cont_noDelim (para post : List Line) (hq : ∀ l ∈ para, ContQuiet l.s)
    (hb : ∀ b, post.head? = some b → isBlank b.s = true) :
    ∀ l', (para ++ post).head? = some l' → (delimiterRow l'.s && l'.s.contains '|') = false := by
  intro l' h
  cases para with
  | nil => rw [delimiterRow_blank _ (hb l' (by simpa using h))]; rfl
  | cons x xs =>
    simp only [List.cons_append, List.head?_cons, Option.some.injEq] at h
    subst h; exact (hq _ (by simp)).dr

theorem paragraphLoop_cont (cfg : Cfg) (so : Bool) (start : Nat) : ∀ (para pre post : List Line) (buf : List Str) (fuel : Nat),
    (∀ l ∈ para, ContQuiet l.s) → (∀ b, post.head? = some b → isBlank b.s = true) → para.length < fuel →
    paragraphLoop cfg so fuel ⟨pre ++ (para ++ post), pre.length, start⟩ buf =
      .ok ((para.map (·.s)).reverse ++ buf, false, ⟨pre ++ (para ++ post), pre.length + para.length, start⟩)
  | [], pre, post, buf, 0, _, _, hf => by simp at hf
  | [], pre, post, buf, fuel + 1, _, hb, _ => by
    simp only [paragraphLoop, List.nil_append]
    cases post with
    | nil => simp [peek_end]
    | cons b rest => simp [peek_at, hb b rfl]
  | l :: para, pre, post, buf, 0, _, _, hf => by simp at hf
  | l :: para, pre, post, buf, fuel + 1, hq, hb, hf => by
    have hl := hq l (by simp)
    have hq' : ∀ x ∈ para, ContQuiet x.s := fun x hx => hq x (List.mem_cons_of_mem _ hx)
    have ht := readTable_none_bar pre l (para ++ post) start (cont_noDelim para post hq' hb)
    have hp := peek_at pre l (para ++ post) start
    simp only [paragraphLoop, List.cons_append, hp, hl.nb, Bool.false_eq_true, if_false,
      anyInterrupt_cont cfg _ l .thematicBreak hp hl ht, hl.se, hl.tb, Bool.and_false]
    have hn : (FW.next ⟨pre ++ l :: (para ++ post), pre.length, start⟩) =
        ⟨(pre ++ [l]) ++ (para ++ post), (pre ++ [l]).length, start⟩ := by
      simp [FW.next]
    rw [hn, paragraphLoop_cont cfg so start para (pre ++ [l]) post (l.s :: buf) fuel hq' hb (by simp only [List.length_cons] at hf; omega)]
    simp only [List.map_cons, List.reverse_cons, List.append_assoc, List.singleton_append, List.length_append,
      List.length_cons, List.length_nil]
    have e : pre.length + (0 + 1) + para.length = pre.length + (para.length + 1) := by omega
    rw [e]

theorem readParagraph_cont (cfg : Cfg) (so : Bool) (start : Nat) (l : Line) (para pre post : List Line)
    (hq : ∀ x ∈ para, ContQuiet x.s) (hb : ∀ b, post.head? = some b → isBlank b.s = true) :
    readParagraph cfg so ⟨pre ++ (l :: para ++ post), pre.length, start⟩ l.s =
      .ok ((l :: para).map (·.s), false, ⟨pre ++ (l :: para ++ post), pre.length + (para.length + 1), start⟩) := by
  unfold readParagraph
  have hn : (FW.next ⟨pre ++ (l :: para ++ post), pre.length, start⟩) =
      ⟨(pre ++ [l]) ++ (para ++ post), (pre ++ [l]).length, start⟩ := by
    simp [FW.next]
  rw [hn, paragraphLoop_cont cfg so start para (pre ++ [l]) post [l.s] _ hq hb (by simp [FW.remaining]; omega)]
  simp only [List.map_cons, List.reverse_append, List.reverse_reverse, List.reverse_cons, List.reverse_nil,
    List.nil_append, List.append_assoc, List.length_append, List.length_cons, List.length_nil,
    List.cons_append]
  have e : pre.length + (0 + 1) + para.length = pre.length + (para.length + 1) := by omega
  rw [e]

/-- one paragraph: a quiet first line, continuation-quiet later lines, then the end of the buffer or a blank line -/
theorem tokLoop_para_step_cont (cfg : Cfg) (hpar : .paragraph ∈ cfg.types) (gas : Nat) (hg : cfg.types.length ≤ gas)
    (l : Line) (para pre post : List Line) (start : Nat) (st : St) (acc : List Entry) (loose : Bool)
    (hl : Quiet l.s) (hq : ∀ x ∈ para, ContQuiet x.s) (hb : ∀ b, post.head? = some b → isBlank b.s = true) :
    tokLoop cfg (gas + 1) ⟨pre ++ (l :: para ++ post), pre.length, start⟩ st acc loose =
      tokLoop cfg gas ⟨(pre ++ l :: para) ++ post, (pre ++ l :: para).length, start⟩ st
        (.paragraph ((l :: para).map (·.s)) (start + pre.length) l.origin :: acc) loose := by
  have hp := peek_at pre l (para ++ post) start
  have ht := readTable_none_bar pre l (para ++ post) start (cont_noDelim para post hq hb)
  have hR := readParagraph_cont cfg st.setext start l para pre post hq hb
  have hT := tryTypes_quiet cfg _ st l _ _ hl ht hR cfg.types gas hpar hg
  simp only [tokLoop, List.cons_append, hp]
  simp only [List.cons_append] at hT
  rw [hT]
  simp only [List.append_assoc, List.cons_append, List.length_append, List.length_cons]


/-! ### Sufficient conditions by the first character -/

/-- a first character (after at most three spaces) with which none of the interrupting patterns other than a list marker
    begins: `PlainChar` without "not a digit", "not `[`", "not `+`" -/
structure PlainC (c : Char) : Prop where
  nsp : pyIsSpace c = false
  n_sp : c ≠ ' '
  n_hash : c ≠ '#'
  n_gt : c ≠ '>'
  n_bt : c ≠ '`'
  n_tilde : c ≠ '~'
  n_dash : c ≠ '-'
  n_eq : c ≠ '='
  n_lt : c ≠ '<'
  n_bar : c ≠ '|'
  n_colon : c ≠ ':'

theorem plainC_html (n : Nat) (c : Char) (rest : Str) (hp : PlainC c) :
    htmlBlockStart (List.replicate n ' ' ++ c :: rest) = .ok none := by
  unfold htmlBlockStart
  simp only [lstrip_rep n c rest hp.nsp]
  split
  · rfl
  have hm : multiblock (c :: rest) = none := by
    unfold multiblock; simp [hp.n_lt]
  have hs : ∀ p : Str, startsWith ('<' :: p) (c :: rest) = false := by
    intro p; simp [startsWith, isPrefix_ne _ _ _ _ hp.n_lt]
  have hr : htmlRest (c :: rest) = none := by
    unfold htmlRest
    have h1 : predefined (c :: rest) = none := by
      unfold predefined; simp [hp.n_lt]
    have h2 : customTag (c :: rest) = false := by
      unfold customTag
      have a : openTag (c :: rest) = none := by
        unfold openTag; simp [hp.n_lt]
      have b : closingTag (c :: rest) = none := by
        unfold closingTag; simp [hp.n_lt]
      simp [a, b]
    simp [h1, h2]
  have e1 : "<!--".toList = '<' :: ['!', '-', '-'] := by decide
  have e2 : "<?".toList = '<' :: ['?'] := by decide
  have e3 : "<!".toList = '<' :: ['!'] := by decide
  simp only [hm, e1, e2, e3, hs, hr, Bool.false_eq_true, if_false]

theorem plainC_delimiterRow (n : Nat) (c : Char) (rest : Str) (hp : PlainC c) :
    delimiterRow (List.replicate n ' ' ++ c :: rest) = false := by
  unfold delimiterRow
  simp [span_ws_rep n c rest hp.nsp, hp.n_bar, span, ws, hp.nsp, alignCol_none c rest hp.n_colon hp.n_dash]

theorem thematicBreak_first (n : Nat) (c : Char) (rest : Str) (hn : n < 4) (hsp : c ≠ ' ')
    (h1 : c ≠ '-') (h2 : c ≠ '_') (h3 : c ≠ '*') : Scan.thematicBreak (List.replicate n ' ' ++ c :: rest) = false := by
  unfold Scan.thematicBreak
  rw [upTo3_rep n c rest hsp hn]
  simp [h1, h2, h3]

/-- **at most three spaces, a character of `PlainC`, no thematic break and `List.check_interrupts_paragraph` false** -/
theorem contQuiet_of_plainC (n : Nat) (c : Char) (rest : Str) (hn : n < 4) (hp : PlainC c)
    (htb : Scan.thematicBreak (List.replicate n ' ' ++ c :: rest) = false)
    (hli : listInterrupts (List.replicate n ' ' ++ c :: rest) = false) : ContQuiet (List.replicate n ' ' ++ c :: rest) where
  nb := by simp [isBlank, hp.nsp]
  hd := by
    unfold Scan.heading
    rw [upTo3_rep n c rest hp.n_sp hn]
    simp [span, hp.n_hash]
  qt := by
    unfold quoteStart
    simp [lstripSp_rep n c rest hp.n_sp, startsWith, isPrefix_ne _ _ _ _ hp.n_gt]
  cf := by
    unfold codeFenceStart Scan.codeFence
    rw [upTo3_rep n c rest hp.n_sp hn]
    simp [hp.n_bt, hp.n_tilde]
  tb := htb
  li := hli
  html := Or.inl (plainC_html n c rest hp)
  se := by
    unfold setext
    rw [upTo3_rep n c rest hp.n_sp hn]
    simp [span, hp.n_eq, hp.n_dash]
  dr := by rw [plainC_delimiterRow n c rest hp]; rfl

theorem plainC_bracket : PlainC '[' := by constructor <;> decide
theorem plainC_plus : PlainC '+' := by constructor <;> decide
theorem plainC_star : PlainC '*' := by constructor <;> decide

/-- **a continuation line beginning (after at most three spaces) with `[`** - a link reference definition cannot
    interrupt a paragraph -/
theorem contQuiet_bracket (n : Nat) (rest : Str) (hn : n < 4) : ContQuiet (List.replicate n ' ' ++ '[' :: rest) := by
  refine contQuiet_of_plainC n '[' rest hn plainC_bracket
    (thematicBreak_first n '[' rest hn (by decide) (by decide) (by decide) (by decide)) (listInterrupts_none _ ?_)
  unfold Scan.listItem
  have hd : isDigit '[' = false := by decide
  have : listMarker ('[' :: rest) = none := by
    unfold listMarker
    simp [span, hd]
  simp only [upTo3_rep n '[' rest (by decide) hn, this]

/-- an ASCII digit is a character of `PlainC`, a digit, and none of `+ _ *` -/
theorem digit_facts (c : Char) (h0 : '0' ≤ c) (h9 : c ≤ '9') :
    PlainC c ∧ isDigit c = true ∧ c ≠ '+' ∧ c ≠ '_' ∧ c ≠ '*' := by
  have hl : c.toNat < 128 := by
    have : c.toNat ≤ '9'.toNat := h9
    have e : '9'.toNat = 57 := by decide
    omega
  have key : ∀ n : Fin 128, ('0' ≤ Char.ofNat n ∧ Char.ofNat n ≤ '9') →
      (pyIsSpace (Char.ofNat n) = false ∧ Char.ofNat n ≠ ' ' ∧ Char.ofNat n ≠ '#' ∧ Char.ofNat n ≠ '>' ∧ Char.ofNat n ≠ '`' ∧
       Char.ofNat n ≠ '~' ∧ Char.ofNat n ≠ '-' ∧ Char.ofNat n ≠ '=' ∧
       Char.ofNat n ≠ '<' ∧ Char.ofNat n ≠ '|' ∧ Char.ofNat n ≠ ':' ∧ isDigit (Char.ofNat n) = true ∧
       Char.ofNat n ≠ '+' ∧ Char.ofNat n ≠ '_' ∧ Char.ofNat n ≠ '*') := by decide
  have := key ⟨c.toNat, hl⟩
  simp only [Char.ofNat_toNat] at this
  obtain ⟨a1, a2, a3, a4, a5, a6, a7, a10, a11, a12, a13, a14, a15, a16, a17⟩ := this ⟨h0, h9⟩
  exact ⟨⟨a1, a2, a3, a4, a5, a6, a7, a10, a11, a12, a13⟩, a14, a15, a16, a17⟩

/-- **four or more spaces of indentation**: `BlockCode` has no `check_interrupts_paragraph`, and every pattern that
    allows ` {0,3}` only fails; what can still fire is the table (its delimiter-row pattern begins with `\s*`) -/
theorem contQuiet_indented (n : Nat) (c : Char) (rest : Str) (hn : 4 ≤ n) (hc : pyIsSpace c = false)
    (hd : (delimiterRow (List.replicate n ' ' ++ c :: rest) && (List.replicate n ' ' ++ c :: rest).contains '|') = false) :
    ContQuiet (List.replicate n ' ' ++ c :: rest) := by
  have hsp : c ≠ ' ' := by intro e; subst e; revert hc; decide
  have hu : upTo3Spaces (List.replicate n ' ' ++ c :: rest) = none := by
    unfold upTo3Spaces
    simp only [countLeading_rep n c rest hsp]
    have : n > 3 := by omega
    simp [this]
  have hli : Scan.listItem (List.replicate n ' ' ++ c :: rest) = none := by
    unfold Scan.listItem; rw [hu]
  refine ⟨by simp [isBlank, hc], ?_, ?_, ?_, ?_, listInterrupts_none _ hli, Or.inl ?_, ?_, hd⟩
  · unfold Scan.heading; rw [hu]
  · unfold quoteStart
    simp only [lstripSp_rep n c rest hsp, List.length_append, List.length_replicate, List.length_cons, Nat.add_sub_cancel]
    rw [if_pos (by omega)]
  · unfold codeFenceStart Scan.codeFence; rw [hu]
  · unfold Scan.thematicBreak; rw [hu]
  · unfold htmlBlockStart
    simp only [lstrip_rep n c rest hc, List.length_append, List.length_replicate, List.length_cons, Nat.add_sub_cancel]
    rw [if_pos hn]
  · unfold setext; rw [hu]


theorem listMarker_digit (c : Char) (rest : Str) (hd : isDigit c = true) (hplus : c ≠ '+') (hdash : c ≠ '-') (hstar : c ≠ '*') :
    listMarker (c :: rest) = none ∨ ∃ a r, listMarker (c :: rest) = some (c :: a, r) := by
  unfold listMarker
  have e : (c == '+' || c == '-' || c == '*') = false := by simp [hplus, hdash, hstar]
  simp only [e, Bool.false_eq_true, if_false, span, hd, if_true]
  split
  · left; rfl
  · split
    · split
      · right; exact ⟨_, _, rfl⟩
      · left; rfl
    · left; rfl

/-- `List.check_interrupts_paragraph` is false when the marker is ordered and does not begin with `1` -/
theorem listInterrupts_ordered (s : Str)
    (h : ∀ m, Scan.listItem s = some m → ∃ c a, m.g2 = c :: a ∧ isDigit c = true ∧ c ≠ '1') : listInterrupts s = false := by
  cases hm : Scan.listItem s with
  | none => exact listInterrupts_none s hm
  | some m =>
    obtain ⟨c, a, hg, hd, h1⟩ := h m hm
    have e1 : ((c :: a) == ['1', '.']) = false := by simp [h1]
    have e2 : ((c :: a) == ['1', ')']) = false := by simp [h1]
    have : ∃ i p content, parseMarker s = some (i, p, c :: a, content) := by
      unfold parseMarker
      rw [hm]
      simp only
      split <;> exact ⟨_, _, _, by rw [hg]⟩
    obtain ⟨i, p, content, hp⟩ := this
    unfold listInterrupts
    rw [hp]
    simp [hd, e1, e2]

theorem listInterrupts_digit (n : Nat) (c : Char) (rest : Str) (hn : n < 4) (hd : isDigit c = true) (h1 : c ≠ '1')
    (hsp : c ≠ ' ') (hplus : c ≠ '+') (hdash : c ≠ '-') (hstar : c ≠ '*') :
    listInterrupts (List.replicate n ' ' ++ c :: rest) = false := by
  apply listInterrupts_ordered
  intro m hm
  unfold Scan.listItem at hm
  rw [upTo3_rep n c rest hsp hn] at hm
  rcases listMarker_digit c rest hd hplus hdash hstar with h | ⟨a, r, h⟩
  · simp [h] at hm
  · simp only [h] at hm
    refine ⟨c, a, ?_, hd, h1⟩
    split at hm
    · cases hm; rfl
    · split at hm
      · cases hm
      · cases hm; rfl

/-- **a continuation line beginning (after at most three spaces) with an ASCII digit other than `1`**: it is no list
    item, or an ordered one that cannot interrupt a paragraph (`3. x`, `2) x`, `0. x`, `2024. A year`) -/
theorem contQuiet_digit (n : Nat) (c : Char) (rest : Str) (hn : n < 4) (h0 : '0' ≤ c) (h9 : c ≤ '9') (h1 : c ≠ '1') :
    ContQuiet (List.replicate n ' ' ++ c :: rest) := by
  obtain ⟨hp, hd, hplus, hus, hstar⟩ := digit_facts c h0 h9
  exact contQuiet_of_plainC n c rest hn hp (thematicBreak_first n c rest hn hp.n_sp hp.n_dash hus hstar)
    (listInterrupts_digit n c rest hn hd h1 hp.n_sp hplus hp.n_dash hstar)

/-- `List.check_interrupts_paragraph` is false when the item is empty -/
theorem listInterrupts_empty (s : Str) (h : ∀ m, Scan.listItem s = some m → isBlank m.rest = true) :
    listInterrupts s = false := by
  cases hm : Scan.listItem s with
  | none => exact listInterrupts_none s hm
  | some m =>
    have hb := h m hm
    have : ∃ i p l content, parseMarker s = some (i, p, l, content) ∧ isBlank content = true := by
      unfold parseMarker
      rw [hm]
      simp only
      split
      · refine ⟨_, _, _, _, rfl, ?_⟩
        simp only [isBlank, List.all_append, List.all_replicate, Bool.and_eq_true] at hb ⊢
        exact ⟨by split <;> decide, hb⟩
      · exact ⟨_, _, _, _, rfl, hb⟩
    obtain ⟨i, p, l, content, hp, hc⟩ := this
    unfold listInterrupts
    rw [hp]
    simp [hc]

/-- **a lone bullet marker `*` or `+`** (after at most three spaces, followed by whitespace only): an empty list item
    cannot interrupt a paragraph.  (`-` alone is a setext underline.) -/
theorem contQuiet_lone (n : Nat) (c : Char) (w : Str) (hn : n < 4) (hc : c = '*' ∨ c = '+') (hw : w.all pyIsSpace = true) :
    ContQuiet (List.replicate n ' ' ++ c :: w) := by
  have hp : PlainC c := by
    rcases hc with rfl | rfl
    · exact plainC_star
    · exact plainC_plus
  have hf : w.filter (· == '*') = [] := by
    rw [List.filter_eq_nil_iff]
    intro a ha
    have := List.all_eq_true.mp hw a ha
    intro e
    have : a = '*' := by simpa using e
    subst this
    revert this; decide
  refine contQuiet_of_plainC n c w hn hp ?_ (listInterrupts_empty _ ?_)
  · unfold Scan.thematicBreak
    rw [upTo3_rep n c w hp.n_sp hn]
    rcases hc with rfl | rfl
    · simp [count, hf]
    · simp
  · intro m hm
    unfold Scan.listItem at hm
    rw [upTo3_rep n c w hp.n_sp hn] at hm
    have hlm : listMarker (c :: w) = some ([c], w) := by
      unfold listMarker
      rcases hc with rfl | rfl <;> simp
    simp only [hlm] at hm
    split at hm
    · cases hm; exact hw
    · have : span ws w = (w, []) := span_all_true ws w (by simpa [ws] using hw)
      rw [this] at hm
      split at hm
      · cases hm
      · cases hm; rfl
end Mistletoe.InertCont

/-! ## C14 with continuation lines -/

namespace Mistletoe.Props.C14
open Mistletoe Mistletoe.Py Mistletoe.Scan Mistletoe.Block Mistletoe.Inline Mistletoe.InertInline Mistletoe.InertInline5
open Mistletoe.Html Mistletoe.Escape Mistletoe.InertCont

/-- **A line that cannot end the paragraph it follows** (what `Paragraph.read` asks of the 2nd, 3rd … line): not blank;
    `check_interrupts_paragraph` of every type that has one is false - no ATX heading, no block quote marker, no code
    fence, no thematic break, `List.check_interrupts_paragraph` false (no marker, or an EMPTY item, or an ordered marker
    other than `1.` / `1)`), no HTML block start other than condition 7, no table (the line is not a delimiter row that
    contains `|`: `Table.read` looks at the line after the one it starts on and only collects lines containing `|`); not
    a setext underline.  NOT asked (unlike `inertLine`): indentation (`BlockCode` cannot interrupt a paragraph), a
    leading `[` (`Footnote` cannot), `List.start`. -/
def inertCont (s : Str) : Bool :=
  !isBlank s && (Scan.heading s).isNone && !quoteStart s && (codeFenceStart s).isNone
  && !Scan.thematicBreak s && !listInterrupts s
  && (match htmlBlockStart s with | .ok none => true | .ok (some (r, _)) => r == 7 | .err _ => false)
  && !setext s && !(delimiterRow s && s.contains '|')

theorem inertCont_contQuiet (s : Str) (h : inertCont s = true) : ContQuiet s := by
  simp only [inertCont, Bool.and_eq_true, Bool.not_eq_eq_eq_not, Bool.not_true, Option.isNone_iff_eq_none] at h
  obtain ⟨⟨⟨⟨⟨⟨⟨⟨h1, h2⟩, h3⟩, h4⟩, h5⟩, h6⟩, h7⟩, h8⟩, h9⟩ := h
  refine ⟨h1, h2, h3, h4, h5, h6, ?_, h8, h9⟩
  split at h7
  · left; assumption
  · rename_i r e hh
    right
    have : r = 7 := by simpa using h7
    subst this
    exact ⟨e, hh⟩
  · cases h7

theorem contQuiet_inertCont (s : Str) (h : ContQuiet s) : inertCont s = true := by
  unfold inertCont
  rcases h.html with hh | ⟨e, hh⟩ <;>
    (rw [h.nb, h.hd, h.qt, h.cf, h.tb, h.li, hh, h.se, h.dr]; rfl)

/-- **`inertCont` is weaker than `inertLine`** -/
theorem C14_inertCont_weaker (l : Str) (h : inertLine l = true) : inertCont l = true :=
  contQuiet_inertCont l (contQuiet_of_quiet l (inertLine_quiet l h))

/-- **An inert first line and continuation lines that do not interrupt form exactly one paragraph holding exactly those
    lines**: for every token-type list containing `Paragraph`, every `tableInterrupt`, every state (`Paragraph.parse_setext`
    on or off), every start line and every nesting gas ≥ `cfg.types.length + 4`. -/
theorem C14_single_paragraph_cont (cfg : Cfg) (hpar : .paragraph ∈ cfg.types) (l0 : Line) (tl : List Line)
    (h0 : inertLine l0.s = true) (h : ∀ l ∈ tl, inertCont l.s = true) (start : Nat) (st : St) (gas : Nat) :
    tokenizeBlock cfg (gas + (cfg.types.length + 4)) (l0 :: tl) start st =
      .ok ({ entries := [.paragraph ((l0 :: tl).map (·.s)) start l0.origin], loose := false }, st) := by
  have h1 := tokLoop_para_step_cont cfg hpar (gas + cfg.types.length + 2) (by omega) l0 tl [] [] start st [] false
    (inertLine_quiet _ h0) (fun x hx => inertCont_contQuiet _ (h x hx)) (by simp)
  have e : gas + (cfg.types.length + 4) = (gas + cfg.types.length + 2 + 1) + 1 := by omega
  rw [e]
  simp only [tokenizeBlock]
  simp only [List.append_nil, List.nil_append, List.length_nil] at h1
  rw [h1]
  have e2 : gas + cfg.types.length + 2 = (gas + cfg.types.length + 1) + 1 := by omega
  rw [e2, tokLoop_end]
  simp

/-- **The block phase on a document whose first line is inert and whose later lines cannot interrupt a paragraph**:
    one paragraph, on line 1, with exactly the lines (unstripped: `Paragraph.__init__` strips them later). -/
theorem C14_block_phase_cont (cfg : Cfg) (hpar : .paragraph ∈ cfg.types) (l0 : Str) (tl : List Str)
    (h0 : inertLine l0 = true) (h : ∀ s ∈ tl, inertCont s = true) (gas : Nat) :
    blockPhase cfg (gas + (cfg.types.length + 4)) (l0 :: tl) =
      .ok ({ entries := [.paragraph (l0 :: tl) 1 1], loose := false }, {}) := by
  have e : blockPhase cfg (gas + (cfg.types.length + 4)) (l0 :: tl) =
      tokenizeBlock cfg (gas + (cfg.types.length + 4)) (numbered 0 (l0 :: tl)) 1 {} := rfl
  rw [e, numbered_cons]
  rw [C14_single_paragraph_cont cfg hpar { s := l0, origin := 0 + 1 } (numbered (0 + 1) tl) h0 ?_ 1 {} gas]
  · have := numbered_s 0 (l0 :: tl)
    rw [numbered_cons] at this
    rw [this]
  · intro l hl
    exact h _ (numbered_mem _ _ _ hl)

/-- the statement of `C14_block_phase` is the special case -/
theorem C14_block_phase_of_cont (cfg : Cfg) (hpar : .paragraph ∈ cfg.types) (lines : List Str) (hne : lines ≠ [])
    (h : ∀ s ∈ lines, inertLine s = true) (gas : Nat) :
    blockPhase cfg (gas + (cfg.types.length + 4)) lines =
      .ok ({ entries := [.paragraph lines 1 1], loose := false }, {}) := by
  cases lines with
  | nil => exact absurd rfl hne
  | cons s ls =>
    exact C14_block_phase_cont cfg hpar s ls (h s (by simp))
      (fun x hx => C14_inertCont_weaker x (h x (List.mem_cons_of_mem _ hx))) gas

/-- **A paragraph of prose with lazy continuation lines** (`Document` given the list of lines) -/
theorem C14_prose6 (cfg : Document.Cfg) (hpar : .paragraph ∈ cfg.block.types)
    (ht : ∀ t ∈ cfg.span, inertClass t = true) (hc : cfg.span.count .lineBreak = 1)
    (l0 : Str) (tl : List Str) (h0 : inertLine l0 = true) (hk : ∀ l ∈ tl, inertCont l = true)
    (hl : ∀ l ∈ l0 :: tl, proseLine l = true)
    (hi : inertBody5 (Document.joinNl ((l0 :: tl).map strip)) = true) (gas : Nat) :
    Document.parseLines cfg (gas + (cfg.block.types.length + 4)) (l0 :: tl) =
        .ok { kids := [.paragraph (proseInlines ((l0 :: tl).map strip)) 1], footnotes := [] } ∧
    ∀ o : Opts, render o { kids := [.paragraph (proseInlines ((l0 :: tl).map strip)) 1], footnotes := [] } =
        "<p>".toList ++ escapeHtmlText o.dq o.sq (Document.joinNl ((l0 :: tl).map strip)) ++ "</p>\n".toList := by
  constructor
  · unfold Document.parseLines
    rw [C14_block_phase_cont cfg.block hpar l0 tl h0 hk gas]
    simp only
    have e : Document.footnotesOf [] = [] := rfl
    rw [e, mkBlocks_prose5 cfg (l0 :: tl) 1 1 ht hc (by simp) hl hi]
  · intro o
    exact render_prose o ((l0 :: tl).map strip) 1 []

/-- **End to end with continuation lines** (`C14_prose_text5` with `inertLine` asked of the first line only):
    `Document(text)` for the text `l₀ ++ l₁ ++ … ++ lₙ` of "\n"-terminated prose lines (`oneLine`, `proseLine`:
    indentation, text, "\n", no whitespace before the "\n"), the first block-inert (`inertLine`), the others unable to
    interrupt a paragraph (`inertCont`: e.g. beginning with `[`, with `3.`, a lone `*` or `+`, indented four or more
    columns), whose stripped lines joined by "\n" satisfy `inertBody5`, is ONE `Paragraph` holding the stripped lines as
    `RawText`s separated by soft `LineBreak`s; there are no link definitions; the HTML renderer gives `<p>`, the
    HTML-escaped text, `</p>` and a newline for every option set; for every configuration with `Paragraph` among the
    block types and covered span classes. -/
theorem C14_prose_text6 (cfg : Document.Cfg) (hpar : .paragraph ∈ cfg.block.types)
    (ht : ∀ t ∈ cfg.span, inertClass t = true) (hc : cfg.span.count .lineBreak = 1)
    (l0 : Str) (tl : List Str) (h1 : ∀ l ∈ l0 :: tl, oneLine l = true)
    (h0 : inertLine l0 = true) (hk : ∀ l ∈ tl, inertCont l = true)
    (hl : ∀ l ∈ l0 :: tl, proseLine l = true)
    (hi : inertBody5 (Document.joinNl ((l0 :: tl).map strip)) = true) (gas : Nat) :
    Document.parse cfg (gas + (cfg.block.types.length + 4)) (l0 :: tl).flatten =
        .ok { kids := [.paragraph (proseInlines ((l0 :: tl).map strip)) 1], footnotes := [] } ∧
    ∀ o : Opts, render o { kids := [.paragraph (proseInlines ((l0 :: tl).map strip)) 1], footnotes := [] } =
        "<p>".toList ++ escapeHtmlText o.dq o.sq (Document.joinNl ((l0 :: tl).map strip)) ++ "</p>\n".toList := by
  rw [parse_lines cfg _ (l0 :: tl) h1]
  exact C14_prose6 cfg hpar ht hc l0 tl h0 hk hl hi gas

/-- **… for the regenerated configurations** `Config.html` / `Config.markdown` / `Config.default` -/
theorem C14_prose_text6_config (cfg : Document.Cfg)
    (hcfg : Config.html = some cfg ∨ Config.markdown = some cfg ∨ Config.default = some cfg)
    (l0 : Str) (tl : List Str) (h1 : ∀ l ∈ l0 :: tl, oneLine l = true)
    (h0 : inertLine l0 = true) (hk : ∀ l ∈ tl, inertCont l = true)
    (hl : ∀ l ∈ l0 :: tl, proseLine l = true)
    (hi : inertBody5 (Document.joinNl ((l0 :: tl).map strip)) = true) (gas : Nat) :
    Document.parse cfg (gas + (cfg.block.types.length + 4)) (l0 :: tl).flatten =
        .ok { kids := [.paragraph (proseInlines ((l0 :: tl).map strip)) 1], footnotes := [] } ∧
    ∀ o : Opts, render o { kids := [.paragraph (proseInlines ((l0 :: tl).map strip)) 1], footnotes := [] } =
        "<p>".toList ++ escapeHtmlText o.dq o.sq (Document.joinNl ((l0 :: tl).map strip)) ++ "</p>\n".toList := by
  obtain ⟨hpar, ht, hc⟩ := C14_config_covered cfg hcfg
  exact C14_prose_text6 cfg hpar ht hc l0 tl h1 h0 hk hl hi gas

/-- **`HtmlRenderer(**opts).render(Document(text))` on such prose** -/
theorem C14_prose_html6 (l0 : Str) (tl : List Str) (h1 : ∀ l ∈ l0 :: tl, oneLine l = true)
    (h0 : inertLine l0 = true) (hk : ∀ l ∈ tl, inertCont l = true)
    (hl : ∀ l ∈ l0 :: tl, proseLine l = true)
    (hi : inertBody5 (Document.joinNl ((l0 :: tl).map strip)) = true) (o : Opts) (gas : Nat) :
    Config.renderHtml o (gas + 14) (l0 :: tl).flatten =
      some ("<p>".toList ++ escapeHtmlText o.dq o.sq (Document.joinNl ((l0 :: tl).map strip)) ++ "</p>\n".toList) := by
  have hb := C14_config_current.1
  cases hcfg : Config.html with
  | none => rw [hcfg] at hb; cases hb
  | some cfg =>
    rw [hcfg] at hb
    simp only [Option.map_some, Option.some.injEq] at hb
    have hlen : cfg.block.types.length + 4 = 14 := by rw [hb]; decide
    obtain ⟨hp, hr⟩ := C14_prose_text6_config cfg (Or.inl hcfg) l0 tl h1 h0 hk hl hi gas
    rw [hlen] at hp
    simp only [Config.renderHtml, hcfg, hp, hr o]


/-! ### Families of continuation lines that `inertCont` accepts and `inertLine` rejects -/

/-- **a line beginning with `[`** (after at most three spaces): a link reference definition cannot interrupt a paragraph,
    `[a]: /url` on a continuation line is paragraph text -/
theorem C14_cont_bracket (n : Nat) (rest : Str) (hn : n < 4) :
    inertCont (List.replicate n ' ' ++ '[' :: rest) = true ∧ inertLine (List.replicate n ' ' ++ '[' :: rest) = false := by
  refine ⟨contQuiet_inertCont _ (contQuiet_bracket n rest hn), ?_⟩
  have : startsWith ['['] (lstrip (List.replicate n ' ' ++ '[' :: rest)) = true := by
    rw [lstrip_rep n '[' rest (by decide)]; rfl
  simp [inertLine, this]

/-- **a line beginning with an ASCII digit other than `1`**: no list item at all, or an ordered item not numbered
    `1.` / `1)`, which cannot interrupt a paragraph (`3. not a list`, `2) x`, `2024. A year`) -/
theorem C14_cont_digit (n : Nat) (c : Char) (rest : Str) (hn : n < 4) (h0 : '0' ≤ c) (h9 : c ≤ '9') (h1 : c ≠ '1') :
    inertCont (List.replicate n ' ' ++ c :: rest) = true :=
  contQuiet_inertCont _ (contQuiet_digit n c rest hn h0 h9 h1)

/-- **a lone `*` or `+`** (followed by whitespace only): an empty list item cannot interrupt a paragraph -/
theorem C14_cont_lone_marker (n : Nat) (c : Char) (w : Str) (hn : n < 4) (hc : c = '*' ∨ c = '+')
    (hw : w.all pyIsSpace = true) : inertCont (List.replicate n ' ' ++ c :: w) = true :=
  contQuiet_inertCont _ (contQuiet_lone n c w hn hc hw)

/-- **four or more spaces of indentation**: indented code cannot interrupt a paragraph, the line is a lazy continuation
    whatever follows the spaces (`#`, `>`, a fence, a list marker, `<div>`, `===`) - except a table delimiter row with a `|`,
    whose pattern allows any leading whitespace -/
theorem C14_cont_indented (n : Nat) (c : Char) (rest : Str) (hn : 4 ≤ n) (hc : pyIsSpace c = false)
    (hd : (delimiterRow (List.replicate n ' ' ++ c :: rest) && (List.replicate n ' ' ++ c :: rest).contains '|') = false) :
    inertCont (List.replicate n ' ' ++ c :: rest) = true :=
  contQuiet_inertCont _ (contQuiet_indented n c rest hn hc hd)

/-! ### Non-vacuity -/

/-- accepted as continuation lines, rejected as first lines: `[`, ordered markers other than 1, empty items, indentation,
    HTML start condition 7, a tab, a delimiter row without `|` -/
example : [L "[bar] baz\n", L "[a]: /url\n", L "3. not a list\n", L "2) x\n", L "10. x\n", L "1.\n", L "* \n", L "+\n", L "*\n",
    L "     indented more\n", L "    # no heading\n", L "     > no quote\n", L "    ```\n", L "    - x\n", L "     1. x\n",
    L "    ===\n", L "    <div>\n", L "<span>\n", L "\tbar\n", L ":-:\n"].map (fun l => (inertCont l, inertLine l)) =
    List.replicate 20 (true, false) := by decide +kernel

/-- sharpness: each of these ends the paragraph (or turns it into a heading / a table) -/
example : [L "1. x\n", L "1) x\n", L "- x\n", L "* x\n", L "+ x\n", L "-\n", L "- \n", L "===\n", L "---\n", L "# h\n", L "> q\n", L "```\n",
    L "***\n", L "* * *\n", L "<div>\n", L "\t<div>\n", L "<!-- c\n", L "|-|-|\n", L "-|-\n", L "     -|-\n", L "\n", L "  \n"].map inertCont =
    List.replicate 22 false := by decide +kernel

def contSample : List Str := [L "[bar] baz\n", L "3. not a list\n", L "* \n", L "     indented more\n"]

/-- `foo`, then `[bar] baz`, `3. not a list`, `* `, an indented line: one paragraph with the five lines, under the
    default token types and under the Markdown renderer's -/
example : blockPhase { types := defaultTypes } 14 (L "foo\n" :: contSample) =
    .ok ({ entries := [.paragraph (L "foo\n" :: contSample) 1 1], loose := false }, {}) :=
  C14_block_phase_cont { types := defaultTypes } (by decide) (L "foo\n") contSample (by decide +kernel) (by decide +kernel) 0

example : blockPhase { types := markdownTypes, tableInterrupt := false } 15 (L "foo\n" :: contSample) =
    .ok ({ entries := [.paragraph (L "foo\n" :: contSample) 1 1], loose := false }, {}) :=
  C14_block_phase_cont { types := markdownTypes, tableInterrupt := false } (by decide) (L "foo\n") contSample
    (by decide +kernel) (by decide +kernel) 0

/-- end to end (`* ` has a space before the "\n", which `proseLine` excludes: `*` here) -/
def contProse : List Str := [L "[bar] baz\n", L "3. not a list\n", L "*\n", L "     indented more\n", L "2) x <b c\n"]

theorem contProse_ok : (∀ l ∈ L "foo\n" :: contProse, oneLine l = true) ∧ inertLine (L "foo\n") = true ∧
    (∀ l ∈ contProse, inertCont l = true) ∧ (∀ l ∈ L "foo\n" :: contProse, proseLine l = true) ∧
    inertBody5 (Document.joinNl ((L "foo\n" :: contProse).map strip)) = true := by decide +kernel

/-- instance of `C14_prose_text6` (the right-hand side is literal): the indentation is gone, the lines are `RawText`s -/
example : Document.parse cfgHtml 14 (L "foo\n[bar] baz\n3. not a list\n*\n     indented more\n2) x <b c\n") =
    .ok { kids := [.paragraph [.rawText (L "foo"), .lineBreak [] true, .rawText (L "[bar] baz"), .lineBreak [] true,
                               .rawText (L "3. not a list"), .lineBreak [] true, .rawText (L "*"), .lineBreak [] true,
                               .rawText (L "indented more"), .lineBreak [] true, .rawText (L "2) x <b c")] 1], footnotes := [] } :=
  (C14_prose_text6 cfgHtml (by decide) htmlSpanTypes_inert (by decide) (L "foo\n") contProse contProse_ok.1 contProse_ok.2.1
    contProse_ok.2.2.1 contProse_ok.2.2.2.1 contProse_ok.2.2.2.2 0).1

/-- instance of `C14_prose_html6`: the regenerated HTML configuration, default options … -/
example : Config.renderHtml {} 14 (L "foo\n" :: contProse).flatten =
    some (L "<p>foo\n[bar] baz\n3. not a list\n*\nindented more\n2) x &lt;b c</p>\n") := by
  rw [C14_prose_html6 (L "foo\n") contProse contProse_ok.1 contProse_ok.2.1 contProse_ok.2.2.1 contProse_ok.2.2.2.1
    contProse_ok.2.2.2.2 {} 0]
  decide +kernel

/-- … and the same by kernel evaluation of the model alone; the real code prints the same:
    `mistletoe.markdown("foo\n[bar] baz\n3. not a list\n*\n     indented more\n2) x <b c\n")` -/
example : htmlOf (L "foo\n[bar] baz\n3. not a list\n*\n     indented more\n2) x <b c\n") =
    .ok (L "<p>foo\n[bar] baz\n3. not a list\n*\nindented more\n2) x &lt;b c</p>\n") := by decide +kernel
/-- the task's example, with `* ` (one trailing space, dropped by `Paragraph`): as the real code -/
example : htmlOf (L "foo\n[bar] baz\n3. not a list\n* \n     indented more\n") =
    .ok (L "<p>foo\n[bar] baz\n3. not a list\n*\nindented more</p>\n") := by decide +kernel

/-! sharpness at the output (each agrees with the real code): `1. x` and `- x` interrupt with a list, `-` makes a
    heading, an indented delimiter row after a line with `|` makes a table, `<div>` starts an HTML block -/

/-- gas 40: the nested `tokenize_block` of a list item needs more than 14 -/
def htmlOf40 (s : Str) : Res Str := (Document.parse cfgHtml 40 s).bind (fun d => .ok (render {} d))
example : htmlOf40 (L "foo\n1. x\n") = .ok (L "<p>foo</p>\n<ol>\n<li>x</li>\n</ol>\n") := by decide +kernel
example : htmlOf40 (L "foo\n- x\n") = .ok (L "<p>foo</p>\n<ul>\n<li>x</li>\n</ul>\n") := by decide +kernel
example : htmlOf (L "foo\n-\n") = .ok (L "<h2>foo</h2>\n") := by decide +kernel
example : htmlOf (L "foo\n<div>\n") = .ok (L "<p>foo</p>\n<div>\n") := by decide +kernel
example : htmlOf (L "a|b\n     -|-\n") =
    .ok (L "<table>\n<thead>\n<tr>\n<th align=\"left\">a</th>\n<th align=\"left\">b</th>\n</tr>\n</thead>\n<tbody>\n</tbody>\n</table>\n") := by
  decide +kernel
/-- why the table condition is asked of EVERY continuation line, not only of the second line: `Table.check_interrupts_paragraph`
    reads from the continuation line on, so a delimiter row on line 3 ends the paragraph BEFORE line 2 (real code: the same) -/
example : htmlOf (L "a | b\nc\n| - |\n") = .ok (L "<p>a | b</p>\n<p>c\n| - |</p>\n") := by decide +kernel
/-- a delimiter row without `|` is harmless -/
example : htmlOf (L "foo\n:-:\n") = .ok (L "<p>foo\n:-:</p>\n") := by decide +kernel

end Mistletoe.Props.C14
