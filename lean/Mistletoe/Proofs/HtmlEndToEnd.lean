/-
  C08 end to end: parser followed by the HTML renderer, for EVERY text.

  `Props/C08.lean` proves well-formedness of the HTML output for every token tree under the one
  hypothesis `levelsOks d.kids` (heading levels 1…6).  `Proofs/DocShape.lean` proves that every parsed
  document is well-shaped (`Doc.shapeOk`, which contains "heading level 1…6, setext level 1…2" at every
  depth).  Here the two are composed, so the hypothesis on the tree disappears:

  * `shapeOk_levelsOks`      : `d.shapeOk → levelsOks d.kids`
  * `C08_parsed_wellformed`  : every document ANY configuration parses renders to well-formed HTML
  * `C08_every_text`         : `HtmlRenderer(**opts).render(Document(text))` returns, and its output is
                               well-formed, for every text (enough gas)
  * `Config.htmlNoRaw`       : the token lists of `HtmlRenderer(process_html_tokens=False)` (regenerated)
  * `supportedBlocks_noHtml` : the "no HtmlBlock / HtmlSpan at any depth" predicate of Proofs/LatexTotal.lean
                               (`Latex.supportedBlocks`) implies `Pred.noHtmlBlocks`
  * `parse_noHtml`, `C08_parsed_no_raw`, `C08_every_text_no_raw` : with raw-HTML processing disabled the
                               output consists solely of the renderer's own tags and escaped text
-/
import Mistletoe.Props.C08
import Mistletoe.Proofs.DocShape
import Mistletoe.Proofs.LatexTotal

namespace Mistletoe.Config
open Mistletoe

/-- token lists while an `HtmlRenderer(process_html_tokens=False)` is active (regenerated from /repo):
    the default lists — neither HtmlBlock nor HtmlSpan is installed -/
def htmlNoRaw : Option Document.Cfg :=
  cfgOf Gen.RenderMaps.htmlNoHtmlBlockTokens Gen.RenderMaps.htmlNoHtmlSpanTokens

/-- `HtmlRenderer(process_html_tokens=False, **opts).render(Document(text))` -/
def renderHtmlNoRaw (opts : Html.Opts) (gas : Nat) (text : Str) : Option Str :=
  match htmlNoRaw with
  | none => none
  | some cfg =>
    match Document.parse cfg gas text with
    | .ok d => some (Html.render opts d)
    | .err _ => none

end Mistletoe.Config

namespace Mistletoe.HtmlEndToEnd
open Mistletoe Mistletoe.Html Mistletoe.Pred Mistletoe.Escape Mistletoe.Block Mistletoe.Lines

/-! ## (a) well-shaped ⇒ heading levels 1…6 -/

mutual
/-- `Block.shapeOk` (C12: ATX level 1…6, setext level 1 or 2, recursively) gives `levelsOk` (C08's
    hypothesis: both kinds of heading have level 1…6, inside quotes, lists, items, tables) -/
theorem shapeOk_levelsOk : ∀ (b : Mistletoe.Block), b.shapeOk = true → levelsOk b = true
  | .paragraph .., _ => rfl
  | .heading l _ _ _, h => by
    simp only [Block.shapeOk, Bool.and_eq_true, decide_eq_true_eq] at h
    simp [levelsOk, h.1, h.2]
  | .setextHeading l _ _ _, h => by
    simp only [Block.shapeOk, Bool.or_eq_true, beq_iff_eq] at h
    rcases h with rfl | rfl <;> simp [levelsOk]
  | .quote kids _, h => by
    simp only [Block.shapeOk, Bool.and_eq_true] at h
    simp only [levelsOk]
    exact shapeOkL_levelsOks kids h.2
  | .blockCode .., _ => rfl
  | .codeFence .., _ => rfl
  | .list _ _ items _, h => by
    simp only [Block.shapeOk, Bool.and_eq_true] at h
    simp only [levelsOk]
    exact shapeOkL_levelsOks items h.2
  | .listItem _ _ _ _ kids _, h => by
    simp only [Block.shapeOk, Bool.and_eq_true] at h
    simp only [levelsOk]
    exact shapeOkL_levelsOks kids h.2
  | .table _ header rows _, h => by
    simp only [Block.shapeOk, Bool.and_eq_true] at h
    simp only [levelsOk, Bool.and_eq_true]
    exact ⟨shapeOkL_levelsOks header h.1.2, shapeOkL_levelsOks rows h.2⟩
  | .tableRow .., _ => rfl
  | .tableCell .., _ => rfl
  | .thematicBreak .., _ => rfl
  | .htmlBlock .., _ => rfl
  | .blankLine _, _ => rfl
  | .linkRefDefBlock .., _ => rfl
theorem shapeOkL_levelsOks : ∀ (bs : List Mistletoe.Block), shapeOkL bs = true → levelsOks bs = true
  | [], _ => rfl
  | b :: bs, h => by
    simp only [shapeOkL, Bool.and_eq_true] at h
    simp only [levelsOks, Bool.and_eq_true]
    exact ⟨shapeOk_levelsOk b h.1, shapeOkL_levelsOks bs h.2⟩
end

/-- **(a)** a well-shaped document meets the hypothesis of C08 -/
theorem shapeOk_levelsOks (d : Doc) (h : d.shapeOk = true) : levelsOks d.kids = true := by
  simp only [Doc.shapeOk, Bool.and_eq_true] at h
  exact shapeOkL_levelsOks d.kids h.2

/-- every parsed document meets the hypothesis of C08, for every configuration and every gas -/
theorem parse_levelsOks (cfg : Document.Cfg) (gas : Nat) (t : Str) (d : Doc)
    (h : Document.parse cfg gas t = .ok d) : levelsOks d.kids = true :=
  shapeOk_levelsOks d (Props.C12.C12_parsed_shape_str cfg gas t d h)

/-! ## (d) preparation: no HtmlBlock / HtmlSpan token when the classes are not installed -/

mutual
/-- what Proofs/LatexTotal.lean proves of the inline phase (`Latex.supportedInline`: no HtmlSpan,
    GithubWiki, XWiki macro token, recursively; an image's children are not looked at) implies
    `noHtmlInline` (no HtmlSpan, recursively; an image's children are not looked at) -/
theorem supportedInline_noHtml : ∀ (i : Inline), Latex.supportedInline i = true → noHtmlInline i = true
  | .htmlSpan _, h => by simp [Latex.supportedInline] at h
  | .strong _ k, h => by
    simp only [Latex.supportedInline] at h; simp only [noHtmlInline]; exact supportedInlines_noHtml k h
  | .emphasis _ k, h => by
    simp only [Latex.supportedInline] at h; simp only [noHtmlInline]; exact supportedInlines_noHtml k h
  | .strikethrough k, h => by
    simp only [Latex.supportedInline] at h; simp only [noHtmlInline]; exact supportedInlines_noHtml k h
  | .link _ _ _ _ _ k, h => by
    simp only [Latex.supportedInline] at h; simp only [noHtmlInline]; exact supportedInlines_noHtml k h
  | .githubWiki _ k, h => by simp [Latex.supportedInline] at h
  | .rawText _, _ => rfl
  | .inlineCode .., _ => rfl
  | .image .., _ => rfl
  | .autoLink .., _ => rfl
  | .escapeSequence _, _ => rfl
  | .lineBreak .., _ => rfl
  | .math _, _ => rfl
  | .xwikiMacroStart _, _ => rfl
  | .xwikiMacroEnd _, _ => rfl
  | .linkRefDef .., _ => rfl
theorem supportedInlines_noHtml : ∀ (k : List Inline), Latex.supportedInlines k = true → noHtmlInlines k = true
  | [], _ => rfl
  | i :: is, h => by
    simp only [Latex.supportedInlines, Bool.and_eq_true] at h
    simp only [noHtmlInlines, Bool.and_eq_true]
    exact ⟨supportedInline_noHtml i h.1, supportedInlines_noHtml is h.2⟩
end

mutual
theorem supportedBlock_noHtml : ∀ (b : Mistletoe.Block), Latex.supportedBlock b = true → noHtmlBlock b = true
  | .htmlBlock .., h => by simp [Latex.supportedBlock] at h
  | .paragraph k _, h => by
    simp only [Latex.supportedBlock] at h; simp only [noHtmlBlock]; exact supportedInlines_noHtml k h
  | .heading _ _ k _, h => by
    simp only [Latex.supportedBlock] at h; simp only [noHtmlBlock]; exact supportedInlines_noHtml k h
  | .setextHeading _ _ k _, h => by
    simp only [Latex.supportedBlock] at h; simp only [noHtmlBlock]; exact supportedInlines_noHtml k h
  | .quote kids _, h => by
    simp only [Latex.supportedBlock] at h; simp only [noHtmlBlock]; exact supportedBlocks_noHtml kids h
  | .list _ _ items _, h => by
    simp only [Latex.supportedBlock] at h; simp only [noHtmlBlock]; exact supportedBlocks_noHtml items h
  | .listItem _ _ _ _ kids _, h => by
    simp only [Latex.supportedBlock] at h; simp only [noHtmlBlock]; exact supportedBlocks_noHtml kids h
  | .table _ header rows _, h => by
    simp only [Latex.supportedBlock, Bool.and_eq_true] at h
    simp only [noHtmlBlock, Bool.and_eq_true]
    exact ⟨supportedBlocks_noHtml header h.1.2, supportedBlocks_noHtml rows h.2⟩
  | .tableRow _ cells _, h => by
    simp only [Latex.supportedBlock] at h; simp only [noHtmlBlock]; exact supportedBlocks_noHtml cells h
  | .tableCell _ k _, h => by
    simp only [Latex.supportedBlock] at h; simp only [noHtmlBlock]; exact supportedInlines_noHtml k h
  | .blockCode .., _ => rfl
  | .codeFence .., _ => rfl
  | .thematicBreak .., _ => rfl
  | .blankLine _, _ => rfl
  | .linkRefDefBlock .., _ => rfl
/-- the tree predicate of Proofs/LatexTotal.lean implies C08's "no HtmlBlock / HtmlSpan token" -/
theorem supportedBlocks_noHtml : ∀ (bs : List Mistletoe.Block), Latex.supportedBlocks bs = true → noHtmlBlocks bs = true
  | [], _ => rfl
  | b :: bs, h => by
    simp only [Latex.supportedBlocks, Bool.and_eq_true] at h
    simp only [noHtmlBlocks, Bool.and_eq_true]
    exact ⟨supportedBlock_noHtml b h.1, supportedBlocks_noHtml bs h.2⟩
end

/-- **no HtmlBlock and no HtmlSpan token at any depth of a document parsed under token lists that do not
    install them.**  Reuses `Latex.parse_lx` (generic in the configuration), whose hypotheses are those of the
    lists of the bundled non-raw renderers: also no BlankLine, LinkReferenceDefinitionBlock, GithubWiki,
    XWiki macro class (`clsLx`) — more than is needed here, and true of `Config.htmlNoRaw`. -/
theorem parse_noHtml (cfg : Document.Cfg)
    (hhb : .htmlBlock ∉ cfg.block.types) (hbl : .blankLine ∉ cfg.block.types) (hlr : .linkRefDefBlock ∉ cfg.block.types)
    (hsp : ∀ t ∈ cfg.span, Latex.clsLx t = true)
    (gas : Nat) (t : Str) (d : Doc) (h : Document.parse cfg gas t = .ok d) : noHtmlBlocks d.kids = true :=
  supportedBlocks_noHtml d.kids (Latex.parse_lx cfg hhb hbl hlr hsp gas t d h).1

/-- the regenerated lists of `HtmlRenderer(process_html_tokens=False)`, as the model reads them -/
theorem htmlNoRaw_lists (cfg : Document.Cfg) (hc : Config.htmlNoRaw = some cfg) :
    cfg.block.types = [.blockCode, .heading, .quote, .codeFence, .thematicBreak, .list, .table, .footnote, .paragraph] ∧
    cfg.span = [.escapeSequence, .strikethrough, .autoLink, .coreTokens, .inlineCode, .lineBreak] := by
  have h : Config.htmlNoRaw.map (fun c => (c.block.types, c.span)) =
      some ([.blockCode, .heading, .quote, .codeFence, .thematicBreak, .list, .table, .footnote, .paragraph],
            [.escapeSequence, .strikethrough, .autoLink, .coreTokens, .inlineCode, .lineBreak]) := by decide +kernel
  rw [hc] at h
  simp only [Option.map_some, Option.some.injEq, Prod.mk.injEq] at h
  exact h

/-- every document parsed under `Config.htmlNoRaw` has no HtmlBlock / HtmlSpan token -/
theorem htmlNoRaw_parse_noHtml (cfg : Document.Cfg) (hc : Config.htmlNoRaw = some cfg) (gas : Nat) (t : Str) (d : Doc)
    (h : Document.parse cfg gas t = .ok d) : noHtmlBlocks d.kids = true := by
  obtain ⟨hb, hs⟩ := htmlNoRaw_lists cfg hc
  exact parse_noHtml cfg (by rw [hb]; decide) (by rw [hb]; decide) (by rw [hb]; decide) (by rw [hs]; decide) gas t d h

end Mistletoe.HtmlEndToEnd

namespace Mistletoe.Props.C08
open Mistletoe Mistletoe.Html Mistletoe.Pred Mistletoe.Escape Mistletoe.Block Mistletoe.Lines Mistletoe.HtmlEndToEnd

/-- **(b) Every parsed document renders to well-formed HTML** — for every configuration (token lists, flags),
    every gas, every text and every option set; no hypothesis on the tree.  The conclusion is that of
    `C08_with_raw`: the output string is the spelling of an event list that is properly nested, uses only the
    renderer's fixed tag vocabulary and attribute names, has attribute values without `"`, `<`, `>` and text
    with `<`, `>`, `&` only in escaped form; the only verbatim leaves are the contents of the document's
    HtmlBlock / HtmlSpan tokens, in order. -/
theorem C08_parsed_wellformed (o : Opts) (cfg : Document.Cfg) (gas : Nat) (t : Str) (d : Doc)
    (h : Document.parse cfg gas t = .ok d) :
    render o d = flat (renderDoc o.q d) ∧ WellFormed (renderDoc o.q d)
    ∧ rawsOf (renderDoc o.q d) = (if (renderDoc o.q d).isEmpty then [] else htmlOfL d.kids) :=
  C08_with_raw o d (parse_levelsOks cfg gas t d h)

/-- **(c) `HtmlRenderer(**opts).render(Document(text))`, for every text**: with the token lists the HTML
    renderer installs (regenerated from /repo) and enough gas the parse returns a document `d`, the rendering
    is `render o d`, and it is well-formed HTML (raw HTML leaves set aside). -/
theorem C08_every_text (o : Opts) (cfg : Document.Cfg) (hc : Config.html = some cfg) (gas : Nat) (t : Str)
    (hg : gasBound cfg.block (docBuf (normalize (.str t))) ≤ gas) :
    ∃ d, Document.parse cfg gas t = .ok d ∧ Config.renderHtml o gas t = some (render o d) ∧
      render o d = flat (renderDoc o.q d) ∧ WellFormed (renderDoc o.q d)
      ∧ rawsOf (renderDoc o.q d) = (if (renderDoc o.q d).isEmpty then [] else htmlOfL d.kids) := by
  obtain ⟨d, hd⟩ := Props.C01.C01_parse_terminates cfg gas t hg
  exact ⟨d, hd, by simp [Config.renderHtml, hc, hd], C08_parsed_wellformed o cfg gas t d hd⟩

/-- **(d) a document parsed with raw-HTML processing disabled** (the configuration
    `HtmlRenderer(process_html_tokens=False)` installs) has no HtmlBlock / HtmlSpan token, and its rendering
    consists solely of the renderer's own tags and escaped text: no verbatim leaf at all. -/
theorem C08_parsed_no_raw (o : Opts) (cfg : Document.Cfg) (hc : Config.htmlNoRaw = some cfg) (gas : Nat) (t : Str) (d : Doc)
    (h : Document.parse cfg gas t = .ok d) :
    noHtmlBlocks d.kids = true ∧ WellFormed (renderDoc o.q d) ∧ ∀ e ∈ renderDoc o.q d, isRaw e = false := by
  have hn := htmlNoRaw_parse_noHtml cfg hc gas t d h
  exact ⟨hn, C08_no_raw o d (parse_levelsOks cfg gas t d h) hn⟩

/-- **(d) `HtmlRenderer(process_html_tokens=False, **opts).render(Document(text))`, for every text**: the
    parse returns, and the output is the spelling of a properly nested event list made only of tags of the
    fixed vocabulary (safe attribute values) and escaped text. -/
theorem C08_every_text_no_raw (o : Opts) (cfg : Document.Cfg) (hc : Config.htmlNoRaw = some cfg) (gas : Nat) (t : Str)
    (hg : gasBound cfg.block (docBuf (normalize (.str t))) ≤ gas) :
    ∃ d, Document.parse cfg gas t = .ok d ∧ Config.renderHtmlNoRaw o gas t = some (flat (renderDoc o.q d)) ∧
      WellFormed (renderDoc o.q d) ∧ ∀ e ∈ renderDoc o.q d, isRaw e = false := by
  obtain ⟨d, hd⟩ := Props.C01.C01_parse_terminates cfg gas t hg
  have h := C08_parsed_no_raw o cfg hc gas t d hd
  exact ⟨d, hd, by simp [Config.renderHtmlNoRaw, hc, hd, render], h.2⟩

/-! ### Non-vacuity -/

/-- the configuration exists: the regenerated lists are known to the model -/
example : Config.htmlNoRaw.isSome = true := by decide +kernel

/-- a hostile text: an image destination that tries to close its attribute, a raw tag, `&`, quotes -/
def hostileText : Str := "![a](x\"onerror=\"alert(1)) <b> & \"q\"".toList

/-- with raw HTML processed (the default): the output of the real code
    (`mistletoe.markdown('![a](x"onerror="alert(1)) <b> & "q"')`); `<b>` is an HtmlSpan, kept verbatim -/
example : (Config.renderHtml {} 40 hostileText).map String.ofList =
    some "<p><img src=\"x%22onerror=%22alert(1)\" alt=\"a\" /> <b> &amp; \"q\"</p>\n" := by decide +kernel

/-- with `process_html_tokens=False` (real code: `HtmlRenderer(process_html_tokens=False).render(Document(…))`):
    nothing of the text is markup any more -/
example : (Config.renderHtmlNoRaw {} 40 hostileText).map String.ofList =
    some "<p><img src=\"x%22onerror=%22alert(1)\" alt=\"a\" /> &lt;b&gt; &amp; \"q\"</p>\n" := by decide +kernel

/-- the events of the parsed hostile text under either configuration: checked with the executable
    counterparts of `WellFormed` (`balancedB`, `evOk`); one raw leaf with raw HTML on, none with it off -/
def evsOf (c : Option Document.Cfg) (t : Str) : List Ev :=
  match c with
  | none => []
  | some cfg => match Document.parse cfg 40 t with
    | .ok d => renderDoc ⟨false, false⟩ d
    | .err _ => []

example : balancedB (evsOf Config.html hostileText) [] = true ∧ (evsOf Config.html hostileText).all evOk = true ∧
    rawsOf (evsOf Config.html hostileText) = ["<b>".toList] := by decide +kernel
example : balancedB (evsOf Config.htmlNoRaw hostileText) [] = true ∧ (evsOf Config.htmlNoRaw hostileText).all evOk = true ∧
    (evsOf Config.htmlNoRaw hostileText).any isRaw = false ∧ (evsOf Config.htmlNoRaw hostileText).length = 8 := by
  decide +kernel

/-- the theorems applied: configuration known, gas bound satisfiable -/
example : ∃ d, Document.parse (Config.html.get (by decide +kernel)) 4000 hostileText = .ok d ∧
    Config.renderHtml {} 4000 hostileText = some (render {} d) ∧
    render {} d = flat (renderDoc (Opts.q {}) d) ∧ WellFormed (renderDoc (Opts.q {}) d)
    ∧ rawsOf (renderDoc (Opts.q {}) d) = (if (renderDoc (Opts.q {}) d).isEmpty then [] else htmlOfL d.kids) :=
  C08_every_text {} (Config.html.get (by decide +kernel)) (Option.some_get _).symm 4000 _ (by decide +kernel)

example : ∃ d, Document.parse (Config.htmlNoRaw.get (by decide +kernel)) 4000 hostileText = .ok d ∧
    Config.renderHtmlNoRaw {} 4000 hostileText = some (flat (renderDoc (Opts.q {}) d)) ∧
    WellFormed (renderDoc (Opts.q {}) d) ∧ ∀ e ∈ renderDoc (Opts.q {}) d, isRaw e = false :=
  C08_every_text_no_raw {} (Config.htmlNoRaw.get (by decide +kernel)) (Option.some_get _).symm 4000 _ (by decide +kernel)

/-- `levelsOks` is what `shapeOk` was needed for: a level-7 heading (no parse produces it) is outside C08 -/
example : levelsOks [.heading 7 [] [] 1] = false ∧ Doc.shapeOk ⟨[.heading 7 [] [] 1], []⟩ = false := by decide

end Mistletoe.Props.C08

section Audit
open Mistletoe.Props.C08 Mistletoe.HtmlEndToEnd
#print axioms shapeOk_levelsOks
#print axioms C08_parsed_wellformed
#print axioms C08_every_text
#print axioms C08_parsed_no_raw
#print axioms C08_every_text_no_raw
end Audit
