/-
  C08 end to end: parser followed by the HTML renderer, for EVERY text.

  `Props/C08.lean` proves well-formedness of the HTML output for every token tree under the one
  hypothesis `levelsOks d.kids` (heading levels 1…6).  `Proofs/DocShape.lean` proves that every parsed
  document is well-shaped (`Doc.shapeOk`, which contains "heading level 1…6, setext level 1…2" at every
  depth).  Here the two are composed, so the hypothesis on the tree disappears:

  * `shapeOk_levelsOks`      : `d.shapeOk → levelsOks d.kids`
  * `C08_parsed_wellformed`  : every document ANY configuration parses renders to well-formed HTML
  * `C08_every_text`         : `HtmlRenderer(**opts).render(Document(text))` returns, and its output is
                               well-formed, for every text (enough gas)
  * `Config.htmlNoRaw`       : the token lists of `HtmlRenderer(process_html_tokens=False)` (regenerated)
  * `supportedBlocks_noHtml` : the "no HtmlBlock / HtmlSpan at any depth" predicate of Proofs/LatexTotal.lean
                               (`Latex.supportedBlocks`) implies `Pred.noHtmlBlocks`
  * `parse_noHtml`, `C08_parsed_no_raw`, `C08_every_text_no_raw` : with raw-HTML processing disabled the
                               output consists solely of the renderer's own tags and escaped text
  * `NoRaw.parse_noHtml_general`, `C08_parsed_no_raw_general`, `C08_every_text_no_raw_general` : the same for EVERY
                               configuration whose lists contain neither `.htmlBlock` nor `.htmlSpan` (the analogue
                               of Parts 2-4 of Proofs/LatexTotal.lean with only these two hypotheses)
-/
import Mistletoe.Props.C08
import Mistletoe.Proofs.DocShape
import Mistletoe.Proofs.LatexTotal

namespace Mistletoe.Config
open Mistletoe

/-- token lists while an `HtmlRenderer(process_html_tokens=False)` is active (regenerated from /repo):
    the default lists — neither HtmlBlock nor HtmlSpan is installed -/
def htmlNoRaw : Option Document.Cfg :=
  cfgOf Gen.RenderMaps.htmlNoHtmlBlockTokens Gen.RenderMaps.htmlNoHtmlSpanTokens

/-- `HtmlRenderer(process_html_tokens=False, **opts).render(Document(text))` -/
def renderHtmlNoRaw (opts : Html.Opts) (gas : Nat) (text : Str) : Option Str :=
  match htmlNoRaw with
  | none => none
  | some cfg =>
    match Document.parse cfg gas text with
    | .ok d => some (Html.render opts d)
    | .err _ => none

end Mistletoe.Config

namespace Mistletoe.HtmlEndToEnd
open Mistletoe Mistletoe.Html Mistletoe.Pred Mistletoe.Escape Mistletoe.Block Mistletoe.Lines

/-! ## (a) well-shaped ⇒ heading levels 1…6 -/

mutual
/-- `Block.shapeOk` (C12: ATX level 1…6, setext level 1 or 2, recursively) gives `levelsOk` (C08's
    hypothesis: both kinds of heading have level 1…6, inside quotes, lists, items, tables) -/
theorem shapeOk_levelsOk : ∀ (b : Mistletoe.Block), b.shapeOk = true → levelsOk b = true
  | .paragraph .., _ => rfl
  | .heading l _ _ _, h => by
    simp only [Block.shapeOk, Bool.and_eq_true, decide_eq_true_eq] at h
    simp [levelsOk, h.1, h.2]
  | .setextHeading l _ _ _, h => by
    simp only [Block.shapeOk, Bool.or_eq_true, beq_iff_eq] at h
    rcases h with rfl | rfl <;> simp [levelsOk]
  | .quote kids _, h => by
    simp only [Block.shapeOk, Bool.and_eq_true] at h
    simp only [levelsOk]
    exact shapeOkL_levelsOks kids h.2
  | .blockCode .., _ => rfl
  | .codeFence .., _ => rfl
  | .list _ _ items _, h => by
    simp only [Block.shapeOk, Bool.and_eq_true] at h
    simp only [levelsOk]
    exact shapeOkL_levelsOks items h.2
  | .listItem _ _ _ _ kids _, h => by
    simp only [Block.shapeOk, Bool.and_eq_true] at h
    simp only [levelsOk]
    exact shapeOkL_levelsOks kids h.2
  | .table _ header rows _, h => by
    simp only [Block.shapeOk, Bool.and_eq_true] at h
    simp only [levelsOk, Bool.and_eq_true]
    exact ⟨shapeOkL_levelsOks header h.1.2, shapeOkL_levelsOks rows h.2⟩
  | .tableRow .., _ => rfl
  | .tableCell .., _ => rfl
  | .thematicBreak .., _ => rfl
  | .htmlBlock .., _ => rfl
  | .blankLine _, _ => rfl
  | .linkRefDefBlock .., _ => rfl
theorem shapeOkL_levelsOks : ∀ (bs : List Mistletoe.Block), shapeOkL bs = true → levelsOks bs = true
  | [], _ => rfl
  | b :: bs, h => by
    simp only [shapeOkL, Bool.and_eq_true] at h
    simp only [levelsOks, Bool.and_eq_true]
    exact ⟨shapeOk_levelsOk b h.1, shapeOkL_levelsOks bs h.2⟩
end

/-- **(a)** a well-shaped document meets the hypothesis of C08 -/
theorem shapeOk_levelsOks (d : Doc) (h : d.shapeOk = true) : levelsOks d.kids = true := by
  simp only [Doc.shapeOk, Bool.and_eq_true] at h
  exact shapeOkL_levelsOks d.kids h.2

/-- every parsed document meets the hypothesis of C08, for every configuration and every gas -/
theorem parse_levelsOks (cfg : Document.Cfg) (gas : Nat) (t : Str) (d : Doc)
    (h : Document.parse cfg gas t = .ok d) : levelsOks d.kids = true :=
  shapeOk_levelsOks d (Props.C12.C12_parsed_shape_str cfg gas t d h)

/-! ## (d) preparation: no HtmlBlock / HtmlSpan token when the classes are not installed -/

mutual
/-- what Proofs/LatexTotal.lean proves of the inline phase (`Latex.supportedInline`: no HtmlSpan,
    GithubWiki, XWiki macro token, recursively; an image's children are not looked at) implies
    `noHtmlInline` (no HtmlSpan, recursively; an image's children are not looked at) -/
theorem supportedInline_noHtml : ∀ (i : Inline), Latex.supportedInline i = true → noHtmlInline i = true
  | .htmlSpan _, h => by simp [Latex.supportedInline] at h
  | .strong _ k, h => by
    simp only [Latex.supportedInline] at h; simp only [noHtmlInline]; exact supportedInlines_noHtml k h
  | .emphasis _ k, h => by
    simp only [Latex.supportedInline] at h; simp only [noHtmlInline]; exact supportedInlines_noHtml k h
  | .strikethrough k, h => by
    simp only [Latex.supportedInline] at h; simp only [noHtmlInline]; exact supportedInlines_noHtml k h
  | .link _ _ _ _ _ k, h => by
    simp only [Latex.supportedInline] at h; simp only [noHtmlInline]; exact supportedInlines_noHtml k h
  | .githubWiki _ k, h => by simp [Latex.supportedInline] at h
  | .rawText _, _ => rfl
  | .inlineCode .., _ => rfl
  | .image .., _ => rfl
  | .autoLink .., _ => rfl
  | .escapeSequence _, _ => rfl
  | .lineBreak .., _ => rfl
  | .math _, _ => rfl
  | .xwikiMacroStart _, _ => rfl
  | .xwikiMacroEnd _, _ => rfl
  | .linkRefDef .., _ => rfl
theorem supportedInlines_noHtml : ∀ (k : List Inline), Latex.supportedInlines k = true → noHtmlInlines k = true
  | [], _ => rfl
  | i :: is, h => by
    simp only [Latex.supportedInlines, Bool.and_eq_true] at h
    simp only [noHtmlInlines, Bool.and_eq_true]
    exact ⟨supportedInline_noHtml i h.1, supportedInlines_noHtml is h.2⟩
end

mutual
theorem supportedBlock_noHtml : ∀ (b : Mistletoe.Block), Latex.supportedBlock b = true → noHtmlBlock b = true
  | .htmlBlock .., h => by simp [Latex.supportedBlock] at h
  | .paragraph k _, h => by
    simp only [Latex.supportedBlock] at h; simp only [noHtmlBlock]; exact supportedInlines_noHtml k h
  | .heading _ _ k _, h => by
    simp only [Latex.supportedBlock] at h; simp only [noHtmlBlock]; exact supportedInlines_noHtml k h
  | .setextHeading _ _ k _, h => by
    simp only [Latex.supportedBlock] at h; simp only [noHtmlBlock]; exact supportedInlines_noHtml k h
  | .quote kids _, h => by
    simp only [Latex.supportedBlock] at h; simp only [noHtmlBlock]; exact supportedBlocks_noHtml kids h
  | .list _ _ items _, h => by
    simp only [Latex.supportedBlock] at h; simp only [noHtmlBlock]; exact supportedBlocks_noHtml items h
  | .listItem _ _ _ _ kids _, h => by
    simp only [Latex.supportedBlock] at h; simp only [noHtmlBlock]; exact supportedBlocks_noHtml kids h
  | .table _ header rows _, h => by
    simp only [Latex.supportedBlock, Bool.and_eq_true] at h
    simp only [noHtmlBlock, Bool.and_eq_true]
    exact ⟨supportedBlocks_noHtml header h.1.2, supportedBlocks_noHtml rows h.2⟩
  | .tableRow _ cells _, h => by
    simp only [Latex.supportedBlock] at h; simp only [noHtmlBlock]; exact supportedBlocks_noHtml cells h
  | .tableCell _ k _, h => by
    simp only [Latex.supportedBlock] at h; simp only [noHtmlBlock]; exact supportedInlines_noHtml k h
  | .blockCode .., _ => rfl
  | .codeFence .., _ => rfl
  | .thematicBreak .., _ => rfl
  | .blankLine _, _ => rfl
  | .linkRefDefBlock .., _ => rfl
/-- the tree predicate of Proofs/LatexTotal.lean implies C08's "no HtmlBlock / HtmlSpan token" -/
theorem supportedBlocks_noHtml : ∀ (bs : List Mistletoe.Block), Latex.supportedBlocks bs = true → noHtmlBlocks bs = true
  | [], _ => rfl
  | b :: bs, h => by
    simp only [Latex.supportedBlocks, Bool.and_eq_true] at h
    simp only [noHtmlBlocks, Bool.and_eq_true]
    exact ⟨supportedBlock_noHtml b h.1, supportedBlocks_noHtml bs h.2⟩
end

/-- **no HtmlBlock and no HtmlSpan token at any depth of a document parsed under token lists that do not
    install them.**  Reuses `Latex.parse_lx` (generic in the configuration), whose hypotheses are those of the
    lists of the bundled non-raw renderers: also no BlankLine, LinkReferenceDefinitionBlock, GithubWiki,
    XWiki macro class (`clsLx`) — more than is needed here, and true of `Config.htmlNoRaw`. -/
theorem parse_noHtml (cfg : Document.Cfg)
    (hhb : .htmlBlock ∉ cfg.block.types) (hbl : .blankLine ∉ cfg.block.types) (hlr : .linkRefDefBlock ∉ cfg.block.types)
    (hsp : ∀ t ∈ cfg.span, Latex.clsLx t = true)
    (gas : Nat) (t : Str) (d : Doc) (h : Document.parse cfg gas t = .ok d) : noHtmlBlocks d.kids = true :=
  supportedBlocks_noHtml d.kids (Latex.parse_lx cfg hhb hbl hlr hsp gas t d h).1

/-- the regenerated lists of `HtmlRenderer(process_html_tokens=False)`, as the model reads them -/
theorem htmlNoRaw_lists (cfg : Document.Cfg) (hc : Config.htmlNoRaw = some cfg) :
    cfg.block.types = [.blockCode, .heading, .quote, .codeFence, .thematicBreak, .list, .table, .footnote, .paragraph] ∧
    cfg.span = [.escapeSequence, .strikethrough, .autoLink, .coreTokens, .inlineCode, .lineBreak] := by
  have h : Config.htmlNoRaw.map (fun c => (c.block.types, c.span)) =
      some ([.blockCode, .heading, .quote, .codeFence, .thematicBreak, .list, .table, .footnote, .paragraph],
            [.escapeSequence, .strikethrough, .autoLink, .coreTokens, .inlineCode, .lineBreak]) := by decide +kernel
  rw [hc] at h
  simp only [Option.map_some, Option.some.injEq, Prod.mk.injEq] at h
  exact h

/-- every document parsed under `Config.htmlNoRaw` has no HtmlBlock / HtmlSpan token -/
theorem htmlNoRaw_parse_noHtml (cfg : Document.Cfg) (hc : Config.htmlNoRaw = some cfg) (gas : Nat) (t : Str) (d : Doc)
    (h : Document.parse cfg gas t = .ok d) : noHtmlBlocks d.kids = true := by
  obtain ⟨hb, hs⟩ := htmlNoRaw_lists cfg hc
  exact parse_noHtml cfg (by rw [hb]; decide) (by rw [hb]; decide) (by rw [hb]; decide) (by rw [hs]; decide) gas t d h

end Mistletoe.HtmlEndToEnd

namespace Mistletoe.NoRaw
open Mistletoe Mistletoe.Pred Mistletoe.Block Mistletoe.Inline

/-! ## The general statement: no HtmlSpan class, no HtmlBlock class ⇒ no such token at any depth

  The analogue of Parts 2–4 of Proofs/LatexTotal.lean with the weakest hypotheses: only `HtmlSpan` is
  required absent from the span list and only `HtmlBlock` from the block list (BlankLine,
  LinkReferenceDefinitionBlock, GithubWiki, Math, the XWiki macro tokens may be installed). -/

theorem inlineCodeOf_nohtml (s : Str) (m : InlineScan.CodeM) : noHtmlInline (inlineCodeOf s m) = true := by
  unfold inlineCodeOf
  simp only
  split <;> rfl

mutual
theorem build_nohtml (s : Str) (found : List Found) (hf : ∀ f ∈ found, f.cls ≠ .htmlSpan) :
    ∀ (o : Span.Out), noHtmlInline (build s found o) = true
  | .raw a b => by simp [build, noHtmlInline]
  | .tok c kids => by
    have ih := builds_nohtml s found hf kids
    simp only [build]
    split
    · rfl
    · rename_i f hfe
      have hc := hf f (List.mem_of_getElem? hfe)
      split
      all_goals first
        | rfl
        | exact ih
        | exact inlineCodeOf_nohtml s _
        | (split <;> first | exact ih | rfl)
        | (rename_i hcls _; exact absurd hcls hc)
        | (rename_i hcls; exact absurd hcls hc)
theorem builds_nohtml (s : Str) (found : List Found) (hf : ∀ f ∈ found, f.cls ≠ .htmlSpan) :
    ∀ (os : List Span.Out), noHtmlInlines (builds s found os) = true
  | [] => rfl
  | o :: os => by
    simp only [builds, noHtmlInlines, Bool.and_eq_true]
    exact ⟨build_nohtml s found hf o, builds_nohtml s found hf os⟩
end

/-- **`tokenize_inner` under a span-token list without HtmlSpan returns no HtmlSpan token**, at any depth -/
theorem tokenizeInner_nohtml (types : List STok) (ht : STok.htmlSpan ∉ types)
    (fn : Footnotes.Table) (s : Str) (ks : List Inline) (h : tokenizeInner types fn s = .ok ks) :
    noHtmlInlines ks = true := by
  unfold tokenizeInner at h
  split at h
  · cases h
  · rename_i found hfound
    cases h
    apply builds_nohtml
    intro f hf
    have key : ∀ (cr : Res (List Core.CoreM × List InlineScan.CodeM)),
        (match cr with
          | .err e => (Res.err e : Res (List Found))
          | .ok (core, codes) => .ok (types.flatMap (findOne s core codes))) = .ok found → f.cls ≠ .htmlSpan := by
      intro cr hcr
      split at hcr
      · cases hcr
      · cases hcr
        obtain ⟨t, htm, hft⟩ := List.mem_flatMap.mp hf
        rw [Contrib.findOne_cls _ _ _ t f hft]
        intro e; subst e; exact ht htm
    exact key _ hfound

mutual
/-- no HtmlBlock entry, at any nesting depth -/
def EntryNH : Entry → Prop
  | .blockCode _ _ _ => True
  | .heading _ _ _ _ _ => True
  | .quote inner _ _ _ => EntriesNH inner
  | .codeFence _ _ _ _ _ _ _ => True
  | .thematicBreak _ _ _ => True
  | .list items _ _ => ItemsNH items
  | .table _ _ _ _ => True
  | .footnote _ _ _ => True
  | .linkRefDefs _ _ _ => True
  | .paragraph _ _ _ => True
  | .setext _ _ _ => True
  | .htmlBlock _ _ _ => False
  | .blankLine _ _ => True
def EntriesNH : List Entry → Prop
  | [] => True
  | e :: es => EntryNH e ∧ EntriesNH es
def ItemNH : Item → Prop
  | .mk inner _ _ _ _ _ _ => EntriesNH inner
def ItemsNH : List Item → Prop
  | [] => True
  | i :: is => ItemNH i ∧ ItemsNH is
end

theorem entriesNH_append : ∀ (a b : List Entry), EntriesNH a → EntriesNH b → EntriesNH (a ++ b)
  | [], _, _, hb => by simpa using hb
  | x :: xs, b, ha, hb => by
    simp only [List.cons_append, EntriesNH] at ha ⊢
    exact ⟨ha.1, entriesNH_append xs b ha.2 hb⟩

theorem entriesNH_reverse : ∀ (a : List Entry), EntriesNH a → EntriesNH a.reverse
  | [], _ => by simp [EntriesNH]
  | x :: xs, h => by
    simp only [EntriesNH] at h
    rw [List.reverse_cons]
    exact entriesNH_append _ _ (entriesNH_reverse xs h.2) (by simp [EntriesNH, h.1])

theorem itemsNH_append : ∀ (a b : List Item), ItemsNH a → ItemsNH b → ItemsNH (a ++ b)
  | [], _, _, hb => by simpa using hb
  | x :: xs, b, ha, hb => by
    simp only [List.cons_append, ItemsNH] at ha ⊢
    exact ⟨ha.1, itemsNH_append xs b ha.2 hb⟩

theorem itemsNH_reverse : ∀ (a : List Item), ItemsNH a → ItemsNH a.reverse
  | [], _ => by simp [ItemsNH]
  | x :: xs, h => by
    simp only [ItemsNH] at h
    rw [List.reverse_cons]
    exact itemsNH_append _ _ (itemsNH_reverse xs h.2) (by simp [ItemsNH, h.1])

def TokNH (cfg : Block.Cfg) (gas : Nat) : Prop :=
  ∀ (lines : List Line) (start : Nat) (st : St) (b : Buf) (st' : St),
    tokenizeBlock cfg gas lines start st = .ok (b, st') → EntriesNH b.entries

def LoopNH (cfg : Block.Cfg) (gas : Nat) : Prop :=
  ∀ (fw : FW) (st : St) (acc : List Entry) (loose : Bool) (b) (st'),
    tokLoop cfg gas fw st acc loose = .ok (b, st') → EntriesNH acc → EntriesNH b.entries

def TryNH (cfg : Block.Cfg) (gas : Nat) : Prop :=
  ∀ (fw : FW) (st : St) (l : Line) (ts : List BTok) (e : Entry) (fw' : FW) (st' : St),
    tryTypes cfg gas fw st l ts = .ok (some (e, fw', st')) → .htmlBlock ∉ ts → EntryNH e

def ListNH (cfg : Block.Cfg) (gas : Nat) : Prop :=
  ∀ (fw : FW) (st : St) (ld) (nm) (acc : List Item) (r),
    readList cfg gas fw st ld nm acc = .ok r → ItemsNH acc → ItemsNH r.1

theorem list_nh (cfg : Block.Cfg) (gas : Nat) (hT : TokNH cfg gas) (hL : ListNH cfg gas) : ListNH cfg (gas + 1) := by
  intro fw st ld nm acc r h hacc
  have hstop : ∀ (items : List Item) (fwEnd : FW) (stEnd : St) (rr : List Item × FW × St), ItemsNH items →
      (Res.ok ((match items with
        | .mk inner loose i p l n g :: rest => Item.mk inner (decide (inner.length > 1) && loose) i p l n g :: rest
        | [] => []).reverse, fwEnd, stEnd) : Res _) = .ok rr → ItemsNH rr.1 := by
    intro items fwEnd stEnd rr hi he
    cases he
    cases items with
    | nil => simp [ItemsNH]
    | cons x xs =>
      cases x
      simp only [ItemsNH, ItemNH] at hi
      refine itemsNH_reverse _ ?_
      simp only [ItemsNH, ItemNH]
      exact hi
  simp only [readList] at h
  split at h
  · exact hstop acc _ _ r hacc h
  split at h
  · cases h
  · rename_i il hil
    have key : ∀ (item : Item) (itemLeader : Str) (next : Option (Nat × Nat × Str × Str)) (fw' : FW) (st' : St),
        (match il with
          | .empty ind pre ldr ln og next fw' => (Res.ok (Item.mk [] true ind pre ldr ln og, ldr, next, fw', st) : Res _)
          | .lines buf cstart ind pre ldr ln og next fw' =>
            match tokenizeBlock cfg gas buf cstart st with
            | .err e => .err e
            | .ok (b, st') => .ok (Item.mk b.entries b.loose ind pre ldr ln og, ldr, next, fw', st'))
          = .ok (item, itemLeader, next, fw', st') → ItemNH item := by
      intro item itemLeader next fw' st' he
      cases il with
      | empty ind pre ldr ln og nx fwx =>
        simp only at he; cases he
        trivial
      | lines buf cstart ind pre ldr ln og nx fwx =>
        simp only at he
        split at he
        · cases he
        · rename_i b stb hb
          cases he
          exact hT _ _ _ _ _ hb
    split at h
    · cases h
    · rename_i item itemLeader next fw' st' hres
      have hkw := key item itemLeader next fw' st' hres
      have hacc' : ItemsNH (item :: acc) := ⟨hkw, hacc⟩
      split at h
      · split at h
        · exact hstop _ _ _ r hacc' h
        · exact hL _ st' _ _ _ r h hacc'
      · split at h
        · exact hstop _ _ _ r hacc' h
        · exact hL _ st' _ _ _ r h hacc'

theorem try_nh (cfg : Block.Cfg) (gas : Nat) (hT : TokNH cfg gas) (hL : ListNH cfg gas) (hY : TryNH cfg gas) :
    TryNH cfg (gas + 1) := by
  intro fw st l ts e fw' st' h hhb
  cases ts with
  | nil => simp [tryTypes] at h
  | cons t ts =>
    have hhb' : .htmlBlock ∉ ts := fun hm => hhb (List.mem_cons_of_mem _ hm)
    have ih := fun fw2 st2 (h2 : tryTypes cfg gas fw2 st2 l ts = .ok (some (e, fw', st'))) =>
      hY fw2 st2 l ts e fw' st' h2 hhb'
    unfold tryTypes at h
    cases t <;> simp only at h
    · -- htmlBlock
      exact absurd (List.mem_cons_self ..) hhb
    · -- blockCode
      split at h
      · cases h; trivial
      · exact ih fw st h
    · -- heading
      split at h
      · cases h; trivial
      · exact ih fw st h
    · -- quote
      split at h
      · split at h
        · cases h
        · split at h
          · cases h
          · rename_i b stb hb
            cases h
            exact hT _ _ _ _ _ hb
      · exact ih fw st h
    · -- codeFence
      split at h
      · cases h; trivial
      · exact ih fw st h
    · -- thematicBreak
      split at h
      · cases h; trivial
      · exact ih fw st h
    · -- list
      split at h
      · split at h
        · cases h
        · rename_i items fwl stl hrl
          cases h
          exact hL fw st none none [] _ hrl trivial
      · exact ih fw st h
    · -- table
      split at h
      · split at h
        · cases h; trivial
        · exact ih fw st h
      · exact ih fw st h
    · -- footnote
      split at h
      · split at h
        · cases h
        · split at h
          · exact ih _ _ h
          · cases h; trivial
      · exact ih fw st h
    · -- paragraph
      split at h
      · split at h
        · cases h
        · cases h; trivial
        · cases h; trivial
      · exact ih fw st h
    · -- blankLine
      split at h
      · cases h; trivial
      · exact ih fw st h
    · -- linkRefDefBlock
      split at h
      · split at h
        · cases h
        · split at h
          · exact ih _ _ h
          · cases h; trivial
      · exact ih fw st h

theorem loop_nh (cfg : Block.Cfg) (hhb : .htmlBlock ∉ cfg.types)
    (gas : Nat) (hY : TryNH cfg gas) (hP : LoopNH cfg gas) : LoopNH cfg (gas + 1) := by
  intro fw st acc loose b st' h hacc
  simp only [tokLoop] at h
  split at h
  · cases h; exact entriesNH_reverse acc hacc
  · rename_i l hp
    split at h
    · cases h
    · rename_i e fw2 st2 ht
      exact hP fw2 st2 _ loose b st' h ⟨hY fw st l cfg.types e fw2 st2 ht hhb, hacc⟩
    · exact hP fw.next st acc true b st' h hacc

theorem tok_nh (cfg : Block.Cfg) (gas : Nat) (hP : LoopNH cfg gas) : TokNH cfg (gas + 1) := by
  intro lines start st b st' h
  simp only [tokenizeBlock] at h
  exact hP _ _ _ _ _ _ h trivial

theorem all_nh (cfg : Block.Cfg) (hhb : .htmlBlock ∉ cfg.types) :
    ∀ (gas : Nat), TokNH cfg gas ∧ LoopNH cfg gas ∧ TryNH cfg gas ∧ ListNH cfg gas
  | 0 => by
    refine ⟨?_, ?_, ?_, ?_⟩
    · intro lines start st b st' h; simp [tokenizeBlock] at h
    · intro fw st acc loose b st' h; simp [tokLoop] at h
    · intro fw st l ts e fw' st' h; simp [tryTypes] at h
    · intro fw st ld nm acc r h; simp [readList] at h
  | gas + 1 => by
    obtain ⟨hT, hP, hY, hL⟩ := all_nh cfg hhb gas
    exact ⟨tok_nh cfg gas hP, loop_nh cfg hhb gas hY hP, try_nh cfg gas hT hL hY, list_nh cfg gas hT hL⟩

/-- **a block-token list without HtmlBlock yields a buffer without HtmlBlock entries**, at every depth -/
theorem blockPhase_nh (cfg : Block.Cfg) (hhb : .htmlBlock ∉ cfg.types)
    (gas : Nat) (lines : List Str) (b : Buf) (st : St) (h : blockPhase cfg gas lines = .ok (b, st)) : EntriesNH b.entries :=
  (all_nh cfg hhb gas).1 _ 1 {} b st h

/-- the hypothesis on the inline phase (discharged by `tokenizeInner_nohtml`) -/
def InlNH (cfg : Document.Cfg) (fn : Footnotes.Table) : Prop :=
  ∀ (s : Str) (ks : List Inline), Document.inl cfg fn s = .ok ks → noHtmlInlines ks = true

theorem tableRow_go_nh (cfg : Document.Cfg) (fn : Footnotes.Table) (hinl : InlNH cfg fn) (ln : Nat) :
    ∀ (zs : List (Option Str × Option Nat)) (cs : List Mistletoe.Block),
      Document.tableRow.go cfg fn ln zs = .ok cs → noHtmlBlocks cs = true
  | [], cs, h => by simp only [Document.tableRow.go] at h; cases h; rfl
  | (c, a) :: rest, cs, h => by
    simp only [Document.tableRow.go] at h
    split at h
    · cases h
    · rename_i kids hk
      split at h
      · cases h
      · rename_i more hm
        cases h
        simp only [noHtmlBlocks, noHtmlBlock, Bool.and_eq_true]
        exact ⟨hinl _ _ hk, tableRow_go_nh cfg fn hinl ln rest more hm⟩

theorem tableRow_nh (cfg : Document.Cfg) (fn : Footnotes.Table) (hinl : InlNH cfg fn)
    (line : Str) (al : List (Option Nat)) (ln : Nat) (r : Mistletoe.Block)
    (h : Document.tableRow cfg fn line al ln = .ok r) : noHtmlBlock r = true := by
  unfold Document.tableRow at h
  simp only at h
  split at h
  · cases h
  · rename_i cs hcs
    cases h
    simp only [noHtmlBlock]
    exact tableRow_go_nh cfg fn hinl ln _ cs hcs

theorem tableRows_nh (cfg : Document.Cfg) (fn : Footnotes.Table) (hinl : InlNH cfg fn) :
    ∀ (ls : List Str) (al : List (Option Nat)) (ln : Nat) (rs : List Mistletoe.Block),
      Document.tableRows cfg fn ls al ln = .ok rs → noHtmlBlocks rs = true
  | [], _, _, rs, h => by simp only [Document.tableRows] at h; cases h; rfl
  | l :: rest, al, ln, rs, h => by
    simp only [Document.tableRows] at h
    split at h
    · cases h
    · rename_i r hr
      split at h
      · cases h
      · rename_i more hm
        cases h
        simp only [noHtmlBlocks, Bool.and_eq_true]
        exact ⟨tableRow_nh cfg fn hinl l al ln r hr, tableRows_nh cfg fn hinl rest al (ln + 1) more hm⟩

mutual
theorem mkBlock_nh (cfg : Document.Cfg) (fn : Footnotes.Table) (hinl : InlNH cfg fn) :
    ∀ (e : Entry), EntryNH e → ∀ (b : Mistletoe.Block), Document.mkBlock cfg fn e = .ok (some b) → noHtmlBlock b = true
  | .blockCode ls ln og, _, b, h => by simp only [Document.mkBlock] at h; cases h; rfl
  | .heading lvl content closing ln og, _, b, h => by
    simp only [Document.mkBlock] at h
    split at h
    · cases h
    · rename_i kids hk; cases h; exact hinl _ _ hk
  | .quote inner lo ln og, hc, b, h => by
    simp only [Document.mkBlock] at h
    split at h
    · cases h
    · rename_i kids hk
      cases h
      simp only [noHtmlBlock]
      exact mkBlocks_nh cfg fn hinl inner (by simpa [EntryNH] using hc) kids hk
  | .codeFence ls p ld info lang ln og, _, b, h => by simp only [Document.mkBlock] at h; cases h; rfl
  | .thematicBreak line ln og, _, b, h => by simp only [Document.mkBlock] at h; cases h; rfl
  | .list items ln og, hc, b, h => by
    simp only [Document.mkBlock] at h
    split at h
    · cases h
    · rename_i its hits
      have hi := mkItems_nh cfg fn hinl items (by simpa [EntryNH] using hc) its hits
      split at h
      · cases h
      · cases h
        simp only [noHtmlBlock]
        exact hi
  | .table lines sl ln og, _, b, h => by
    simp only [Document.mkBlock] at h
    split at h
    · rename_i l0 l1 rest
      split at h
      · split at h
        · cases h
        · rename_i align hal
          split at h
          · cases h
          · rename_i header hh
            split at h
            · cases h
            · rename_i rows hr
              cases h
              have hH := tableRow_nh cfg fn hinl _ _ _ _ hh
              have hR := tableRows_nh cfg fn hinl _ _ _ _ hr
              simp only [noHtmlBlock, noHtmlBlocks, Bool.and_eq_true, Bool.and_true]
              exact ⟨hH, hR⟩
      · split at h
        · cases h
        · rename_i rows hr
          cases h
          have hR := tableRows_nh cfg fn hinl _ _ _ _ hr
          simp only [noHtmlBlock, noHtmlBlocks, Bool.true_and]
          exact hR
    · cases h
  | .footnote ms ln og, _, b, h => by simp only [Document.mkBlock] at h; cases h
  | .linkRefDefs ms ln og, _, b, h => by simp only [Document.mkBlock] at h; cases h; rfl
  | .paragraph lines ln og, _, b, h => by
    simp only [Document.mkBlock] at h
    split at h
    · cases h
    · rename_i kids hk; cases h; exact hinl _ _ hk
  | .setext lines ln og, _, b, h => by
    simp only [Document.mkBlock] at h
    split at h
    · cases h
    · split at h
      · cases h
      · rename_i kids hk; cases h; exact hinl _ _ hk
  | .htmlBlock lines ln og, hc, _, _ => by simp [EntryNH] at hc
  | .blankLine ln og, _, b, h => by simp only [Document.mkBlock] at h; cases h; rfl
theorem mkBlocks_nh (cfg : Document.Cfg) (fn : Footnotes.Table) (hinl : InlNH cfg fn) :
    ∀ (es : List Entry), EntriesNH es → ∀ (bs : List Mistletoe.Block), Document.mkBlocks cfg fn es = .ok bs →
      noHtmlBlocks bs = true
  | [], _, bs, h => by simp only [Document.mkBlocks] at h; cases h; rfl
  | e :: es, hc, bs, h => by
    simp only [EntriesNH] at hc
    simp only [Document.mkBlocks] at h
    split at h
    · cases h
    · rename_i b hb
      split at h
      · cases h
      · rename_i bs' hbs
        cases h
        have ih := mkBlocks_nh cfg fn hinl es hc.2 bs' hbs
        cases b with
        | none => exact ih
        | some x =>
          simp only [noHtmlBlocks, Bool.and_eq_true]
          exact ⟨mkBlock_nh cfg fn hinl e hc.1 x hb, ih⟩
theorem mkItems_nh (cfg : Document.Cfg) (fn : Footnotes.Table) (hinl : InlNH cfg fn) :
    ∀ (is : List Item), ItemsNH is → ∀ (bs : List Mistletoe.Block), Document.mkItems cfg fn is = .ok bs →
      noHtmlBlocks bs = true
  | [], _, bs, h => by simp only [Document.mkItems] at h; cases h; rfl
  | .mk inner lo ind pre ld ln og :: rest, hc, bs, h => by
    simp only [ItemsNH, ItemNH] at hc
    simp only [Document.mkItems] at h
    split at h
    · cases h
    · rename_i kids hk
      split at h
      · cases h
      · rename_i more hm
        cases h
        simp only [noHtmlBlocks, noHtmlBlock, Bool.and_eq_true]
        exact ⟨mkBlocks_nh cfg fn hinl inner hc.1 kids hk, mkItems_nh cfg fn hinl rest hc.2 more hm⟩
end

/-- **every document parsed under token lists that contain neither HtmlBlock nor HtmlSpan holds no
    HtmlBlock and no HtmlSpan token, at any depth** — for every such configuration (whatever else is
    installed), every text and every gas -/
theorem parse_noHtml_general (cfg : Document.Cfg) (hhb : .htmlBlock ∉ cfg.block.types) (hsp : .htmlSpan ∉ cfg.span)
    (gas : Nat) (t : Str) (d : Doc) (h : Document.parse cfg gas t = .ok d) : noHtmlBlocks d.kids = true := by
  have h' : Document.parseLines cfg gas _ = .ok d := h
  unfold Document.parseLines at h'
  split at h'
  · cases h'
  · rename_i buf st hb
    simp only at h'
    split at h'
    · cases h'
    · rename_i kids hk
      cases h'
      exact mkBlocks_nh cfg _ (fun s ks hs => tokenizeInner_nohtml cfg.span hsp _ s ks hs) _
        (blockPhase_nh cfg.block hhb gas _ buf st hb) kids hk

end Mistletoe.NoRaw

namespace Mistletoe.Props.C08
open Mistletoe Mistletoe.Html Mistletoe.Pred Mistletoe.Escape Mistletoe.Block Mistletoe.Lines Mistletoe.HtmlEndToEnd

/-- **(b) Every parsed document renders to well-formed HTML** — for every configuration (token lists, flags),
    every gas, every text and every option set; no hypothesis on the tree.  The conclusion is that of
    `C08_with_raw`: the output string is the spelling of an event list that is properly nested, uses only the
    renderer's fixed tag vocabulary and attribute names, has attribute values without `"`, `<`, `>` and text
    with `<`, `>`, `&` only in escaped form; the only verbatim leaves are the contents of the document's
    HtmlBlock / HtmlSpan tokens, in order. -/
theorem C08_parsed_wellformed (o : Opts) (cfg : Document.Cfg) (gas : Nat) (t : Str) (d : Doc)
    (h : Document.parse cfg gas t = .ok d) :
    render o d = flat (renderDoc o.q d) ∧ WellFormed (renderDoc o.q d)
    ∧ rawsOf (renderDoc o.q d) = (if (renderDoc o.q d).isEmpty then [] else htmlOfL d.kids) :=
  C08_with_raw o d (parse_levelsOks cfg gas t d h)

/-- **(c) `HtmlRenderer(**opts).render(Document(text))`, for every text**: with the token lists the HTML
    renderer installs (regenerated from /repo) and enough gas the parse returns a document `d`, the rendering
    is `render o d`, and it is well-formed HTML (raw HTML leaves set aside). -/
theorem C08_every_text (o : Opts) (cfg : Document.Cfg) (hc : Config.html = some cfg) (gas : Nat) (t : Str)
    (hg : gasBound cfg.block (docBuf (normalize (.str t))) ≤ gas) :
    ∃ d, Document.parse cfg gas t = .ok d ∧ Config.renderHtml o gas t = some (render o d) ∧
      render o d = flat (renderDoc o.q d) ∧ WellFormed (renderDoc o.q d)
      ∧ rawsOf (renderDoc o.q d) = (if (renderDoc o.q d).isEmpty then [] else htmlOfL d.kids) := by
  obtain ⟨d, hd⟩ := Props.C01.C01_parse_terminates cfg gas t hg
  exact ⟨d, hd, by simp [Config.renderHtml, hc, hd], C08_parsed_wellformed o cfg gas t d hd⟩

/-- **(d) a document parsed with raw-HTML processing disabled** (the configuration
    `HtmlRenderer(process_html_tokens=False)` installs) has no HtmlBlock / HtmlSpan token, and its rendering
    consists solely of the renderer's own tags and escaped text: no verbatim leaf at all. -/
theorem C08_parsed_no_raw (o : Opts) (cfg : Document.Cfg) (hc : Config.htmlNoRaw = some cfg) (gas : Nat) (t : Str) (d : Doc)
    (h : Document.parse cfg gas t = .ok d) :
    noHtmlBlocks d.kids = true ∧ WellFormed (renderDoc o.q d) ∧ ∀ e ∈ renderDoc o.q d, isRaw e = false := by
  have hn := htmlNoRaw_parse_noHtml cfg hc gas t d h
  exact ⟨hn, C08_no_raw o d (parse_levelsOks cfg gas t d h) hn⟩

/-- **(d) `HtmlRenderer(process_html_tokens=False, **opts).render(Document(text))`, for every text**: the
    parse returns, and the output is the spelling of a properly nested event list made only of tags of the
    fixed vocabulary (safe attribute values) and escaped text. -/
theorem C08_every_text_no_raw (o : Opts) (cfg : Document.Cfg) (hc : Config.htmlNoRaw = some cfg) (gas : Nat) (t : Str)
    (hg : gasBound cfg.block (docBuf (normalize (.str t))) ≤ gas) :
    ∃ d, Document.parse cfg gas t = .ok d ∧ Config.renderHtmlNoRaw o gas t = some (flat (renderDoc o.q d)) ∧
      WellFormed (renderDoc o.q d) ∧ ∀ e ∈ renderDoc o.q d, isRaw e = false := by
  obtain ⟨d, hd⟩ := Props.C01.C01_parse_terminates cfg gas t hg
  have h := C08_parsed_no_raw o cfg hc gas t d hd
  exact ⟨d, hd, by simp [Config.renderHtmlNoRaw, hc, hd, render], h.2⟩

/-- **(d, general) raw-HTML processing disabled, any token lists**: for EVERY configuration whose block list
    does not contain `HtmlBlock` and whose span list does not contain `HtmlSpan` (whatever else is installed:
    `HtmlRenderer(process_html_tokens=False)`, also with extra tokens passed to the constructor), every parsed
    document has no such token at any depth and renders to the renderer's own tags and escaped text only. -/
theorem C08_parsed_no_raw_general (o : Opts) (cfg : Document.Cfg)
    (hhb : BTok.htmlBlock ∉ cfg.block.types) (hsp : Inline.STok.htmlSpan ∉ cfg.span)
    (gas : Nat) (t : Str) (d : Doc) (h : Document.parse cfg gas t = .ok d) :
    noHtmlBlocks d.kids = true ∧ WellFormed (renderDoc o.q d) ∧ ∀ e ∈ renderDoc o.q d, isRaw e = false := by
  have hn := NoRaw.parse_noHtml_general cfg hhb hsp gas t d h
  exact ⟨hn, C08_no_raw o d (parse_levelsOks cfg gas t d h) hn⟩

/-- the same with termination: for every text the parse returns and the output is tags and escaped text only -/
theorem C08_every_text_no_raw_general (o : Opts) (cfg : Document.Cfg)
    (hhb : BTok.htmlBlock ∉ cfg.block.types) (hsp : Inline.STok.htmlSpan ∉ cfg.span) (gas : Nat) (t : Str)
    (hg : gasBound cfg.block (docBuf (normalize (.str t))) ≤ gas) :
    ∃ d, Document.parse cfg gas t = .ok d ∧ render o d = flat (renderDoc o.q d) ∧
      WellFormed (renderDoc o.q d) ∧ ∀ e ∈ renderDoc o.q d, isRaw e = false := by
  obtain ⟨d, hd⟩ := Props.C01.C01_parse_terminates cfg gas t hg
  exact ⟨d, hd, rfl, (C08_parsed_no_raw_general o cfg hhb hsp gas t d hd).2⟩

/-- the two routes agree on `Config.htmlNoRaw`: its lists satisfy the hypotheses of the general theorem -/
theorem htmlNoRaw_no_html_classes (cfg : Document.Cfg) (hc : Config.htmlNoRaw = some cfg) :
    BTok.htmlBlock ∉ cfg.block.types ∧ Inline.STok.htmlSpan ∉ cfg.span := by
  obtain ⟨hb, hs⟩ := htmlNoRaw_lists cfg hc
  exact ⟨by rw [hb]; decide, by rw [hs]; decide⟩

/-! ### Non-vacuity -/

/-- the configuration exists: the regenerated lists are known to the model -/
example : Config.htmlNoRaw.isSome = true := by decide +kernel

/-- a hostile text: an image destination that tries to close its attribute, a raw tag, `&`, quotes -/
def hostileText : Str := "![a](x\"onerror=\"alert(1)) <b> & \"q\"".toList

/-- with raw HTML processed (the default): the output of the real code
    (`mistletoe.markdown('![a](x"onerror="alert(1)) <b> & "q"')`); `<b>` is an HtmlSpan, kept verbatim -/
example : (Config.renderHtml {} 40 hostileText).map String.ofList =
    some "<p><img src=\"x%22onerror=%22alert(1)\" alt=\"a\" /> <b> &amp; \"q\"</p>\n" := by decide +kernel

/-- with `process_html_tokens=False` (real code: `HtmlRenderer(process_html_tokens=False).render(Document(…))`):
    nothing of the text is markup any more -/
example : (Config.renderHtmlNoRaw {} 40 hostileText).map String.ofList =
    some "<p><img src=\"x%22onerror=%22alert(1)\" alt=\"a\" /> &lt;b&gt; &amp; \"q\"</p>\n" := by decide +kernel

/-- the events of the parsed hostile text under either configuration: checked with the executable
    counterparts of `WellFormed` (`balancedB`, `evOk`); one raw leaf with raw HTML on, none with it off -/
def evsOf (c : Option Document.Cfg) (t : Str) : List Ev :=
  match c with
  | none => []
  | some cfg => match Document.parse cfg 40 t with
    | .ok d => renderDoc ⟨false, false⟩ d
    | .err _ => []

example : balancedB (evsOf Config.html hostileText) [] = true ∧ (evsOf Config.html hostileText).all evOk = true ∧
    rawsOf (evsOf Config.html hostileText) = ["<b>".toList] := by decide +kernel
example : balancedB (evsOf Config.htmlNoRaw hostileText) [] = true ∧ (evsOf Config.htmlNoRaw hostileText).all evOk = true ∧
    (evsOf Config.htmlNoRaw hostileText).any isRaw = false ∧ (evsOf Config.htmlNoRaw hostileText).isEmpty = false := by
  decide +kernel

/-- the theorems applied: configuration known, gas bound satisfiable -/
example : ∃ d, Document.parse (Config.html.get (by decide +kernel)) 4000 hostileText = .ok d ∧
    Config.renderHtml {} 4000 hostileText = some (render {} d) ∧
    render {} d = flat (renderDoc (Opts.q {}) d) ∧ WellFormed (renderDoc (Opts.q {}) d)
    ∧ rawsOf (renderDoc (Opts.q {}) d) = (if (renderDoc (Opts.q {}) d).isEmpty then [] else htmlOfL d.kids) :=
  C08_every_text {} (Config.html.get (by decide +kernel)) (Option.some_get _).symm 4000 _ (by decide +kernel)

example : ∃ d, Document.parse (Config.htmlNoRaw.get (by decide +kernel)) 4000 hostileText = .ok d ∧
    Config.renderHtmlNoRaw {} 4000 hostileText = some (flat (renderDoc (Opts.q {}) d)) ∧
    WellFormed (renderDoc (Opts.q {}) d) ∧ ∀ e ∈ renderDoc (Opts.q {}) d, isRaw e = false :=
  C08_every_text_no_raw {} (Config.htmlNoRaw.get (by decide +kernel)) (Option.some_get _).symm 4000 _ (by decide +kernel)

/-- the general theorem reaches configurations the reused lemmas of Proofs/LatexTotal.lean do not: BlankLine and
    GithubWiki installed, HtmlBlock / HtmlSpan not -/
def cfgWikiNoRaw : Document.Cfg :=
  { block := { types := [.blankLine, .blockCode, .heading, .quote, .codeFence, .thematicBreak, .list, .table, .footnote, .paragraph] },
    span := [.escapeSequence, .githubWiki, .math, .strikethrough, .autoLink, .coreTokens, .inlineCode, .lineBreak] }

example : ∃ d, Document.parse cfgWikiNoRaw 4000 hostileText = .ok d ∧ render {} d = flat (renderDoc (Opts.q {}) d) ∧
    WellFormed (renderDoc (Opts.q {}) d) ∧ ∀ e ∈ renderDoc (Opts.q {}) d, isRaw e = false :=
  C08_every_text_no_raw_general {} cfgWikiNoRaw (by decide) (by decide) 4000 _ (by decide +kernel)

/-- `levelsOks` is what `shapeOk` was needed for: a level-7 heading (no parse produces it) is outside C08 -/
example : levelsOks [.heading 7 [] [] 1] = false ∧ Doc.shapeOk ⟨[.heading 7 [] [] 1], []⟩ = false := by decide

end Mistletoe.Props.C08

section Audit
open Mistletoe.Props.C08 Mistletoe.HtmlEndToEnd
#print axioms shapeOk_levelsOks
#print axioms C08_parsed_wellformed
#print axioms C08_every_text
#print axioms C08_parsed_no_raw
#print axioms C08_every_text_no_raw
#print axioms C08_parsed_no_raw_general
#print axioms C08_every_text_no_raw_general
end Audit
