/-
  Composition of the block-level theorems (C03): a document written out from a tree of paragraphs,
  ATX headings, thematic breaks and block quotes (any depth) parses to that tree and renders to the
  HTML written directly from the tree.

  Ingredients: C14 (inert lines form one paragraph; inert text is one RawText), C04 (lines behind
  "> " are one Quote around the parse of the unmarked lines), C05 (blocks separated by a blank line are
  independent: `tokenizeBlock_concat`), gas monotonicity, and the dispatch on a `#` line / a `***` line.
-/
import Mistletoe.Props.C04
import Mistletoe.Props.C05
namespace Mistletoe.Compose
open Mistletoe Mistletoe.Py Mistletoe.Scan Mistletoe.Block
open Mistletoe.Props.C14 (defaultTypes inertLine numbered numbered_cons numbered_append numbered_length numbered_mem numbered_s)
open Mistletoe.InertInline (inertBody inertText proseLine oneLine proseInlines inertClass)

/-! ### The fragment -/

/-- A tree of CommonMark constructs (the fragment covered here).
    * `para ls`: a paragraph given by its source lines (each with its indentation of at most three
      spaces and its final "\n");
    * `heading level text`: an ATX heading;
    * `hr c`: a thematic break written with the character `c`;
    * `quote kids`: a block quote. -/
inductive T where
  | para (lines : List Str)
  | heading (level : Nat) (text : Str)
  | hr (c : Char)
  | quote (kids : List T)

def hashes (n : Nat) : Str := List.replicate n '#'

/-- the quote marker used by the writer: "> " before every line, blank separator lines included ("> \n") -/
def qsp (s : Str) : Str := '>' :: ' ' :: s

mutual
/-- the source lines of one node -/
def write : T → List Str
  | .para ls => ls
  | .heading lv t => [hashes lv ++ ' ' :: t ++ ['\n']]
  | .hr c => [[c, c, c, '\n']]
  | .quote kids => (writes kids).map qsp
/-- siblings, separated by exactly one "\n" line -/
def writes : List T → List Str
  | [] => []
  | t :: rest =>
    match rest with
    | [] => write t
    | _ :: _ => write t ++ ['\n'] :: writes rest
end

open Mistletoe.Document (joinNl) in
mutual
/-- well-formedness (decidable).
    * paragraph: at least one line; every line is block-inert (`inertLine`: no block construct starts on
      it — this also excludes setext underlines, thematic breaks, list markers, `>`; up to three spaces of
      indentation are allowed), has the shape indentation + text + "\n" without whitespace before the
      "\n" (`proseLine`), contains no other line-boundary character (`oneLine`) and no tab; the stripped
      lines joined by "\n" are inline-inert (`inertBody`);
    * heading: level 1…6; the text is non-empty, inline-inert on one line (`inertText`), has no leading
      or trailing whitespace, contains no `#`, no tab, no line-boundary character;
    * thematic break: the character is `*`, `-` or `_`;
    * quote: at least one child, all well-formed. -/
def T.ok : T → Bool
  | .para ls => !ls.isEmpty && ls.all (fun l => inertLine l && proseLine l && oneLine l && !l.contains '\t')
      && inertBody (joinNl (ls.map strip))
  | .heading lv t => decide (1 ≤ lv) && decide (lv ≤ 6) && !t.isEmpty && inertText t && !t.contains '#' && strip t == t
      && !t.contains '\t' && t.all (fun c => !isLineSep c)
  | .hr c => c == '*' || c == '-' || c == '_'
  | .quote kids => !kids.isEmpty && T.oks kids
def T.oks : List T → Bool
  | [] => true
  | t :: ts => t.ok && T.oks ts
end

def isQuote : T → Bool
  | .quote _ => true
  | _ => false

mutual
/-- the parse-buffer entry expected for a node whose first line is line `n` (ghost origin = line number) -/
def entryOf (n : Nat) : T → Entry
  | .para ls => .paragraph ls n n
  | .heading lv t => .heading lv t [] n n
  | .hr c => .thematicBreak [c, c, c, '\n'] n n
  | .quote kids => .quote (entriesOf n kids) (decide (1 < kids.length)) n n
/-- siblings: the next one starts after the lines of this one and the separator -/
def entriesOf (n : Nat) : List T → List Entry
  | [] => []
  | t :: rest => entryOf n t :: entriesOf (n + (write t).length + 1) rest
end

mutual
/-- gas that suffices for a node (nesting depth × lines) -/
def need : T → Nat
  | .para _ => 14
  | .heading _ _ => 14
  | .hr _ => 14
  | .quote kids => needs kids + 6
def needs : List T → Nat
  | [] => 2
  | t :: rest =>
    match rest with
    | [] => need t
    | _ :: _ => need t + (needs rest + 11)
end

theorem writes_cons2 (t t' : T) (r : List T) : writes (t :: t' :: r) = write t ++ ['\n'] :: writes (t' :: r) := by
  simp [writes]

theorem writes_single (t : T) : writes [t] = write t := by simp [writes]

theorem needs_cons2 (t t' : T) (r : List T) : needs (t :: t' :: r) = need t + (needs (t' :: r) + 11) := by
  simp [needs]

end Mistletoe.Compose
