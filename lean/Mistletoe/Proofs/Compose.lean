/-
  Composition of the block-level theorems (C03): a document written out from a tree of paragraphs,
  ATX headings, thematic breaks and block quotes (any depth) parses to that tree and renders to the
  HTML written directly from the tree.

  Ingredients: C14 (inert lines form one paragraph; inert text is one RawText), C04 (lines behind
  "> " are one Quote around the parse of the unmarked lines), C05 (blocks separated by a blank line are
  independent: `tokenizeBlock_concat`), gas monotonicity, and the dispatch on a `#` line / a `***` line.
-/
import Mistletoe.Props.C04
import Mistletoe.Props.C05
namespace Mistletoe.Compose
open Mistletoe Mistletoe.Py Mistletoe.Scan Mistletoe.Block
open Mistletoe.Props.C14 (defaultTypes inertLine numbered numbered_cons numbered_append numbered_length numbered_mem numbered_s)
open Mistletoe.InertInline (inertBody inertText proseLine oneLine proseInlines inertClass)

/-! ### The fragment -/

/-- A tree of CommonMark constructs (the fragment covered here).
    * `para ls`: a paragraph given by its source lines (each with its indentation of at most three
      spaces and its final "\n");
    * `heading level text line`: an ATX heading given by its level, its text and its source line (any
      spelling: `## text`, `  ## text ##`, `##   text   #####   `, …; `atx level text` is the plain one);
    * `hr line`: a thematic break given by its source line (any spelling: `***`, `- - -`, `  _____`, …);
    * `quote bare kids`: a block quote; `bare = false`: every line is written behind "> ", `bare = true`:
      behind ">" (allowed when no line of the content begins with a space). -/
inductive T where
  | para (lines : List Str)
  | heading (level : Nat) (text : Str) (line : Str)
  | hr (line : Str)
  | quote (bare : Bool) (kids : List T)

def hashes (n : Nat) : Str := List.replicate n '#'

/-- the plain spelling of an ATX heading -/
def atx (lv : Nat) (t : Str) : Str := hashes lv ++ ' ' :: t ++ ['\n']

/-- what `Heading.start` + `Heading.read` extract from a line: level, content, closing sequence -/
def headContent (line : Str) : Option (Nat × Str × Str) :=
  match Scan.heading line with
  | none => none
  | some m =>
    let c := strip (m.g2.getD [])
    some (m.level, if !c.isEmpty && c.all (· == '#') then [] else c, strip (m.g3.getD []))

/-- the `closing_sequence` attribute the heading token gets (it does not reach the HTML) -/
def closingOf (line : Str) : Str := match headContent line with | some (_, _, cl) => cl | none => []

/-- the line is an ATX heading of this level and text for the dispatcher: `Heading`'s pattern matches with
    that level and content, and neither `HtmlBlock` nor `BlockCode` (consulted before it) starts on it -/
def headLine (lv : Nat) (t : Str) (line : Str) : Bool :=
  (match headContent line with | some (l, c, _) => l == lv && c == t | none => false)
  && (match htmlBlockStart line with | .ok none => true | _ => false) && !blockCodeStart line

/-- the quote marker used by the writer: "> " before every line, blank separator lines included ("> \n") -/
def qsp (s : Str) : Str := '>' :: ' ' :: s
/-- the bare marker ">" -/
def qbare (s : Str) : Str := '>' :: s

/-- the line is a thematic break for the dispatcher: `ThematicBreak.start` matches and none of the token types
    consulted before it (`HtmlBlock`, `BlockCode`, `Heading`, `Quote`, `CodeFence`) starts on it -/
def hrLine (s : Str) : Bool :=
  Scan.thematicBreak s && (match htmlBlockStart s with | .ok none => true | _ => false) && !blockCodeStart s
  && (Scan.heading s).isNone && !quoteStart s && (codeFenceStart s).isNone

mutual
/-- the source lines of one node -/
def write : T → List Str
  | .para ls => ls
  | .heading _ _ line => [line]
  | .hr line => [line]
  | .quote bare kids => (writes kids).map (if bare then qbare else qsp)
/-- siblings, separated by exactly one "\n" line -/
def writes : List T → List Str
  | [] => []
  | t :: rest =>
    match rest with
    | [] => write t
    | _ :: _ => write t ++ ['\n'] :: writes rest
end

open Mistletoe.Document (joinNl) in
mutual
/-- well-formedness (decidable).
    * paragraph: at least one line; every line is block-inert (`inertLine`: no block construct starts on
      it — this also excludes setext underlines, thematic breaks, list markers, `>`; up to three spaces of
      indentation are allowed), has the shape indentation + text + "\n" without whitespace before the
      "\n" (`proseLine`), contains no other line-boundary character (`oneLine`) and no tab; the stripped
      lines joined by "\n" are inline-inert (`inertBody`);
    * heading: the text is non-empty and inline-inert on one line (`inertText`); the line is an ATX heading
      of that level and text for the dispatcher (`headLine`), ends in its only "\n", contains no tab;
    * thematic break: the line is a thematic break for the dispatcher (`hrLine`), ends in its only "\n",
      contains no tab;
    * quote: at least one child, all well-formed; with the bare marker, no written line of the content
      begins with a space. -/
def T.ok : T → Bool
  | .para ls => !ls.isEmpty && ls.all (fun l => inertLine l && proseLine l && oneLine l && !l.contains '\t')
      && inertBody (joinNl (ls.map strip))
  | .heading lv t line => !t.isEmpty && inertText t && headLine lv t line && oneLine line && !line.contains '\t'
  | .hr line => hrLine line && oneLine line && !line.contains '\t'
  | .quote bare kids => !kids.isEmpty && T.oks kids && (!bare || (writes kids).all (fun s => s.head? != some ' '))
def T.oks : List T → Bool
  | [] => true
  | t :: ts => t.ok && T.oks ts
end

def isQuote : T → Bool
  | .quote _ _ => true
  | _ => false

mutual
/-- the parse-buffer entry expected for a node whose first line is line `n` (ghost origin = line number) -/
def entryOf (n : Nat) : T → Entry
  | .para ls => .paragraph ls n n
  | .heading lv t line => .heading lv t (closingOf line) n n
  | .hr line => .thematicBreak line n n
  | .quote _ kids => .quote (entriesOf n kids) (decide (1 < kids.length)) n n
/-- siblings: the next one starts after the lines of this one and the separator -/
def entriesOf (n : Nat) : List T → List Entry
  | [] => []
  | t :: rest => entryOf n t :: entriesOf (n + (write t).length + 1) rest
end

mutual
/-- gas that suffices for a node (nesting depth × lines) -/
def need : T → Nat
  | .para _ => 14
  | .heading _ _ _ => 14
  | .hr _ => 14
  | .quote _ kids => needs kids + 6
def needs : List T → Nat
  | [] => 2
  | t :: rest =>
    match rest with
    | [] => need t
    | _ :: _ => need t + (needs rest + 11)
end

theorem writes_cons2 (t t' : T) (r : List T) : writes (t :: t' :: r) = write t ++ ['\n'] :: writes (t' :: r) := by
  simp [writes]

theorem writes_single (t : T) : writes [t] = write t := by simp [writes]

theorem needs_cons2 (t t' : T) (r : List T) : needs (t :: t' :: r) = need t + (needs (t' :: r) + 11) := by
  simp [needs]

/-! ### Leaves: the dispatch on a `#` line and on a `***` / `---` / `___` line -/

theorem hash_lstrip (s : Str) : lstrip ('#' :: s) = '#' :: s := by
  simp [lstrip, show pyIsSpace '#' = false by decide]

theorem hash_blockCode (s : Str) : blockCodeStart ('#' :: s) = false := by
  simp [blockCodeStart, replaceTab1, replaceFirst, startsWith, isPrefix_ne]

theorem hash_html (s : Str) : htmlBlockStart ('#' :: s) = .ok none := by
  unfold htmlBlockStart
  simp only [hash_lstrip]
  have hlen : ¬ (('#' :: s).length - ('#' :: s).length ≥ 4) := by simp
  simp only [hlen, if_false]
  have hm : multiblock ('#' :: s) = none := by unfold multiblock; simp
  have hs : ∀ p : Str, startsWith ('<' :: p) ('#' :: s) = false := by
    intro p; simp [startsWith, isPrefix_ne]
  have hr : htmlRest ('#' :: s) = none := by
    unfold htmlRest
    have h1 : predefined ('#' :: s) = none := by unfold predefined; simp
    have h2 : customTag ('#' :: s) = false := by
      unfold customTag
      have a : openTag ('#' :: s) = none := by unfold openTag; simp
      have b : closingTag ('#' :: s) = none := by unfold closingTag; simp
      simp [a, b]
    simp [h1, h2]
  have e1 : "<!--".toList = '<' :: ['!', '-', '-'] := by decide
  have e2 : "<?".toList = '<' :: ['?'] := by decide
  have e3 : "<!".toList = '<' :: ['!'] := by decide
  simp only [hm, e1, e2, e3, hs, hr, Bool.false_eq_true, if_false]

theorem span_hashes (n : Nat) (rest : Str) (h : rest.head? ≠ some '#') :
    span (· == '#') (hashes n ++ rest) = (hashes n, rest) := by
  induction n with
  | zero =>
    cases rest with
    | nil => rfl
    | cons c r =>
      have : c ≠ '#' := fun e => h (by simp [e])
      simp [hashes, span, this]
  | succ k ih =>
    simp only [hashes, List.replicate_succ, List.cons_append, span] at ih ⊢
    simp [ih]

theorem closingSeq_noHash (q : Str) (h : '#' ∉ q) : closingSeq q = none := by
  unfold closingSeq
  simp only
  split
  · rfl
  · have hsuf := span_suffix ws q
    have hq : '#' ∉ (span ws q).2 := fun e => h (hsuf.subset e)
    have : (span (· == '#') (span ws q).2).1 = [] := by
      cases hr : (span ws q).2 with
      | nil => rfl
      | cons c r =>
        have : c ≠ '#' := fun e => hq (by rw [hr, e]; simp)
        simp [span, this]
    simp [this]

/-- `(.*?)(\n|\s+?#+\s*?$)` on a text without `#` and without newline: the whole text, then "\n" -/
theorem headingTail_plain : ∀ (t acc : Str), '#' ∉ t → '\n' ∉ t →
    headingTail (t ++ ['\n']) acc = some (acc.reverse ++ t, ['\n'])
  | [], acc, _, _ => by simp [headingTail]
  | c :: rest, acc, h1, h2 => by
    have hc : c ≠ '\n' := fun e => h2 (by simp [e])
    have hcs : closingSeq (c :: (rest ++ ['\n'])) = none := by
      apply closingSeq_noHash
      intro e
      rcases List.mem_cons.mp e with e | e
      · exact h1 (by rw [← e]; simp)
      · rcases List.mem_append.mp e with e | e
        · exact h1 (List.mem_cons_of_mem _ e)
        · simp at e
    simp only [List.cons_append, headingTail, hc, if_false, hcs]
    rw [headingTail_plain rest (c :: acc) (fun e => h1 (List.mem_cons_of_mem _ e)) (fun e => h2 (List.mem_cons_of_mem _ e))]
    simp

theorem heading_line (lv : Nat) (t : Str) (h1 : 1 ≤ lv) (h6 : lv ≤ 6) (hh : '#' ∉ t) (hn : '\n' ∉ t) :
    Scan.heading (hashes lv ++ ' ' :: t ++ ['\n']) = some { level := lv, g2 := some t, g3 := some ['\n'] } := by
  obtain ⟨m, rfl⟩ : ∃ m, lv = m + 1 := ⟨lv - 1, by omega⟩
  have hup : upTo3Spaces (hashes (m + 1) ++ ' ' :: t ++ ['\n']) = some (0, hashes (m + 1) ++ ' ' :: t ++ ['\n']) := by
    simp [upTo3Spaces, hashes, List.replicate_succ, countLeading]
  unfold Scan.heading
  rw [hup]
  have hsp : span (· == '#') (hashes (m + 1) ++ ' ' :: t ++ ['\n']) = (hashes (m + 1), ' ' :: (t ++ ['\n'])) := by
    have := span_hashes (m + 1) (' ' :: (t ++ ['\n'])) (by simp)
    simpa using this
  simp only [hsp]
  have hl : (hashes (m + 1)).length = m + 1 := by simp [hashes]
  have hc : ¬ ((hashes (m + 1)).length < 1 || (hashes (m + 1)).length > 6) = true := by
    rw [hl]; simp; omega
  rw [if_neg hc]
  have hws : ws ' ' = true := by decide
  simp only [hl]
  simp
  exact ⟨hws, by rw [headingTail_plain t [] hh hn]; simp⟩

theorem strip_nl : strip ['\n'] = [] := by decide

theorem readHeading_line (fw : FW) (lv : Nat) (t : Str) (h1 : 1 ≤ lv) (h6 : lv ≤ 6) (hh : '#' ∉ t) (hn : '\n' ∉ t)
    (hs : strip t = t) (hne : t ≠ []) :
    readHeading fw (hashes lv ++ ' ' :: t ++ ['\n']) = some (lv, t, [], fw.next) := by
  unfold readHeading
  rw [heading_line lv t h1 h6 hh hn]
  simp only [Option.getD_some, hs, strip_nl]
  have : (!t.isEmpty && t.all (· == '#')) = false := by
    cases t with
    | nil => exact absurd rfl hne
    | cons c r =>
      have : c ≠ '#' := fun e => hh (by simp [e])
      simp [this]
  simp [this]

def dcfg (ti : Bool) : Cfg := { types := defaultTypes, tableInterrupt := ti }

theorem readHeading_content (fw : FW) (line : Str) :
    readHeading fw line = (headContent line).map (fun r => (r.1, r.2.1, r.2.2, fw.next)) := by
  unfold readHeading headContent
  cases Scan.heading line <;> rfl

/-- the plain spelling is a heading line: `#`… , one space, a text without `#`, newline or outer whitespace -/
theorem headLine_atx (lv : Nat) (t : Str) (h1 : 1 ≤ lv) (h6 : lv ≤ 6) (hh : '#' ∉ t) (hn : '\n' ∉ t)
    (hs : strip t = t) (hne : t ≠ []) : headLine lv t (atx lv t) = true ∧ closingOf (atx lv t) = [] := by
  have hr := readHeading_line { lines := [], pos := 0, start := 0 } lv t h1 h6 hh hn hs hne
  rw [readHeading_content] at hr
  have hc : headContent (atx lv t) = some (lv, t, []) := by
    unfold atx
    cases hx : headContent (hashes lv ++ ' ' :: t ++ ['\n']) with
    | none => rw [hx] at hr; cases hr
    | some r =>
      rw [hx] at hr
      simp only [Option.map_some, Option.some.injEq, Prod.mk.injEq] at hr
      obtain ⟨a, b, c, _⟩ := hr
      obtain ⟨r1, r2, r3⟩ := r
      simp only at a b c
      rw [a, b, c]
  obtain ⟨m, rfl⟩ : ∃ m, lv = m + 1 := ⟨lv - 1, by omega⟩
  have hl : atx (m + 1) t = '#' :: (hashes m ++ ' ' :: t ++ ['\n']) := by
    simp [atx, hashes, List.replicate_succ]
  refine ⟨?_, by simp [closingOf, hc]⟩
  simp only [headLine, hc, beq_self_eq_true, Bool.and_self, Bool.true_and]
  rw [hl, hash_html, hash_blockCode]
  rfl

/-- a single ATX heading line: one `Heading` entry -/
theorem tokenize_heading (ti : Bool) (lv : Nat) (t line : Str) (hl : headLine lv t line = true)
    (og start : Nat) (st : St) (g : Nat) :
    tokenizeBlock (dcfg ti) (g + 6) [{ s := line, origin := og }] start st =
      .ok ({ entries := [.heading lv t (closingOf line) start og], loose := false }, st) := by
  simp only [headLine, Bool.and_eq_true, Bool.not_eq_eq_eq_not, Bool.not_true] at hl
  obtain ⟨⟨f3, f1⟩, f2⟩ := hl
  have f1' : htmlBlockStart line = .ok none := by
    split at f1
    · assumption
    · cases f1
  cases hc : headContent line with
  | none => rw [hc] at f3; cases f3
  | some r =>
    obtain ⟨l, c, cl⟩ := r
    rw [hc] at f3
    simp only [Bool.and_eq_true, beq_iff_eq] at f3
    obtain ⟨rfl, rfl⟩ := f3
    have hr := readHeading_content { lines := [{ s := line, origin := og }], pos := 0, start := start } line
    rw [hc] at hr
    have e : g + 6 = ((((g + 1) + 1) + 1) + 1 + 1) + 1 := by omega
    rw [e]
    simp only [tokenizeBlock, tokLoop, FW.peek, List.getElem?_cons_zero, dcfg, defaultTypes, tryTypes, hr,
      f1', f2, Bool.false_eq_true, if_false, Option.map_some]
    simp [FW.next, closingOf, hc]

/-- a single thematic-break line: one `ThematicBreak` entry -/
theorem tokenize_hr (ti : Bool) (line : Str) (hl : hrLine line = true) (og start : Nat) (st : St) (g : Nat) :
    tokenizeBlock (dcfg ti) (g + 9) [{ s := line, origin := og }] start st =
      .ok ({ entries := [.thematicBreak line start og], loose := false }, st) := by
  simp only [hrLine, Bool.and_eq_true, Bool.not_eq_eq_eq_not, Bool.not_true, Option.isNone_iff_eq_none] at hl
  obtain ⟨⟨⟨⟨⟨f6, f1⟩, f2⟩, f3⟩, f4⟩, f5⟩ := hl
  have f1' : htmlBlockStart line = .ok none := by
    split at f1
    · assumption
    · cases f1
  have e : g + 9 = (((((((g + 1) + 1) + 1) + 1) + 1) + 1) + 1 + 1) + 1 := by omega
  rw [e]
  simp only [tokenizeBlock, tokLoop, FW.peek, List.getElem?_cons_zero, dcfg, defaultTypes, tryTypes, readHeading,
    f1', f2, f3, f4, f5, f6, Bool.false_eq_true, if_false, if_true]
  simp [FW.next]

/-! ### What well-formedness gives about the written lines -/

/-- a complete, tab-free line: a body without line-boundary characters and tabs, then "\n" -/
def LineOk (s : Str) : Prop := ∃ body, s = body ++ ['\n'] ∧ (∀ c ∈ body, isLineSep c = false) ∧ '\t' ∉ body

theorem lineOk_nlEnd {s : Str} (h : LineOk s) : NlEnd s := by
  obtain ⟨body, rfl, hb, _⟩ := h
  refine ⟨body, rfl, ?_⟩
  intro hm
  have := hb _ hm
  revert this; decide

theorem lineOk_notab {s : Str} (h : LineOk s) : '\t' ∉ s := by
  obtain ⟨body, rfl, _, ht⟩ := h
  simp only [List.mem_append, List.mem_singleton, not_or]
  exact ⟨ht, by decide⟩

theorem lineOk_oneLine {s : Str} (h : LineOk s) : oneLine s = true := by
  obtain ⟨body, rfl, hb, _⟩ := h
  simp only [oneLine, List.getLast?_append, List.getLast?_singleton, Option.some_or, List.dropLast_concat,
    Bool.and_eq_true, beq_iff_eq, List.all_eq_true, Bool.not_eq_eq_eq_not, Bool.not_true, true_and]
  exact hb

theorem lineOk_ne {s : Str} (h : LineOk s) : s ≠ [] := by
  obtain ⟨body, rfl, _, _⟩ := h; simp

theorem lineOk_of (l : Str) (h1 : oneLine l = true) (h2 : l.contains '\t' = false) : LineOk l := by
  simp only [oneLine, Bool.and_eq_true, beq_iff_eq, List.all_eq_true, Bool.not_eq_eq_eq_not, Bool.not_true] at h1
  obtain ⟨body, rfl⟩ := List.getLast?_eq_some_iff.mp h1.1
  refine ⟨body, rfl, by simpa using h1.2, ?_⟩
  intro hm
  have : (body ++ ['\n']).contains '\t' = true := by simp [hm]
  rw [h2] at this; cases this

theorem lineOk_nl : LineOk ['\n'] := ⟨[], rfl, by simp, by simp⟩

theorem lineOk_qsp {s : Str} (h : LineOk s) : LineOk (qsp s) := by
  obtain ⟨body, rfl, hb, ht⟩ := h
  refine ⟨'>' :: ' ' :: body, rfl, ?_, ?_⟩
  · intro c hc
    rcases List.mem_cons.mp hc with rfl | hc
    · decide
    · rcases List.mem_cons.mp hc with rfl | hc
      · decide
      · exact hb c hc
  · simp only [List.mem_cons, not_or]
    exact ⟨by decide, by decide, ht⟩

theorem lineOk_qbare {s : Str} (h : LineOk s) : LineOk (qbare s) := by
  obtain ⟨body, rfl, hb, ht⟩ := h
  refine ⟨'>' :: body, rfl, ?_, ?_⟩
  · intro c hc
    rcases List.mem_cons.mp hc with rfl | hc
    · decide
    · exact hb c hc
  · simp only [List.mem_cons, not_or]
    exact ⟨by decide, ht⟩

theorem lineOk_atx (lv : Nat) (t : Str) (hsep : ∀ c ∈ t, isLineSep c = false) (ht : '\t' ∉ t) :
    LineOk (atx lv t) := by
  refine ⟨hashes lv ++ ' ' :: t, by simp [atx], ?_, ?_⟩
  · intro c hc
    rcases List.mem_append.mp hc with hc | hc
    · simp only [hashes, List.mem_replicate] at hc
      rw [hc.2]; decide
    · rcases List.mem_cons.mp hc with rfl | hc
      · decide
      · exact hsep c hc
  · intro hc
    rcases List.mem_append.mp hc with hc | hc
    · simp only [hashes, List.mem_replicate] at hc
      exact absurd hc.2 (by decide)
    · rcases List.mem_cons.mp hc with hc | hc
      · exact absurd hc (by decide)
      · exact ht hc

/-- the facts `T.ok` packs for a heading -/
structure HeadOk (lv : Nat) (t line : Str) : Prop where
  ne : t ≠ []
  inert : inertText t = true
  head : headLine lv t line = true
  line : LineOk line

theorem headOk_of (lv : Nat) (t line : Str) (h : (T.heading lv t line).ok = true) : HeadOk lv t line := by
  simp only [T.ok, Bool.and_eq_true, Bool.not_eq_eq_eq_not, Bool.not_true, List.isEmpty_eq_false_iff] at h
  obtain ⟨⟨⟨⟨a, b⟩, c⟩, d⟩, e⟩ := h
  exact ⟨a, b, c, lineOk_of line d e⟩

open Mistletoe.Document (joinNl) in
/-- the facts `T.ok` packs for a paragraph -/
structure ParaOk (ls : List Str) : Prop where
  ne : ls ≠ []
  inert : ∀ l ∈ ls, inertLine l = true
  prose : ∀ l ∈ ls, proseLine l = true
  line : ∀ l ∈ ls, LineOk l
  body : inertBody (joinNl (ls.map strip)) = true

theorem paraOk_of (ls : List Str) (h : (T.para ls).ok = true) : ParaOk ls := by
  simp only [T.ok, Bool.and_eq_true, Bool.not_eq_eq_eq_not, Bool.not_true, List.all_eq_true,
    List.isEmpty_eq_false_iff] at h
  obtain ⟨⟨a, b⟩, c⟩ := h
  exact ⟨a, fun l hl => (b l hl).1.1.1, fun l hl => (b l hl).1.1.2, fun l hl => lineOk_of l (b l hl).1.2 (b l hl).2, c⟩

theorem hrOk_of (line : Str) (h : (T.hr line).ok = true) : hrLine line = true ∧ LineOk line := by
  simp only [T.ok, Bool.and_eq_true, Bool.not_eq_eq_eq_not, Bool.not_true] at h
  exact ⟨h.1.1, lineOk_of line h.1.2 h.2⟩

theorem quoteOk_of (bare : Bool) (kids : List T) (h : (T.quote bare kids).ok = true) :
    kids ≠ [] ∧ T.oks kids = true ∧ (bare = true → ∀ s ∈ writes kids, s.head? ≠ some ' ') := by
  simp only [T.ok, Bool.and_eq_true, Bool.not_eq_eq_eq_not, Bool.not_true, List.isEmpty_eq_false_iff,
    Bool.or_eq_true, List.all_eq_true, bne_iff_ne, ne_eq] at h
  refine ⟨h.1.1, h.1.2, ?_⟩
  intro hb
  rcases h.2 with h2 | h2
  · rw [hb] at h2; cases h2
  · exact h2

theorem oks_cons (t : T) (ts : List T) (h : T.oks (t :: ts) = true) : t.ok = true ∧ T.oks ts = true := by
  simpa [T.oks] using h

mutual
theorem write_lineOk : ∀ (t : T), t.ok = true → (∀ s ∈ write t, LineOk s) ∧ write t ≠ []
  | .para ls, h => by
    have := paraOk_of ls h
    exact ⟨this.line, this.ne⟩
  | .heading lv t line, h => by
    have := headOk_of lv t line h
    simp only [write, List.mem_singleton]
    constructor
    · intro s hs; rw [hs]; exact this.line
    · simp
  | .hr line, h => by
    simp only [write, List.mem_singleton]
    constructor
    · intro s hs; rw [hs]; exact (hrOk_of line h).2
    · simp
  | .quote bare kids, h => by
    obtain ⟨hne, hk, _⟩ := quoteOk_of bare kids h
    have ih := writes_lineOk kids hk
    simp only [write, List.mem_map]
    constructor
    · rintro s ⟨s0, hs0, rfl⟩
      cases bare
      · exact lineOk_qsp (ih.1 s0 hs0)
      · exact lineOk_qbare (ih.1 s0 hs0)
    · simpa using ih.2 hne
theorem writes_lineOk : ∀ (ts : List T), T.oks ts = true → (∀ s ∈ writes ts, LineOk s) ∧ (ts ≠ [] → writes ts ≠ [])
  | [], _ => by simp [writes]
  | t :: rest, h => by
    obtain ⟨h1, h2⟩ := oks_cons t rest h
    have iht := write_lineOk t h1
    have ihr := writes_lineOk rest h2
    cases rest with
    | nil => simpa [writes] using iht
    | cons t' r =>
      rw [writes_cons2]
      constructor
      · intro s hs
        rcases List.mem_append.mp hs with hs | hs
        · exact iht.1 s hs
        · rcases List.mem_cons.mp hs with rfl | hs
          · exact lineOk_nl
          · exact ihr.1 s hs
      · intro _; simp
end

/-! ### The block phase of a written tree -/

theorem numbered_eq : Props.C05.numbered = numbered := rfl

theorem numbered_sh (ls : List Str) (k j : Nat) : numbered (k + j) ls = (numbered k ls).map (Line.sh j) := by
  rw [← numbered_eq]; exact Props.C05.numbered_sh ls k j

theorem numbered_allNlEnd (k : Nat) (ls : List Str) (h : ∀ s ∈ ls, LineOk s) : AllNlEnd (numbered k ls) :=
  fun l hl => lineOk_nlEnd (h _ (numbered_mem k ls l hl))

theorem numbered_ne (k : Nat) (ls : List Str) (h : ls ≠ []) : ∃ l0 tl, numbered k ls = l0 :: tl ∧ l0.origin = k + 1 := by
  cases ls with
  | nil => exact absurd rfl h
  | cons s r => exact ⟨_, _, numbered_cons k s r, rfl⟩

mutual
theorem shift_entryOf (j : Nat) : ∀ (n : Nat) (t : T), shiftEntry j (entryOf n t) = entryOf (n + j) t
  | n, .para ls => by simp [entryOf, shiftEntry]
  | n, .heading lv t line => by simp [entryOf, shiftEntry]
  | n, .hr line => by simp [entryOf, shiftEntry]
  | n, .quote _ kids => by simp [entryOf, shiftEntry, shift_entriesOf j n kids]
theorem shift_entriesOf (j : Nat) : ∀ (n : Nat) (ts : List T), shiftEntries j (entriesOf n ts) = entriesOf (n + j) ts
  | n, [] => by simp [entriesOf, shiftEntries]
  | n, t :: rest => by
    simp only [entriesOf, shiftEntries, shift_entryOf j n t, shift_entriesOf j _ rest]
    congr 2; omega
end

/-- the state after the siblings: `Quote.read` switches `Paragraph.parse_setext` back on when it returns -/
def after (st : St) (b : Bool) : St := { setext := st.setext || b, defs := st.defs }

theorem after_false (st : St) : after st false = st := by cases st; simp [after]

theorem closed_entryOf (n : Nat) : ∀ (t : T), closedE (entryOf n t) = true ∧ noList (entryOf n t) = true
  | .para _ => ⟨rfl, rfl⟩
  | .heading _ _ _ => ⟨rfl, rfl⟩
  | .hr _ => ⟨rfl, rfl⟩
  | .quote _ _ => ⟨rfl, rfl⟩

mutual
/-- **one node**: the written lines of a well-formed node, numbered from `k + 1`, tokenize to exactly its entry -/
theorem node_tokenize (ti : Bool) : ∀ (t : T), t.ok = true → ∀ (k : Nat) (st : St) (g : Nat),
    tokenizeBlock (dcfg ti) (need t + g) (numbered k (write t)) (k + 1) st =
      .ok ({ entries := [entryOf (k + 1) t], loose := false }, after st (isQuote t))
  | .para ls, h, k, st, g => by
    have hp := paraOk_of ls h
    obtain ⟨l0, tl, hl, ho⟩ := numbered_ne k ls hp.ne
    have hs : (l0 :: tl).map (·.s) = ls := by rw [← hl]; exact numbered_s k ls
    have := Props.C14.C14_single_paragraph_default ti l0 tl
      (fun l hm => hp.inert _ (numbered_mem k ls l (by rw [hl]; exact hm))) (k + 1) st g
    simp only [write, need, isQuote, after_false, entryOf, hl]
    rw [Nat.add_comm 14 g]
    rw [hs, ho] at this
    exact this
  | .heading lv t line, h, k, st, g => by
    have hh := headOk_of lv t line h
    have := tokenize_heading ti lv t line hh.head (k + 1) (k + 1) st (8 + g)
    simp only [write, need, isQuote, after_false, entryOf, numbered_cons, show numbered (k + 1) [] = [] from rfl]
    have e : 14 + g = 8 + g + 6 := by omega
    rw [e]; exact this
  | .hr line, h, k, st, g => by
    have := tokenize_hr ti line (hrOk_of line h).1 (k + 1) (k + 1) st (5 + g)
    simp only [write, need, isQuote, after_false, entryOf, numbered_cons, show numbered (k + 1) [] = [] from rfl]
    have e : 14 + g = 5 + g + 9 := by omega
    rw [e]; exact this
  | .quote bare kids, h, k, st, g => by
    obtain ⟨hne, hk, hbare⟩ := quoteOk_of bare kids h
    have ih := nodes_tokenize ti kids hk hne k { st with setext := false } g
    have hw := writes_lineOk kids hk
    obtain ⟨l0, tl, hl, ho⟩ := numbered_ne k (writes kids) (hw.2 hne)
    rw [hl] at ih
    simp only [write, need, isQuote, entryOf]
    have e2 : needs kids + 6 + g = needs kids + g + 6 := by omega
    have hmem : ∀ l ∈ l0 :: tl, l.s ∈ writes kids := fun l hm => numbered_mem k _ l (by rw [hl]; exact hm)
    cases bare with
    | false =>
      have := Props.C04.C04_quote_wraps_default ti l0 tl
        (fun l hm => lineOk_notab (hw.1 _ (hmem l hm))) (k + 1) st _ (needs kids + g) _ ih
      have e1 : numbered k ((writes kids).map qsp) = (l0 :: tl).map quoteSp := by
        rw [← hl]; exact Props.C04.numbered_map_sp k (writes kids)
      simp only [Bool.false_eq_true, if_false]
      rw [e1, e2]
      refine Eq.trans this ?_
      rw [ho]
      simp [after]
    | true =>
      have := Props.C04.C04_quote_wraps_bare (dcfg ti) [.htmlBlock, .blockCode, .heading]
        [.codeFence, .thematicBreak, .list, .table, .footnote, .paragraph] rfl (by decide) (by decide) l0 tl
        (fun l hm => ⟨lineOk_notab (hw.1 _ (hmem l hm)), by
          have hne' := lineOk_ne (hw.1 _ (hmem l hm))
          have hsp := hbare rfl _ (hmem l hm)
          cases hs : l.s with
          | nil => exact absurd hs hne'
          | cons c r =>
            refine ⟨c, r, rfl, ?_⟩
            intro e; rw [hs, e] at hsp; exact hsp rfl⟩)
        (k + 1) st _ (needs kids + g) _ ih
      have e1 : numbered k ((writes kids).map qbare) = (l0 :: tl).map quoteBare := by
        rw [← hl]; exact Props.C04.numbered_map_bare k (writes kids)
      simp only [if_true]
      rw [e1, e2]
      refine Eq.trans this ?_
      rw [ho]
      simp [after]
/-- **siblings**, separated by one "\n" line each -/
theorem nodes_tokenize (ti : Bool) : ∀ (ts : List T), T.oks ts = true → ts ≠ [] → ∀ (k : Nat) (st : St) (g : Nat),
    tokenizeBlock (dcfg ti) (needs ts + g) (numbered k (writes ts)) (k + 1) st =
      .ok ({ entries := entriesOf (k + 1) ts, loose := decide (1 < ts.length) }, after st (ts.any isQuote))
  | [], _, hne, _, _, _ => absurd rfl hne
  | t :: rest, h, _, k, st, g => by
    obtain ⟨h1, h2⟩ := oks_cons t rest h
    cases rest with
    | nil =>
      have := node_tokenize ti t h1 k st g
      simpa [writes, needs, entriesOf] using this
    | cons t' r =>
      have hA := node_tokenize ti t h1 k st 0
      have hB := nodes_tokenize ti (t' :: r) h2 (by simp) k (after st (isQuote t)) g
      have hwt := write_lineOk t h1
      have hwr := writes_lineOk (t' :: r) h2
      have hc := closed_entryOf (k + 1) t
      have key := tokenizeBlock_concat (dcfg ti) (show BTok.blankLine ∉ defaultTypes by decide) (numbered k (write t)) (numbered k (writes (t' :: r)))
        { s := ['\n'], origin := k + (write t).length + 1 } rfl (k + 1) st (need t + 0) (needs (t' :: r) + g) _ _ _ _ hA
        (by intro e he; simp only [List.mem_singleton] at he; subst he; exact hc.2)
        (by intro e he; simp only [List.getLast?_singleton, Option.some.injEq] at he; subst he; exact hc.1)
        hB (numbered_allNlEnd k _ hwt.1) (numbered_allNlEnd k _ hwr.1)
      have hbuf : numbered k (writes (t :: t' :: r)) =
          numbered k (write t) ++ { s := ['\n'], origin := k + (write t).length + 1 } ::
            (numbered k (writes (t' :: r))).map (Line.sh ((numbered k (write t)).length + 1)) := by
        rw [writes_cons2, numbered_append, numbered_cons, numbered_length, ← numbered_sh]
        have : k + (write t).length + 1 = k + ((write t).length + 1) := by omega
        rw [this]
      have hgas : needs (t :: t' :: r) + g = need t + 0 + (needs (t' :: r) + g + (dcfg ti).types.length + 1) := by
        rw [needs_cons2]
        simp only [dcfg, defaultTypes, List.length_cons, List.length_nil]
        omega
      rw [hbuf, hgas, key, numbered_length, shift_entriesOf]
      have e3 : k + 1 + ((write t).length + 1) = k + 1 + (write t).length + 1 := by omega
      simp only [List.singleton_append, entriesOf, e3, List.length_cons, List.any_cons]
      have hl : decide (1 < r.length + 1 + 1) = true := by simp
      have hs : after (after st (isQuote t)) (isQuote t' || r.any isQuote) = after st (isQuote t || (isQuote t' || r.any isQuote)) := by
        simp [after, Bool.or_assoc]
      rw [hl, hs]
end

/-- **the block phase of a written document** -/
theorem blockPhase_writes (ti : Bool) (ts : List T) (h : T.oks ts = true) (hne : ts ≠ []) (g : Nat) :
    blockPhase (dcfg ti) (needs ts + g) (writes ts) =
      .ok ({ entries := entriesOf 1 ts, loose := decide (1 < ts.length) }, {}) := by
  have e : blockPhase (dcfg ti) (needs ts + g) (writes ts) = tokenizeBlock (dcfg ti) (needs ts + g) (numbered 0 (writes ts)) 1 {} := rfl
  rw [e]
  have := nodes_tokenize ti ts h hne 0 {} g
  simp only [Nat.zero_add] at this
  rw [this]
  simp [after]

/-! ### The block token constructors on the expected entries -/

open Mistletoe.Document (joinNl mkBlock mkBlocks)

mutual
/-- the block token expected for a node whose first line is line `n` -/
def blockOf (n : Nat) : T → Mistletoe.Block
  | .para ls => .paragraph (proseInlines (ls.map strip)) n
  | .heading lv t line => .heading lv (closingOf line) [.rawText t] n
  | .hr line => .thematicBreak (Document.stripNl line) n
  | .quote _ kids => .quote (blocksOf n kids) n
def blocksOf (n : Nat) : List T → List Mistletoe.Block
  | [] => []
  | t :: rest => blockOf n t :: blocksOf (n + (write t).length + 1) rest
end

theorem mkBlock_of_single (cfg : Document.Cfg) (fn : Footnotes.Table) (e : Entry) (b : Mistletoe.Block)
    (h : mkBlocks cfg fn [e] = .ok [b]) : mkBlock cfg fn e = .ok (some b) := by
  simp only [mkBlocks] at h
  cases hm : mkBlock cfg fn e with
  | err er => simp [hm] at h
  | ok o =>
    cases o with
    | none => simp [hm] at h
    | some x => simp only [hm, Res.ok.injEq, List.cons.injEq, and_true] at h; rw [h]

mutual
theorem mkBlock_entryOf (cfg : Document.Cfg) (fn : Footnotes.Table) (ht : ∀ t ∈ cfg.span, inertClass t = true)
    (hc : cfg.span.count .lineBreak = 1) : ∀ (t : T), t.ok = true → ∀ (n : Nat),
    mkBlock cfg fn (entryOf n t) = .ok (some (blockOf n t))
  | .para ls, h, n => by
    have hp := paraOk_of ls h
    exact mkBlock_of_single cfg fn _ _ (InertInline.mkBlocks_prose cfg fn ls n n ht hc hp.ne hp.prose hp.body)
  | .heading lv t line, h, n => by
    have hh := headOk_of lv t line h
    have hin : Document.inl cfg fn t = .ok [.rawText t] := InertInline.tokenizeInner_inert cfg.span fn t ht hh.inert hh.ne
    simp only [entryOf, blockOf, mkBlock, hin]
  | .hr line, h, n => by
    simp only [entryOf, blockOf, mkBlock]
  | .quote bare kids, h, n => by
    obtain ⟨_, hk, _⟩ := quoteOk_of bare kids h
    simp only [entryOf, blockOf, mkBlock, mkBlocks_entriesOf cfg fn ht hc kids hk n]
theorem mkBlocks_entriesOf (cfg : Document.Cfg) (fn : Footnotes.Table) (ht : ∀ t ∈ cfg.span, inertClass t = true)
    (hc : cfg.span.count .lineBreak = 1) : ∀ (ts : List T), T.oks ts = true → ∀ (n : Nat),
    mkBlocks cfg fn (entriesOf n ts) = .ok (blocksOf n ts)
  | [], _, _ => by simp [entriesOf, blocksOf, mkBlocks]
  | t :: rest, h, n => by
    obtain ⟨h1, h2⟩ := oks_cons t rest h
    simp only [entriesOf, blocksOf, mkBlocks, mkBlock_entryOf cfg fn ht hc t h1 n,
      mkBlocks_entriesOf cfg fn ht hc rest h2 _]
end

/-- **`Document(lines)` on a written document** -/
theorem parseLines_writes (cfg : Document.Cfg) (ti : Bool) (hb : cfg.block = dcfg ti)
    (ht : ∀ t ∈ cfg.span, inertClass t = true) (hc : cfg.span.count .lineBreak = 1)
    (ts : List T) (h : T.oks ts = true) (hne : ts ≠ []) (g : Nat) :
    Document.parseLines cfg (needs ts + g) (writes ts) = .ok { kids := blocksOf 1 ts, footnotes := [] } := by
  unfold Document.parseLines
  rw [hb, blockPhase_writes ti ts h hne g]
  simp only
  rw [mkBlocks_entriesOf cfg _ ht hc ts h 1]
  rfl

/-! ### HTML written directly from the tree -/

open Mistletoe.Html Mistletoe.Escape
open Mistletoe.InertInline (flat_append flat_prose)

/-- `<p>`, the stripped lines joined by "\n" and HTML-escaped, `</p>` -/
def paraHtml (q : Quotes) (ls : List Str) : Str :=
  "<p>".toList ++ escapeHtmlText q.dq q.sq (joinNl (ls.map strip)) ++ "</p>".toList
/-- `<hN>`, the escaped text, `</hN>` -/
def headHtml (q : Quotes) (lv : Nat) (t : Str) : Str :=
  '<' :: 'h' :: natDigits lv ++ ['>'] ++ escapeHtmlText q.dq q.sq t ++ '<' :: '/' :: 'h' :: natDigits lv ++ ['>']
def hrHtml : Str := "<hr />".toList
/-- `<blockquote>`, newline, the children (each already followed by a newline), `</blockquote>` -/
def quoteHtml (inner : Str) : Str :=
  ['<', 'b', 'l', 'o', 'c', 'k', 'q', 'u', 'o', 't', 'e', '>', '\n'] ++ inner ++
    ['<', '/', 'b', 'l', 'o', 'c', 'k', 'q', 'u', 'o', 't', 'e', '>']

mutual
/-- the HTML of one node -/
def htmlNode (q : Quotes) : T → Str
  | .para ls => paraHtml q ls
  | .heading lv t _ => headHtml q lv t
  | .hr _ => hrHtml
  | .quote _ kids => quoteHtml (htmlKids q kids)
/-- nodes, each followed by a newline -/
def htmlKids (q : Quotes) : List T → Str
  | [] => []
  | t :: rest => htmlNode q t ++ '\n' :: htmlKids q rest
end

/-- the HTML of the document -/
def htmlOf (o : Opts) (ts : List T) : Str := htmlKids o.q ts

theorem flat_cons (e : Ev) (es : List Ev) : flat (e :: es) = flatEv e ++ flat es := by simp [flat]
theorem flat_nil : flat [] = [] := rfl
theorem flatEv_nl : flatEv nl = ['\n'] := rfl

mutual
theorem flat_blockOf (q : Quotes) : ∀ (t : T) (n : Nat), flat (renderBlock q false (blockOf n t)) = htmlNode q t
  | .para ls, n => by
    simp only [blockOf, htmlNode, paraHtml]
    simp only [renderBlock, Bool.false_eq_true, if_false, flat_append, flat_prose]
    simp [flat, flatEv, flatAttrs]
  | .heading lv t line, n => by
    simp only [blockOf, htmlNode, headHtml]
    simp only [renderBlock, renderInlines, renderInline, flat_cons, flat_nil,
      flatEv, flatAttrs, List.append_nil, List.append_assoc, List.cons_append, List.nil_append]
  | .hr line, n => by
    simp only [blockOf, htmlNode, hrHtml]
    simp only [renderBlock]
    decide
  | .quote _ kids, n => by
    simp only [blockOf, htmlNode]
    simp only [renderBlock, flat_append, flat_afterEach q kids n]
    generalize htmlKids q kids = x
    have h1 : flat [Ev.otag "blockquote".toList [], nl] = ['<', 'b', 'l', 'o', 'c', 'k', 'q', 'u', 'o', 't', 'e', '>', '\n'] := by
      decide +kernel
    have h2 : flat [Ev.ctag "blockquote".toList] = ['<', '/', 'b', 'l', 'o', 'c', 'k', 'q', 'u', 'o', 't', 'e', '>'] := by
      decide +kernel
    rw [h1, h2, quoteHtml]
theorem flat_afterEach (q : Quotes) : ∀ (ts : List T) (n : Nat),
    flat (renderAfterEach q false (blocksOf n ts)) = htmlKids q ts
  | [], _ => by simp [blocksOf, renderAfterEach, htmlKids, flat]
  | t :: rest, n => by
    simp only [blocksOf, htmlKids]
    simp only [renderAfterEach, flat_append, flat_blockOf q t n, flat_afterEach q rest _]
    simp [flat, flatEv, nl]
end

theorem flat_sep_afterEach (q : Quotes) (s : Bool) : ∀ (bs : List Mistletoe.Block), bs ≠ [] →
    flat (renderSep q s bs) ++ ['\n'] = flat (renderAfterEach q s bs)
  | [], h => absurd rfl h
  | [b], _ => by simp [renderSep, renderAfterEach, flat, flatEv, nl]
  | b :: b' :: rest, _ => by
    have ih := flat_sep_afterEach q s (b' :: rest) (by simp)
    simp only [renderSep, renderAfterEach, flat_append] at ih ⊢
    rw [List.append_assoc, List.append_assoc, ih]
    simp [List.append_assoc]

theorem quoteHtml_ne (x : Str) : quoteHtml x ≠ [] := by simp [quoteHtml]

theorem htmlNode_ne (q : Quotes) : ∀ (t : T), htmlNode q t ≠ []
  | .para _ => by simp [htmlNode, paraHtml]
  | .heading _ _ _ => by simp [htmlNode, headHtml]
  | .hr _ => by simp [htmlNode, hrHtml]
  | .quote _ _ => by simp only [htmlNode]; exact quoteHtml_ne _

/-- **the HTML renderer on the expected document** -/
theorem render_blocksOf (o : Opts) (ts : List T) (hne : ts ≠ []) (fn : List (Str × Str × Str)) :
    render o { kids := blocksOf 1 ts, footnotes := fn } = htmlOf o ts := by
  obtain ⟨t, rest, rfl⟩ : ∃ t rest, ts = t :: rest := by
    cases ts with
    | nil => exact absurd rfl hne
    | cons t rest => exact ⟨t, rest, rfl⟩
  have hk : blocksOf 1 (t :: rest) = blockOf 1 t :: blocksOf (1 + (write t).length + 1) rest := by simp [blocksOf]
  have hnonempty : (flat (renderSep o.q false (blocksOf 1 (t :: rest)))).isEmpty = false := by
    rw [hk]
    cases hr : blocksOf (1 + (write t).length + 1) rest with
    | nil =>
      simp only [renderSep, flat_blockOf]
      simpa using htmlNode_ne o.q t
    | cons b bs =>
      simp only [renderSep, flat_append, flat_blockOf]
      simp [htmlNode_ne o.q t]
  have hd : renderDoc o.q { kids := blocksOf 1 (t :: rest), footnotes := fn } =
      renderSep o.q false (blocksOf 1 (t :: rest)) ++ [nl] := by
    simp only [renderDoc, hk]
    rw [← hk, hnonempty]
    simp
  rw [render, hd, flat_append]
  have : flat [nl] = ['\n'] := rfl
  rw [this, flat_sep_afterEach o.q false _ (by rw [hk]; simp), flat_afterEach]
  rfl

/-! ### From the text as one `str`, and the bundled HTML configuration -/

/-- **`Document(text)`** for the written lines concatenated into one string -/
theorem parse_writes (cfg : Document.Cfg) (ti : Bool) (hb : cfg.block = dcfg ti)
    (ht : ∀ t ∈ cfg.span, inertClass t = true) (hc : cfg.span.count .lineBreak = 1)
    (ts : List T) (h : T.oks ts = true) (hne : ts ≠ []) (g : Nat) :
    Document.parse cfg (needs ts + g) (writes ts).flatten = .ok { kids := blocksOf 1 ts, footnotes := [] } := by
  rw [InertInline.parse_lines cfg _ (writes ts) (fun l hl => lineOk_oneLine ((writes_lineOk ts h).1 l hl))]
  exact parseLines_writes cfg ti hb ht hc ts h hne g

/-- the configuration the HTML renderer installs in the working tree (regenerated from /repo) has the
    default block token list and a span token list of covered classes with `LineBreak` once -/
theorem html_config (cfg : Document.Cfg) (h : Config.html = some cfg) :
    cfg.block = dcfg cfg.block.tableInterrupt ∧ (∀ t ∈ cfg.span, inertClass t = true) ∧ cfg.span.count .lineBreak = 1 := by
  have h1 := Props.C14.C14_config_current.1
  have h2 := Props.C14.C14_config_covered cfg (Or.inl h)
  rw [h] at h1
  simp only [Option.map_some, Option.some.injEq] at h1
  refine ⟨?_, h2.2.1, h2.2.2⟩
  cases hb : cfg.block with
  | mk types ti =>
    rw [hb] at h1
    simp only at h1
    subst h1
    rfl

/-- **end to end**: `HtmlRenderer(**opts).render(Document(text))` on the written text is the HTML written
    directly from the tree -/
theorem renderHtml_writes (o : Opts) (ts : List T) (h : T.oks ts = true) (hne : ts ≠ []) (g : Nat) :
    Config.renderHtml o (needs ts + g) (writes ts).flatten = some (htmlOf o ts) := by
  unfold Config.renderHtml
  cases hc : Config.html with
  | none =>
    have := Props.C14.C14_config_current.1
    rw [hc] at this
    cases this
  | some cfg =>
    obtain ⟨hb, ht, hcnt⟩ := html_config cfg hc
    simp only
    rw [parse_writes cfg _ hb ht hcnt ts h hne g]
    simp only
    rw [render_blocksOf o ts hne]

/-! ### The tree without its spelling -/

/-- the abstract tree: what the HTML depends on -/
inductive A where
  | para (text : Str)
  | heading (level : Nat) (text : Str)
  | hr
  | quote (kids : List A)

mutual
/-- forget the spelling: indentation and line layout of paragraphs are kept only as the stripped lines
    joined by "\n"; the spelling of headings, thematic breaks and quote markers is dropped -/
def shape : T → A
  | .para ls => .para (joinNl (ls.map strip))
  | .heading lv t _ => .heading lv t
  | .hr _ => .hr
  | .quote _ kids => .quote (shapes kids)
def shapes : List T → List A
  | [] => []
  | t :: rest => shape t :: shapes rest
end

mutual
/-- HTML written directly from the abstract tree -/
def htmlA (q : Quotes) : A → Str
  | .para text => "<p>".toList ++ escapeHtmlText q.dq q.sq text ++ "</p>".toList
  | .heading lv t => headHtml q lv t
  | .hr => hrHtml
  | .quote kids => quoteHtml (htmlAs q kids)
def htmlAs (q : Quotes) : List A → Str
  | [] => []
  | a :: rest => htmlA q a ++ '\n' :: htmlAs q rest
end

mutual
theorem htmlNode_shape (q : Quotes) : ∀ (t : T), htmlNode q t = htmlA q (shape t)
  | .para ls => by simp only [htmlNode, shape, htmlA, paraHtml]
  | .heading lv t _ => by simp only [htmlNode, shape, htmlA]
  | .hr _ => by simp only [htmlNode, shape, htmlA]
  | .quote _ kids => by simp only [htmlNode, shape, htmlA, htmlKids_shapes q kids]
theorem htmlKids_shapes (q : Quotes) : ∀ (ts : List T), htmlKids q ts = htmlAs q (shapes ts)
  | [] => by simp only [htmlKids, shapes, htmlAs]
  | t :: rest => by simp only [htmlKids, shapes, htmlAs, htmlNode_shape q t, htmlKids_shapes q rest]
end
end Mistletoe.Compose
