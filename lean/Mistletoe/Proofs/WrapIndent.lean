/-
  C04, list half ("the same text with a list marker of width W before its first line and W spaces before
  every other non-blank line parses to exactly one single-item list whose item content is B; the set of link
  definitions found is unchanged"), with the hypotheses of `Props/C04.lean` (`C04_item_wraps_eq`,
  `C04_item_wraps_partial`, `C04_item_phase_partial`) weakened as far as the model allows:

  * the marker may stand at indentation 0-3 (was: 0) — `leadSp_*`, `parseMarker_first_at`, `tryTypes_leadSp`;
  * blank lines may be any lines of spaces (was: exactly "\n"), left alone or indented — `parseContinuation_spaces`,
    `IndentedAs2`, `itemLoop_indented2`: every line of the indented text is taken by `parse_continuation`, the
    lazy-continuation branch of `ListItem.read` is never entered; the collected buffer is the original lines with
    the spaces-only lines read as "\n" (`normLine`);
  * at the dispatcher and in the container readers a line of at most three spaces is not told from "\n"
    (`tryTypes_spaces`, `tokLoop_spaces_step`, `parseContinuation_spaces`); `BlockCode`, `CodeFence`, `HtmlBlock` do
    tell them apart, so the parse of the normalised text is in general NOT the parse of the text (examples at the end).

  Main statements (namespace `Mistletoe.Props.C04`): `C04_item_wraps_general_eq`, `C04_item_wraps_general_partial`,
  `C04_item_phase_general_partial` (+ `_default_`, `_markdown_`, `_same_`, `_h2_`), `C04_htb_of_marker`.
-/
import Mistletoe.Props.C04
namespace Mistletoe.Block
open Mistletoe Mistletoe.Py Mistletoe.Scan

/-! ### A marker character behind up to three spaces -/

section LeadSp
variable {c : Char} (hc : LeadChar c) (i : Nat) (hi : i < 4) (r : Str)
include hc

theorem leadSp_lstrip : lstrip (List.replicate i ' ' ++ c :: r) = c :: r := lstrip_rep i c r hc.nsp

theorem leadSp_bracket : startsWith ['['] (lstrip (List.replicate i ' ' ++ c :: r)) = false := by
  simp [leadSp_lstrip hc, startsWith, isPrefix_ne _ _ _ _ hc.n_lb]

theorem leadSp_blankLine : Scan.blankLine (List.replicate i ' ' ++ c :: r) = false := by
  simp [Scan.blankLine, ws, hc.nsp]

theorem leadSp_quote : quoteStart (List.replicate i ' ' ++ c :: r) = false := by
  unfold quoteStart
  simp [lstripSp_rep i c r hc.n_sp, startsWith, isPrefix_ne _ _ _ _ hc.n_gt]

include hi

theorem leadSp_heading : Scan.heading (List.replicate i ' ' ++ c :: r) = none := by
  unfold Scan.heading; rw [upTo3_rep i c r hc.n_sp hi]; simp [span, hc.n_hash]

theorem leadSp_codeFence : codeFenceStart (List.replicate i ' ' ++ c :: r) = none := by
  unfold codeFenceStart Scan.codeFence; rw [upTo3_rep i c r hc.n_sp hi]; simp [hc.n_bt, hc.n_tilde]

theorem leadSp_blockCode : blockCodeStart (List.replicate i ' ' ++ c :: r) = false := by
  unfold blockCodeStart replaceTab1
  have hs : (' ' : Char) ≠ '\t' := by decide
  obtain rfl | rfl | rfl | rfl : i = 0 ∨ i = 1 ∨ i = 2 ∨ i = 3 := by omega
  all_goals simp [List.replicate, replaceTab_plain _ _ hc.n_tab, replaceTab_plain _ _ hs, startsWith, isPrefix_ne _ _ _ _ hc.n_sp]

theorem leadSp_html : htmlBlockStart (List.replicate i ' ' ++ c :: r) = .ok none := by
  unfold htmlBlockStart
  simp only [lstrip_rep i c r hc.nsp]
  have hlen : ¬ ((List.replicate i ' ' ++ c :: r).length - (c :: r).length ≥ 4) := by
    simp; omega
  simp only [hlen, if_false]
  have hm : multiblock (c :: r) = none := by unfold multiblock; simp [hc.n_lt]
  have hs : ∀ p : Str, startsWith ('<' :: p) (c :: r) = false := by
    intro p; simp [startsWith, isPrefix_ne _ _ _ _ hc.n_lt]
  have hr : htmlRest (c :: r) = none := by
    unfold htmlRest
    have h1 : predefined (c :: r) = none := by unfold predefined; simp [hc.n_lt]
    have h2 : customTag (c :: r) = false := by
      unfold customTag
      have a : openTag (c :: r) = none := by unfold openTag; simp [hc.n_lt]
      have b : closingTag (c :: r) = none := by unfold closingTag; simp [hc.n_lt]
      simp [a, b]
    simp [h1, h2]
  have e1 : "<!--".toList = '<' :: ['!', '-', '-'] := by decide
  have e2 : "<?".toList = '<' :: ['?'] := by decide
  have e3 : "<!".toList = '<' :: ['!'] := by decide
  simp only [hm, e1, e2, e3, hs, hr, Bool.false_eq_true, if_false]

/-- a line whose first non-space character is none of '-', '_', '*' is not a thematic break: the
    marker/thematic-break coincidence needs a bullet '-' or '*' -/
theorem leadSp_thematicBreak (h1 : c ≠ '-') (h2 : c ≠ '_') (h3 : c ≠ '*') :
    Scan.thematicBreak (List.replicate i ' ' ++ c :: r) = false := by
  unfold Scan.thematicBreak
  rw [upTo3_rep i c r hc.n_sp hi]
  simp [h1, h2, h3]

end LeadSp

/-! ### `ListItem.parse_marker` on a marker at indentation 0-3 -/

/-- the first line of the item, the marker written behind `i` ≤ 3 spaces: `ListItem.parse_marker` finds
    indentation `i`, the marker, and the content offset `i + |m| + pad` -/
theorem parseMarker_first_at (m : Str) (hm : ListLeader m) (i : Nat) (hi : i < 4) (pad : Nat) (h1 : 1 ≤ pad) (h4 : pad ≤ 4)
    (c0 : Char) (r0 : Str) (hc0 : pyIsSpace c0 = false) :
    parseMarker (List.replicate i ' ' ++ (m ++ List.replicate pad ' ' ++ c0 :: r0)) =
      some (i, i + m.length + pad, m, c0 :: r0) := by
  obtain ⟨c, m', rfl, hc⟩ := hm.lead
  have hli : Scan.listItem (List.replicate i ' ' ++ ((c :: m') ++ List.replicate pad ' ' ++ c0 :: r0)) =
      some { g1 := List.replicate i ' ', g2 := c :: m', g3 := List.replicate pad ' ', rest := c0 :: r0 } := by
    unfold Scan.listItem
    rw [List.append_assoc, List.cons_append, upTo3_rep i c _ hc.n_sp hi, ← List.cons_append]
    simp only [hm.marker]
    obtain ⟨p, rfl⟩ : ∃ p, pad = p + 1 := ⟨pad - 1, by omega⟩
    have hne : atEnd (List.replicate (p + 1) ' ' ++ c0 :: r0) = false := by
      simp [atEnd, List.replicate_succ]
    simp only [hne, Bool.false_eq_true, if_false, span_ws_rep (p + 1) c0 r0 hc0]
    simp [List.replicate_succ]
  unfold parseMarker
  rw [hli]
  have hnt : '\t' ∉ (List.replicate i ' ' ++ (c :: m') ++ List.replicate pad ' ') := by
    simp only [List.mem_append, List.mem_replicate, not_or]
    exact ⟨⟨by rintro ⟨_, e⟩; exact absurd e (by decide), hm.noTab⟩, by rintro ⟨_, e⟩; exact absurd e (by decide)⟩
  simp only [expandtabs, expandtabsAux_noTab _ 0 hnt]
  simp only [List.length_append, List.length_replicate]
  have : ¬ (i + (c :: m').length + pad - (i + (c :: m').length) > 4) := by omega
  simp only [this]
  simp

theorem listStart_first_at (m : Str) (hm : ListLeader m) (i : Nat) (hi : i < 4) (pad : Nat) (h1 : 1 ≤ pad) (rest : Str) :
    listStart (List.replicate i ' ' ++ (m ++ List.replicate pad ' ' ++ rest)) = true := by
  obtain ⟨c, m', rfl, hc⟩ := hm.lead
  unfold listStart
  rw [List.append_assoc, List.cons_append, upTo3_rep i c _ hc.n_sp hi, ← List.cons_append]
  simp only [hm.marker]
  obtain ⟨p, rfl⟩ : ∃ p, pad = p + 1 := ⟨pad - 1, by omega⟩
  simp [List.replicate_succ, span]

/-! ### Continuation lines -/

/-- a line of spaces only is a continuation line of every item, whatever its length, and is read as "\n" -/
theorem parseContinuation_spaces (k W : Nat) : parseContinuation (List.replicate k ' ' ++ ['\n']) W = some ['\n'] := by
  have h := span_sptab_rep k '\n' [] (by decide) (by decide)
  simp [parseContinuation, continuation, h]

/-- `l'` is the line of the document from which `ListItem.read` makes the line `l` of the item's content:
    a line of `k` spaces (any `k`, 0 included) gives "\n"; any other line of the content (`ContLine`: some
    spaces of its own, a non-whitespace character, the rest, the final newline) stands behind `W` spaces -/
def IndentedAs2 (W : Nat) (l' l : Line) : Prop :=
  l'.origin = l.origin ∧
    ((l.s = ['\n'] ∧ ∃ k, l'.s = List.replicate k ' ' ++ ['\n']) ∨ (ContLine l.s ∧ l'.s = List.replicate W ' ' ++ l.s))

def IndentedAll2 (W : Nat) : List Line → List Line → Prop
  | [], [] => True
  | l' :: r', l :: r => IndentedAs2 W l' l ∧ IndentedAll2 W r' r
  | _, _ => False

/-- the `while True` loop of `ListItem.read`: every line belongs to the item (`parse_continuation` succeeds on
    each, the lazy-continuation branch with its interrupt checks is never entered), no next marker is found -/
theorem itemLoop_indented2 (cfg : Cfg) (W start : Nat) : ∀ (rest' rest pre' buf : List Line) (nl fuel : Nat),
    IndentedAll2 W rest' rest → rest'.length < fuel →
    itemLoop cfg W fuel ⟨pre' ++ rest', pre'.length, start⟩ buf nl =
      .ok ((dropTrailing ⟨pre' ++ rest', pre'.length + rest'.length, start⟩ (rest.reverse ++ buf) (trailNl nl rest)).2,
           (dropTrailing ⟨pre' ++ rest', pre'.length + rest'.length, start⟩ (rest.reverse ++ buf) (trailNl nl rest)).1, none)
  | _, _, _, _, _, 0, _, hf => by simp at hf
  | [], [], pre', buf, nl, fuel + 1, _, _ => by
    simp [itemLoop, peek_end, trailNl]
  | [], _ :: _, _, _, _, _ + 1, h, _ => by simp [IndentedAll2] at h
  | _ :: _, [], _, _, _, _ + 1, h, _ => by simp [IndentedAll2] at h
  | l' :: rest', l :: rest, pre', buf, nl, fuel + 1, h, hf => by
    obtain ⟨⟨ho, hl⟩, hrest⟩ := h
    have hp := peek_at pre' l' rest' start
    have hn : (FW.next ⟨pre' ++ l' :: rest', pre'.length, start⟩) =
        ⟨(pre' ++ [l']) ++ rest', (pre' ++ [l']).length, start⟩ := by
      simp [FW.next]
    have ih := fun buf nl => itemLoop_indented2 cfg W start rest' rest (pre' ++ [l']) buf nl fuel hrest
      (by simp only [List.length_cons] at hf; omega)
    have hcont : parseContinuation l'.s W = some l.s := by
      rcases hl with ⟨h1, k, h2⟩ | ⟨h1, h2⟩
      · rw [h1, h2]; exact parseContinuation_spaces k W
      · rw [h2]; exact parseContinuation_indented W l.s h1
    have hne : l.s.isEmpty = false := by
      rcases hl with ⟨h1, _⟩ | ⟨⟨n, c, body, h1, _⟩, _⟩ <;> rw [h1] <;> simp
    have el : ({ s := l.s, origin := l'.origin } : Line) = l := by cases l; simp_all
    simp only [itemLoop, hp, hcont, hne, Bool.false_eq_true, if_false]
    rw [hn, ih, el]
    simp only [trailNl, List.reverse_cons, List.append_assoc, List.singleton_append, List.length_append,
      List.length_cons, List.length_nil]
    have e : pre'.length + (0 + 1) + rest'.length = pre'.length + (rest'.length + 1) := by omega
    rw [e]

/-- `l0'` is the first line `l0` of the content (which begins with a non-whitespace character) behind
    `i` spaces, the marker `m` and `pad` spaces -/
def FirstAsAt (i : Nat) (m : Str) (pad : Nat) (l0' l0 : Line) : Prop :=
  l0'.origin = l0.origin ∧ ∃ c0 r0, l0.s = c0 :: r0 ∧ pyIsSpace c0 = false ∧
    l0'.s = List.replicate i ' ' ++ (m ++ List.replicate pad ' ' ++ l0.s)

/-- **ListItem.read** up to the nested tokenizer: it gets the unindented lines, numbered from the line of
    the marker; indentation `i`, content offset `i + |m| + pad`, no next marker, cursor at the end -/
theorem itemLines_indented2 (cfg : Cfg) (start : Nat) (m : Str) (hm : ListLeader m) (i : Nat) (hi : i < 4)
    (pad : Nat) (h1 : 1 ≤ pad) (h4 : pad ≤ 4)
    (l0' l0 : Line) (rest' rest pre' : List Line) (hf : FirstAsAt i m pad l0' l0)
    (hrest : IndentedAll2 (i + m.length + pad) rest' rest) (hnl : trailNl 0 rest = 0) :
    itemLines cfg ⟨pre' ++ l0' :: rest', pre'.length, start⟩ none =
      .ok (.lines (l0 :: rest) (start + pre'.length) i (i + m.length + pad) m (start + pre'.length) l0.origin none
        ⟨pre' ++ l0' :: rest', pre'.length + (rest'.length + 1), start⟩) := by
  obtain ⟨ho, c0, r0, hs0, hc0, hs⟩ := hf
  have hp := peek_at pre' l0' rest' start
  have hn : (FW.next ⟨pre' ++ l0' :: rest', pre'.length, start⟩) =
      ⟨(pre' ++ [l0']) ++ rest', (pre' ++ [l0']).length, start⟩ := by
    simp [FW.next]
  have hpm : parseMarker l0'.s = some (i, i + m.length + pad, m, l0.s) := by
    rw [hs, hs0]; exact parseMarker_first_at m hm i hi pad h1 h4 c0 r0 hc0
  have hnb : isBlank l0.s = false := by rw [hs0]; simp [isBlank, hc0]
  have hloop := fun buf => itemLoop_indented2 cfg (i + m.length + pad) start rest' rest (pre' ++ [l0']) buf 0
    (FW.remaining ⟨pre' ++ l0' :: rest', pre'.length, start⟩ + 1) hrest (by simp [FW.remaining]; omega)
  have hln : (FW.lineNumber ⟨(pre' ++ [l0']) ++ rest', (pre' ++ [l0']).length, start⟩) = start + pre'.length := by
    simp [FW.lineNumber]
  have el : ({ s := l0.s, origin := l0'.origin } : Line) = l0 := by cases l0; simp_all
  unfold itemLines
  simp only [hp, hpm, hnb, Bool.false_eq_true, if_false]
  rw [hn, hloop, hnl, dropTrailing_zero, hln, el, ho]
  simp; omega

/-- what `List.read` returns for a given result of the nested `tokenize_block`: one item at indentation `i` -/
def listResultAt (i W : Nat) (m : Str) (ln og : Nat) (fw' : FW) : Res (Buf × St) → Res (List Item × FW × St)
  | .err e => .err e
  | .ok (b, st') => .ok ([.mk b.entries (decide (b.entries.length > 1) && b.loose) i W m ln og], fw', st')

theorem readList_indented2 (cfg : Cfg) (fw : FW) (st : St) (buf : List Line) (cstart i W : Nat) (m : Str) (ln og : Nat) (fw' : FW)
    (h : itemLines cfg fw none = .ok (.lines buf cstart i W m ln og none fw')) (g : Nat) :
    readList cfg (g + 1) fw st none none [] = listResultAt i W m ln og fw' (tokenizeBlock cfg g buf cstart st) := by
  simp only [readList, h]
  cases tokenizeBlock cfg g buf cstart st with
  | err e => rfl
  | ok r => obtain ⟨b, st'⟩ := r; rfl

/-- the dispatcher on a line that begins, behind at most three spaces, with a marker character: the types before
    `List` (`Paragraph` and `Table` excluded, and the line not being a thematic break) do not start -/
theorem tryTypes_leadSp (cfg : Cfg) (fw : FW) (st : St) (l' : Line) (i : Nat) (hi : i < 4) (c : Char) (r : Str)
    (hl : l'.s = List.replicate i ' ' ++ c :: r) (hc : LeadChar c)
    (htb : Scan.thematicBreak l'.s = false) (post : List BTok) (g : Nat) :
    ∀ (pre : List BTok), .list ∉ pre → .paragraph ∉ pre → .table ∉ pre →
      tryTypes cfg (g + 1 + pre.length) fw st l' (pre ++ .list :: post) = tryTypes cfg (g + 1) fw st l' (.list :: post)
  | [], _, _, _ => rfl
  | x :: pre, hnl, hnp, hnt => by
    have ih := tryTypes_leadSp cfg fw st l' i hi c r hl hc htb post g pre
      (fun h => hnl (List.mem_cons_of_mem _ h)) (fun h => hnp (List.mem_cons_of_mem _ h)) (fun h => hnt (List.mem_cons_of_mem _ h))
    have e : g + 1 + (x :: pre).length = (g + 1 + pre.length) + 1 := by simp only [List.length_cons]; omega
    rw [e, List.cons_append]
    conv => lhs; unfold tryTypes
    cases x <;> simp only
    · rw [hl, leadSp_html hc i hi]; exact ih
    · rw [hl, leadSp_blockCode hc i hi]; exact ih
    · simp only [readHeading, hl, leadSp_heading hc i hi]; exact ih
    · rw [hl, leadSp_quote hc]; exact ih
    · rw [hl, leadSp_codeFence hc i hi]; exact ih
    · rw [htb]; exact ih
    · exact absurd (List.mem_cons_self ..) hnl
    · exact absurd (List.mem_cons_self ..) hnt
    · rw [hl, leadSp_bracket hc]; exact ih
    · exact absurd (List.mem_cons_self ..) hnp
    · rw [hl, leadSp_blankLine hc]; exact ih
    · rw [hl, leadSp_bracket hc]; exact ih

/-- the outer parse for a given result of the inner one: one list, reported on the line the buffer starts on,
    of one item (indentation `i`, content offset `W`, leader `m`) holding the inner entries -/
def wrapItemAt (i W : Nat) (m : Str) (start og : Nat) : Res (Buf × St) → Res (Buf × St)
  | .err e => .err e
  | .ok (b, st') => .ok ({ entries := [.list [.mk b.entries (decide (b.entries.length > 1) && b.loose) i W m start og] start og],
                           loose := false }, st')

theorem wrapItemAt_zero (W : Nat) (m : Str) (start og : Nat) (r : Res (Buf × St)) :
    wrapItemAt 0 W m start og r = wrapItem W m start og r := by
  cases r with
  | err e => rfl
  | ok p => rfl

/-- **tokenize_block on a buffer indented as one list item** (marker at indentation `i` ≤ 3, spaces-only lines
    anywhere but at the end) is one single-item list around what `tokenize_block` gives on the content lines,
    errors included -/
theorem tokenizeBlock_indented2 (cfg : Cfg) (pre post : List BTok) (hty : cfg.types = pre ++ .list :: post)
    (hnl : .list ∉ pre) (hnp : .paragraph ∉ pre) (hnt : .table ∉ pre)
    (m : Str) (hm : ListLeader m) (i : Nat) (hi : i < 4) (pad : Nat) (h1 : 1 ≤ pad) (h4 : pad ≤ 4)
    (l0' l0 : Line) (rest' rest : List Line) (hf : FirstAsAt i m pad l0' l0) (htb : Scan.thematicBreak l0'.s = false)
    (hrest : IndentedAll2 (i + m.length + pad) rest' rest) (hlast : trailNl 0 rest = 0) (start : Nat) (st : St) (g : Nat) :
    tokenizeBlock cfg (g + (pre.length + 4)) (l0' :: rest') start st =
      wrapItemAt i (i + m.length + pad) m start l0.origin (tokenizeBlock cfg g (l0 :: rest) start st) := by
  obtain ⟨c, m', hmc, hc⟩ := hm.lead
  have hl : l0'.s = List.replicate i ' ' ++ c :: (m' ++ List.replicate pad ' ' ++ l0.s) := by
    obtain ⟨_, _, _, _, _, hs⟩ := hf
    rw [hs, hmc]; simp
  have e : g + (pre.length + 4) = ((g + 1 + 1 + pre.length) + 1) + 1 := by omega
  have hp := peek_at [] l0' rest' start
  have hil := itemLines_indented2 cfg start m hm i hi pad h1 h4 l0' l0 rest' rest [] hf hrest hlast
  have hrl := readList_indented2 cfg _ st _ _ _ _ _ _ _ _ hil g
  have hty' := tryTypes_leadSp cfg ⟨l0' :: rest', 0, start⟩ st l0' i hi c _ hl hc htb post (g + 1) pre hnl hnp hnt
  have hls : listStart l0'.s = true := by
    obtain ⟨_, _, _, _, _, hs⟩ := hf
    rw [hs]; exact listStart_first_at m hm i hi pad h1 _
  simp only [List.nil_append, List.length_nil, Nat.add_zero, Nat.zero_add] at hp hil hrl
  rw [e]
  simp only [tokenizeBlock, tokLoop, hp, hty, hty']
  simp only [tryTypes, hls, if_true, hrl]
  cases tokenizeBlock cfg g (l0 :: rest) start st with
  | err e => simp [listResultAt, wrapItemAt]
  | ok r =>
    obtain ⟨b, st'⟩ := r
    simp only [listResultAt, wrapItemAt]
    have hend := peek_end (l0' :: rest') start
    simp only [List.length_cons] at hend
    simp only [hf.1]
    have e2 : g + 1 + 1 + pre.length = (g + 1 + pre.length) + 1 := by omega
    rw [e2]
    simp [tokLoop, hend]

/-! ### The dispatcher does not tell a line of at most three spaces from "\n"

  (`Paragraph.read`, `Quote.read`, `Footnote.read` and the blank-skipping loop of `ListItem.read` test
  `line.strip() == ''` only, and `ListItem.parse_continuation` reads every spaces-only line as "\n" —
  `parseContinuation_spaces`; the readers that do tell them apart are `BlockCode.read`, `CodeFence.read`,
  `HtmlBlock.read`, which copy the line, and `BlockCode.start`, which fires on four or more spaces.) -/

theorem tryTypes_spaces (cfg : Cfg) (fw : FW) (st : St) (l l0 : Line) (k : Nat) (hk : k ≤ 3)
    (hl : l.s = List.replicate k ' ' ++ ['\n']) (h0 : l0.s = ['\n']) (ho : l0.origin = l.origin) :
    ∀ (ts : List BTok) (gas : Nat), tryTypes cfg gas fw st l ts = tryTypes cfg gas fw st l0 ts
  | _, 0 => by simp [tryTypes]
  | [], gas + 1 => by simp [tryTypes]
  | t :: ts, gas + 1 => by
    have ih := tryTypes_spaces cfg fw st l l0 k hk hl h0 ho ts gas
    have a1 : htmlBlockStart ['\n'] = .ok none := by decide
    have a2 : blockCodeStart ['\n'] = false := by decide
    have a3 : Scan.heading ['\n'] = none := by decide
    have a4 : quoteStart ['\n'] = false := by decide
    have a5 : codeFenceStart ['\n'] = none := by decide
    have a6 : Scan.thematicBreak ['\n'] = false := by decide
    have a7 : listStart ['\n'] = false := by decide
    have a8 : (['\n'] : Str).contains '|' = false := by decide
    have a9 : startsWith ['['] (lstrip ['\n']) = false := by decide
    have a10 : isBlank ['\n'] = true := by decide
    have a11 : Scan.blankLine ['\n'] = true := by decide
    have b1 : htmlBlockStart l.s = .ok none := by
      rw [hl]; obtain rfl | rfl | rfl | rfl : k = 0 ∨ k = 1 ∨ k = 2 ∨ k = 3 := by omega
      all_goals decide
    have b2 : blockCodeStart l.s = false := by
      rw [hl]; obtain rfl | rfl | rfl | rfl : k = 0 ∨ k = 1 ∨ k = 2 ∨ k = 3 := by omega
      all_goals decide
    have b3 : Scan.heading l.s = none := by
      rw [hl]; obtain rfl | rfl | rfl | rfl : k = 0 ∨ k = 1 ∨ k = 2 ∨ k = 3 := by omega
      all_goals decide
    have b4 : quoteStart l.s = false := by
      rw [hl]; obtain rfl | rfl | rfl | rfl : k = 0 ∨ k = 1 ∨ k = 2 ∨ k = 3 := by omega
      all_goals decide
    have b5 : codeFenceStart l.s = none := by
      rw [hl]; obtain rfl | rfl | rfl | rfl : k = 0 ∨ k = 1 ∨ k = 2 ∨ k = 3 := by omega
      all_goals decide
    have b6 : Scan.thematicBreak l.s = false := by
      rw [hl]; obtain rfl | rfl | rfl | rfl : k = 0 ∨ k = 1 ∨ k = 2 ∨ k = 3 := by omega
      all_goals decide
    have b7 : listStart l.s = false := by
      rw [hl]; obtain rfl | rfl | rfl | rfl : k = 0 ∨ k = 1 ∨ k = 2 ∨ k = 3 := by omega
      all_goals decide
    have b8 : l.s.contains '|' = false := by
      rw [hl]; obtain rfl | rfl | rfl | rfl : k = 0 ∨ k = 1 ∨ k = 2 ∨ k = 3 := by omega
      all_goals decide
    have b9 : startsWith ['['] (lstrip l.s) = false := by
      rw [hl]; obtain rfl | rfl | rfl | rfl : k = 0 ∨ k = 1 ∨ k = 2 ∨ k = 3 := by omega
      all_goals decide
    have b10 : isBlank l.s = true := by
      rw [hl]; obtain rfl | rfl | rfl | rfl : k = 0 ∨ k = 1 ∨ k = 2 ∨ k = 3 := by omega
      all_goals decide
    have b11 : Scan.blankLine l.s = true := by
      rw [hl]; obtain rfl | rfl | rfl | rfl : k = 0 ∨ k = 1 ∨ k = 2 ∨ k = 3 := by omega
      all_goals decide
    unfold tryTypes
    cases t <;> simp only [h0, ho, a1, a2, a3, a4, a5, a6, a7, a8, a9, a10, a11, b1, b2, b3, b4, b5, b6, b7, b8, b9, b10, b11,
      readHeading, Bool.false_eq_true, if_false, if_true, Bool.not_true] <;> exact ih

/-- one line of at most three spaces at the top level of `tokenize_block` is passed over exactly as "\n" is
    (`tokLoop_nl_step`): an unmatched newline (the buffer becomes loose), or a `BlankLine` under the Markdown renderer -/
theorem tokLoop_spaces_step (cfg : Cfg) (gas : Nat) (hg : cfg.types.length < gas)
    (b : Line) (k : Nat) (hk : k ≤ 3) (pre post : List Line) (start : Nat) (st : St) (acc : List Entry) (loose : Bool)
    (hb : b.s = List.replicate k ' ' ++ ['\n']) :
    tokLoop cfg (gas + 1) ⟨pre ++ b :: post, pre.length, start⟩ st acc loose =
      if cfg.types.contains .blankLine then
        tokLoop cfg gas ⟨(pre ++ [b]) ++ post, (pre ++ [b]).length, start⟩ st (.blankLine (start + pre.length) b.origin :: acc) loose
      else
        tokLoop cfg gas ⟨(pre ++ [b]) ++ post, (pre ++ [b]).length, start⟩ st acc true := by
  have hp := peek_at pre b post start
  have hsp := tryTypes_spaces cfg ⟨pre ++ b :: post, pre.length, start⟩ st b { s := ['\n'], origin := b.origin } k hk hb rfl rfl
    cfg.types gas
  simp only [tokLoop, hp, hsp]
  by_cases hm : BTok.blankLine ∈ cfg.types
  · have hc : cfg.types.contains .blankLine = true := by simpa using hm
    rw [tryTypes_nl_bl cfg _ st _ rfl cfg.types gas hm (by omega)]
    simp only [hc, if_true]
    simp [FW.next]
  · have hc : cfg.types.contains .blankLine = false := by simpa using hm
    rw [tryTypes_nl cfg _ st _ rfl cfg.types gas hm hg]
    simp only [hc, Bool.false_eq_true, if_false]
    simp [FW.next]

/-! ### Documents as they are indented -/

/-- the line consists of spaces and its final newline ("\n" included) -/
def spLine (s : Str) : Bool := s.drop (countLeading ' ' s) == ['\n']

theorem spLine_spec (s : Str) (h : spLine s = true) : ∃ k, s = List.replicate k ' ' ++ ['\n'] := by
  refine ⟨countLeading ' ' s, ?_⟩
  have := countLeading_split s
  simp only [spLine, beq_iff_eq] at h
  rw [h] at this
  exact this

/-- what `ListItem.read` makes of a spaces-only line -/
def normStr (s : Str) : Str := if spLine s then ['\n'] else s
def normLine (l : Line) : Line := { s := normStr l.s, origin := l.origin }

/-- a line of the content as it appears in the document: `W` spaces before it — before the spaces-only
    lines too if `blanksToo`, else these stay as they are -/
def indentStr2 (blanksToo : Bool) (W : Nat) (s : Str) : Str :=
  if spLine s && !blanksToo then s else List.replicate W ' ' ++ s
def indentLine2 (blanksToo : Bool) (W : Nat) (l : Line) : Line := { s := indentStr2 blanksToo W l.s, origin := l.origin }

/-- the first line behind `i` spaces, the marker and `pad` spaces -/
def markLineAt (i : Nat) (m : Str) (pad : Nat) (l : Line) : Line :=
  { s := List.replicate i ' ' ++ (m ++ List.replicate pad ' ' ++ l.s), origin := l.origin }

theorem contLine_not_sp (s : Str) (h : ContLine s) : spLine s = false := by
  obtain ⟨n, c, body, rfl, hc, _⟩ := h
  have hsp : c ≠ ' ' := by intro e; subst e; exact absurd hc (by decide)
  have hnl : c ≠ '\n' := by intro e; subst e; exact absurd hc (by decide)
  have e : List.replicate n ' ' ++ c :: body ++ ['\n'] = List.replicate n ' ' ++ c :: (body ++ ['\n']) := by simp
  simp only [spLine, e, countLeading_rep n c _ hsp]
  simp [hnl]

theorem indentedAll2_map (bt : Bool) (W : Nat) : ∀ (ls : List Line), (∀ l ∈ ls, spLine l.s = true ∨ ContLine l.s) →
    IndentedAll2 W (ls.map (indentLine2 bt W)) (ls.map normLine)
  | [], _ => trivial
  | l :: ls, h => by
    refine ⟨?_, indentedAll2_map bt W ls (fun x hx => h x (List.mem_cons_of_mem _ hx))⟩
    refine ⟨rfl, ?_⟩
    simp only [indentLine2, normLine, indentStr2, normStr]
    by_cases hl : spLine l.s = true
    · obtain ⟨k, hk⟩ := spLine_spec _ hl
      left
      simp only [hl, if_true, Bool.true_and, true_and]
      cases bt with
      | false => exact ⟨k, by simpa using hk⟩
      | true =>
        refine ⟨W + k, ?_⟩
        simp only [Bool.not_true, Bool.false_eq_true, if_false]
        rw [hk, ← List.append_assoc, List.replicate_append_replicate]
    · right
      rcases h l (by simp) with h' | h'
      · exact absurd h' hl
      · simp [hl, h']

theorem firstAsAt_mark (i : Nat) (m : Str) (pad : Nat) (l : Line) (c0 : Char) (r0 : Str) (hs : l.s = c0 :: r0)
    (hc0 : pyIsSpace c0 = false) : FirstAsAt i m pad (markLineAt i m pad l) l := ⟨rfl, c0, r0, hs, hc0, rfl⟩

/-- the content does not end with a spaces-only line: nothing is dropped from the item's buffer -/
theorem trailNl_norm_zero (ls : List Line) (hlast : ∀ l, ls.getLast? = some l → spLine l.s = false) :
    trailNl 0 (ls.map normLine) = 0 := by
  refine trailNl_zero _ 0 ?_ (fun _ => rfl)
  intro l hl
  rw [List.getLast?_map] at hl
  cases h : ls.getLast? with
  | none => rw [h] at hl; cases hl
  | some x =>
    rw [h] at hl
    simp only [Option.map_some, Option.some.injEq] at hl
    subst hl
    have hx := hlast x h
    simp only [normLine, normStr, hx, Bool.false_eq_true, if_false]
    intro e
    rw [e] at hx
    exact absurd hx (by decide)

theorem normStr_id (s : Str) (h : spLine s = true → s = ['\n']) : normStr s = s := by
  unfold normStr
  by_cases hs : spLine s = true
  · simp [hs, (h hs).symm]
  · simp [hs]

end Mistletoe.Block

namespace Mistletoe.Props.C04
open Mistletoe Mistletoe.Py Mistletoe.Scan Mistletoe.Block
open Mistletoe.Props.C14 (defaultTypes markdownTypes numbered numbered_cons)

/-! ### C04, list half, general form

  Relative to `C04_item_wraps_eq` / `C04_item_wraps_partial` / `C04_item_phase_partial`:

  * (H3) is gone: the marker may stand at indentation `i` = 0 … 3; the other lines are indented by
    `i + |m| + pad`; the item reports indentation `i` and content offset `i + |m| + pad`.
  * (H2) is gone: a blank line may be any line of spaces ("\n", "  \n", "        \n", …), left as it is or indented
    like the others (`blanksToo`).  `ListItem.parse_continuation` hands every such line to the nested tokenizer as
    "\n", so the item's content is the parse of the text *with its spaces-only lines replaced by "\n"* (`normStr`) —
    not of the text itself: see `spaces4_*` and `fenced_*` below for texts on which the two parses differ, on the
    model and on the implementation.  When every blank line of the text is "\n" the two texts are the same text
    (`C04_item_phase_general_h2_partial`); for a given text the equality of the two parses can be checked by
    evaluation (`C04_item_phase_general_same_partial`, hypothesis `hsame`).
  * (H1) was already as weak as the model allows, apart from the spaces-only lines: `ContLine` lets a line begin with
    any number of spaces of its own (indented code, nested items, lazy lines …); what it asks is that the first
    character after them be no whitespace character.  In a tab-free line that ends with its only newline this excludes
    exactly a line whose first non-space character is one of the other `str.isspace` characters (U+000B, U+000C,
    U+001C-1F, U+0085, U+00A0, U+1680, U+2000-200A, U+2028/9, U+202F, U+205F, U+3000, '\r'): `continuation_pattern`
    (`[ \t]*` then `\S`) does not match such a line, indented or not, the lazy-continuation branch takes it with its
    indentation or ends the item — recorded finding "unicode-whitespace-edge", example `edge` in Props/C04.

  Remaining hypotheses, each needed (examples at the end of the file):
  * `i ≤ 3` — at indentation 4 the marker line is indented code;
  * `1 ≤ pad ≤ 4` — with five spaces `parse_marker` counts one of them and leaves four to the content;
  * the first character of the text is no `str.isspace` character (`hc0`) — `ListItem.pattern` takes every whitespace
    character after the marker (`\s+`) as padding, U+2003 included, so the content offset grows beyond `|m| + pad`;
  * marker + first line is not a thematic break (`htb`; automatic unless the marker is '-' or '*':
    `C04_htb_of_marker`) — `ThematicBreak` is consulted before `List`;
  * every other line is a spaces-only line or a `ContLine` (`hcont`), the last line is not spaces-only (`hlast`, the
    property's "does not end in a blank line": `ListItem.read` drops trailing blank lines from the item and steps back);
  * `List` is consulted before `Paragraph` and `Table` (`hnp`, `hnt`; true of every shipped configuration). -/

/-- **Equation form.** -/
theorem C04_item_wraps_general_eq (cfg : Cfg) (pre post : List BTok) (hty : cfg.types = pre ++ .list :: post)
    (hnl : .list ∉ pre) (hnp : .paragraph ∉ pre) (hnt : .table ∉ pre)
    (m : Str) (hm : ListLeader m) (i : Nat) (hi : i ≤ 3) (pad : Nat) (h1 : 1 ≤ pad) (h4 : pad ≤ 4)
    (l0' l0 : Line) (rest' rest : List Line) (hf : FirstAsAt i m pad l0' l0) (htb : Scan.thematicBreak l0'.s = false)
    (hrest : IndentedAll2 (i + m.length + pad) rest' rest) (hlast : trailNl 0 rest = 0) (start : Nat) (st : St) (g : Nat) :
    tokenizeBlock cfg (g + (pre.length + 4)) (l0' :: rest') start st =
      wrapItemAt i (i + m.length + pad) m start l0.origin (tokenizeBlock cfg g (l0 :: rest) start st) :=
  tokenizeBlock_indented2 cfg pre post hty hnl hnp hnt m hm i (by omega) pad h1 h4 l0' l0 rest' rest hf htb hrest hlast start st g

/-- **A buffer indented as one list item parses to one single-item list whose content is the parse of the
    buffer (spaces-only lines read as "\n").**  `cfg.types = pre ++ List :: post` with none of `List`, `Paragraph`,
    `Table` in `pre`; `m` a list marker (`ListLeader`), written at indentation `i` ≤ 3, `pad` = 1 … 4 spaces after it.
    The buffer `l0 :: ls`: `l0` begins with a non-whitespace character; every other line is a spaces-only line or
    has a non-whitespace character after its leading spaces and ends with its only newline; the last line is not
    spaces-only; marker + first line is not a thematic break.  If `tokenize_block` on `l0 :: ls.map normLine` returns
    `(b, st')`, then on the buffer with `i` spaces, `m` and `pad` spaces before the first line and `i + |m| + pad`
    spaces before every other line (`blanksToo = false`: except the spaces-only lines), with `pre.length + 4` more
    gas, it returns exactly one `List` of one `ListItem` with content `b.entries`, loose iff `b` is loose and has more
    than one entry, indentation `i`, content offset `i + |m| + pad`, leader `m` — and the same state `st'`, hence the
    same link definitions. -/
theorem C04_item_wraps_general_partial (cfg : Cfg) (pre post : List BTok) (hty : cfg.types = pre ++ .list :: post)
    (hnl : .list ∉ pre) (hnp : .paragraph ∉ pre) (hnt : .table ∉ pre)
    (m : Str) (hm : ListLeader m) (i : Nat) (hi : i ≤ 3) (pad : Nat) (h1 : 1 ≤ pad) (h4 : pad ≤ 4)
    (l0 : Line) (ls : List Line) (c0 : Char) (r0 : Str) (hs : l0.s = c0 :: r0) (hc0 : pyIsSpace c0 = false)
    (hcont : ∀ l ∈ ls, spLine l.s = true ∨ ContLine l.s)
    (hlast : ∀ l, ls.getLast? = some l → spLine l.s = false)
    (htb : Scan.thematicBreak (List.replicate i ' ' ++ (m ++ List.replicate pad ' ' ++ l0.s)) = false)
    (blanksToo : Bool) (start : Nat) (st st' : St) (gas : Nat) (b : Buf)
    (hb : tokenizeBlock cfg gas (l0 :: ls.map normLine) start st = .ok (b, st')) :
    tokenizeBlock cfg (gas + (pre.length + 4))
        (markLineAt i m pad l0 :: ls.map (indentLine2 blanksToo (i + m.length + pad))) start st =
      .ok ({ entries := [.list [.mk b.entries (decide (b.entries.length > 1) && b.loose) i (i + m.length + pad) m start l0.origin]
                           start l0.origin], loose := false }, st') := by
  rw [C04_item_wraps_general_eq cfg pre post hty hnl hnp hnt m hm i hi pad h1 h4 (markLineAt i m pad l0) l0 _ (ls.map normLine)
    (firstAsAt_mark i m pad l0 c0 r0 hs hc0) htb (indentedAll2_map blanksToo _ ls hcont) (trailNl_norm_zero ls hlast) start st gas, hb]
  rfl

/-- the thematic-break hypothesis holds by itself unless the marker is the bullet '-' or '*' -/
theorem C04_htb_of_marker (m : Str) (hm : ListLeader m) (i : Nat) (hi : i ≤ 3) (rest : Str)
    (h : ∀ c m', m = c :: m' → c ≠ '-' ∧ c ≠ '*') :
    Scan.thematicBreak (List.replicate i ' ' ++ (m ++ rest)) = false := by
  obtain ⟨c, m', rfl, hc⟩ := hm.lead
  have hcc := h c m' rfl
  have hus : c ≠ '_' := by
    intro e; subst e
    have := hm.marker []
    have hd : isDigit '_' = false := by decide
    simp [listMarker, span, hd] at this
  exact leadSp_thematicBreak hc i (by omega) _ hcc.1 hus hcc.2

/-- the document text indented as one list item whose marker stands at indentation `i` -/
def indentDocAt (i : Nat) (m : Str) (pad : Nat) (blanksToo : Bool) : List Str → List Str
  | [] => []
  | s0 :: ss => (List.replicate i ' ' ++ (m ++ List.replicate pad ' ' ++ s0)) :: ss.map (indentStr2 blanksToo (i + m.length + pad))

/-- the text as the nested tokenizer gets it: spaces-only lines replaced by "\n" -/
def normDoc : List Str → List Str
  | [] => []
  | s0 :: ss => s0 :: ss.map normStr

theorem numbered_map_fn (f : Str → Str) : ∀ (k : Nat) (ss : List Str),
    numbered k (ss.map f) = (numbered k ss).map (fun l => { s := f l.s, origin := l.origin })
  | _, [] => rfl
  | k, s :: ss => by
    rw [List.map_cons, numbered_cons, numbered_cons, List.map_cons, numbered_map_fn f (k + 1) ss]

/-- checkable form of the hypotheses on the document: the first line begins with a non-whitespace character;
    every other line is spaces-only or `contLineB`; the last line is not spaces-only -/
def itemDocOk2 : List Str → Bool
  | [] => false
  | s0 :: ss => (match s0 with | c :: _ => !pyIsSpace c | [] => false)
      && ss.all (fun s => spLine s || contLineB s) && (match ss.getLast? with | some s => !spLine s | none => true)

/-- **Block phase: the document indented as one list item parses to one single-item list whose content is the
    parse B of the document with its spaces-only lines read as "\n", with B's link definitions.** -/
theorem C04_item_phase_general_partial (cfg : Cfg) (pre post : List BTok) (hty : cfg.types = pre ++ .list :: post)
    (hnl : .list ∉ pre) (hnp : .paragraph ∉ pre) (hnt : .table ∉ pre)
    (m : Str) (hm : ListLeader m) (i : Nat) (hi : i ≤ 3) (pad : Nat) (h1 : 1 ≤ pad) (h4 : pad ≤ 4)
    (s0 : Str) (ss : List Str) (hok : itemDocOk2 (s0 :: ss) = true)
    (htb : Scan.thematicBreak (List.replicate i ' ' ++ (m ++ List.replicate pad ' ' ++ s0)) = false)
    (blanksToo : Bool) (gas : Nat) (B : Buf) (st' : St) (hB : blockPhase cfg gas (normDoc (s0 :: ss)) = .ok (B, st')) :
    blockPhase cfg (gas + (pre.length + 4)) (indentDocAt i m pad blanksToo (s0 :: ss)) =
      .ok ({ entries := [.list [.mk B.entries (decide (B.entries.length > 1) && B.loose) i (i + m.length + pad) m 1 1] 1 1],
             loose := false }, st') := by
  have e : ∀ g ls, blockPhase cfg g ls = tokenizeBlock cfg g (numbered 0 ls) 1 {} := fun _ _ => rfl
  simp only [itemDocOk2, Bool.and_eq_true, List.all_eq_true, Bool.or_eq_true] at hok
  obtain ⟨⟨h0, hall⟩, hlast⟩ := hok
  cases s0 with
  | nil => simp at h0
  | cons c0 r0 =>
    simp only [Bool.not_eq_eq_eq_not, Bool.not_true] at h0
    simp only [normDoc] at hB
    rw [e, numbered_cons, numbered_map_fn] at hB
    rw [e]
    simp only [indentDocAt]
    rw [numbered_cons, numbered_map_fn]
    refine C04_item_wraps_general_partial cfg pre post hty hnl hnp hnt m hm i hi pad h1 h4 { s := c0 :: r0, origin := 0 + 1 }
      (numbered (0 + 1) ss) c0 r0 rfl h0 ?_ ?_ htb blanksToo 1 {} st' gas B hB
    · intro l hl
      rcases hall _ (C14.numbered_mem _ _ _ hl) with h | h
      · exact Or.inl h
      · exact Or.inr (contLine_of _ h)
    · intro l hl
      have : (numbered (0 + 1) ss).map (·.s) = ss := C14.numbered_s _ _
      have h2 : ss.getLast? = some l.s := by rw [← this, List.getLast?_map, hl]; rfl
      rw [h2] at hlast
      simpa using hlast

/-- the content is the document's own parse B whenever reading the spaces-only lines as "\n" does not change the
    parse (`hsame`: for a given document, by evaluation) -/
theorem C04_item_phase_general_same_partial (cfg : Cfg) (pre post : List BTok) (hty : cfg.types = pre ++ .list :: post)
    (hnl : .list ∉ pre) (hnp : .paragraph ∉ pre) (hnt : .table ∉ pre)
    (m : Str) (hm : ListLeader m) (i : Nat) (hi : i ≤ 3) (pad : Nat) (h1 : 1 ≤ pad) (h4 : pad ≤ 4)
    (s0 : Str) (ss : List Str) (hok : itemDocOk2 (s0 :: ss) = true)
    (htb : Scan.thematicBreak (List.replicate i ' ' ++ (m ++ List.replicate pad ' ' ++ s0)) = false)
    (blanksToo : Bool) (gas : Nat) (hsame : blockPhase cfg gas (normDoc (s0 :: ss)) = blockPhase cfg gas (s0 :: ss))
    (B : Buf) (st' : St) (hB : blockPhase cfg gas (s0 :: ss) = .ok (B, st')) :
    blockPhase cfg (gas + (pre.length + 4)) (indentDocAt i m pad blanksToo (s0 :: ss)) =
      .ok ({ entries := [.list [.mk B.entries (decide (B.entries.length > 1) && B.loose) i (i + m.length + pad) m 1 1] 1 1],
             loose := false }, st') :=
  C04_item_phase_general_partial cfg pre post hty hnl hnp hnt m hm i hi pad h1 h4 s0 ss hok htb blanksToo gas B st' (hsame ▸ hB)

/-- under (H2) — every blank line of the text is "\n" — the content is the document's own parse B -/
theorem C04_item_phase_general_h2_partial (cfg : Cfg) (pre post : List BTok) (hty : cfg.types = pre ++ .list :: post)
    (hnl : .list ∉ pre) (hnp : .paragraph ∉ pre) (hnt : .table ∉ pre)
    (m : Str) (hm : ListLeader m) (i : Nat) (hi : i ≤ 3) (pad : Nat) (h1 : 1 ≤ pad) (h4 : pad ≤ 4)
    (s0 : Str) (ss : List Str) (hok : itemDocOk2 (s0 :: ss) = true) (hH2 : ∀ s ∈ ss, spLine s = true → s = ['\n'])
    (htb : Scan.thematicBreak (List.replicate i ' ' ++ (m ++ List.replicate pad ' ' ++ s0)) = false)
    (blanksToo : Bool) (gas : Nat) (B : Buf) (st' : St) (hB : blockPhase cfg gas (s0 :: ss) = .ok (B, st')) :
    blockPhase cfg (gas + (pre.length + 4)) (indentDocAt i m pad blanksToo (s0 :: ss)) =
      .ok ({ entries := [.list [.mk B.entries (decide (B.entries.length > 1) && B.loose) i (i + m.length + pad) m 1 1] 1 1],
             loose := false }, st') := by
  refine C04_item_phase_general_same_partial cfg pre post hty hnl hnp hnt m hm i hi pad h1 h4 s0 ss hok htb blanksToo gas ?_ B st' hB
  have : ss.map normStr = ss := by
    conv => rhs; rw [← List.map_id ss]
    exact List.map_congr_left (fun s hs => normStr_id s (hH2 s hs))
  simp only [normDoc, this]

/-- the default token types, either `tableInterrupt` -/
theorem C04_item_phase_general_default_partial (ti : Bool) (m : Str) (hm : ListLeader m) (i : Nat) (hi : i ≤ 3)
    (pad : Nat) (h1 : 1 ≤ pad) (h4 : pad ≤ 4)
    (s0 : Str) (ss : List Str) (hok : itemDocOk2 (s0 :: ss) = true)
    (htb : Scan.thematicBreak (List.replicate i ' ' ++ (m ++ List.replicate pad ' ' ++ s0)) = false)
    (blanksToo : Bool) (gas : Nat) (B : Buf) (st' : St)
    (hB : blockPhase { types := defaultTypes, tableInterrupt := ti } gas (normDoc (s0 :: ss)) = .ok (B, st')) :
    blockPhase { types := defaultTypes, tableInterrupt := ti } (gas + 10) (indentDocAt i m pad blanksToo (s0 :: ss)) =
      .ok ({ entries := [.list [.mk B.entries (decide (B.entries.length > 1) && B.loose) i (i + m.length + pad) m 1 1] 1 1],
             loose := false }, st') :=
  C04_item_phase_general_partial { types := defaultTypes, tableInterrupt := ti }
    [.htmlBlock, .blockCode, .heading, .quote, .codeFence, .thematicBreak] [.table, .footnote, .paragraph] rfl
    (by decide) (by decide) (by decide) m hm i hi pad h1 h4 s0 ss hok htb blanksToo gas B st' hB

/-- the Markdown renderer's token types, either `tableInterrupt` -/
theorem C04_item_phase_general_markdown_partial (ti : Bool) (m : Str) (hm : ListLeader m) (i : Nat) (hi : i ≤ 3)
    (pad : Nat) (h1 : 1 ≤ pad) (h4 : pad ≤ 4)
    (s0 : Str) (ss : List Str) (hok : itemDocOk2 (s0 :: ss) = true)
    (htb : Scan.thematicBreak (List.replicate i ' ' ++ (m ++ List.replicate pad ' ' ++ s0)) = false)
    (blanksToo : Bool) (gas : Nat) (B : Buf) (st' : St)
    (hB : blockPhase { types := markdownTypes, tableInterrupt := ti } gas (normDoc (s0 :: ss)) = .ok (B, st')) :
    blockPhase { types := markdownTypes, tableInterrupt := ti } (gas + 12) (indentDocAt i m pad blanksToo (s0 :: ss)) =
      .ok ({ entries := [.list [.mk B.entries (decide (B.entries.length > 1) && B.loose) i (i + m.length + pad) m 1 1] 1 1],
             loose := false }, st') :=
  C04_item_phase_general_partial { types := markdownTypes, tableInterrupt := ti }
    [.linkRefDefBlock, .blankLine, .htmlBlock, .blockCode, .heading, .quote, .codeFence, .thematicBreak]
    [.table, .paragraph] rfl (by decide) (by decide) (by decide) m hm i hi pad h1 h4 s0 ss hok htb blanksToo gas B st' hB

/-! ### Non-vacuity -/

/-- a paragraph, indented code, a nested list with a lazy-looking second line: lines 3 and 6 begin with spaces -/
def T : List Str := [L "para\n", L "\n", L "    indented code\n", L "\n", L "- nested\n", L "  more\n"]

example : outlineOf (blockPhase dflt 30 T) =
    ([(0, "p", 1, 1), (0, "code", 3, 3), (0, "list", 5, 5), (1, "item", 5, 5), (2, "p", 5, 5)], 0) := by decide +kernel
example : textsOf (blockPhase dflt 30 T) = [[L "para\n"], [L "indented code\n"], [L "nested\n", L "more\n"]] := by decide +kernel

/-- marker "1." and two spaces, at indentation 0 -/
example : indentDocAt 0 (L "1.") 2 false T =
    [L "1.  para\n", L "\n", L "        indented code\n", L "\n", L "    - nested\n", L "      more\n"] := by decide +kernel

/-- marker "-" and one space, at indentation 2 -/
example : indentDocAt 2 (L "-") 1 false T =
    [L "  - para\n", L "\n", L "        indented code\n", L "\n", L "    - nested\n", L "      more\n"] := by decide +kernel

/-- kernel evaluation of the two indented texts: one list, one (loose) item, the entries of `T` one level down on the same lines -/
example : outlineOf (blockPhase dflt 40 (indentDocAt 0 (L "1.") 2 false T)) =
    ([(0, "list", 1, 1), (1, "item(loose)", 1, 1), (2, "p", 1, 1), (2, "code", 3, 3), (2, "list", 5, 5), (3, "item", 5, 5),
      (4, "p", 5, 5)], 0) := by decide +kernel
example : outlineOf (blockPhase dflt 40 (indentDocAt 2 (L "-") 1 false T)) =
    ([(0, "list", 1, 1), (1, "item(loose)", 1, 1), (2, "p", 1, 1), (2, "code", 3, 3), (2, "list", 5, 5), (3, "item", 5, 5),
      (4, "p", 5, 5)], 0) := by decide +kernel
example : textsOf (blockPhase dflt 40 (indentDocAt 2 (L "-") 1 false T)) =
    [[L "para\n"], [L "indented code\n"], [L "nested\n", L "more\n"]] := by decide +kernel

/-- `C04_item_phase_general_h2_partial` applies to `T` (every blank line is "\n", so the content is `T`'s own parse):
    marker "1." + 2 spaces at indentation 0 … -/
example : ∃ B st', blockPhase dflt 30 T = .ok (B, st') ∧
    blockPhase dflt 40 (indentDocAt 0 (L "1.") 2 false T) =
      .ok ({ entries := [.list [.mk B.entries (decide (B.entries.length > 1) && B.loose) 0 4 (L "1.") 1 1] 1 1], loose := false }, st') := by
  obtain ⟨⟨B, st'⟩, h⟩ := exists_of_isOk (blockPhase dflt 30 T) (by decide +kernel)
  exact ⟨B, st', h, C04_item_phase_general_h2_partial dflt [.htmlBlock, .blockCode, .heading, .quote, .codeFence, .thematicBreak]
    [.table, .footnote, .paragraph] rfl (by decide) (by decide) (by decide)
    (L "1.") (listLeader_ordered (L "1") '.' (by decide) (by decide) (by decide) (Or.inl rfl))
    0 (by omega) 2 (by omega) (by omega) _ _ (by decide +kernel) (by decide +kernel) (by decide +kernel) false 30 B st' h⟩

/-- … and marker "-" + 1 space at indentation 2 (indentation 2 and content offset 4 reported) -/
example : ∃ B st', blockPhase dflt 30 T = .ok (B, st') ∧
    blockPhase dflt 40 (indentDocAt 2 (L "-") 1 false T) =
      .ok ({ entries := [.list [.mk B.entries (decide (B.entries.length > 1) && B.loose) 2 4 (L "-") 1 1] 1 1], loose := false }, st') := by
  obtain ⟨⟨B, st'⟩, h⟩ := exists_of_isOk (blockPhase dflt 30 T) (by decide +kernel)
  exact ⟨B, st', h, C04_item_phase_general_h2_partial dflt [.htmlBlock, .blockCode, .heading, .quote, .codeFence, .thematicBreak]
    [.table, .footnote, .paragraph] rfl (by decide) (by decide) (by decide)
    (L "-") (listLeader_bullet '-' (Or.inl rfl))
    2 (by omega) 1 (by omega) (by omega) _ _ (by decide +kernel) (by decide +kernel) (by decide +kernel) false 30 B st' h⟩

/-- the same text with spaces on its blank lines (two after the paragraph, six after the indented code) -/
def T2 : List Str := [L "para\n", L "  \n", L "    indented code\n", L "      \n", L "- nested\n", L "  more\n"]

example : normDoc T2 = T := by decide +kernel

/-- `C04_item_phase_general_default_partial` applies to `T2`, the blank lines left as they are or indented too,
    under the Markdown renderer's types as well: the content is the parse of `normDoc T2` = `T` -/
example (bt : Bool) : ∃ B st', blockPhase dflt 30 (normDoc T2) = .ok (B, st') ∧
    blockPhase dflt 40 (indentDocAt 2 (L "-") 1 bt T2) =
      .ok ({ entries := [.list [.mk B.entries (decide (B.entries.length > 1) && B.loose) 2 4 (L "-") 1 1] 1 1], loose := false }, st') := by
  obtain ⟨⟨B, st'⟩, h⟩ := exists_of_isOk (blockPhase dflt 30 (normDoc T2)) (by decide +kernel)
  exact ⟨B, st', h, C04_item_phase_general_default_partial true (L "-") (listLeader_bullet '-' (Or.inl rfl))
    2 (by omega) 1 (by omega) (by omega) _ _ (by decide +kernel) (by decide +kernel) bt 30 B st' h⟩

example : ∃ B st', blockPhase mdown 30 (normDoc T2) = .ok (B, st') ∧
    blockPhase mdown 42 (indentDocAt 3 (L "7)") 4 true T2) =
      .ok ({ entries := [.list [.mk B.entries (decide (B.entries.length > 1) && B.loose) 3 9 (L "7)") 1 1] 1 1], loose := false }, st') := by
  obtain ⟨⟨B, st'⟩, h⟩ := exists_of_isOk (blockPhase mdown 30 (normDoc T2)) (by decide +kernel)
  exact ⟨B, st', h, C04_item_phase_general_markdown_partial true (L "7)")
    (listLeader_ordered (L "7") ')' (by decide) (by decide) (by decide) (Or.inr rfl))
    3 (by omega) 4 (by omega) (by omega) _ _ (by decide +kernel) (by decide +kernel) true 30 B st' h⟩

example : indentDocAt 2 (L "-") 1 true T2 =
    [L "  - para\n", L "      \n", L "        indented code\n", L "          \n", L "    - nested\n", L "      more\n"] := by decide +kernel
example : textsOf (blockPhase dflt 40 (indentDocAt 2 (L "-") 1 true T2)) =
    [[L "para\n"], [L "indented code\n"], [L "nested\n", L "more\n"]] := by decide +kernel

/-! ### Why the content is the parse of `normDoc`, and why each remaining hypothesis (model = implementation on all of them) -/

/-- `T2` itself now parses like `normDoc T2` = `T` (same texts, same outline): `BlockCode.read` hands back EVERY whitespace-only
    trailing line, so the indented code block no longer keeps the spaces-only line that follows it.  (The pinned code counted
    only "\n" lines as trailing blanks: `hsame` failed for `T2`, the implementation gave BlockCode 'indented code\n  \n' at top
    level and 'indented code\n' inside the item, and this example showed the two texts differ.  Repaired in /repo; implementation
    now: `Document(T2)` and `Document(T)` have the same AST, BlockCode 'indented code\n' in both.)  `normDoc` is still what the
    theorem needs in general: a whitespace-only line INSIDE an indented code block keeps its spaces beyond the fourth. -/
example : textsOf (blockPhase dflt 30 T2) = [[L "para\n"], [L "indented code\n"], [L "nested\n", L "more\n"]] := by decide +kernel
example : outlineOf (blockPhase dflt 30 T2) = outlineOf (blockPhase dflt 30 T) := by decide +kernel

/-- outside any code block a line of four spaces is a blank line, at top level and inside the item alike (the pinned
    `BlockCode.start` did not look at the rest of the line and started an indented code block on it at top level: repaired in
    /repo by 0b09465 - this example used to show the two parses differ) -/
def spaces4 : List Str := [L "a\n", L "    \n", L "b\n"]
example : outlineOf (blockPhase dflt 30 spaces4) = ([(0, "p", 1, 1), (0, "p", 3, 3)], 0) := by decide +kernel
example : outlineOf (blockPhase dflt 30 (normDoc spaces4)) = ([(0, "p", 1, 1), (0, "p", 3, 3)], 0) := by decide +kernel
example : outlineOf (blockPhase dflt 40 (indentDocAt 0 (L "-") 1 false spaces4)) =
    ([(0, "list", 1, 1), (1, "item(loose)", 1, 1), (2, "p", 1, 1), (2, "p", 3, 3)], 0) := by decide +kernel
example : itemDocOk2 spaces4 = true := by decide +kernel

/-- `i ≤ 3`: at indentation 4 the marker line is indented code -/
example : outlineOf (blockPhase dflt 40 (indentDocAt 4 (L "-") 1 false [L "a\n", L "b\n"])) = ([(0, "code", 1, 1)], 0) := by decide +kernel

/-- `pad ≤ 4`: five spaces after the marker leave four of them to the content (content offset 2), and the second line,
    indented by 6, keeps four spaces as well: `a / b` becomes a code block -/
example : outlineOf (blockPhase dflt 30 [L "a\n", L "b\n"]) = ([(0, "p", 1, 1)], 0) := by decide +kernel
example : outlineOf (blockPhase dflt 40 (indentDocAt 0 (L "-") 5 false [L "a\n", L "b\n"])) =
    ([(0, "list", 1, 1), (1, "item", 1, 1), (2, "code", 1, 1)], 0) := by decide +kernel

/-- `hc0`: the text begins with U+2003 (not a space, but `str.isspace`): `ListItem.pattern` takes it as padding, the content
    offset becomes 3, and `bar` behind two spaces is no longer part of the item -/
def emsp : List Str := [L "\u2003foo\n", L "\n", L "bar\n"]
example : outlineOf (blockPhase dflt 30 emsp) = ([(0, "p", 1, 1), (0, "p", 3, 3)], 0) := by decide +kernel
example : outlineOf (blockPhase dflt 40 (indentDocAt 0 (L "-") 1 false emsp)) =
    ([(0, "list", 1, 1), (1, "item", 1, 1), (2, "p", 1, 1), (0, "p", 3, 3)], 0) := by decide +kernel

/-- `htb`: the text `* *` (a list in a list) behind the marker "* " is the thematic break `* * *` -/
example : outlineOf (blockPhase dflt 30 [L "* *\n"]) =
    ([(0, "list", 1, 1), (1, "item", 1, 1), (2, "list", 1, 1), (3, "item", 1, 1)], 0) := by decide +kernel
example : outlineOf (blockPhase dflt 40 (indentDocAt 0 (L "*") 1 false [L "* *\n"])) = ([(0, "hr", 1, 1)], 0) := by decide +kernel
/-- no such coincidence for "+", "N." and "N)" -/
example (rest : Str) : Scan.thematicBreak (List.replicate 3 ' ' ++ (L "12." ++ rest)) = false :=
  C04_htb_of_marker (L "12.") (listLeader_ordered (L "12") '.' (by decide) (by decide) (by decide) (Or.inl rfl)) 3 (by omega) rest
    (by intro c m' h; cases h; decide)

end Mistletoe.Props.C04
