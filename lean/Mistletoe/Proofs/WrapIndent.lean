/-
  C04, list half, with the hypotheses weakened as far as the model allows.
-/
import Mistletoe.Props.C04
namespace Mistletoe.Block
open Mistletoe Mistletoe.Py Mistletoe.Scan

/-! ### A marker character behind up to three spaces -/

section LeadSp
variable {c : Char} (hc : LeadChar c) (i : Nat) (hi : i < 4) (r : Str)
include hc

theorem leadSp_lstrip : lstrip (List.replicate i ' ' ++ c :: r) = c :: r := lstrip_rep i c r hc.nsp

theorem leadSp_bracket : startsWith ['['] (lstrip (List.replicate i ' ' ++ c :: r)) = false := by
  simp [leadSp_lstrip hc, startsWith, isPrefix_ne _ _ _ _ hc.n_lb]

theorem leadSp_blankLine : Scan.blankLine (List.replicate i ' ' ++ c :: r) = false := by
  simp [Scan.blankLine, ws, hc.nsp]

theorem leadSp_quote : quoteStart (List.replicate i ' ' ++ c :: r) = false := by
  unfold quoteStart
  simp [lstripSp_rep i c r hc.n_sp, startsWith, isPrefix_ne _ _ _ _ hc.n_gt]

include hi

theorem leadSp_heading : Scan.heading (List.replicate i ' ' ++ c :: r) = none := by
  unfold Scan.heading; rw [upTo3_rep i c r hc.n_sp hi]; simp [span, hc.n_hash]

theorem leadSp_codeFence : codeFenceStart (List.replicate i ' ' ++ c :: r) = none := by
  unfold codeFenceStart Scan.codeFence; rw [upTo3_rep i c r hc.n_sp hi]; simp [hc.n_bt, hc.n_tilde]

theorem leadSp_blockCode : blockCodeStart (List.replicate i ' ' ++ c :: r) = false := by
  unfold blockCodeStart replaceTab1
  have hs : (' ' : Char) ≠ '\t' := by decide
  obtain rfl | rfl | rfl | rfl : i = 0 ∨ i = 1 ∨ i = 2 ∨ i = 3 := by omega
  all_goals simp [List.replicate, replaceTab_plain _ _ hc.n_tab, replaceTab_plain _ _ hs, startsWith, isPrefix_ne _ _ _ _ hc.n_sp]

theorem leadSp_html : htmlBlockStart (List.replicate i ' ' ++ c :: r) = .ok none := by
  unfold htmlBlockStart
  simp only [lstrip_rep i c r hc.nsp]
  have hlen : ¬ ((List.replicate i ' ' ++ c :: r).length - (c :: r).length ≥ 4) := by
    simp; omega
  simp only [hlen, if_false]
  have hm : multiblock (c :: r) = none := by unfold multiblock; simp [hc.n_lt]
  have hs : ∀ p : Str, startsWith ('<' :: p) (c :: r) = false := by
    intro p; simp [startsWith, isPrefix_ne _ _ _ _ hc.n_lt]
  have hr : htmlRest (c :: r) = none := by
    unfold htmlRest
    have h1 : predefined (c :: r) = none := by unfold predefined; simp [hc.n_lt]
    have h2 : customTag (c :: r) = false := by
      unfold customTag
      have a : openTag (c :: r) = none := by unfold openTag; simp [hc.n_lt]
      have b : closingTag (c :: r) = none := by unfold closingTag; simp [hc.n_lt]
      simp [a, b]
    simp [h1, h2]
  have e1 : "<!--".toList = '<' :: ['!', '-', '-'] := by decide
  have e2 : "<?".toList = '<' :: ['?'] := by decide
  have e3 : "<!".toList = '<' :: ['!'] := by decide
  simp only [hm, e1, e2, e3, hs, hr, Bool.false_eq_true, if_false]

/-- a line whose first non-space character is none of '-', '_', '*' is not a thematic break: the
    marker/thematic-break coincidence needs a bullet '-' or '*' -/
theorem leadSp_thematicBreak (h1 : c ≠ '-') (h2 : c ≠ '_') (h3 : c ≠ '*') :
    Scan.thematicBreak (List.replicate i ' ' ++ c :: r) = false := by
  unfold Scan.thematicBreak
  rw [upTo3_rep i c r hc.n_sp hi]
  simp [h1, h2, h3]

end LeadSp

/-! ### `ListItem.parse_marker` on a marker at indentation 0-3 -/

/-- the first line of the item, the marker written behind `i` ≤ 3 spaces: `ListItem.parse_marker` finds
    indentation `i`, the marker, and the content offset `i + |m| + pad` -/
theorem parseMarker_first_at (m : Str) (hm : ListLeader m) (i : Nat) (hi : i < 4) (pad : Nat) (h1 : 1 ≤ pad) (h4 : pad ≤ 4)
    (c0 : Char) (r0 : Str) (hc0 : pyIsSpace c0 = false) :
    parseMarker (List.replicate i ' ' ++ (m ++ List.replicate pad ' ' ++ c0 :: r0)) =
      some (i, i + m.length + pad, m, c0 :: r0) := by
  obtain ⟨c, m', rfl, hc⟩ := hm.lead
  have hli : Scan.listItem (List.replicate i ' ' ++ ((c :: m') ++ List.replicate pad ' ' ++ c0 :: r0)) =
      some { g1 := List.replicate i ' ', g2 := c :: m', g3 := List.replicate pad ' ', rest := c0 :: r0 } := by
    unfold Scan.listItem
    rw [List.append_assoc, List.cons_append, upTo3_rep i c _ hc.n_sp hi, ← List.cons_append]
    simp only [hm.marker]
    obtain ⟨p, rfl⟩ : ∃ p, pad = p + 1 := ⟨pad - 1, by omega⟩
    have hne : atEnd (List.replicate (p + 1) ' ' ++ c0 :: r0) = false := by
      simp [atEnd, List.replicate_succ]
    simp only [hne, Bool.false_eq_true, if_false, span_ws_rep (p + 1) c0 r0 hc0]
    simp [List.replicate_succ]
  unfold parseMarker
  rw [hli]
  have hnt : '\t' ∉ (List.replicate i ' ' ++ (c :: m') ++ List.replicate pad ' ') := by
    simp only [List.mem_append, List.mem_replicate, not_or]
    exact ⟨⟨by rintro ⟨_, e⟩; exact absurd e (by decide), hm.noTab⟩, by rintro ⟨_, e⟩; exact absurd e (by decide)⟩
  simp only [expandtabs, expandtabsAux_noTab _ 0 hnt]
  simp only [List.length_append, List.length_replicate]
  have : ¬ (i + (c :: m').length + pad - (i + (c :: m').length) > 4) := by omega
  simp only [this]
  simp

theorem listStart_first_at (m : Str) (hm : ListLeader m) (i : Nat) (hi : i < 4) (pad : Nat) (h1 : 1 ≤ pad) (rest : Str) :
    listStart (List.replicate i ' ' ++ (m ++ List.replicate pad ' ' ++ rest)) = true := by
  obtain ⟨c, m', rfl, hc⟩ := hm.lead
  unfold listStart
  rw [List.append_assoc, List.cons_append, upTo3_rep i c _ hc.n_sp hi, ← List.cons_append]
  simp only [hm.marker]
  obtain ⟨p, rfl⟩ : ∃ p, pad = p + 1 := ⟨pad - 1, by omega⟩
  simp [List.replicate_succ, span]

/-! ### Continuation lines -/

/-- a line of spaces only is a continuation line of every item, whatever its length, and is read as "\n" -/
theorem parseContinuation_spaces (k W : Nat) : parseContinuation (List.replicate k ' ' ++ ['\n']) W = some ['\n'] := by
  have h := span_sptab_rep k '\n' [] (by decide) (by decide)
  simp [parseContinuation, continuation, h]

/-- `l'` is the line of the document from which `ListItem.read` makes the line `l` of the item's content:
    a line of `k` spaces (any `k`, 0 included) gives "\n"; any other line of the content (`ContLine`: some
    spaces of its own, a non-whitespace character, the rest, the final newline) stands behind `W` spaces -/
def IndentedAs2 (W : Nat) (l' l : Line) : Prop :=
  l'.origin = l.origin ∧
    ((l.s = ['\n'] ∧ ∃ k, l'.s = List.replicate k ' ' ++ ['\n']) ∨ (ContLine l.s ∧ l'.s = List.replicate W ' ' ++ l.s))

def IndentedAll2 (W : Nat) : List Line → List Line → Prop
  | [], [] => True
  | l' :: r', l :: r => IndentedAs2 W l' l ∧ IndentedAll2 W r' r
  | _, _ => False

/-- the `while True` loop of `ListItem.read`: every line belongs to the item (`parse_continuation` succeeds on
    each, the lazy-continuation branch with its interrupt checks is never entered), no next marker is found -/
theorem itemLoop_indented2 (cfg : Cfg) (W start : Nat) : ∀ (rest' rest pre' buf : List Line) (nl fuel : Nat),
    IndentedAll2 W rest' rest → rest'.length < fuel →
    itemLoop cfg W fuel ⟨pre' ++ rest', pre'.length, start⟩ buf nl =
      .ok ((dropTrailing ⟨pre' ++ rest', pre'.length + rest'.length, start⟩ (rest.reverse ++ buf) (trailNl nl rest)).2,
           (dropTrailing ⟨pre' ++ rest', pre'.length + rest'.length, start⟩ (rest.reverse ++ buf) (trailNl nl rest)).1, none)
  | _, _, _, _, _, 0, _, hf => by simp at hf
  | [], [], pre', buf, nl, fuel + 1, _, _ => by
    simp [itemLoop, peek_end, trailNl]
  | [], _ :: _, _, _, _, _ + 1, h, _ => by simp [IndentedAll2] at h
  | _ :: _, [], _, _, _, _ + 1, h, _ => by simp [IndentedAll2] at h
  | l' :: rest', l :: rest, pre', buf, nl, fuel + 1, h, hf => by
    obtain ⟨⟨ho, hl⟩, hrest⟩ := h
    have hp := peek_at pre' l' rest' start
    have hn : (FW.next ⟨pre' ++ l' :: rest', pre'.length, start⟩) =
        ⟨(pre' ++ [l']) ++ rest', (pre' ++ [l']).length, start⟩ := by
      simp [FW.next]
    have ih := fun buf nl => itemLoop_indented2 cfg W start rest' rest (pre' ++ [l']) buf nl fuel hrest
      (by simp only [List.length_cons] at hf; omega)
    have hcont : parseContinuation l'.s W = some l.s := by
      rcases hl with ⟨h1, k, h2⟩ | ⟨h1, h2⟩
      · rw [h1, h2]; exact parseContinuation_spaces k W
      · rw [h2]; exact parseContinuation_indented W l.s h1
    have hne : l.s.isEmpty = false := by
      rcases hl with ⟨h1, _⟩ | ⟨⟨n, c, body, h1, _⟩, _⟩ <;> rw [h1] <;> simp
    have el : ({ s := l.s, origin := l'.origin } : Line) = l := by cases l; simp_all
    simp only [itemLoop, hp, hcont, hne, Bool.false_eq_true, if_false]
    rw [hn, ih, el]
    simp only [trailNl, List.reverse_cons, List.append_assoc, List.singleton_append, List.length_append,
      List.length_cons, List.length_nil]
    have e : pre'.length + (0 + 1) + rest'.length = pre'.length + (rest'.length + 1) := by omega
    rw [e]

/-- `l0'` is the first line `l0` of the content (which begins with a non-whitespace character) behind
    `i` spaces, the marker `m` and `pad` spaces -/
def FirstAsAt (i : Nat) (m : Str) (pad : Nat) (l0' l0 : Line) : Prop :=
  l0'.origin = l0.origin ∧ ∃ c0 r0, l0.s = c0 :: r0 ∧ pyIsSpace c0 = false ∧
    l0'.s = List.replicate i ' ' ++ (m ++ List.replicate pad ' ' ++ l0.s)

/-- **ListItem.read** up to the nested tokenizer: it gets the unindented lines, numbered from the line of
    the marker; indentation `i`, content offset `i + |m| + pad`, no next marker, cursor at the end -/
theorem itemLines_indented2 (cfg : Cfg) (start : Nat) (m : Str) (hm : ListLeader m) (i : Nat) (hi : i < 4)
    (pad : Nat) (h1 : 1 ≤ pad) (h4 : pad ≤ 4)
    (l0' l0 : Line) (rest' rest pre' : List Line) (hf : FirstAsAt i m pad l0' l0)
    (hrest : IndentedAll2 (i + m.length + pad) rest' rest) (hnl : trailNl 0 rest = 0) :
    itemLines cfg ⟨pre' ++ l0' :: rest', pre'.length, start⟩ none =
      .ok (.lines (l0 :: rest) (start + pre'.length) i (i + m.length + pad) m (start + pre'.length) l0.origin none
        ⟨pre' ++ l0' :: rest', pre'.length + (rest'.length + 1), start⟩) := by
  obtain ⟨ho, c0, r0, hs0, hc0, hs⟩ := hf
  have hp := peek_at pre' l0' rest' start
  have hn : (FW.next ⟨pre' ++ l0' :: rest', pre'.length, start⟩) =
      ⟨(pre' ++ [l0']) ++ rest', (pre' ++ [l0']).length, start⟩ := by
    simp [FW.next]
  have hpm : parseMarker l0'.s = some (i, i + m.length + pad, m, l0.s) := by
    rw [hs, hs0]; exact parseMarker_first_at m hm i hi pad h1 h4 c0 r0 hc0
  have hnb : isBlank l0.s = false := by rw [hs0]; simp [isBlank, hc0]
  have hloop := fun buf => itemLoop_indented2 cfg (i + m.length + pad) start rest' rest (pre' ++ [l0']) buf 0
    (FW.remaining ⟨pre' ++ l0' :: rest', pre'.length, start⟩ + 1) hrest (by simp [FW.remaining]; omega)
  have hln : (FW.lineNumber ⟨(pre' ++ [l0']) ++ rest', (pre' ++ [l0']).length, start⟩) = start + pre'.length := by
    simp [FW.lineNumber]
  have el : ({ s := l0.s, origin := l0'.origin } : Line) = l0 := by cases l0; simp_all
  unfold itemLines
  simp only [hp, hpm, hnb, Bool.false_eq_true, if_false]
  rw [hn, hloop, hnl, dropTrailing_zero, hln, el, ho]
  simp; omega

/-- what `List.read` returns for a given result of the nested `tokenize_block`: one item at indentation `i` -/
def listResultAt (i W : Nat) (m : Str) (ln og : Nat) (fw' : FW) : Res (Buf × St) → Res (List Item × FW × St)
  | .err e => .err e
  | .ok (b, st') => .ok ([.mk b.entries (decide (b.entries.length > 1) && b.loose) i W m ln og], fw', st')

theorem readList_indented2 (cfg : Cfg) (fw : FW) (st : St) (buf : List Line) (cstart i W : Nat) (m : Str) (ln og : Nat) (fw' : FW)
    (h : itemLines cfg fw none = .ok (.lines buf cstart i W m ln og none fw')) (g : Nat) :
    readList cfg (g + 1) fw st none none [] = listResultAt i W m ln og fw' (tokenizeBlock cfg g buf cstart st) := by
  simp only [readList, h]
  cases tokenizeBlock cfg g buf cstart st with
  | err e => rfl
  | ok r => obtain ⟨b, st'⟩ := r; rfl

/-- the dispatcher on a line that begins, behind at most three spaces, with a marker character: the types before
    `List` (`Paragraph` and `Table` excluded, and the line not being a thematic break) do not start -/
theorem tryTypes_leadSp (cfg : Cfg) (fw : FW) (st : St) (l' : Line) (i : Nat) (hi : i < 4) (c : Char) (r : Str)
    (hl : l'.s = List.replicate i ' ' ++ c :: r) (hc : LeadChar c)
    (htb : Scan.thematicBreak l'.s = false) (post : List BTok) (g : Nat) :
    ∀ (pre : List BTok), .list ∉ pre → .paragraph ∉ pre → .table ∉ pre →
      tryTypes cfg (g + 1 + pre.length) fw st l' (pre ++ .list :: post) = tryTypes cfg (g + 1) fw st l' (.list :: post)
  | [], _, _, _ => rfl
  | x :: pre, hnl, hnp, hnt => by
    have ih := tryTypes_leadSp cfg fw st l' i hi c r hl hc htb post g pre
      (fun h => hnl (List.mem_cons_of_mem _ h)) (fun h => hnp (List.mem_cons_of_mem _ h)) (fun h => hnt (List.mem_cons_of_mem _ h))
    have e : g + 1 + (x :: pre).length = (g + 1 + pre.length) + 1 := by simp only [List.length_cons]; omega
    rw [e, List.cons_append]
    conv => lhs; unfold tryTypes
    cases x <;> simp only
    · rw [hl, leadSp_html hc i hi]; exact ih
    · rw [hl, leadSp_blockCode hc i hi]; exact ih
    · simp only [readHeading, hl, leadSp_heading hc i hi]; exact ih
    · rw [hl, leadSp_quote hc]; exact ih
    · rw [hl, leadSp_codeFence hc i hi]; exact ih
    · rw [htb]; exact ih
    · exact absurd (List.mem_cons_self ..) hnl
    · exact absurd (List.mem_cons_self ..) hnt
    · rw [hl, leadSp_bracket hc]; exact ih
    · exact absurd (List.mem_cons_self ..) hnp
    · rw [hl, leadSp_blankLine hc]; exact ih
    · rw [hl, leadSp_bracket hc]; exact ih

/-- the outer parse for a given result of the inner one: one list, reported on the line the buffer starts on,
    of one item (indentation `i`, content offset `W`, leader `m`) holding the inner entries -/
def wrapItemAt (i W : Nat) (m : Str) (start og : Nat) : Res (Buf × St) → Res (Buf × St)
  | .err e => .err e
  | .ok (b, st') => .ok ({ entries := [.list [.mk b.entries (decide (b.entries.length > 1) && b.loose) i W m start og] start og],
                           loose := false }, st')

theorem wrapItemAt_zero (W : Nat) (m : Str) (start og : Nat) (r : Res (Buf × St)) :
    wrapItemAt 0 W m start og r = wrapItem W m start og r := by
  cases r with
  | err e => rfl
  | ok p => rfl

/-- **tokenize_block on a buffer indented as one list item** (marker at indentation `i` ≤ 3, spaces-only lines
    anywhere but at the end) is one single-item list around what `tokenize_block` gives on the content lines,
    errors included -/
theorem tokenizeBlock_indented2 (cfg : Cfg) (pre post : List BTok) (hty : cfg.types = pre ++ .list :: post)
    (hnl : .list ∉ pre) (hnp : .paragraph ∉ pre) (hnt : .table ∉ pre)
    (m : Str) (hm : ListLeader m) (i : Nat) (hi : i < 4) (pad : Nat) (h1 : 1 ≤ pad) (h4 : pad ≤ 4)
    (l0' l0 : Line) (rest' rest : List Line) (hf : FirstAsAt i m pad l0' l0) (htb : Scan.thematicBreak l0'.s = false)
    (hrest : IndentedAll2 (i + m.length + pad) rest' rest) (hlast : trailNl 0 rest = 0) (start : Nat) (st : St) (g : Nat) :
    tokenizeBlock cfg (g + (pre.length + 4)) (l0' :: rest') start st =
      wrapItemAt i (i + m.length + pad) m start l0.origin (tokenizeBlock cfg g (l0 :: rest) start st) := by
  obtain ⟨c, m', hmc, hc⟩ := hm.lead
  have hl : l0'.s = List.replicate i ' ' ++ c :: (m' ++ List.replicate pad ' ' ++ l0.s) := by
    obtain ⟨_, _, _, _, _, hs⟩ := hf
    rw [hs, hmc]; simp
  have e : g + (pre.length + 4) = ((g + 1 + 1 + pre.length) + 1) + 1 := by omega
  have hp := peek_at [] l0' rest' start
  have hil := itemLines_indented2 cfg start m hm i hi pad h1 h4 l0' l0 rest' rest [] hf hrest hlast
  have hrl := readList_indented2 cfg _ st _ _ _ _ _ _ _ _ hil g
  have hty' := tryTypes_leadSp cfg ⟨l0' :: rest', 0, start⟩ st l0' i hi c _ hl hc htb post (g + 1) pre hnl hnp hnt
  have hls : listStart l0'.s = true := by
    obtain ⟨_, _, _, _, _, hs⟩ := hf
    rw [hs]; exact listStart_first_at m hm i hi pad h1 _
  simp only [List.nil_append, List.length_nil, Nat.add_zero, Nat.zero_add] at hp hil hrl
  rw [e]
  simp only [tokenizeBlock, tokLoop, hp, hty, hty']
  simp only [tryTypes, hls, if_true, hrl]
  cases tokenizeBlock cfg g (l0 :: rest) start st with
  | err e => simp [listResultAt, wrapItemAt]
  | ok r =>
    obtain ⟨b, st'⟩ := r
    simp only [listResultAt, wrapItemAt]
    have hend := peek_end (l0' :: rest') start
    simp only [List.length_cons] at hend
    simp only [hf.1]
    have e2 : g + 1 + 1 + pre.length = (g + 1 + pre.length) + 1 := by omega
    rw [e2]
    simp [tokLoop, hend]

/-! ### The dispatcher does not tell a line of at most three spaces from "\n"

  (`Paragraph.read`, `Quote.read`, `Footnote.read` and the blank-skipping loop of `ListItem.read` test
  `line.strip() == ''` only, and `ListItem.parse_continuation` reads every spaces-only line as "\n" —
  `parseContinuation_spaces`; the readers that do tell them apart are `BlockCode.read`, `CodeFence.read`,
  `HtmlBlock.read`, which copy the line, and `BlockCode.start`, which fires on four or more spaces.) -/

theorem tryTypes_spaces (cfg : Cfg) (fw : FW) (st : St) (l l0 : Line) (k : Nat) (hk : k ≤ 3)
    (hl : l.s = List.replicate k ' ' ++ ['\n']) (h0 : l0.s = ['\n']) (ho : l0.origin = l.origin) :
    ∀ (ts : List BTok) (gas : Nat), tryTypes cfg gas fw st l ts = tryTypes cfg gas fw st l0 ts
  | _, 0 => by simp [tryTypes]
  | [], gas + 1 => by simp [tryTypes]
  | t :: ts, gas + 1 => by
    have ih := tryTypes_spaces cfg fw st l l0 k hk hl h0 ho ts gas
    have a1 : htmlBlockStart ['\n'] = .ok none := by decide
    have a2 : blockCodeStart ['\n'] = false := by decide
    have a3 : Scan.heading ['\n'] = none := by decide
    have a4 : quoteStart ['\n'] = false := by decide
    have a5 : codeFenceStart ['\n'] = none := by decide
    have a6 : Scan.thematicBreak ['\n'] = false := by decide
    have a7 : listStart ['\n'] = false := by decide
    have a8 : (['\n'] : Str).contains '|' = false := by decide
    have a9 : startsWith ['['] (lstrip ['\n']) = false := by decide
    have a10 : isBlank ['\n'] = true := by decide
    have a11 : Scan.blankLine ['\n'] = true := by decide
    have b1 : htmlBlockStart l.s = .ok none := by
      rw [hl]; obtain rfl | rfl | rfl | rfl : k = 0 ∨ k = 1 ∨ k = 2 ∨ k = 3 := by omega
      all_goals decide
    have b2 : blockCodeStart l.s = false := by
      rw [hl]; obtain rfl | rfl | rfl | rfl : k = 0 ∨ k = 1 ∨ k = 2 ∨ k = 3 := by omega
      all_goals decide
    have b3 : Scan.heading l.s = none := by
      rw [hl]; obtain rfl | rfl | rfl | rfl : k = 0 ∨ k = 1 ∨ k = 2 ∨ k = 3 := by omega
      all_goals decide
    have b4 : quoteStart l.s = false := by
      rw [hl]; obtain rfl | rfl | rfl | rfl : k = 0 ∨ k = 1 ∨ k = 2 ∨ k = 3 := by omega
      all_goals decide
    have b5 : codeFenceStart l.s = none := by
      rw [hl]; obtain rfl | rfl | rfl | rfl : k = 0 ∨ k = 1 ∨ k = 2 ∨ k = 3 := by omega
      all_goals decide
    have b6 : Scan.thematicBreak l.s = false := by
      rw [hl]; obtain rfl | rfl | rfl | rfl : k = 0 ∨ k = 1 ∨ k = 2 ∨ k = 3 := by omega
      all_goals decide
    have b7 : listStart l.s = false := by
      rw [hl]; obtain rfl | rfl | rfl | rfl : k = 0 ∨ k = 1 ∨ k = 2 ∨ k = 3 := by omega
      all_goals decide
    have b8 : l.s.contains '|' = false := by
      rw [hl]; obtain rfl | rfl | rfl | rfl : k = 0 ∨ k = 1 ∨ k = 2 ∨ k = 3 := by omega
      all_goals decide
    have b9 : startsWith ['['] (lstrip l.s) = false := by
      rw [hl]; obtain rfl | rfl | rfl | rfl : k = 0 ∨ k = 1 ∨ k = 2 ∨ k = 3 := by omega
      all_goals decide
    have b10 : isBlank l.s = true := by
      rw [hl]; obtain rfl | rfl | rfl | rfl : k = 0 ∨ k = 1 ∨ k = 2 ∨ k = 3 := by omega
      all_goals decide
    have b11 : Scan.blankLine l.s = true := by
      rw [hl]; obtain rfl | rfl | rfl | rfl : k = 0 ∨ k = 1 ∨ k = 2 ∨ k = 3 := by omega
      all_goals decide
    unfold tryTypes
    cases t <;> simp only [h0, ho, a1, a2, a3, a4, a5, a6, a7, a8, a9, a10, a11, b1, b2, b3, b4, b5, b6, b7, b8, b9, b10, b11,
      readHeading, Bool.false_eq_true, if_false, if_true, Bool.not_true] <;> exact ih

/-! ### Documents as they are indented -/

/-- the line consists of spaces and its final newline ("\n" included) -/
def spLine (s : Str) : Bool := s.drop (countLeading ' ' s) == ['\n']

theorem spLine_spec (s : Str) (h : spLine s = true) : ∃ k, s = List.replicate k ' ' ++ ['\n'] := by
  refine ⟨countLeading ' ' s, ?_⟩
  have := countLeading_split s
  simp only [spLine, beq_iff_eq] at h
  rw [h] at this
  exact this

/-- what `ListItem.read` makes of a spaces-only line -/
def normStr (s : Str) : Str := if spLine s then ['\n'] else s
def normLine (l : Line) : Line := { s := normStr l.s, origin := l.origin }

/-- a line of the content as it appears in the document: `W` spaces before it — before the spaces-only
    lines too if `blanksToo`, else these stay as they are -/
def indentStr2 (blanksToo : Bool) (W : Nat) (s : Str) : Str :=
  if spLine s && !blanksToo then s else List.replicate W ' ' ++ s
def indentLine2 (blanksToo : Bool) (W : Nat) (l : Line) : Line := { s := indentStr2 blanksToo W l.s, origin := l.origin }

/-- the first line behind `i` spaces, the marker and `pad` spaces -/
def markLineAt (i : Nat) (m : Str) (pad : Nat) (l : Line) : Line :=
  { s := List.replicate i ' ' ++ (m ++ List.replicate pad ' ' ++ l.s), origin := l.origin }

theorem contLine_not_sp (s : Str) (h : ContLine s) : spLine s = false := by
  obtain ⟨n, c, body, rfl, hc, _⟩ := h
  have hsp : c ≠ ' ' := by intro e; subst e; exact absurd hc (by decide)
  have hnl : c ≠ '\n' := by intro e; subst e; exact absurd hc (by decide)
  have e : List.replicate n ' ' ++ c :: body ++ ['\n'] = List.replicate n ' ' ++ c :: (body ++ ['\n']) := by simp
  simp only [spLine, e, countLeading_rep n c _ hsp]
  simp [hnl]

theorem indentedAll2_map (bt : Bool) (W : Nat) : ∀ (ls : List Line), (∀ l ∈ ls, spLine l.s = true ∨ ContLine l.s) →
    IndentedAll2 W (ls.map (indentLine2 bt W)) (ls.map normLine)
  | [], _ => trivial
  | l :: ls, h => by
    refine ⟨?_, indentedAll2_map bt W ls (fun x hx => h x (List.mem_cons_of_mem _ hx))⟩
    refine ⟨rfl, ?_⟩
    simp only [indentLine2, normLine, indentStr2, normStr]
    by_cases hl : spLine l.s = true
    · obtain ⟨k, hk⟩ := spLine_spec _ hl
      left
      simp only [hl, if_true, Bool.true_and, true_and]
      cases bt with
      | false => exact ⟨k, by simpa using hk⟩
      | true =>
        refine ⟨W + k, ?_⟩
        simp only [Bool.not_true, Bool.false_eq_true, if_false]
        rw [hk, ← List.append_assoc, List.replicate_append_replicate]
    · right
      rcases h l (by simp) with h' | h'
      · exact absurd h' hl
      · simp [hl, h']

theorem firstAsAt_mark (i : Nat) (m : Str) (pad : Nat) (l : Line) (c0 : Char) (r0 : Str) (hs : l.s = c0 :: r0)
    (hc0 : pyIsSpace c0 = false) : FirstAsAt i m pad (markLineAt i m pad l) l := ⟨rfl, c0, r0, hs, hc0, rfl⟩

/-- the content does not end with a spaces-only line: nothing is dropped from the item's buffer -/
theorem trailNl_norm_zero (ls : List Line) (hlast : ∀ l, ls.getLast? = some l → spLine l.s = false) :
    trailNl 0 (ls.map normLine) = 0 := by
  refine trailNl_zero _ 0 ?_ (fun _ => rfl)
  intro l hl
  rw [List.getLast?_map] at hl
  cases h : ls.getLast? with
  | none => rw [h] at hl; cases hl
  | some x =>
    rw [h] at hl
    simp only [Option.map_some, Option.some.injEq] at hl
    subst hl
    have hx := hlast x h
    simp only [normLine, normStr, hx, Bool.false_eq_true, if_false]
    intro e
    rw [e] at hx
    exact absurd hx (by decide)

theorem normStr_id (s : Str) (h : spLine s = true → s = ['\n']) : normStr s = s := by
  unfold normStr
  by_cases hs : spLine s = true
  · simp [hs, (h hs).symm]
  · simp [hs]

end Mistletoe.Block
