/-
  C01, block token constructors: every parse buffer `tokenize_block` returns is well-formed in the
  sense the constructors of block_token.py rely on (a list has an item, a table buffer has its
  delimiter row, a setext buffer has its underline, …), hence `Document.parseLines` raises nothing
  (given that the inline phase returns) and returns with `gasBound` gas.  Second part: the silent
  inner fuels of the block readers never truncate.
-/
import Mistletoe.Proofs.BlockTotal
import Mistletoe.Model.Document
namespace Mistletoe.Block
open Mistletoe Mistletoe.Py Mistletoe.Scan

/-! ## Part B.1: facts about the scanners -/

/-- Heading.pattern: `#{1,6}` -/
theorem heading_level (line : Str) (m : HeadingMatch) (h : Scan.heading line = some m) : 1 ≤ m.level ∧ m.level ≤ 6 := by
  unfold Scan.heading at h
  split at h
  · cases h
  · simp only at h
    split at h
    · cases h
    · rename_i hlen
      simp only [Bool.or_eq_true, decide_eq_true_eq, not_or, Nat.not_lt] at hlen
      split at h
      · cases h; exact ⟨by simp only; omega, by simp only; omega⟩
      · split at h
        · split at h
          · cases h; exact ⟨by simp only; omega, by simp only; omega⟩
          · cases h
        · cases h
      · cases h

theorem readHeading_level (fw : FW) (line : Str) (lvl : Nat) (c cl : Str) (fw' : FW)
    (h : readHeading fw line = some (lvl, c, cl, fw')) : 1 ≤ lvl ∧ lvl ≤ 6 := by
  unfold readHeading at h
  split at h
  · cases h
  · rename_i m hm
    cases h
    exact heading_level line m hm

theorem span_fst_head (p : Char → Bool) (s : Str) (h : (span p s).1 ≠ []) : ∃ c r, s = c :: r ∧ p c = true := by
  cases s with
  | nil => simp [span] at h
  | cons c r =>
    by_cases hc : p c = true
    · exact ⟨c, r, rfl, hc⟩
    · simp [span, hc] at h

theorem alignCol_aux (c1 r m rr : Str)
    (h : (let (d, r1) := span (· == '-') r
          if d.isEmpty then none else
          match r1 with
          | ':' :: r2 => some (c1 ++ d ++ [':'], r2)
          | _ => some (c1 ++ d, r1)) = some (m, rr)) : m ≠ [] ∧ '-' ∈ r := by
  simp only at h
  split at h
  · cases h
  · rename_i hd
    have hne : (span (fun x => x == '-') r).1 ≠ [] := by
      intro e; apply hd; simp [e]
    obtain ⟨c, r0, hr0, hc⟩ := span_fst_head _ _ hne
    simp only [beq_iff_eq] at hc
    subst hc
    have hmem : '-' ∈ r := by rw [hr0]; simp
    split at h
    · cases h
      exact ⟨by simp, hmem⟩
    · cases h
      refine ⟨?_, hmem⟩
      intro e
      simp only [List.append_eq_nil_iff] at e
      exact hne e.2

/-- `:?-+:?` matches a non-empty text that starts (after an optional ':') with '-' -/
theorem alignCol_spec (s m r : Str) (h : alignCol s = some (m, r)) : m ≠ [] ∧ '-' ∈ s := by
  unfold alignCol at h
  split at h
  rename_i c1 r0 heq
  have := alignCol_aux c1 r0 m r h
  refine ⟨this.1, ?_⟩
  split at heq
  · cases heq; exact List.mem_cons_of_mem _ this.2
  · cases heq; exact this.2

/-- every column `column_align_pattern.findall` returns is non-empty -/
theorem alignCols_ne : ∀ (fuel : Nat) (s : Str), ∀ c ∈ alignCols fuel s, c ≠ []
  | 0, _ => by simp [alignCols]
  | _ + 1, [] => by simp [alignCols]
  | fuel + 1, x :: rest => by
    simp only [alignCols]
    split
    · rename_i m r hm
      intro c hc
      rcases List.mem_cons.mp hc with rfl | hc
      · exact (alignCol_spec _ _ _ hm).1
      · exact alignCols_ne fuel r c hc
    · exact alignCols_ne fuel rest

theorem findAligns_ne (row : Str) : ∀ c ∈ findAligns row, c ≠ [] := alignCols_ne _ _

/-- a line that matches Table.delimiter_row_pattern contains a '-' -/
theorem delimiterRow_dash (line : Str) (h : delimiterRow line = true) : '-' ∈ line := by
  unfold delimiterRow at h
  simp only at h
  split at h
  · rename_i m r3 hm
    have h1 := (alignCol_spec _ _ _ hm).2
    have s1 := span_suffix ws (match (span ws line).2 with | '|' :: x => x | _ => (span ws line).2)
    have s2 : (match (span ws line).2 with | '|' :: x => x | _ => (span ws line).2) <:+ (span ws line).2 := by
      split
      · rename_i x hx; rw [hx]; exact List.suffix_cons _ _
      · exact List.suffix_refl _
    have s3 := span_suffix ws line
    exact ((s1.trans s2).trans s3).subset h1
  · cases h

/-- Table.read returns at least two lines, the second of which is the delimiter row -/
theorem readTable_shape (fw : FW) (b : List Str) (sl : Nat) (fw' : FW) (h : readTable fw = some (b, sl, fw')) :
    ∃ l0 l1 rest, b = l0 :: l1 :: rest ∧ delimiterRow l1 = true := by
  unfold readTable at h
  split at h
  · cases h
  · simp only at h
    split at h
    · rename_i x second tl heq
      split at h
      · rename_i hd
        cases h
        exact ⟨_, _, _, heq, hd⟩
      · cases h
    · cases h

theorem paragraphLoop_len (cfg : Cfg) (so : Bool) : ∀ (fuel : Nat) (fw : FW) (buf : List Str) (r),
    paragraphLoop cfg so fuel fw buf = .ok r → buf.length ≤ r.1.length ∧ (r.2.1 = true → buf.length + 1 ≤ r.1.length)
  | 0, _, _, _, h => by simp [paragraphLoop] at h
  | fuel + 1, fw, buf, r, h => by
    simp only [paragraphLoop] at h
    split at h
    · cases h; exact ⟨Nat.le_refl _, fun hh => by cases hh⟩
    · split at h
      · cases h; exact ⟨Nat.le_refl _, fun hh => by cases hh⟩
      · split at h
        · cases h
        · cases h; exact ⟨Nat.le_refl _, fun hh => by cases hh⟩
        · split at h
          · cases h; exact ⟨by simp, fun _ => by simp⟩
          · split at h
            · cases h; exact ⟨Nat.le_refl _, fun hh => by cases hh⟩
            · have := paragraphLoop_len cfg so fuel _ _ r h
              simp only [List.length_cons] at this
              exact ⟨by omega, fun hh => by have := this.2 hh; omega⟩

/-- Paragraph.read: a setext buffer holds the content line(s) and the underline -/
theorem readParagraph_setext_len (cfg : Cfg) (so : Bool) (fw : FW) (l0 : Str) (b : List Str) (fw' : FW)
    (h : readParagraph cfg so fw l0 = .ok (b, true, fw')) : 2 ≤ b.length := by
  unfold readParagraph at h
  split at h
  · cases h
  · rename_i buf st fw1 heq
    cases h
    have := (paragraphLoop_len cfg so _ _ _ _ heq).2 rfl
    simp only [List.length_cons, List.length_nil, List.length_reverse] at this ⊢
    omega

/-- what `List.__init__` needs of a leader: one character, or 1–9 digits and a delimiter
    (so `int(leader[:-1])` is defined) -/
def LeaderOk (ld : Str) : Prop :=
  ld.length = 1 ∨ (ld.dropLast ≠ [] ∧ ld.dropLast.all isDigit = true ∧ ld.dropLast.length ≤ 9)

theorem listMarker_leader (r m r1 : Str) (h : listMarker r = some (m, r1)) : LeaderOk m := by
  unfold listMarker at h
  split at h
  · cases h
  · rename_i c rst
    split at h
    · cases h; left; rfl
    · simp only at h
      split at h
      · cases h
      · rename_i hlen
        simp only [Bool.or_eq_true, decide_eq_true_eq, not_or, Nat.not_lt] at hlen
        split at h
        · split at h
          · cases h
            right
            rw [List.dropLast_concat]
            refine ⟨?_, ?_, hlen.2⟩
            · intro e; rw [e] at hlen; simp at hlen
            · rw [List.all_eq_true]; exact span_all isDigit (c :: rst)
          · cases h
        · cases h

theorem listItem_leader (line : Str) (im : ItemMatch) (h : Scan.listItem line = some im) : LeaderOk im.g2 := by
  unfold Scan.listItem at h
  split at h
  · cases h
  · split at h
    · cases h
    · rename_i mk r1 hm
      have := listMarker_leader _ mk r1 hm
      split at h
      · cases h; exact this
      · simp only at h
        split at h
        · cases h
        · cases h; exact this

theorem parseMarker_leader (line : Str) (m) (h : parseMarker line = some m) : LeaderOk m.2.2.1 := by
  unfold parseMarker at h
  split at h
  · cases h
  · rename_i im hi
    have := listItem_leader line im hi
    simp only at h
    split at h <;> (cases h; exact this)

def ItemLines.leader : ItemLines → Str
  | .empty _ _ l _ _ _ _ => l
  | .lines _ _ _ _ l _ _ _ _ => l

theorem itemLines_leader (cfg : Cfg) (fw : FW) (prev) (il : ItemLines) (h : itemLines cfg fw prev = .ok il)
    (hprev : ∀ m, prev = some m → LeaderOk m.2.2.1) : LeaderOk il.leader := by
  unfold itemLines at h
  split at h
  · cases h
  · rename_i l0 hp
    simp only at h
    split at h
    · cases h
    · rename_i ind pre0 ld content hmk
      have hld : LeaderOk ld := by
        cases prev with
        | some m => simp only [Option.some.injEq] at hmk; subst hmk; exact hprev _ rfl
        | none => exact parseMarker_leader l0.s _ hmk
      split at h
      · split at h
        · cases h; exact hld
        · split at h
          · cases h
          · cases h; exact hld
      · split at h
        · cases h
        · cases h; exact hld

/-! ## Part B.2: every parse buffer is well-formed -/

mutual
/-- what the block token constructors rely on, at every nesting depth -/
def EntryWF : Entry → Prop
  | .blockCode _ _ _ => True
  | .heading lvl _ _ _ _ => 1 ≤ lvl ∧ lvl ≤ 6
  | .quote inner _ _ _ => EntriesWF inner
  | .codeFence _ _ _ _ _ _ _ => True
  | .thematicBreak _ _ _ => True
  | .list items _ _ => items ≠ [] ∧ ItemsWF items
  | .table lines _ _ _ => ∃ l0 l1 rest, lines = l0 :: l1 :: rest ∧ delimiterRow l1 = true ∧ l1.contains '-' = true
  | .footnote ms _ _ => ms ≠ []
  | .linkRefDefs ms _ _ => ms ≠ []
  | .paragraph lines _ _ => lines ≠ []
  | .setext lines _ _ => 2 ≤ lines.length
  | .htmlBlock _ _ _ => True
  | .blankLine _ _ => True
def EntriesWF : List Entry → Prop
  | [] => True
  | e :: es => EntryWF e ∧ EntriesWF es
def ItemWF : Item → Prop
  | .mk inner _ _ _ leader _ _ => LeaderOk leader ∧ EntriesWF inner
def ItemsWF : List Item → Prop
  | [] => True
  | i :: is => ItemWF i ∧ ItemsWF is
end

theorem entriesWF_append : ∀ (a b : List Entry), EntriesWF a → EntriesWF b → EntriesWF (a ++ b)
  | [], _, _, hb => by simpa using hb
  | x :: xs, b, ha, hb => by
    simp only [List.cons_append, EntriesWF] at ha ⊢
    exact ⟨ha.1, entriesWF_append xs b ha.2 hb⟩

theorem entriesWF_reverse : ∀ (a : List Entry), EntriesWF a → EntriesWF a.reverse
  | [], _ => by simp [EntriesWF]
  | x :: xs, h => by
    simp only [EntriesWF] at h
    rw [List.reverse_cons]
    exact entriesWF_append _ _ (entriesWF_reverse xs h.2) (by simp [EntriesWF, h.1])

theorem itemsWF_append : ∀ (a b : List Item), ItemsWF a → ItemsWF b → ItemsWF (a ++ b)
  | [], _, _, hb => by simpa using hb
  | x :: xs, b, ha, hb => by
    simp only [List.cons_append, ItemsWF] at ha ⊢
    exact ⟨ha.1, itemsWF_append xs b ha.2 hb⟩

theorem itemsWF_reverse : ∀ (a : List Item), ItemsWF a → ItemsWF a.reverse
  | [], _ => by simp [ItemsWF]
  | x :: xs, h => by
    simp only [ItemsWF] at h
    rw [List.reverse_cons]
    exact itemsWF_append _ _ (itemsWF_reverse xs h.2) (by simp [ItemsWF, h.1])

def TokWF (cfg : Cfg) (gas : Nat) : Prop :=
  ∀ (lines : List Line) (start : Nat) (st : St) (b : Buf) (st' : St),
    tokenizeBlock cfg gas lines start st = .ok (b, st') → AllNlEnd lines → EntriesWF b.entries

def LoopWF (cfg : Cfg) (gas : Nat) : Prop :=
  ∀ (fw : FW) (st : St) (acc : List Entry) (loose : Bool) (b) (st'),
    tokLoop cfg gas fw st acc loose = .ok (b, st') → AllNlEnd fw.lines → EntriesWF acc → EntriesWF b.entries

def TryWF (cfg : Cfg) (gas : Nat) : Prop :=
  ∀ (fw : FW) (st : St) (l : Line) (ts : List BTok) (e : Entry) (fw' : FW) (st' : St),
    tryTypes cfg gas fw st l ts = .ok (some (e, fw', st')) → AllNlEnd fw.lines → fw.peek = some l → EntryWF e

def ListWF (cfg : Cfg) (gas : Nat) : Prop :=
  ∀ (fw : FW) (st : St) (ld) (nm) (acc : List Item) (r),
    readList cfg gas fw st ld nm acc = .ok r → AllNlEnd fw.lines →
    (∀ m, nm = some m → ∃ l, fw.peek = some l ∧ parseMarker l.s = some m) →
    ItemsWF acc → (ld ≠ none → acc ≠ []) → r.1 ≠ [] ∧ ItemsWF r.1

theorem list_wf (cfg : Cfg) (gas : Nat) (hT : TokWF cfg gas) (hL : ListWF cfg gas) : ListWF cfg (gas + 1) := by
  intro fw st ld nm acc r h hl hmk hacc hld
  have hmk' : ∀ m, nm = some m → MarkerOk m := by
    intro m hm
    obtain ⟨l, hl1, hl2⟩ := hmk m hm
    exact parseMarker_ok l.s m (hl l (peek_mem fw l hl1)) hl2
  have hmkl : ∀ m, nm = some m → LeaderOk m.2.2.1 := by
    intro m hm
    obtain ⟨l, _, hl2⟩ := hmk m hm
    exact parseMarker_leader l.s m hl2
  have hstop : ∀ (items : List Item) (fwEnd : FW) (stEnd : St) (rr : List Item × FW × St), ItemsWF items → items ≠ [] →
      (Res.ok ((match items with
        | .mk inner loose i p l n g :: rest => Item.mk inner (decide (inner.length > 1) && loose) i p l n g :: rest
        | [] => []).reverse, fwEnd, stEnd) : Res _) = .ok rr → rr.1 ≠ [] ∧ ItemsWF rr.1 := by
    intro items fwEnd stEnd rr hi hne he
    cases he
    cases items with
    | nil => exact absurd rfl hne
    | cons x xs =>
      cases x
      simp only [ItemsWF, ItemWF] at hi
      refine ⟨by simp, itemsWF_reverse _ ?_⟩
      simp only [ItemsWF, ItemWF]
      exact hi
  simp only [readList] at h
  split at h
  · rename_i hom
    obtain ⟨d, m, hd, _, _⟩ := otherMarkerType_some hom
    exact hstop acc _ _ r hacc (hld (by rw [hd]; simp)) h
  split at h
  · cases h
  · rename_i il hil
    have hio := itemLines_fwd cfg fw nm il hil
    have hnl := itemLines_nl cfg fw nm il hil hl hmk'
    have hnp := itemLines_next_marker cfg fw nm il hil
    have hlead := itemLines_leader cfg fw nm il hil hmkl
    have hl' : AllNlEnd il.fw.lines := by rw [hio.1.1]; exact hl
    have key : ∀ (item : Item) (itemLeader : Str) (next : Option (Nat × Nat × Str × Str)) (fw' : FW) (st' : St),
        (match il with
          | .empty ind pre ldr ln og next fw' => (Res.ok (Item.mk [] true ind pre ldr ln og, ldr, next, fw', st) : Res _)
          | .lines buf cstart ind pre ldr ln og next fw' =>
            match tokenizeBlock cfg gas buf cstart st with
            | .err e => .err e
            | .ok (b, st') => .ok (Item.mk b.entries b.loose ind pre ldr ln og, ldr, next, fw', st'))
          = .ok (item, itemLeader, next, fw', st') → fw' = il.fw ∧ next = il.next ∧ ItemWF item := by
      intro item itemLeader next fw' st' he
      cases il with
      | empty ind pre ldr ln og nx fwx =>
        simp only at he; cases he
        exact ⟨rfl, rfl, hlead, trivial⟩
      | lines buf cstart ind pre ldr ln og nx fwx =>
        simp only at he hnl
        split at he
        · cases he
        · rename_i b stb hb
          cases he
          exact ⟨rfl, rfl, hlead, hT _ _ _ _ _ hb hnl.1⟩
    split at h
    · cases h
    · rename_i item itemLeader next fw' st' hres
      obtain ⟨hk, hk2, hkw⟩ := key item itemLeader next fw' st' hres
      subst hk; subst hk2
      have hacc' : ItemsWF (item :: acc) := ⟨hkw, hacc⟩
      split at h
      · split at h
        · exact hstop _ _ _ r hacc' (by simp) h
        · exact hL il.fw st' _ _ _ r h hl' hnp hacc' (fun _ => by simp)
      · split at h
        · exact hstop _ _ _ r hacc' (by simp) h
        · exact hL il.fw st' _ _ _ r h hl' hnp hacc' (fun _ => by simp)

theorem contains_of_mem (s : Str) (c : Char) (h : c ∈ s) : s.contains c = true := by
  simpa using h

theorem try_wf (cfg : Cfg) (gas : Nat) (hT : TokWF cfg gas) (hL : ListWF cfg gas) (hY : TryWF cfg gas) : TryWF cfg (gas + 1) := by
  intro fw st l ts e fw' st' h hl hp
  cases ts with
  | nil => simp [tryTypes] at h
  | cons t ts =>
    have ih := fun fw2 st2 (h2 : tryTypes cfg gas fw2 st2 l ts = .ok (some (e, fw', st'))) (hl2 : AllNlEnd fw2.lines) hp2 =>
      hY fw2 st2 l ts e fw' st' h2 hl2 hp2
    unfold tryTypes at h
    cases t <;> simp only at h
    · -- htmlBlock
      split at h
      · cases h
      · exact ih fw st h hl hp
      · cases h; trivial
    · -- blockCode
      split at h
      · cases h; trivial
      · exact ih fw st h hl hp
    · -- heading
      split at h
      · rename_i lvl c cl fwh hh
        cases h; exact readHeading_level fw l.s _ _ _ _ hh
      · exact ih fw st h hl hp
    · -- quote
      split at h
      · split at h
        · cases h
        · rename_i qls qstart fwq hq
          split at h
          · cases h
          · rename_i b stb hb
            cases h
            exact hT _ _ _ _ _ hb (quoteLines_nl cfg fw l _ hq hl hp)
      · exact ih fw st h hl hp
    · -- codeFence
      split at h
      · cases h; trivial
      · exact ih fw st h hl hp
    · -- thematicBreak
      split at h
      · cases h; trivial
      · exact ih fw st h hl hp
    · -- list
      split at h
      · split at h
        · cases h
        · rename_i items fwl stl hrl
          cases h
          exact hL fw st none none [] _ hrl hl (fun m hm => by cases hm) trivial (fun hh => absurd rfl hh)
      · exact ih fw st h hl hp
    · -- table
      split at h
      · split at h
        · rename_i b sl fwt ht
          cases h
          obtain ⟨l0, l1, rest, hb, hd⟩ := readTable_shape fw _ _ _ ht
          exact ⟨l0, l1, rest, hb, hd, contains_of_mem _ _ (delimiterRow_dash l1 hd)⟩
        · exact ih fw st h hl hp
      · exact ih fw st h hl hp
    · -- footnote
      split at h
      · rename_i hsw
        have hnb := startsWith_lstrip_nb _ hsw
        split at h
        · cases h
        · rename_i ms fwf hf
          have hsf := readFootnote_same fw ms fwf hf
          split at h
          · rename_i hms
            exact ih fwf _ h (by rw [hsf.1]; exact hl) (footnote_restores fw ms fwf l hf hms hl hp hnb)
          · rename_i hms
            cases h
            show ms ≠ []
            intro e0; rw [e0] at hms; simp at hms
      · exact ih fw st h hl hp
    · -- paragraph
      split at h
      · split at h
        · cases h
        · rename_i b fwp hpp
          cases h; exact readParagraph_setext_len cfg _ fw l.s b _ hpp
        · rename_i b fwp hpp
          cases h
          show b ≠ []
          unfold readParagraph at hpp
          split at hpp
          · cases hpp
          · rename_i buf stx fw1 heq
            cases hpp
            have := (paragraphLoop_len cfg _ _ _ _ _ heq).1
            intro e0
            simp only [List.reverse_eq_nil_iff] at e0
            rw [e0] at this; simp at this
      · exact ih fw st h hl hp
    · -- blankLine
      split at h
      · cases h; trivial
      · exact ih fw st h hl hp
    · -- linkRefDefBlock
      split at h
      · rename_i hsw
        have hnb := startsWith_lstrip_nb _ hsw
        split at h
        · cases h
        · rename_i ms fwf hf
          have hsf := readFootnote_same fw ms fwf hf
          split at h
          · rename_i hms
            exact ih fwf _ h (by rw [hsf.1]; exact hl) (footnote_restores fw ms fwf l hf hms hl hp hnb)
          · rename_i hms
            cases h
            show ms ≠ []
            intro e0; rw [e0] at hms; simp at hms
      · exact ih fw st h hl hp

theorem loop_wf (cfg : Cfg) (gas : Nat) (hY : TryWF cfg gas) (hP : LoopWF cfg gas) : LoopWF cfg (gas + 1) := by
  intro fw st acc loose b st' h hl hacc
  simp only [tokLoop] at h
  split at h
  · cases h; exact entriesWF_reverse acc hacc
  · rename_i l hp
    split at h
    · cases h
    · rename_i e fw2 st2 ht
      have hw := hY fw st l cfg.types e fw2 st2 ht hl hp
      have hs := (tryTypes_fwd cfg gas fw l cfg.types fw st e fw2 st2 hl ht (Same.refl fw) rfl hp).1
      exact hP fw2 st2 _ loose b st' h (by rw [hs.1]; exact hl) ⟨hw, hacc⟩
    · exact hP fw.next st acc true b st' h hl hacc

theorem tok_wf (cfg : Cfg) (gas : Nat) (hP : LoopWF cfg gas) : TokWF cfg (gas + 1) := by
  intro lines start st b st' h hl
  simp only [tokenizeBlock] at h
  exact hP _ _ _ _ _ _ h hl trivial

theorem all_wf (cfg : Cfg) : ∀ (gas : Nat), TokWF cfg gas ∧ LoopWF cfg gas ∧ TryWF cfg gas ∧ ListWF cfg gas
  | 0 => by
    refine ⟨?_, ?_, ?_, ?_⟩
    · intro lines start st b st' h; simp [tokenizeBlock] at h
    · intro fw st acc loose b st' h; simp [tokLoop] at h
    · intro fw st l ts e fw' st' h; simp [tryTypes] at h
    · intro fw st ld nm acc r h; simp [readList] at h
  | gas + 1 => by
    obtain ⟨hT, hP, hY, hL⟩ := all_wf cfg gas
    exact ⟨tok_wf cfg gas hP, loop_wf cfg gas hY hP, try_wf cfg gas hT hL hY, list_wf cfg gas hT hL⟩

/-- **every parse buffer `tokenize_block` returns is well-formed**, at every nesting depth -/
theorem tokenizeBlock_wf (cfg : Cfg) (gas : Nat) (lines : List Line) (start : Nat) (st : St) (b : Buf) (st' : St)
    (h : tokenizeBlock cfg gas lines start st = .ok (b, st')) (hl : AllNlEnd lines) : EntriesWF b.entries :=
  (all_wf cfg gas).1 lines start st b st' h hl

theorem blockPhase_wf (cfg : Cfg) (gas : Nat) (lines : List Str) (b : Buf) (st : St)
    (hl : ∀ s ∈ lines, NlEnd s) (h : blockPhase cfg gas lines = .ok (b, st)) : EntriesWF b.entries :=
  tokenizeBlock_wf cfg gas _ 1 {} b st h (allNlEnd_zipIdx lines hl)

/-! ### The range facts, for every entry at any depth (for C12) -/

mutual
/-- the entry and every entry nested in it -/
def subEntries : Entry → List Entry
  | .blockCode a b c => [.blockCode a b c]
  | .heading a b c d e => [.heading a b c d e]
  | .quote inner a b c => .quote inner a b c :: subEntriesL inner
  | .codeFence a b c d e f g => [.codeFence a b c d e f g]
  | .thematicBreak a b c => [.thematicBreak a b c]
  | .list items a b => .list items a b :: subEntriesI items
  | .table a b c d => [.table a b c d]
  | .footnote a b c => [.footnote a b c]
  | .linkRefDefs a b c => [.linkRefDefs a b c]
  | .paragraph a b c => [.paragraph a b c]
  | .setext a b c => [.setext a b c]
  | .htmlBlock a b c => [.htmlBlock a b c]
  | .blankLine a b => [.blankLine a b]
def subEntriesL : List Entry → List Entry
  | [] => []
  | e :: es => subEntries e ++ subEntriesL es
def subEntriesI : List Item → List Entry
  | [] => []
  | .mk inner _ _ _ _ _ _ :: is => subEntriesL inner ++ subEntriesI is
end

mutual
theorem subEntries_wf : ∀ (e : Entry), EntryWF e → ∀ x ∈ subEntries e, EntryWF x
  | .blockCode a b c, h, x, hx => by simp only [subEntries, List.mem_singleton] at hx; subst hx; exact h
  | .heading a b c d e, h, x, hx => by simp only [subEntries, List.mem_singleton] at hx; subst hx; exact h
  | .quote inner a b c, h, x, hx => by
    simp only [subEntries, List.mem_cons] at hx
    rcases hx with rfl | hx
    · exact h
    · exact subEntriesL_wf inner (by simpa [EntryWF] using h) x hx
  | .codeFence a b c d e f g, h, x, hx => by simp only [subEntries, List.mem_singleton] at hx; subst hx; exact h
  | .thematicBreak a b c, h, x, hx => by simp only [subEntries, List.mem_singleton] at hx; subst hx; exact h
  | .list items a b, h, x, hx => by
    simp only [subEntries, List.mem_cons] at hx
    rcases hx with rfl | hx
    · exact h
    · exact subEntriesI_wf items (by simp only [EntryWF] at h; exact h.2) x hx
  | .table a b c d, h, x, hx => by simp only [subEntries, List.mem_singleton] at hx; subst hx; exact h
  | .footnote a b c, h, x, hx => by simp only [subEntries, List.mem_singleton] at hx; subst hx; exact h
  | .linkRefDefs a b c, h, x, hx => by simp only [subEntries, List.mem_singleton] at hx; subst hx; exact h
  | .paragraph a b c, h, x, hx => by simp only [subEntries, List.mem_singleton] at hx; subst hx; exact h
  | .setext a b c, h, x, hx => by simp only [subEntries, List.mem_singleton] at hx; subst hx; exact h
  | .htmlBlock a b c, h, x, hx => by simp only [subEntries, List.mem_singleton] at hx; subst hx; exact h
  | .blankLine a b, h, x, hx => by simp only [subEntries, List.mem_singleton] at hx; subst hx; exact h
theorem subEntriesL_wf : ∀ (es : List Entry), EntriesWF es → ∀ x ∈ subEntriesL es, EntryWF x
  | [], _, x, hx => by simp [subEntriesL] at hx
  | e :: es, h, x, hx => by
    simp only [subEntriesL, List.mem_append] at hx
    simp only [EntriesWF] at h
    rcases hx with hx | hx
    · exact subEntries_wf e h.1 x hx
    · exact subEntriesL_wf es h.2 x hx
theorem subEntriesI_wf : ∀ (is : List Item), ItemsWF is → ∀ x ∈ subEntriesI is, EntryWF x
  | [], _, x, hx => by simp [subEntriesI] at hx
  | .mk inner a b c d e f :: is, h, x, hx => by
    simp only [subEntriesI, List.mem_append] at hx
    simp only [ItemsWF, ItemWF] at h
    rcases hx with hx | hx
    · exact subEntriesL_wf inner h.1.2 x hx
    · exact subEntriesI_wf is h.2 x hx
end

/-- **every heading the block phase produces, at any depth, has a level in 1..6** -/
theorem blockPhase_heading_level (cfg : Cfg) (gas : Nat) (lines : List Str) (b : Buf) (st : St)
    (hl : ∀ s ∈ lines, NlEnd s) (h : blockPhase cfg gas lines = .ok (b, st))
    (lvl : Nat) (c cl : Str) (ln og : Nat) (hm : Entry.heading lvl c cl ln og ∈ subEntriesL b.entries) : 1 ≤ lvl ∧ lvl ≤ 6 := by
  have := subEntriesL_wf _ (blockPhase_wf cfg gas lines b st hl h) _ hm
  simpa [EntryWF] using this

/-- **every list the block phase produces, at any depth, has at least one item**, and the leader of
    every item is a bullet or 1–9 digits followed by a delimiter -/
theorem blockPhase_list_nonempty (cfg : Cfg) (gas : Nat) (lines : List Str) (b : Buf) (st : St)
    (hl : ∀ s ∈ lines, NlEnd s) (h : blockPhase cfg gas lines = .ok (b, st))
    (items : List Item) (ln og : Nat) (hm : Entry.list items ln og ∈ subEntriesL b.entries) : 1 ≤ items.length ∧ ItemsWF items := by
  have := subEntriesL_wf _ (blockPhase_wf cfg gas lines b st hl h) _ hm
  simp only [EntryWF] at this
  refine ⟨?_, this.2⟩
  cases items with
  | nil => exact absurd rfl this.1
  | cons x xs => simp

end Mistletoe.Block

namespace Mistletoe.Document
open Mistletoe Mistletoe.Py Mistletoe.Scan Mistletoe.Block Mistletoe.Inline

/-! ## Part B.3: the block token constructors never raise on a well-formed buffer -/

/-- the hypothesis on the inline phase: `tokenize_inner` returns (discharged elsewhere) -/
def InlineTotal (cfg : Cfg) : Prop := ∀ (fn : Footnotes.Table) (s : Str), ∃ ks, tokenizeInner cfg.span fn s = .ok ks

theorem inl_noerr (cfg : Cfg) (fn : Footnotes.Table) (hinl : InlineTotal cfg) (s : Str) (e : Err) :
    tokenizeInner cfg.span fn s ≠ .err e := by
  obtain ⟨ks, hks⟩ := hinl fn s
  rw [hks]; intro h; cases h

theorem tableRow_go_ok (cfg : Cfg) (fn : Footnotes.Table) (hinl : InlineTotal cfg) (ln : Nat) :
    ∀ (zs : List (Option Str × Option Nat)), ∃ cs, tableRow.go cfg fn ln zs = .ok cs
  | [] => ⟨[], rfl⟩
  | (c, a) :: rest => by
    simp only [tableRow.go, inl]
    obtain ⟨more, hmore⟩ := tableRow_go_ok cfg fn hinl ln rest
    split
    · rename_i e heq; exact absurd heq (inl_noerr cfg fn hinl _ e)
    · rw [hmore]; exact ⟨_, rfl⟩

theorem tableRow_ok (cfg : Cfg) (fn : Footnotes.Table) (hinl : InlineTotal cfg) (line : Str) (al : List (Option Nat)) (ln : Nat) :
    ∃ r, tableRow cfg fn line al ln = .ok r := by
  unfold tableRow
  simp only
  obtain ⟨cs, hcs⟩ := tableRow_go_ok cfg fn hinl ln
    (zipLongest ((splitPipes (strip line) none []).filter (fun c => !c.isEmpty)) (if al.isEmpty then [none] else al))
  rw [hcs]
  exact ⟨_, rfl⟩

theorem tableRows_ok (cfg : Cfg) (fn : Footnotes.Table) (hinl : InlineTotal cfg) :
    ∀ (ls : List Str) (al : List (Option Nat)) (ln : Nat), ∃ rs, tableRows cfg fn ls al ln = .ok rs
  | [], _, _ => ⟨[], rfl⟩
  | l :: rest, al, ln => by
    simp only [tableRows]
    obtain ⟨r, hr⟩ := tableRow_ok cfg fn hinl l al ln
    obtain ⟨more, hmore⟩ := tableRows_ok cfg fn hinl rest al (ln + 1)
    rw [hr, hmore]
    exact ⟨_, rfl⟩

theorem parseAlign_ok (col : Str) (h : col ≠ []) : ∃ a, parseAlign col = .ok a := by
  unfold parseAlign
  cases col with
  | nil => exact absurd rfl h
  | cons c r =>
    have : (c :: r).getLast? = some ((c :: r).getLast (by simp)) := List.getLast?_eq_some_getLast (by simp)
    rw [this]
    exact ⟨_, rfl⟩

theorem mapRes_parseAlign_ok : ∀ (cols : List Str), (∀ c ∈ cols, c ≠ []) → ∃ al, mapRes parseAlign cols = .ok al
  | [], _ => ⟨[], rfl⟩
  | c :: cs, h => by
    simp only [mapRes]
    obtain ⟨a, ha⟩ := parseAlign_ok c (h c (by simp))
    obtain ⟨as, has⟩ := mapRes_parseAlign_ok cs (fun x hx => h x (List.mem_cons_of_mem _ hx))
    rw [ha, has]
    exact ⟨_, rfl⟩

mutual
theorem mkBlock_ok (cfg : Cfg) (fn : Footnotes.Table) (hinl : InlineTotal cfg) :
    ∀ (e : Entry), EntryWF e → ∃ b, mkBlock cfg fn e = .ok b
  | .blockCode ls ln og, _ => by simp only [mkBlock]; exact ⟨_, rfl⟩
  | .heading lvl content closing ln og, _ => by
    obtain ⟨ks, hks⟩ := hinl fn content
    simp only [mkBlock, inl, hks]; exact ⟨_, rfl⟩
  | .quote inner lo ln og, h => by
    obtain ⟨ks, hks⟩ := mkBlocks_ok cfg fn hinl inner (by simpa [EntryWF] using h)
    simp only [mkBlock, hks]; exact ⟨_, rfl⟩
  | .codeFence ls p ld info lang ln og, _ => by simp only [mkBlock]; exact ⟨_, rfl⟩
  | .thematicBreak line ln og, _ => by simp only [mkBlock]; exact ⟨_, rfl⟩
  | .list items ln og, h => by
    simp only [EntryWF] at h
    obtain ⟨its, hits⟩ := mkItems_ok cfg fn hinl items h.2
    simp only [mkBlock, hits]
    cases items with
    | nil => exact absurd rfl h.1
    | cons x xs => cases x; exact ⟨_, rfl⟩
  | .table lines sl ln og, h => by
    simp only [EntryWF] at h
    obtain ⟨l0, l1, rest, hlines, _, hdash⟩ := h
    subst hlines
    simp only [mkBlock, hdash, if_true]
    obtain ⟨al, hal⟩ := mapRes_parseAlign_ok (findAligns l1) (findAligns_ne l1)
    obtain ⟨hd, hhd⟩ := tableRow_ok cfg fn hinl l0 al sl
    obtain ⟨rs, hrs⟩ := tableRows_ok cfg fn hinl rest al (sl + 2)
    rw [hal]; simp only; rw [hhd]; simp only; rw [hrs]
    exact ⟨_, rfl⟩
  | .footnote ms ln og, _ => by simp only [mkBlock]; exact ⟨_, rfl⟩
  | .linkRefDefs ms ln og, _ => by simp only [mkBlock]; exact ⟨_, rfl⟩
  | .paragraph lines ln og, _ => by
    obtain ⟨ks, hks⟩ := hinl fn (strip (lines.map lstrip).flatten)
    simp only [mkBlock, inl, hks]; exact ⟨_, rfl⟩
  | .setext lines ln og, h => by
    simp only [EntryWF] at h
    have hne : lines ≠ [] := by intro e; rw [e] at h; simp at h
    obtain ⟨ks, hks⟩ := hinl fn (joinNl (lines.dropLast.map strip))
    simp only [mkBlock, List.getLast?_eq_some_getLast hne, inl, hks]; exact ⟨_, rfl⟩
  | .htmlBlock lines ln og, _ => by simp only [mkBlock]; exact ⟨_, rfl⟩
  | .blankLine ln og, _ => by simp only [mkBlock]; exact ⟨_, rfl⟩
theorem mkBlocks_ok (cfg : Cfg) (fn : Footnotes.Table) (hinl : InlineTotal cfg) :
    ∀ (es : List Entry), EntriesWF es → ∃ bs, mkBlocks cfg fn es = .ok bs
  | [], _ => by simp only [mkBlocks]; exact ⟨_, rfl⟩
  | e :: es, h => by
    simp only [EntriesWF] at h
    obtain ⟨b, hb⟩ := mkBlock_ok cfg fn hinl e h.1
    obtain ⟨bs, hbs⟩ := mkBlocks_ok cfg fn hinl es h.2
    simp only [mkBlocks, hb, hbs]; exact ⟨_, rfl⟩
theorem mkItems_ok (cfg : Cfg) (fn : Footnotes.Table) (hinl : InlineTotal cfg) :
    ∀ (is : List Item), ItemsWF is → ∃ bs, mkItems cfg fn is = .ok bs
  | [], _ => by simp only [mkItems]; exact ⟨_, rfl⟩
  | .mk inner lo ind pre ld ln og :: rest, h => by
    simp only [ItemsWF, ItemWF] at h
    obtain ⟨ks, hks⟩ := mkBlocks_ok cfg fn hinl inner h.1.2
    obtain ⟨more, hmore⟩ := mkItems_ok cfg fn hinl rest h.2
    simp only [mkItems, hks, hmore]; exact ⟨_, rfl⟩
end

/-- **`Document(lines)` never raises**: given that the inline phase returns, the only error
    `parseLines` can report is the block phase running out of gas -/
theorem parseLines_no_raise (cfg : Cfg) (gas : Nat) (lines : List Str) (hl : ∀ s ∈ lines, NlEnd s)
    (hinl : ∀ fn s, ∃ ks, tokenizeInner cfg.span fn s = .ok ks) (e : Err)
    (h : parseLines cfg gas lines = .err e) : e = .fuel := by
  unfold parseLines at h
  split at h
  · rename_i e' he
    cases h
    exact blockPhase_no_raise cfg.block gas lines _ hl he
  · rename_i buf st hb
    simp only at h
    split at h
    · rename_i e' he
      obtain ⟨bs, hbs⟩ := mkBlocks_ok cfg (footnotesOf st.defs) hinl buf.entries (blockPhase_wf cfg.block gas lines buf st hl hb)
      rw [hbs] at he; cases he
    · cases h

/-- **`Document(lines)` terminates and returns** with `gasBound` gas -/
theorem parseLines_total (cfg : Cfg) (gas : Nat) (lines : List Str) (hl : ∀ s ∈ lines, NlEnd s)
    (hinl : ∀ fn s, ∃ ks, tokenizeInner cfg.span fn s = .ok ks)
    (hg : gasBound cfg.block (docBuf lines) ≤ gas) : ∃ d, parseLines cfg gas lines = .ok d := by
  obtain ⟨⟨buf, st⟩, hb⟩ := blockPhase_total cfg.block gas lines hl hg
  obtain ⟨bs, hbs⟩ := mkBlocks_ok cfg (footnotesOf st.defs) hinl buf.entries (blockPhase_wf cfg.block gas lines buf st hl hb)
  unfold parseLines
  rw [hb]; simp only; rw [hbs]
  exact ⟨_, rfl⟩

/-- more gas never changes the document -/
theorem parseLines_gas_mono (cfg : Cfg) (lines : List Str) (d : Doc) (g g' : Nat) (hle : g ≤ g')
    (h : parseLines cfg g lines = .ok d) : parseLines cfg g' lines = .ok d := by
  unfold parseLines at h ⊢
  split at h
  · cases h
  · rename_i buf st hb
    rw [blockPhase_gas_mono cfg.block lines (buf, st) g g' hle hb]
    exact h

end Mistletoe.Document

namespace Mistletoe.Block
open Mistletoe Mistletoe.Py Mistletoe.Scan

/-! ## Part A: the silent inner fuels never truncate

  Each of these loops returns what it has when its fuel is 0.  With more fuel than lines remain
  the fuel-0 branch is never the one that ends the loop: the result does not depend on the fuel.
  Every caller passes `fw.remaining + 1` (or more) for a cursor at or after `fw`. -/

theorem blockCodeLoop_fuel : ∀ (fuel fuel' : Nat) (fw : FW) (buf : List Str) (tb : Nat),
    fw.remaining < fuel → fw.remaining < fuel' → blockCodeLoop fuel fw buf tb = blockCodeLoop fuel' fw buf tb
  | 0, _, _, _, _, h, _ => by omega
  | _ + 1, 0, _, _, _, _, h => by omega
  | f + 1, f' + 1, fw, buf, tb, h, h' => by
    cases hp : fw.peek with
    | none => simp only [blockCodeLoop, hp]
    | some l =>
      have := remaining_next fw l hp
      have ih := fun b t => blockCodeLoop_fuel f f' fw.next b t (by omega) (by omega)
      simp only [blockCodeLoop, hp, ih]

theorem codeFenceLoop_fuel (ld : Str) (p : Nat) : ∀ (fuel fuel' : Nat) (fw : FW) (buf : List Str),
    fw.remaining < fuel → fw.remaining < fuel' → codeFenceLoop ld p fuel fw buf = codeFenceLoop ld p fuel' fw buf
  | 0, _, _, _, h, _ => by omega
  | _ + 1, 0, _, _, _, h => by omega
  | f + 1, f' + 1, fw, buf, h, h' => by
    cases hp : fw.peek with
    | none => simp only [codeFenceLoop, hp]
    | some l =>
      have := remaining_next fw l hp
      have ih := fun b => codeFenceLoop_fuel ld p f f' fw.next b (by omega) (by omega)
      simp only [codeFenceLoop, hp, ih]

theorem tableLoop_fuel : ∀ (fuel fuel' : Nat) (fw : FW) (buf : List Str),
    fw.remaining < fuel → fw.remaining < fuel' → tableLoop fuel fw buf = tableLoop fuel' fw buf
  | 0, _, _, _, h, _ => by omega
  | _ + 1, 0, _, _, _, h => by omega
  | f + 1, f' + 1, fw, buf, h, h' => by
    cases hp : fw.peek with
    | none => simp only [tableLoop, hp]
    | some l =>
      have := remaining_next fw l hp
      have ih := fun b => tableLoop_fuel f f' fw.next b (by omega) (by omega)
      simp only [tableLoop, hp, ih]

theorem htmlBlockLoop_fuel (ec : Option Str) : ∀ (fuel fuel' : Nat) (fw : FW) (buf : List Str),
    fw.remaining < fuel → fw.remaining < fuel' → htmlBlockLoop ec fuel fw buf = htmlBlockLoop ec fuel' fw buf
  | 0, _, _, _, h, _ => by omega
  | _ + 1, 0, _, _, _, h => by omega
  | f + 1, f' + 1, fw, buf, h, h' => by
    cases hp : fw.peek with
    | none => simp only [htmlBlockLoop, hp]
    | some l =>
      have := remaining_next fw l hp
      have ih := fun b => htmlBlockLoop_fuel ec f f' fw.next b (by omega) (by omega)
      simp only [htmlBlockLoop, hp, ih]

theorem footnoteLines_fuel : ∀ (fuel fuel' : Nat) (fw : FW) (buf : List Str),
    fw.remaining < fuel → fw.remaining < fuel' → footnoteLines fuel fw buf = footnoteLines fuel' fw buf
  | 0, _, _, _, h, _ => by omega
  | _ + 1, 0, _, _, _, h => by omega
  | f + 1, f' + 1, fw, buf, h, h' => by
    cases hp : fw.peek with
    | none => simp only [footnoteLines, hp]
    | some l =>
      have := remaining_next fw l hp
      have ih := fun b => footnoteLines_fuel f f' fw.next b (by omega) (by omega)
      simp only [footnoteLines, hp, ih]

theorem skipBlanks_fuel : ∀ (fuel fuel' : Nat) (fw : FW) (n : Nat),
    fw.remaining < fuel → fw.remaining < fuel' → skipBlanks fuel fw n = skipBlanks fuel' fw n
  | 0, _, _, _, h, _ => by omega
  | _ + 1, 0, _, _, _, h => by omega
  | f + 1, f' + 1, fw, n, h, h' => by
    cases hp : fw.peek with
    | none => simp only [skipBlanks, hp]
    | some l =>
      have := remaining_next fw l hp
      have ih := fun k => skipBlanks_fuel f f' fw.next k (by omega) (by omega)
      simp only [skipBlanks, hp, ih]

/-- the loops that report `.err .fuel` likewise do not depend on a sufficient fuel -/
theorem paragraphLoop_fuel (cfg : Cfg) (so : Bool) : ∀ (fuel fuel' : Nat) (fw : FW) (buf : List Str),
    fw.remaining < fuel → fw.remaining < fuel' → paragraphLoop cfg so fuel fw buf = paragraphLoop cfg so fuel' fw buf
  | 0, _, _, _, h, _ => by omega
  | _ + 1, 0, _, _, _, h => by omega
  | f + 1, f' + 1, fw, buf, h, h' => by
    cases hp : fw.peek with
    | none => simp only [paragraphLoop, hp]
    | some l =>
      have := remaining_next fw l hp
      have ih := fun b => paragraphLoop_fuel cfg so f f' fw.next b (by omega) (by omega)
      simp only [paragraphLoop, hp, ih]

theorem quoteLoop_fuel (cfg : Cfg) : ∀ (fuel fuel' : Nat) (fw : FW) (buf : List Line) (fl : QFlags),
    fw.remaining < fuel → fw.remaining < fuel' → quoteLoop cfg fuel fw buf fl = quoteLoop cfg fuel' fw buf fl
  | 0, _, _, _, _, h, _ => by omega
  | _ + 1, 0, _, _, _, _, h => by omega
  | f + 1, f' + 1, fw, buf, fl, h, h' => by
    cases hp : fw.peek with
    | none => simp only [quoteLoop, hp]
    | some l =>
      have := remaining_next fw l hp
      have ih := fun b q => quoteLoop_fuel cfg f f' fw.next b q (by omega) (by omega)
      simp only [quoteLoop, hp, ih]

theorem itemLoop_fuel (cfg : Cfg) (pre : Nat) : ∀ (fuel fuel' : Nat) (fw : FW) (buf : List Line) (nl : Nat),
    fw.remaining < fuel → fw.remaining < fuel' → itemLoop cfg pre fuel fw buf nl = itemLoop cfg pre fuel' fw buf nl
  | 0, _, _, _, _, h, _ => by omega
  | _ + 1, 0, _, _, _, _, h => by omega
  | f + 1, f' + 1, fw, buf, nl, h, h' => by
    cases hp : fw.peek with
    | none => simp only [itemLoop, hp]
    | some l =>
      have := remaining_next fw l hp
      have ih := fun b k => itemLoop_fuel cfg pre f f' fw.next b k (by omega) (by omega)
      simp only [itemLoop, hp, ih]

end Mistletoe.Block

namespace Mistletoe.Block
open Mistletoe Mistletoe.Py Mistletoe.Scan

theorem footnoteRefs_fuel (s : Str) : ∀ (fuel fuel' off : Nat) (acc : List FnMatch),
    1 ≤ fuel → s.length + 1 ≤ fuel + off → 1 ≤ fuel' → s.length + 1 ≤ fuel' + off →
    footnoteRefs s fuel off acc = footnoteRefs s fuel' off acc
  | 0, _, _, _, h, _, _, _ => by omega
  | _ + 1, 0, _, _, _, _, h, _ => by omega
  | f + 1, f' + 1, off, acc, _, hb, _, hb' => by
    simp only [footnoteRefs]
    split
    · rename_i hlt
      split
      · rfl
      · rfl
      · rename_i next m hm
        have := (matchReference_spec s off next m hm).1
        exact footnoteRefs_fuel s f f' next _ (by omega) (by omega) (by omega) (by omega)
    · rfl

/-! ### the fuelled scanners: `column_align_pattern.findall`, the tail of
    `Table.delimiter_row_pattern`, the attribute loop of `HtmlBlock.custom_tag` -/

theorem span_snd_len (p : Char → Bool) (s : Str) : (span p s).2.length ≤ s.length :=
  (span_suffix p s).length_le

theorem span_snd_lt (p : Char → Bool) (s : Str) (h : (span p s).1 ≠ []) : (span p s).2.length < s.length := by
  have := congrArg List.length (span_append p s)
  simp only [List.length_append] at this
  have : 1 ≤ (span p s).1.length := by
    cases hh : (span p s).1 with
    | nil => exact absurd hh h
    | cons x xs => simp
  omega

theorem alignCol_aux_lt (c1 r m rr : Str)
    (h : (let (d, r1) := span (· == '-') r
          if d.isEmpty then none else
          match r1 with
          | ':' :: r2 => some (c1 ++ d ++ [':'], r2)
          | _ => some (c1 ++ d, r1)) = some (m, rr)) : rr.length < r.length := by
  simp only at h
  split at h
  · cases h
  · rename_i hd
    have hne : (span (fun x => x == '-') r).1 ≠ [] := by
      intro e; apply hd; simp [e]
    have := span_snd_lt _ r hne
    split at h
    · rename_i r2 heq
      cases h
      rw [heq] at this; simp only [List.length_cons] at this; omega
    · cases h; exact this

theorem alignCol_lt (s m r : Str) (h : alignCol s = some (m, r)) : r.length < s.length := by
  unfold alignCol at h
  split at h
  rename_i c1 r0 heq
  have := alignCol_aux_lt c1 r0 m r h
  split at heq
  · cases heq; simp only [List.length_cons]; omega
  · cases heq; exact this

theorem alignCols_fuel : ∀ (fuel fuel' : Nat) (s : Str), s.length < fuel → s.length < fuel' →
    alignCols fuel s = alignCols fuel' s
  | 0, _, _, h, _ => by omega
  | _ + 1, 0, _, _, h => by omega
  | _ + 1, _ + 1, [], _, _ => by simp only [alignCols]
  | f + 1, f' + 1, c :: rest, h, h' => by
    simp only [alignCols]
    simp only [List.length_cons] at h h'
    split
    · rename_i m r hm
      have := alignCol_lt _ _ _ hm
      simp only [List.length_cons] at this
      rw [alignCols_fuel f f' r (by omega) (by omega)]
    · exact alignCols_fuel f f' rest (by omega) (by omega)

theorem delimRest_fuel : ∀ (fuel fuel' : Nat) (s : Str), s.length < fuel → s.length < fuel' →
    delimRest fuel s = delimRest fuel' s
  | 0, _, _, h, _ => by omega
  | _ + 1, 0, _, _, h => by omega
  | f + 1, f' + 1, s, h, h' => by
    simp only [delimRest]
    have h1 := span_snd_len ws s
    split
    · rfl
    · rename_i r1 heq
      rw [heq] at h1
      simp only [List.length_cons] at h1
      have h2 := span_snd_len ws r1
      split
      · rename_i m r3 hm
        have := alignCol_lt _ _ _ hm
        exact delimRest_fuel f f' r3 (by omega) (by omega)
      · rfl
    · rfl

def dropPipe (r : Str) : Str := match r with | '|' :: x => x | _ => r

theorem dropPipe_len (r : Str) : (dropPipe r).length ≤ r.length := by
  unfold dropPipe; split <;> simp

/-- `delimiterRow` with the fuel of its tail loop as a parameter -/
def delimiterRowWith (fuel : Nat) (line : Str) : Bool :=
  let (_, r) := span ws line
  let r1 := dropPipe r
  let (_, r2) := span ws r1
  match alignCol r2 with
  | some (_, r3) => delimRest fuel r3
  | none => false

theorem delimiterRow_eq_with (line : Str) : delimiterRow line = delimiterRowWith (line.length + 1) line := rfl

/-- `delimiterRow` passes `line.length + 1`; any fuel above `line.length` gives the same answer -/
theorem delimiterRowWith_fuel (line : Str) (fuel fuel' : Nat) (h : line.length < fuel) (h' : line.length < fuel') :
    delimiterRowWith fuel line = delimiterRowWith fuel' line := by
  unfold delimiterRowWith
  simp only
  split
  · rename_i m r3 hm
    have h3 := alignCol_lt _ _ _ hm
    have s1 := span_snd_len ws (dropPipe (span ws line).2)
    have s2 := dropPipe_len (span ws line).2
    have s3 := span_snd_len ws line
    exact delimRest_fuel _ _ r3 (by omega) (by omega)
  · rfl

theorem findAligns_fuel (row : Str) (fuel : Nat) (h : row.length < fuel) : findAligns row = alignCols fuel row :=
  alignCols_fuel _ _ row (by omega) h

end Mistletoe.Block

namespace Mistletoe.Block
open Mistletoe Mistletoe.Py Mistletoe.Scan

theorem attrValue_len (s : Str) : (attrValue s).length ≤ s.length := by
  unfold attrValue
  simp only
  have h0 := span_snd_len ws s
  split
  · rename_i r1 heq
    rw [heq] at h0
    simp only [List.length_cons] at h0
    have h1 := span_snd_len ws r1
    split
    · rename_i r3 heq2
      rw [heq2] at h1
      simp only [List.length_cons] at h1
      have h2 := span_snd_len (· != '\'') r3
      split
      · rename_i r5 heq3
        rw [heq3] at h2; simp only [List.length_cons] at h2; omega
      · exact Nat.le_refl _
    · rename_i r3 heq2
      rw [heq2] at h1
      simp only [List.length_cons] at h1
      have h2 := span_snd_len (· != '"') r3
      split
      · rename_i r5 heq3
        rw [heq3] at h2; simp only [List.length_cons] at h2; omega
      · exact Nat.le_refl _
    · have h2 := span_snd_len unquotedChar (span ws r1).2
      split
      · exact Nat.le_refl _
      · omega
  · exact Nat.le_refl _

/-- the attribute loop of `_open_tag`: `openTag` passes `s.length + 1` for a suffix of `s` -/
theorem attrs_fuel : ∀ (fuel fuel' : Nat) (s : Str), s.length < fuel → s.length < fuel' → attrs fuel s = attrs fuel' s
  | 0, _, _, h, _ => by omega
  | _ + 1, 0, _, _, h => by omega
  | f + 1, f' + 1, s, h, h' => by
    simp only [attrs]
    split
    · rfl
    · rename_i hw
      have hlt := span_snd_lt ws s (by intro e; apply hw; simp [e])
      split
      · rename_i c tl heq
        split
        · have h1 := span_snd_len nameChar (span ws s).2
          have h2 := attrValue_len (span nameChar (span ws s).2).2
          exact attrs_fuel f f' _ (by omega) (by omega)
        · rfl
      · rfl

end Mistletoe.Block

namespace Mistletoe.Document
open Mistletoe Mistletoe.Py

/-- `escaped_pipe_pattern.sub`: `tableRow` passes `len(cell) + 1` -/
theorem unescapePipes_fuel : ∀ (fuel fuel' : Nat) (prev : Option Char) (s : Str), s.length < fuel → s.length < fuel' →
    unescapePipes fuel prev s = unescapePipes fuel' prev s
  | 0, _, _, _, h, _ => by omega
  | _ + 1, 0, _, _, _, h => by omega
  | _ + 1, _ + 1, _, [], _, _ => by simp only [unescapePipes]
  | f + 1, f' + 1, prev, c :: rest, h, h' => by
    simp only [List.length_cons] at h h'
    simp only [unescapePipes]
    split
    · have : ((c :: rest).drop (countLeading '\\' (c :: rest) + 1)).length ≤ rest.length := by
        simp only [List.drop_succ_cons, List.length_drop]; omega
      rw [unescapePipes_fuel f f' _ _ (by omega) (by omega)]
    · rw [unescapePipes_fuel f f' _ rest (by omega) (by omega)]

end Mistletoe.Document
