/-
  Composition of the block-level theorems, LISTS included (C03, second fragment).

  `Proofs/Compose.lean` proves that a document written out from a tree of paragraphs, ATX headings,
  thematic breaks and block quotes parses to that tree.  This file adds bullet and ordered lists:
  tight and loose, any number of items, items holding any blocks of the fragment (nested lists and
  quotes included), lists inside quotes and quotes inside lists, to any depth.

  New ingredients (the rest is `Compose.lean`'s argument with C05 at full strength):
  * `ListItem.read` in context (`itemLines_trail`, with `Outline.lean`'s `itemLines_core`): the item's
    lines end at the end of the buffer, at the marker line of the next item, or at a "\n" line that is
    followed by the end of the buffer or by a line that is no continuation and carries no marker;
  * `List.read` over the items of a written list (`items_last`, `items_cons`), the nested
    `tokenize_block` of every item being the induction hypothesis on the item's blocks;
  * a list followed, after a "\n" line, by further siblings (`nodes_cons_list`): the cursor comes back
    onto the "\n" line, the dispatcher goes on behind it (`tokLoop_suffix_shift`).
-/
import Mistletoe.Proofs.Compose
import Mistletoe.Proofs.LocalityLists
import Mistletoe.Proofs.Outline
namespace Mistletoe.Block
open Mistletoe Mistletoe.Py Mistletoe.Scan

/-! ### `ListItem.read` in context -/

/-- a line that begins with a character other than space, tab, newline is not a continuation line of an item -/
theorem parseContinuation_lead (c : Char) (r : Str) (W : Nat) (hW : 1 ≤ W) (h1 : c ≠ ' ') (h2 : c ≠ '\t') (h3 : c ≠ '\n') :
    parseContinuation (c :: r) W = none := by
  unfold parseContinuation continuation
  have hsp : span (fun c => c == ' ' || c == '\t') (c :: r) = ([], c :: r) := by simp [span, h1, h2]
  simp only [hsp]
  split
  · rename_i x heq
    split at heq
    · rename_i h; simp only [List.cons.injEq] at h; exact absurd h.1 h3
    · split at heq
      · exact heq
      · split at heq
        · simp only [Option.some.injEq] at heq
          subst heq
          have : ((c :: (span (fun x => x != '\n') r).1 ++ ['\n']) == ['\n']) = false := by
            simp only [List.cons_append, beq_eq_false_iff_ne, ne_eq, List.cons.injEq, not_and]
            intro e; exact absurd e h3
          simp only [this, Bool.false_eq_true, if_false, expandtabs, expandtabsAux, List.length_nil]
          have : ¬ (0 ≥ W) := by omega
          simp [this]
        · exact heq
    · exact heq
  · rfl

theorem trailNl_append_nl : ∀ (rest : List Line) (nl : Nat) (x : Line), x.s = ['\n'] → trailNl nl (rest ++ [x]) = trailNl nl rest + 1
  | [], nl, x, h => by simp [trailNl, h]
  | l :: rest, nl, x, h => by
    simp only [List.cons_append, trailNl]
    exact trailNl_append_nl rest _ x h

/-- the `while True` loop of `ListItem.read` over the item's lines, the last of them "\n" lines, then a line that is
    not indented enough and carries no marker: the loop stops there, steps back once and drops the "\n" lines -/
theorem itemLoop_then_stop (cfg : Cfg) (W start : Nat) (s : Line) (post' : List Line)
    (hnc : parseContinuation s.s W = none) (hnm : parseMarker s.s = none) (hnl : NlEnd s.s) :
    ∀ (rest' rest pre' buf : List Line) (nl fuel : Nat),
    IndentedAll W rest' rest → rest'.length < fuel → 0 < trailNl nl rest →
    itemLoop cfg W fuel ⟨pre' ++ (rest' ++ s :: post'), pre'.length, start⟩ buf nl =
      .ok ((dropTrailing ⟨pre' ++ (rest' ++ s :: post'), pre'.length + rest'.length, start⟩ (rest.reverse ++ buf) (trailNl nl rest)).2,
           (dropTrailing ⟨pre' ++ (rest' ++ s :: post'), pre'.length + rest'.length, start⟩ (rest.reverse ++ buf) (trailNl nl rest)).1, none)
  | _, _, _, _, _, 0, _, hf, _ => by simp at hf
  | [], [], pre', buf, nl, fuel + 1, _, _, hpos => by
    have hp := peek_at pre' s post' start
    simp only [trailNl] at hpos
    simp only [List.nil_append, List.length_nil, Nat.add_zero, List.reverse_nil, trailNl]
    simp only [itemLoop, hp, hnc, hnm, Option.isSome_none]
    cases hi : anyInterrupt cfg ⟨pre' ++ s :: post', pre'.length, start⟩ .list false cfg.types with
    | err e => exact absurd hi (anyInterrupt_noerr cfg _ s .list false e hp hnl cfg.types)
    | ok b =>
      cases b with
      | true => rfl
      | false => simp only [hpos, if_true]
  | [], _ :: _, _, _, _, _ + 1, h, _, _ => by simp [IndentedAll] at h
  | _ :: _, [], _, _, _, _ + 1, h, _, _ => by simp [IndentedAll] at h
  | x' :: rest', x :: rest, pre', buf, nl, fuel + 1, h, hf, hpos => by
    obtain ⟨⟨ho, hl⟩, hrest⟩ := h
    have hp := peek_at pre' x' (rest' ++ s :: post') start
    have hn : (FW.next ⟨pre' ++ x' :: (rest' ++ s :: post'), pre'.length, start⟩) =
        ⟨(pre' ++ [x']) ++ (rest' ++ s :: post'), (pre' ++ [x']).length, start⟩ := by
      simp [FW.next]
    have ih := fun buf nl => itemLoop_then_stop cfg W start s post' hnc hnm hnl rest' rest (pre' ++ [x']) buf nl fuel hrest
      (by simp only [List.length_cons] at hf; omega)
    have hcont : parseContinuation x'.s W = some x.s := by
      rcases hl with ⟨h1, h2⟩ | ⟨h1, h2⟩
      · rw [h1, h2]; exact parseContinuation_nl W
      · rw [h2]; exact parseContinuation_indented W x.s h1
    have hne : x.s.isEmpty = false := by
      rcases hl with ⟨h1, _⟩ | ⟨⟨n, c, body, h1, _⟩, _⟩ <;> rw [h1] <;> simp
    have el : ({ s := x.s, origin := x'.origin } : Line) = x := by cases x; simp_all
    simp only [trailNl] at hpos
    simp only [List.cons_append, itemLoop, hp, hcont, hne, Bool.false_eq_true, if_false]
    rw [hn, ih _ _ hpos, el]
    simp only [trailNl, List.reverse_cons, List.append_assoc, List.singleton_append, List.length_append,
      List.length_cons, List.length_nil]
    have e : pre'.length + (0 + 1) + rest'.length = pre'.length + (rest'.length + 1) := by omega
    rw [e]

end Mistletoe.Block
