/-
  Composition of the block-level theorems, LISTS included (C03, second fragment).

  `Proofs/Compose.lean` proves that a document written out from a tree of paragraphs, ATX headings,
  thematic breaks and block quotes parses to that tree.  This file adds bullet and ordered lists:
  tight and loose, any number of items, items holding any blocks of the fragment (nested lists and
  quotes included), lists inside quotes and quotes inside lists, to any depth.

  New ingredients (the rest is `Compose.lean`'s argument with C05 at full strength):
  * `ListItem.read` in context (`itemLines_trail`, with `Outline.lean`'s `itemLines_core`): the item's
    lines end at the end of the buffer, at the marker line of the next item, or at a "\n" line that is
    followed by the end of the buffer or by a line that is no continuation and carries no marker;
  * `List.read` over the items of a written list (`items_last`, `items_cons`), the nested
    `tokenize_block` of every item being the induction hypothesis on the item's blocks;
  * a list followed, after a "\n" line, by further siblings (`nodes_cons_list`): the cursor comes back
    onto the "\n" line, the dispatcher goes on behind it (`tokLoop_suffix_shift`).
-/
import Mistletoe.Proofs.Compose
import Mistletoe.Proofs.LocalityLists
import Mistletoe.Proofs.Outline
namespace Mistletoe.Block
open Mistletoe Mistletoe.Py Mistletoe.Scan

/-! ### `ListItem.read` in context -/

/-- a line that begins with a character other than space, tab, newline is not a continuation line of an item -/
theorem continuation_lead (c : Char) (r : Str) (h1 : c ≠ ' ') (h2 : c ≠ '\t') (h3 : c ≠ '\n') :
    continuation (c :: r) = none ∨ ∃ body, continuation (c :: r) = some ([], c :: body) := by
  unfold continuation
  have hsp : span (fun c => c == ' ' || c == '\t') (c :: r) = ([], c :: r) := by simp [span, h1, h2]
  simp only [hsp]
  split
  · exact Or.inl rfl
  · split
    · exact Or.inr ⟨_, rfl⟩
    · exact Or.inl rfl

theorem parseContinuation_lead (c : Char) (r : Str) (W : Nat) (hW : 1 ≤ W) (h1 : c ≠ ' ') (h2 : c ≠ '\t') (h3 : c ≠ '\n') :
    parseContinuation (c :: r) W = none := by
  unfold parseContinuation
  rcases continuation_lead c r h1 h2 h3 with h | ⟨body, h⟩
  · rw [h]
  · rw [h]
    have : ((c :: body) == ['\n']) = false := by
      simp only [beq_eq_false_iff_ne, ne_eq, List.cons.injEq, not_and]
      intro e; exact absurd e h3
    simp only [this, Bool.false_eq_true, if_false, expandtabs, expandtabsAux, List.length_nil]
    have : ¬ (0 ≥ W) := by omega
    simp [this]

theorem trailNl_append_nl : ∀ (rest : List Line) (nl : Nat) (x : Line), x.s = ['\n'] → trailNl nl (rest ++ [x]) = trailNl nl rest + 1
  | [], nl, x, h => by simp [trailNl, h]
  | l :: rest, nl, x, h => by
    simp only [List.cons_append, trailNl]
    exact trailNl_append_nl rest _ x h

/-- the `while True` loop of `ListItem.read` over the item's lines, the last of them "\n" lines, then a line that is
    not indented enough and carries no marker: the loop stops there, steps back once and drops the "\n" lines -/
theorem itemLoop_then_stop (cfg : Cfg) (W start : Nat) (s : Line) (post' : List Line)
    (hnc : parseContinuation s.s W = none) (hnm : parseMarker s.s = none) (hnl : NlEnd s.s) :
    ∀ (rest' rest pre' buf : List Line) (nl fuel : Nat),
    IndentedAll W rest' rest → rest'.length < fuel → 0 < trailNl nl rest →
    itemLoop cfg W fuel ⟨pre' ++ (rest' ++ s :: post'), pre'.length, start⟩ buf nl =
      .ok ((dropTrailing ⟨pre' ++ (rest' ++ s :: post'), pre'.length + rest'.length, start⟩ (rest.reverse ++ buf) (trailNl nl rest)).2,
           (dropTrailing ⟨pre' ++ (rest' ++ s :: post'), pre'.length + rest'.length, start⟩ (rest.reverse ++ buf) (trailNl nl rest)).1, none)
  | _, _, _, _, _, 0, _, hf, _ => by simp at hf
  | [], [], pre', buf, nl, fuel + 1, _, _, hpos => by
    have hp := peek_at pre' s post' start
    simp only [trailNl] at hpos
    simp only [List.nil_append, List.length_nil, Nat.add_zero, List.reverse_nil, trailNl]
    simp only [itemLoop, hp, hnc, hnm, Option.isSome_none]
    cases hi : anyInterrupt cfg ⟨pre' ++ s :: post', pre'.length, start⟩ .list false cfg.types with
    | err e => exact absurd hi (anyInterrupt_noerr cfg _ s .list false e hp hnl cfg.types)
    | ok b =>
      cases b with
      | true => rfl
      | false => simp only [hpos, if_true]
  | [], _ :: _, _, _, _, _ + 1, h, _, _ => by simp [IndentedAll] at h
  | _ :: _, [], _, _, _, _ + 1, h, _, _ => by simp [IndentedAll] at h
  | x' :: rest', x :: rest, pre', buf, nl, fuel + 1, h, hf, hpos => by
    obtain ⟨⟨ho, hl⟩, hrest⟩ := h
    have hp := peek_at pre' x' (rest' ++ s :: post') start
    have hn : (FW.next ⟨pre' ++ x' :: (rest' ++ s :: post'), pre'.length, start⟩) =
        ⟨(pre' ++ [x']) ++ (rest' ++ s :: post'), (pre' ++ [x']).length, start⟩ := by
      simp [FW.next]
    have ih := fun buf nl => itemLoop_then_stop cfg W start s post' hnc hnm hnl rest' rest (pre' ++ [x']) buf nl fuel hrest
      (by simp only [List.length_cons] at hf; omega)
    have hcont : parseContinuation x'.s W = some x.s := by
      rcases hl with ⟨h1, h2⟩ | ⟨h1, h2⟩
      · rw [h1, h2]; exact parseContinuation_nl W
      · rw [h2]; exact parseContinuation_indented W x.s h1
    have hne : x.s.isEmpty = false := by
      rcases hl with ⟨h1, _⟩ | ⟨⟨n, c, body, h1, _⟩, _⟩ <;> rw [h1] <;> simp
    have el : ({ s := x.s, origin := x'.origin } : Line) = x := by cases x; simp_all
    simp only [trailNl] at hpos
    simp only [List.cons_append, itemLoop, hp, hcont, hne, Bool.false_eq_true, if_false]
    rw [hn, ih _ _ hpos, el]
    simp only [trailNl, List.reverse_cons, List.append_assoc, List.singleton_append, List.length_append,
      List.length_cons, List.length_nil]
    have e : pre'.length + (0 + 1) + rest'.length = pre'.length + (rest'.length + 1) := by omega
    rw [e]


theorem indentedAs_nl (W : Nat) (x : Line) (h : x.s = ['\n']) : IndentedAs W x x := ⟨rfl, Or.inl ⟨h, h⟩⟩

/-- **ListItem.read** up to the nested tokenizer, for an item whose lines `body'` are followed by a "\n" line and then
    by the end of the buffer or by a line that is no continuation line and carries no marker: the nested tokenizer gets
    the unindented lines without the "\n" line, no next marker is reported, the cursor is back on the "\n" line -/
theorem itemLines_trail (cfg : Cfg) (ind W : Nat) (ld content : Str) (l0' nlL : Line) (body' body post pre : List Line) (start : Nat)
    (prev : Option (Nat × Nat × Str × Str))
    (hmk : prev = some (ind, W, ld, content) ∨ (prev = none ∧ parseMarker l0'.s = some (ind, W, ld, content)))
    (hnb : isBlank content = false) (hbody : IndentedAll W body' body) (htr : trailNl 0 body = 0) (hnl : nlL.s = ['\n'])
    (hpost : post = [] ∨ ∃ s post', post = s :: post' ∧ parseContinuation s.s W = none ∧ parseMarker s.s = none ∧ NlEnd s.s) :
    itemLines cfg ⟨pre ++ l0' :: (body' ++ nlL :: post), pre.length, start⟩ prev =
      .ok (.lines ({ s := content, origin := l0'.origin } :: body) (start + pre.length) ind W ld (start + pre.length) l0'.origin none
        ⟨pre ++ l0' :: (body' ++ nlL :: post), pre.length + (body'.length + 1), start⟩) := by
  have hp := peek_at pre l0' (body' ++ nlL :: post) start
  have hn : (FW.next ⟨pre ++ l0' :: (body' ++ nlL :: post), pre.length, start⟩) =
      ⟨(pre ++ [l0']) ++ (body' ++ nlL :: post), (pre ++ [l0']).length, start⟩ := by
    simp [FW.next]
  have hln : (FW.lineNumber ⟨(pre ++ [l0']) ++ (body' ++ nlL :: post), (pre ++ [l0']).length, start⟩) = start + pre.length := by
    simp [FW.lineNumber]
  have hind : IndentedAll W (body' ++ [nlL]) (body ++ [nlL]) :=
    indentedAll_append W body' body [nlL] [nlL] hbody ⟨indentedAs_nl W nlL hnl, trivial⟩
  have htn : trailNl 0 (body ++ [nlL]) = 1 := by rw [trailNl_append_nl body 0 nlL hnl, htr]
  have hloop : itemLoop cfg W (FW.remaining ⟨pre ++ l0' :: (body' ++ nlL :: post), pre.length, start⟩ + 1)
      ⟨(pre ++ [l0']) ++ (body' ++ nlL :: post), (pre ++ [l0']).length, start⟩ [{ s := content, origin := l0'.origin }] 0 =
      .ok (body.reverse ++ [{ s := content, origin := l0'.origin }],
        ⟨pre ++ l0' :: (body' ++ nlL :: post), pre.length + (body'.length + 1), start⟩, none) := by
    rcases hpost with rfl | ⟨s, post', rfl, hnc, hnm, hne⟩
    · have hfuel : (body' ++ [nlL]).length < FW.remaining ⟨pre ++ l0' :: (body' ++ [nlL]), pre.length, start⟩ + 1 := by
        simp [FW.remaining]
      have := itemLoop_indented cfg W start (body' ++ [nlL]) (body ++ [nlL]) (pre ++ [l0']) [{ s := content, origin := l0'.origin }] 0 _ hind hfuel
      rw [this, htn]
      simp [dropTrailing, FW.backstep]
      omega
    · have hfuel : (body' ++ [nlL]).length < FW.remaining ⟨pre ++ l0' :: (body' ++ nlL :: s :: post'), pre.length, start⟩ + 1 := by
        simp [FW.remaining]; omega
      have := itemLoop_then_stop cfg W start s post' hnc hnm hne (body' ++ [nlL]) (body ++ [nlL]) (pre ++ [l0'])
        [{ s := content, origin := l0'.origin }] 0 _ hind hfuel (by rw [htn]; omega)
      have e : (pre ++ [l0']) ++ (body' ++ nlL :: s :: post') = (pre ++ [l0']) ++ ((body' ++ [nlL]) ++ s :: post') := by simp
      rw [e, this, htn]
      simp [dropTrailing, FW.backstep]
      omega
  rcases hmk with rfl | ⟨rfl, h⟩
  · unfold itemLines
    simp only [hp, hnb, Bool.false_eq_true, if_false]
    rw [hn, hloop, hln]
    simp
  · unfold itemLines
    simp only [hp, h, hnb, Bool.false_eq_true, if_false]
    rw [hn, hloop, hln]
    simp


/-! ### Marker lines -/

theorem lead_noEarly {c : Char} (hc : LeadChar c) (r : Str) (htb : Scan.thematicBreak (c :: r) = false) : NoEarly (c :: r) := by
  have := leadN_noEarly hc 0 (by omega) r (by simpa using htb)
  simpa using this

/-- `ListItem.read` on a line on which no earlier token type starts: no `check_interrupts_paragraph` fires
    (`List` is not asked, `Table` is not asked for a line that carries a marker) -/
theorem anyInterrupt_noEarly (cfg : Cfg) (fw : FW) (l : Line) (hp : fw.peek = some l) (hn : NoEarly l.s) :
    ∀ ts, anyInterrupt cfg fw .list true ts = .ok false
  | [] => rfl
  | x :: ts => by
    have ih := anyInterrupt_noEarly cfg fw l hp hn ts
    simp only [anyInterrupt]
    split
    · exact ih
    · rename_i hc
      have : interruptsOne cfg fw x = .ok false := by
        unfold interruptsOne
        rw [hp]
        cases x <;> simp [hn.hd, hn.qt, hn.cf, hn.tb, hn.html] at hc ⊢
      rw [this]; exact ih

/-- checkable form of `ListLeader` for the markers the writer produces: a bullet, or one to nine ASCII digits and "." or ")" -/
def leaderOk (o : Bool) (m : Str) : Bool :=
  if o then
    (match m.getLast? with | some e => e == '.' || e == ')' | none => false)
      && decide (1 ≤ m.dropLast.length) && decide (m.dropLast.length ≤ 9) && m.dropLast.all (fun x => asciiDigits.contains x)
  else m == ['-'] || m == ['+'] || m == ['*']

theorem leaderOk_ordered (m : Str) (h : leaderOk true m = true) :
    ∃ d e, m = d ++ [e] ∧ (e = '.' ∨ e = ')') ∧ 1 ≤ d.length ∧ d.length ≤ 9 ∧ ∀ x ∈ d, x ∈ asciiDigits := by
  simp only [leaderOk, if_true, Bool.and_eq_true, decide_eq_true_eq, List.all_eq_true, List.contains_iff_mem] at h
  obtain ⟨⟨⟨h1, h2⟩, h3⟩, h4⟩ := h
  cases hg : m.getLast? with
  | none => rw [hg] at h1; cases h1
  | some e =>
    rw [hg] at h1
    obtain ⟨d, rfl⟩ := List.getLast?_eq_some_iff.mp hg
    simp only [List.dropLast_concat] at h2 h3 h4
    simp only [Bool.or_eq_true, beq_iff_eq] at h1
    exact ⟨d, e, rfl, h1, h2, h3, h4⟩

theorem listLeader_of (o : Bool) (m : Str) (h : leaderOk o m = true) : ListLeader m := by
  cases o with
  | false =>
    simp only [leaderOk, Bool.false_eq_true, if_false, Bool.or_eq_true, beq_iff_eq] at h
    rcases h with (rfl | rfl) | rfl
    · exact listLeader_bullet '-' (Or.inl rfl)
    · exact listLeader_bullet '+' (Or.inr (Or.inl rfl))
    · exact listLeader_bullet '*' (Or.inr (Or.inr rfl))
  | true =>
    obtain ⟨d, e, rfl, he, h1, h9, hd⟩ := leaderOk_ordered m h
    exact listLeader_ordered d e h1 h9 hd he

/-! ### Decimal numerals: `str(n)` and `int` -/

open Mistletoe.Html (natDigits natDigitsAux decDigit) in
section
theorem foldl_parse (s : Str) : ∀ (a : Nat), s.foldl (fun n c => n * 10 + digitVal c) a = a * 10 ^ s.length + parseNat s := by
  induction s with
  | nil => intro a; simp [parseNat]
  | cons c s ih =>
    intro a
    have h0 := ih (0 * 10 + digitVal c)
    have h1 := ih (a * 10 + digitVal c)
    simp only [parseNat, List.foldl_cons, List.length_cons] at h0 h1 ⊢
    rw [h1, h0, Nat.pow_succ, Nat.zero_mul, Nat.zero_add, Nat.add_mul, Nat.mul_assoc a 10, Nat.mul_comm 10 (10 ^ s.length)]
    omega

theorem parseNat_cons (c : Char) (s : Str) : parseNat (c :: s) = digitVal c * 10 ^ s.length + parseNat s := by
  have := foldl_parse s (0 * 10 + digitVal c)
  simp only [Nat.zero_mul, Nat.zero_add] at this
  simpa [parseNat] using this

theorem decDigit_facts : ∀ d, d < 10 → digitVal (decDigit d) = d ∧ decDigit d ∈ asciiDigits := by decide +kernel

theorem decDigit_mod (n : Nat) : digitVal (decDigit n) = n % 10 ∧ decDigit n ∈ asciiDigits := by
  have h := decDigit_facts (n % 10) (Nat.mod_lt _ (by decide))
  have e : decDigit n = decDigit (n % 10) := by simp [decDigit]
  rw [e]; exact h

theorem natDigitsAux_val : ∀ (fuel n : Nat) (acc : Str), n < 10 ^ (fuel + 1) →
    parseNat (natDigitsAux fuel n acc) = n * 10 ^ acc.length + parseNat acc
  | 0, n, acc, h => by
    have hn : n < 10 := by simpa using h
    simp only [natDigitsAux, parseNat_cons, (decDigit_mod n).1]
    rw [Nat.mod_eq_of_lt hn]
  | fuel + 1, n, acc, h => by
    simp only [natDigitsAux]
    split
    · rename_i hn
      simp only [parseNat_cons, (decDigit_mod n).1]
      rw [Nat.mod_eq_of_lt hn]
    · have h10 : n / 10 < 10 ^ (fuel + 1) := by
        rw [Nat.div_lt_iff_lt_mul (by decide)]
        rw [Nat.pow_succ] at h
        exact h
      rw [natDigitsAux_val fuel (n / 10) _ h10, parseNat_cons, (decDigit_mod n).1, List.length_cons, Nat.pow_succ]
      have := Nat.div_add_mod n 10
      have e : n / 10 * (10 ^ acc.length * 10) = (10 * (n / 10)) * 10 ^ acc.length := by
        rw [Nat.mul_comm (10 ^ acc.length) 10, ← Nat.mul_assoc, Nat.mul_comm (n / 10) 10]
      rw [e, ← Nat.add_assoc, ← Nat.add_mul, this]

theorem lt_pow_succ (n : Nat) : n < 10 ^ (n + 1) := by
  have := @Nat.lt_pow_self n 10 (by decide)
  have h2 : 10 ^ n ≤ 10 ^ (n + 1) := Nat.pow_le_pow_right (by decide) (by omega)
  omega

/-- `int(str(n)) == n` -/
theorem parseNat_natDigits (n : Nat) : parseNat (natDigits n) = n := by
  have := natDigitsAux_val n n [] (lt_pow_succ n)
  simpa [natDigits, parseNat] using this

theorem natDigitsAux_shape : ∀ (fuel n : Nat) (acc : Str) (k : Nat), n < 10 ^ (k + 1) →
    acc.length + 1 ≤ (natDigitsAux fuel n acc).length ∧ (natDigitsAux fuel n acc).length ≤ acc.length + (k + 1) ∧
    ∀ x ∈ natDigitsAux fuel n acc, x ∈ asciiDigits ∨ x ∈ acc
  | 0, n, acc, k, _ => by
    simp only [natDigitsAux, List.length_cons, List.mem_cons]
    refine ⟨by omega, by omega, ?_⟩
    rintro x (rfl | hx)
    · exact Or.inl (decDigit_mod n).2
    · exact Or.inr hx
  | fuel + 1, n, acc, k, h => by
    simp only [natDigitsAux]
    split
    · simp only [List.length_cons, List.mem_cons]
      refine ⟨by omega, by omega, ?_⟩
      rintro x (rfl | hx)
      · exact Or.inl (decDigit_mod n).2
      · exact Or.inr hx
    · rename_i hn
      obtain ⟨k', rfl⟩ : ∃ k', k = k' + 1 := by
        cases k with
        | zero => simp at h; omega
        | succ k' => exact ⟨k', rfl⟩
      have h10 : n / 10 < 10 ^ (k' + 1) := by
        rw [Nat.div_lt_iff_lt_mul (by decide)]
        rw [Nat.pow_succ] at h
        exact h
      obtain ⟨a, b, c⟩ := natDigitsAux_shape fuel (n / 10) (decDigit n :: acc) k' h10
      simp only [List.length_cons] at a b
      refine ⟨by omega, by omega, ?_⟩
      intro x hx
      rcases c x hx with h | h
      · exact Or.inl h
      · rcases List.mem_cons.mp h with rfl | h
        · exact Or.inl (decDigit_mod n).2
        · exact Or.inr h

/-- below 10⁹: one to nine ASCII digits -/
theorem natDigits_shape (n : Nat) (h : n < 1000000000) :
    1 ≤ (natDigits n).length ∧ (natDigits n).length ≤ 9 ∧ ∀ x ∈ natDigits n, x ∈ asciiDigits := by
  obtain ⟨a, b, c⟩ := natDigitsAux_shape n n [] 8 (by simpa using h)
  simp only [List.length_nil, Nat.zero_add] at a b
  refine ⟨a, b, ?_⟩
  intro x hx
  rcases c x hx with h | h
  · exact h
  · simp at h
end

end Mistletoe.Block

namespace Mistletoe.ComposeL
open Mistletoe Mistletoe.Py Mistletoe.Scan Mistletoe.Compose
open Mistletoe.Block hiding numbered numbered_cons numbered_append
open Mistletoe.Props.C14 (defaultTypes inertLine numbered numbered_cons numbered_append numbered_length numbered_mem numbered_s)
open Mistletoe.InertInline (inertBody inertText proseLine oneLine proseInlines inertClass)
open Mistletoe.Props.C04 (indentDoc itemDocOk)
open Mistletoe.Html (natDigits)

/-! ### The fragment with lists -/

/-- A tree of CommonMark constructs: `Compose.T` (paragraph, ATX heading, thematic break, block quote; see there) and
    * `list ordered start marker pad loose items`: a bullet list (`ordered = false`, `marker` one of `-`, `+`, `*`) or an
      ordered list (`ordered = true`: the items are numbered `start`, `start + 1`, …, each number followed by `marker`,
      "." or ")"); `pad` spaces (1 … 4) follow every marker; an item is the list of its blocks; `loose = true`: one
      "\n" line between consecutive items (`loose = false`: none). -/
inductive T2 where
  | para (lines : List Str)
  | heading (level : Nat) (text : Str) (line : Str)
  | hr (line : Str)
  | quote (bare : Bool) (kids : List T2)
  | list (ordered : Bool) (start : Nat) (marker : Char) (pad : Nat) (loose : Bool) (items : List (List T2))

/-- the marker of the item numbered `n`: the bullet, or the decimal digits of `n` and the delimiter -/
def leaderOf (ordered : Bool) (n : Nat) (mk : Char) : Str := if ordered then natDigits n ++ [mk] else [mk]

/-- the marker the writer may use for the item numbered `n`: a bullet `-`, `+`, `*`, or a number below 10⁹ and `.` or `)` -/
def markerOk (o : Bool) (n : Nat) (mk : Char) : Bool :=
  if o then decide (n < 1000000000) && (mk == '.' || mk == ')') else (mk == '-' || mk == '+' || mk == '*')

theorem leaderOk_of_marker (o : Bool) (n : Nat) (mk : Char) (h : markerOk o n mk = true) : leaderOk o (leaderOf o n mk) = true := by
  cases o with
  | false =>
    simp only [markerOk, Bool.false_eq_true, if_false, Bool.or_eq_true, beq_iff_eq] at h
    rcases h with (rfl | rfl) | rfl <;> rfl
  | true =>
    simp only [markerOk, if_true, Bool.and_eq_true, decide_eq_true_eq] at h
    obtain ⟨a, b, c⟩ := natDigits_shape n h.1
    simp only [leaderOk, leaderOf, if_true, List.getLast?_concat, List.dropLast_concat, Bool.and_eq_true, decide_eq_true_eq,
      List.all_eq_true, List.contains_iff_mem]
    exact ⟨⟨⟨h.2, a⟩, b⟩, c⟩

def sepS (b : Bool) : List Str := if b then [['\n']] else []

mutual
/-- the source lines of one node -/
def write2 : T2 → List Str
  | .para ls => ls
  | .heading _ _ line => [line]
  | .hr line => [line]
  | .quote bare kids => (writes2 kids).map (if bare then qbare else qsp)
  | .list o n mk pad loose items => writeItems o mk pad loose n items
/-- siblings, separated by exactly one "\n" line -/
def writes2 : List T2 → List Str
  | [] => []
  | t :: rest =>
    match rest with
    | [] => write2 t
    | _ :: _ => write2 t ++ ['\n'] :: writes2 rest
/-- the items of a list: the lines of the item's blocks, the first behind the marker and `pad` spaces, the others behind
    as many spaces as that is wide ("\n" lines stay "\n"); in a loose list one "\n" line between consecutive items -/
def writeItems (o : Bool) (mk : Char) (pad : Nat) (loose : Bool) (n : Nat) : List (List T2) → List Str
  | [] => []
  | it :: rest =>
    match rest with
    | [] => indentDoc (leaderOf o n mk) pad (writes2 it)
    | _ :: _ => indentDoc (leaderOf o n mk) pad (writes2 it) ++ (sepS loose ++ writeItems o mk pad loose (n + 1) rest)
end

def isList : T2 → Bool
  | .list .. => true
  | _ => false

/-- a line that may follow the "\n" line after a list: it begins with a character that is not whitespace (so it does
    not continue the last item) and carries no list marker (two lists in a row are excluded) -/
def stopLineB (s : Str) : Bool :=
  (match s with | c :: _ => !pyIsSpace c | [] => false) && (parseMarker s).isNone

/-- what is asked of two consecutive siblings: behind a list no list, and a first line that is a `stopLineB` -/
def sepOk (t t' : T2) : Bool := !isList t || (!isList t' && stopLineB ((write2 t').headD []))

open Mistletoe.Document (joinNl) in
mutual
/-- well-formedness (decidable).  Paragraph, heading, thematic break, quote: as `Compose.T.ok`.  List:
    * 1 ≤ pad ≤ 4; at least one item; every item has at least one block, all well-formed;
    * every marker is a bullet `-`, `+`, `*`, or a number of at most nine digits (< 10⁹) and `.` or `)` (`markerOk`);
    * the lines of an item (`itemDocOk`): the first begins with a character that is not whitespace; every other line is
      "\n" or has a non-whitespace character after its spaces (`ContLine`); marker + first line is not a thematic break
      (`* * *`, `- - -`);
    * `loose` is the looseness the specification assigns: a loose list has two or more items or an item with two or
      more blocks; the items of a tight list have one block each.
    Siblings (`T2.oks`): a list is not followed by a list, and the block that follows a list begins with a
    non-whitespace character and carries no list marker (`sepOk`). -/
def T2.ok : T2 → Bool
  | .para ls => !ls.isEmpty && ls.all (fun l => inertLine l && proseLine l && oneLine l && !l.contains '\t')
      && inertBody (joinNl (ls.map strip))
  | .heading lv t line => !t.isEmpty && inertText t && headLine lv t line && oneLine line && !line.contains '\t'
  | .hr line => hrLine line && oneLine line && !line.contains '\t'
  | .quote bare kids => !kids.isEmpty && T2.oks kids && (!bare || (writes2 kids).all (fun s => s.head? != some ' '))
  | .list o n mk pad loose items =>
    decide (1 ≤ pad) && decide (pad ≤ 4) && !items.isEmpty && T2.okItems o mk pad n items
      && (if loose then decide (2 ≤ items.length) || items.any (fun it => decide (1 < it.length))
          else items.all (fun it => it.length == 1))
def T2.oks : List T2 → Bool
  | [] => true
  | t :: rest => t.ok && T2.oks rest && (match rest with | [] => true | t' :: _ => sepOk t t')
def T2.okItems (o : Bool) (mk : Char) (pad : Nat) (n : Nat) : List (List T2) → Bool
  | [] => true
  | it :: rest => !it.isEmpty && T2.oks it && markerOk o n mk && itemDocOk (writes2 it)
      && !Scan.thematicBreak (leaderOf o n mk ++ List.replicate pad ' ' ++ (writes2 it).headD [])
      && T2.okItems o mk pad (n + 1) rest
end

mutual
/-- the parse-buffer entry expected for a node whose first line is line `n` -/
def entry2 (n : Nat) : T2 → Entry
  | .para ls => .paragraph ls n n
  | .heading lv t line => .heading lv t (closingOf line) n n
  | .hr line => .thematicBreak line n n
  | .quote _ kids => .quote (entries2 n kids) (decide (1 < kids.length)) n n
  | .list o s mk pad loose items => .list (items2 o mk pad loose s n items) n n
def entries2 (n : Nat) : List T2 → List Entry
  | [] => []
  | t :: rest => entry2 n t :: entries2 (n + (write2 t).length + 1) rest
/-- the items: content = the entries of the item's blocks; loose = a "\n" line follows inside the list, or the item has
    more than one block; indentation 0; content offset = marker width + pad; the marker; the line of the marker -/
def items2 (o : Bool) (mk : Char) (pad : Nat) (loose : Bool) (s : Nat) (n : Nat) : List (List T2) → List Item
  | [] => []
  | it :: rest =>
    .mk (entries2 n it) ((loose && !rest.isEmpty) || decide (1 < it.length)) 0 ((leaderOf o s mk).length + pad) (leaderOf o s mk) n n
      :: items2 o mk pad loose (s + 1) (n + (writes2 it).length + (sepS loose).length) rest
end

mutual
/-- a quote occurs among the blocks (at any depth of list nesting): `Quote.read` switches `Paragraph.parse_setext` back on -/
def touch : T2 → Bool
  | .quote _ _ => true
  | .list _ _ _ _ _ items => touchItems items
  | _ => false
def touches : List T2 → Bool
  | [] => false
  | t :: rest => touch t || touches rest
def touchItems : List (List T2) → Bool
  | [] => false
  | it :: rest => touches it || touchItems rest
end

mutual
/-- gas that suffices -/
def need2 : T2 → Nat
  | .para _ => 14
  | .heading _ _ _ => 14
  | .hr _ => 14
  | .quote _ kids => needs2 kids + 6
  | .list _ _ _ _ _ items => needItems items + 12
def needs2 : List T2 → Nat
  | [] => 0
  | t :: rest => need2 t + needs2 rest + 14
def needItems : List (List T2) → Nat
  | [] => 0
  | it :: rest => needs2 it + needItems rest + 1
end


/-! ### `ListItem.read` on a written item -/

/-- a line that may stand behind the "\n" line that follows a list -/
structure StopLine (s : Str) : Prop where
  cont : ∀ W, 1 ≤ W → parseContinuation s W = none
  mark : parseMarker s = none
  nl : NlEnd s

theorem stopLine_of (s : Str) (h : stopLineB s = true) (hl : LineOk s) : StopLine s := by
  simp only [stopLineB, Bool.and_eq_true, Option.isNone_iff_eq_none] at h
  obtain ⟨h1, h2⟩ := h
  refine ⟨?_, h2, lineOk_nlEnd hl⟩
  intro W hW
  cases s with
  | nil => simp at h1
  | cons c r =>
    simp only [Bool.not_eq_eq_eq_not, Bool.not_true] at h1
    exact parseContinuation_lead c r W hW (by rintro rfl; revert h1; decide) (by rintro rfl; revert h1; decide)
      (by rintro rfl; revert h1; decide)

/-- what follows the lines of a list in its buffer: nothing, or a "\n" line and then nothing or a `StopLine` -/
def PostOk (post : List Line) : Prop :=
  post = [] ∨ ∃ nlL rest, post = nlL :: rest ∧ nlL.s = ['\n'] ∧ ∀ s, rest.head? = some s → StopLine s.s

/-- what `itemDocOk` says -/
theorem itemDoc_facts (c0 : Str) (cs : List Str) (h : itemDocOk (c0 :: cs) = true) :
    (∃ ch r0, c0 = ch :: r0 ∧ pyIsSpace ch = false) ∧ (∀ s ∈ cs, s = ['\n'] ∨ ContLine s) ∧ cs.getLast? ≠ some ['\n'] := by
  simp only [itemDocOk, Bool.and_eq_true, List.all_eq_true, Bool.or_eq_true, beq_iff_eq, bne_iff_ne, ne_eq] at h
  obtain ⟨⟨h0, hall⟩, hlast⟩ := h
  refine ⟨?_, ?_, hlast⟩
  · cases c0 with
    | nil => simp at h0
    | cons ch r0 =>
      simp only [Bool.not_eq_eq_eq_not, Bool.not_true] at h0
      exact ⟨ch, r0, rfl, h0⟩
  · intro s hs
    rcases hall s hs with h | h
    · exact Or.inl h
    · exact Or.inr (contLine_of _ h)

theorem numbered_indentDoc (m : Str) (pad : Nat) (c0 : Str) (cs : List Str) (k : Nat) :
    numbered k (indentDoc m pad (c0 :: cs)) =
      markLine m pad { s := c0, origin := k + 1 } :: (numbered (k + 1) cs).map (indentLine (m.length + pad)) := by
  simp only [indentDoc, numbered_cons, Props.C04.numbered_map_indent]
  rfl

theorem numbered_sep_true (k : Nat) : numbered k (sepS true) = [{ s := ['\n'], origin := k + 1 }] := rfl
theorem numbered_sep_false (k : Nat) : numbered k (sepS false) = [] := rfl

theorem trailNl_numbered (k : Nat) (cs : List Str) (h : cs.getLast? ≠ some ['\n']) : trailNl 0 (numbered k cs) = 0 := by
  apply trailNl_zero
  · intro l hl hs
    apply h
    have : (numbered k cs).map (·.s) = cs := numbered_s _ _
    rw [← this, List.getLast?_map, hl, Option.map_some, hs]
  · intro _; rfl

theorem indented_numbered (W k : Nat) (cs : List Str) (h : ∀ s ∈ cs, s = ['\n'] ∨ ContLine s) :
    IndentedAll W ((numbered k cs).map (indentLine W)) (numbered k cs) :=
  indentedAll_map W _ (fun l hl => h _ (numbered_mem k cs l hl))

/-- `ListItem.read` on the last item of a written list -/
theorem item_lines_last (cfg : Cfg) (m : Str) (hm : ListLeader m) (pad : Nat) (h1 : 1 ≤ pad) (h4 : pad ≤ 4)
    (c0 : Str) (cs : List Str) (hdoc : itemDocOk (c0 :: cs) = true)
    (pre post : List Line) (start k : Nat) (hk : start + pre.length = k + 1) (hpost : PostOk post)
    (prev : Option (Nat × Nat × Str × Str)) (hprev : prev = none ∨ prev = some (0, m.length + pad, m, c0)) :
    itemLines cfg ⟨pre ++ numbered k (indentDoc m pad (c0 :: cs)) ++ post, pre.length, start⟩ prev =
      .ok (.lines (numbered k (c0 :: cs)) (k + 1) 0 (m.length + pad) m (k + 1) (k + 1) none
        ⟨pre ++ numbered k (indentDoc m pad (c0 :: cs)) ++ post, pre.length + (cs.length + 1), start⟩) := by
  obtain ⟨⟨ch, r0, rfl, hch⟩, hcont, hlast⟩ := itemDoc_facts c0 cs hdoc
  have hpm : parseMarker (markLine m pad { s := ch :: r0, origin := k + 1 }).s = some (0, m.length + pad, m, ch :: r0) :=
    parseMarker_first m hm pad h1 h4 ch r0 hch
  have hmk : prev = some (0, m.length + pad, m, ch :: r0) ∨
      (prev = none ∧ parseMarker (markLine m pad { s := ch :: r0, origin := k + 1 }).s = some (0, m.length + pad, m, ch :: r0)) := by
    rcases hprev with h | h
    · exact Or.inr ⟨h, hpm⟩
    · exact Or.inl h
  have hnb : isBlank (ch :: r0) = false := by simp [isBlank, hch]
  have hind := indented_numbered (m.length + pad) (k + 1) cs hcont
  have htr := trailNl_numbered (k + 1) cs hlast
  rw [numbered_indentDoc, numbered_cons]
  rcases hpost with rfl | ⟨nlL, rest, rfl, hnl, hstop⟩
  · have := itemLines_core cfg 0 (m.length + pad) m (ch :: r0) (markLine m pad { s := ch :: r0, origin := k + 1 })
      ((numbered (k + 1) cs).map (indentLine (m.length + pad))) (numbered (k + 1) cs) [] pre start prev hmk hnb hind none
      (Or.inl ⟨rfl, rfl, htr⟩)
    simp only [List.append_nil, List.length_map, numbered_length] at this ⊢
    rw [this, hk]
    rfl
  · have := itemLines_trail cfg 0 (m.length + pad) m (ch :: r0) (markLine m pad { s := ch :: r0, origin := k + 1 }) nlL
      ((numbered (k + 1) cs).map (indentLine (m.length + pad))) (numbered (k + 1) cs) rest pre start prev hmk hnb hind htr hnl
      (by
        cases rest with
        | nil => exact Or.inl rfl
        | cons s post' =>
          have hs := hstop s rfl
          exact Or.inr ⟨s, post', rfl, hs.cont _ (by omega), hs.mark, hs.nl⟩)
    simp only [List.length_map, numbered_length, List.append_assoc, List.cons_append] at this ⊢
    rw [this, hk]
    rfl

/-- `ListItem.read` on an item that is followed (in a loose list: after a "\n" line) by the marker line of the next item -/
theorem item_lines_next (cfg : Cfg) (m : Str) (hm : ListLeader m) (pad : Nat) (h1 : 1 ≤ pad) (h4 : pad ≤ 4)
    (c0 : Str) (cs : List Str) (hdoc : itemDocOk (c0 :: cs) = true) (sep : Bool)
    (pre post' : List Line) (l' : Line) (start k : Nat) (hk : start + pre.length = k + 1)
    (mm : Nat × Nat × Str × Str) (hnc : parseContinuation l'.s (m.length + pad) = none) (hpm' : parseMarker l'.s = some mm)
    (hne : NoEarly l'.s)
    (prev : Option (Nat × Nat × Str × Str)) (hprev : prev = none ∨ prev = some (0, m.length + pad, m, c0)) :
    itemLines cfg ⟨pre ++ numbered k (indentDoc m pad (c0 :: cs) ++ sepS sep) ++ l' :: post', pre.length, start⟩ prev =
      .ok (.lines (numbered k (c0 :: cs ++ sepS sep)) (k + 1) 0 (m.length + pad) m (k + 1) (k + 1) (some mm)
        ⟨pre ++ numbered k (indentDoc m pad (c0 :: cs) ++ sepS sep) ++ l' :: post', pre.length + (cs.length + 1 + (sepS sep).length), start⟩) := by
  obtain ⟨⟨ch, r0, rfl, hch⟩, hcont, hlast⟩ := itemDoc_facts c0 cs hdoc
  have hpm : parseMarker (markLine m pad { s := ch :: r0, origin := k + 1 }).s = some (0, m.length + pad, m, ch :: r0) :=
    parseMarker_first m hm pad h1 h4 ch r0 hch
  have hmk : prev = some (0, m.length + pad, m, ch :: r0) ∨
      (prev = none ∧ parseMarker (markLine m pad { s := ch :: r0, origin := k + 1 }).s = some (0, m.length + pad, m, ch :: r0)) := by
    rcases hprev with h | h
    · exact Or.inr ⟨h, hpm⟩
    · exact Or.inl h
  have hnb : isBlank (ch :: r0) = false := by simp [isBlank, hch]
  have hind := indented_numbered (m.length + pad) (k + 1) cs hcont
  have hlen : (indentDoc m pad ((ch :: r0) :: cs)).length = cs.length + 1 := by simp [indentDoc]
  have hsepI : IndentedAll (m.length + pad) (numbered (k + (cs.length + 1)) (sepS sep)) (numbered (k + (cs.length + 1)) (sepS sep)) := by
    cases sep with
    | false => trivial
    | true => exact ⟨indentedAs_nl _ _ rfl, trivial⟩
  have hind2 := indentedAll_append (m.length + pad) _ _ _ _ hind hsepI
  have := itemLines_core cfg 0 (m.length + pad) m (ch :: r0) (markLine m pad { s := ch :: r0, origin := k + 1 })
    ((numbered (k + 1) cs).map (indentLine (m.length + pad)) ++ numbered (k + (cs.length + 1)) (sepS sep))
    (numbered (k + 1) cs ++ numbered (k + (cs.length + 1)) (sepS sep)) (l' :: post') pre start prev hmk hnb hind2 (some mm)
    (Or.inr ⟨l', post', mm, rfl, rfl, hnc, hpm', fun fw hp => anyInterrupt_noEarly cfg fw l' hp hne cfg.types⟩)
  rw [numbered_append, hlen, numbered_indentDoc]
  have e2 : numbered k ((ch :: r0) :: (cs ++ sepS sep)) =
      { s := ch :: r0, origin := k + 1 } :: (numbered (k + 1) cs ++ numbered (k + (cs.length + 1)) (sepS sep)) := by
    rw [numbered_cons, numbered_append]
    have : k + 1 + cs.length = k + (cs.length + 1) := by omega
    rw [this]
  have e3 : cs.length + (sepS sep).length + 1 = cs.length + 1 + (sepS sep).length := by omega
  simp only [List.length_map, numbered_length, List.append_assoc, List.cons_append, List.length_append] at this ⊢
  rw [this, hk, e2, e3]
  rfl

/-! ### `List.read`: one item -/

/-- the last item: no next marker -/
theorem readList_step_stop (cfg : Cfg) (g : Nat) (fw : FW) (st : St) (ld : Option Str) (nm : Option (Nat × Nat × Str × Str))
    (acc : List Item) (buf : List Line) (cs ind W : Nat) (m : Str) (ln og : Nat) (fw' : FW) (b : Buf) (st' : St)
    (hom : otherMarkerType ld nm = false)
    (hil : itemLines cfg fw nm = .ok (.lines buf cs ind W m ln og none fw'))
    (htok : tokenizeBlock cfg g buf cs st = .ok (b, st')) :
    readList cfg (g + 1) fw st ld nm acc =
      .ok (acc.reverse ++ [Item.mk b.entries (decide (b.entries.length > 1) && b.loose) ind W m ln og], fw', st') := by
  simp only [readList, hom, Bool.false_eq_true, ↓reduceIte, hil, htok]
  cases ld <;> simp

/-- an item that is followed by the marker of the next one: `List.read` goes on with the first item's marker as leader -/
theorem readList_step_next (cfg : Cfg) (g : Nat) (fw : FW) (st : St) (ld : Option Str) (nm : Option (Nat × Nat × Str × Str))
    (acc : List Item) (buf : List Line) (cs ind W : Nat) (m : Str) (ln og : Nat) (mm : Nat × Nat × Str × Str) (fw' : FW) (b : Buf) (st' : St)
    (hom : otherMarkerType ld nm = false)
    (hil : itemLines cfg fw nm = .ok (.lines buf cs ind W m ln og (some mm) fw'))
    (htok : tokenizeBlock cfg g buf cs st = .ok (b, st')) :
    readList cfg (g + 1) fw st ld nm acc =
      readList cfg g fw' st' (some (ld.getD m)) (some mm) (Item.mk b.entries b.loose ind W m ln og :: acc) := by
  simp only [readList, hom, Bool.false_eq_true, ↓reduceIte, hil, htok]
  cases ld <;> simp


/-! ### What well-formedness gives -/

theorem oks2_cons (t : T2) (rest : List T2) (h : T2.oks (t :: rest) = true) :
    t.ok = true ∧ T2.oks rest = true ∧ ∀ t' r, rest = t' :: r → sepOk t t' = true := by
  simp only [T2.oks, Bool.and_eq_true] at h
  refine ⟨h.1.1, h.1.2, ?_⟩
  rintro t' r rfl
  exact h.2

theorem okItems_cons (o : Bool) (mk : Char) (pad n : Nat) (it : List T2) (rest : List (List T2))
    (h : T2.okItems o mk pad n (it :: rest) = true) :
    it ≠ [] ∧ T2.oks it = true ∧ leaderOk o (leaderOf o n mk) = true ∧ itemDocOk (writes2 it) = true ∧
    Scan.thematicBreak (leaderOf o n mk ++ List.replicate pad ' ' ++ (writes2 it).headD []) = false ∧
    T2.okItems o mk pad (n + 1) rest = true := by
  simp only [T2.okItems, Bool.and_eq_true, Bool.not_eq_eq_eq_not, Bool.not_true, List.isEmpty_eq_false_iff] at h
  obtain ⟨⟨⟨⟨⟨a, b⟩, c⟩, d⟩, e⟩, f⟩ := h
  exact ⟨a, b, leaderOk_of_marker o n mk c, d, e, f⟩

/-- the facts `T2.ok` packs for a list -/
structure ListOk (o : Bool) (n : Nat) (mk : Char) (pad : Nat) (loose : Bool) (items : List (List T2)) : Prop where
  p1 : 1 ≤ pad
  p4 : pad ≤ 4
  ne : items ≠ []
  its : T2.okItems o mk pad n items = true
  looseC : (if loose then decide (2 ≤ items.length) || items.any (fun it => decide (1 < it.length))
          else items.all (fun it => it.length == 1)) = true
  start : o = true → parseNat (natDigits n) = n

theorem listOk_of (o : Bool) (n : Nat) (mk : Char) (pad : Nat) (loose : Bool) (items : List (List T2))
    (h : (T2.list o n mk pad loose items).ok = true) : ListOk o n mk pad loose items := by
  simp only [T2.ok, Bool.and_eq_true, decide_eq_true_eq, Bool.not_eq_eq_eq_not, Bool.not_true, List.isEmpty_eq_false_iff] at h
  obtain ⟨⟨⟨⟨a, b⟩, c⟩, d⟩, e⟩ := h
  exact ⟨a, b, c, d, e, fun _ => parseNat_natDigits n⟩

/-- the characters of a marker are no line boundaries and no tabs -/
theorem leader_chars (o : Bool) (m : Str) (h : leaderOk o m = true) : ∀ c ∈ m, isLineSep c = false ∧ c ≠ '\t' := by
  cases o with
  | false =>
    simp only [leaderOk, Bool.false_eq_true, if_false, Bool.or_eq_true, beq_iff_eq] at h
    rcases h with (rfl | rfl) | rfl <;> decide
  | true =>
    obtain ⟨d, e, rfl, he, _, _, hd⟩ := leaderOk_ordered m h
    have hdig : ∀ x ∈ asciiDigits, isLineSep x = false ∧ x ≠ '\t' := by decide
    intro c hc
    rcases List.mem_append.mp hc with hc | hc
    · exact hdig c (hd c hc)
    · simp only [List.mem_singleton] at hc
      subst hc
      rcases he with rfl | rfl <;> decide

theorem lineOk_prepend (p s : Str) (hp : ∀ c ∈ p, isLineSep c = false ∧ c ≠ '\t') (h : LineOk s) : LineOk (p ++ s) := by
  obtain ⟨body, rfl, hb, ht⟩ := h
  refine ⟨p ++ body, by simp, ?_, ?_⟩
  · intro c hc
    rcases List.mem_append.mp hc with hc | hc
    · exact (hp c hc).1
    · exact hb c hc
  · intro hc
    rcases List.mem_append.mp hc with hc | hc
    · exact (hp _ hc).2 rfl
    · exact ht hc

theorem spaces_chars (k : Nat) : ∀ c ∈ List.replicate k ' ', isLineSep c = false ∧ c ≠ '\t' := by
  intro c hc
  rw [(List.mem_replicate.mp hc).2]
  decide

theorem indentDoc_lineOk (o : Bool) (m : Str) (hm : leaderOk o m = true) (pad : Nat) (ls : List Str) (h : ∀ s ∈ ls, LineOk s) :
    ∀ s ∈ indentDoc m pad ls, LineOk s := by
  cases ls with
  | nil => simp [indentDoc]
  | cons c0 cs =>
    intro s hs
    simp only [indentDoc, List.mem_cons, List.mem_map] at hs
    rcases hs with rfl | ⟨x, hx, rfl⟩
    · rw [List.append_assoc]
      refine lineOk_prepend _ _ (leader_chars o m hm) (lineOk_prepend _ _ (spaces_chars pad) (h c0 (by simp)))
    · split
      · exact h x (List.mem_cons_of_mem _ hx)
      · exact lineOk_prepend _ _ (spaces_chars _) (h x (List.mem_cons_of_mem _ hx))

theorem indentDoc_ne (m : Str) (pad : Nat) (ls : List Str) (h : ls ≠ []) : indentDoc m pad ls ≠ [] := by
  cases ls with
  | nil => exact absurd rfl h
  | cons a b => simp [indentDoc]

theorem itemDocOk_ne (ls : List Str) (h : itemDocOk ls = true) : ls ≠ [] := by
  rintro rfl; simp [itemDocOk] at h

theorem writeItems_ne (o : Bool) (mk : Char) (pad : Nat) (loose : Bool) (n : Nat) (it : List T2) (rest : List (List T2))
    (h : itemDocOk (writes2 it) = true) : writeItems o mk pad loose n (it :: rest) ≠ [] := by
  have := indentDoc_ne (leaderOf o n mk) pad _ (itemDocOk_ne _ h)
  cases rest with
  | nil => simpa [writeItems] using this
  | cons a b => simp [writeItems, this]

theorem quoteOk2_of (bare : Bool) (kids : List T2) (h : (T2.quote bare kids).ok = true) :
    kids ≠ [] ∧ T2.oks kids = true ∧ (bare = true → ∀ s ∈ writes2 kids, s.head? ≠ some ' ') := by
  simp only [T2.ok, Bool.and_eq_true, Bool.not_eq_eq_eq_not, Bool.not_true, List.isEmpty_eq_false_iff,
    Bool.or_eq_true, List.all_eq_true, bne_iff_ne, ne_eq] at h
  refine ⟨h.1.1, h.1.2, ?_⟩
  intro hb
  rcases h.2 with h2 | h2
  · rw [hb] at h2; cases h2
  · exact h2

theorem writeItems_single (o : Bool) (mk : Char) (pad : Nat) (loose : Bool) (n : Nat) (it : List T2) :
    writeItems o mk pad loose n [it] = indentDoc (leaderOf o n mk) pad (writes2 it) := by simp [writeItems]

theorem writeItems_cons2 (o : Bool) (mk : Char) (pad : Nat) (loose : Bool) (n : Nat) (it it' : List T2) (r : List (List T2)) :
    writeItems o mk pad loose n (it :: it' :: r) =
      indentDoc (leaderOf o n mk) pad (writes2 it) ++ (sepS loose ++ writeItems o mk pad loose (n + 1) (it' :: r)) := by
  simp [writeItems]

theorem writes2_cons2 (t t' : T2) (r : List T2) : writes2 (t :: t' :: r) = write2 t ++ ['\n'] :: writes2 (t' :: r) := by
  simp [writes2]

theorem writes2_single (t : T2) : writes2 [t] = write2 t := by simp [writes2]

mutual
theorem write2_lineOk : ∀ (t : T2), t.ok = true → (∀ s ∈ write2 t, LineOk s) ∧ write2 t ≠ []
  | .para ls, h => by
    have := paraOk_of ls (by simpa [T2.ok, T.ok] using h)
    exact ⟨this.line, this.ne⟩
  | .heading lv t line, h => by
    have := headOk_of lv t line (by simpa [T2.ok, T.ok] using h)
    simp only [write2, List.mem_singleton]
    exact ⟨fun s hs => by rw [hs]; exact this.line, by simp⟩
  | .hr line, h => by
    have := hrOk_of line (by simpa [T2.ok, T.ok] using h)
    simp only [write2, List.mem_singleton]
    exact ⟨fun s hs => by rw [hs]; exact this.2, by simp⟩
  | .quote bare kids, h => by
    obtain ⟨hne, hk, _⟩ := quoteOk2_of bare kids h
    have ih := writes2_lineOk kids hk
    simp only [write2, List.mem_map]
    constructor
    · rintro s ⟨s0, hs0, rfl⟩
      cases bare
      · exact lineOk_qsp (ih.1 s0 hs0)
      · exact lineOk_qbare (ih.1 s0 hs0)
    · simpa using ih.2 hne
  | .list o n mk pad loose items, h => by
    have hl := listOk_of o n mk pad loose items h
    refine ⟨writeItems_lineOk o mk pad loose n items hl.its, ?_⟩
    simp only [write2]
    cases items with
    | nil => exact absurd rfl hl.ne
    | cons it rest => exact writeItems_ne o mk pad loose n it rest (okItems_cons o mk pad n it rest hl.its).2.2.2.1
theorem writes2_lineOk : ∀ (ts : List T2), T2.oks ts = true → (∀ s ∈ writes2 ts, LineOk s) ∧ (ts ≠ [] → writes2 ts ≠ [])
  | [], _ => by simp [writes2]
  | t :: rest, h => by
    obtain ⟨h1, h2, _⟩ := oks2_cons t rest h
    have iht := write2_lineOk t h1
    have ihr := writes2_lineOk rest h2
    cases rest with
    | nil => simpa [writes2] using iht
    | cons t' r =>
      rw [writes2_cons2]
      constructor
      · intro s hs
        rcases List.mem_append.mp hs with hs | hs
        · exact iht.1 s hs
        · rcases List.mem_cons.mp hs with rfl | hs
          · exact lineOk_nl
          · exact ihr.1 s hs
      · intro _; simp
theorem writeItems_lineOk (o : Bool) (mk : Char) (pad : Nat) (loose : Bool) : ∀ (n : Nat) (items : List (List T2)),
    T2.okItems o mk pad n items = true → ∀ s ∈ writeItems o mk pad loose n items, LineOk s
  | _, [], _ => by simp [writeItems]
  | n, it :: rest, h => by
    obtain ⟨_, hit, hlead, _, _, hrest⟩ := okItems_cons o mk pad n it rest h
    have h1 := indentDoc_lineOk o _ hlead pad _ (writes2_lineOk it hit).1
    have h2 := writeItems_lineOk o mk pad loose (n + 1) rest hrest
    cases rest with
    | nil => rw [writeItems_single]; exact h1
    | cons it' r =>
      rw [writeItems_cons2]
      intro s hs
      rcases List.mem_append.mp hs with hs | hs
      · exact h1 s hs
      · rcases List.mem_append.mp hs with hs | hs
        · cases loose with
          | false => simp [sepS] at hs
          | true => simp only [sepS, if_true, List.mem_singleton] at hs; rw [hs]; exact lineOk_nl
        · exact h2 s hs
end


/-! ### The claims -/

/-- one node that is not a list, alone in its buffer -/
def NodeClaim (ti : Bool) (t : T2) : Prop := ∀ (k : Nat) (st : St) (gas : Nat), need2 t ≤ gas →
  tokenizeBlock (dcfg ti) gas (numbered k (write2 t)) (k + 1) st =
    .ok ({ entries := [entry2 (k + 1) t], loose := false }, after st (touch t))

/-- siblings in a buffer of their own, with or without a final "\n" line (the buffer of an item that is not the last
    one of a loose list ends in one) -/
def NodesClaim (ti : Bool) (ts : List T2) : Prop := ∀ (tail : Bool) (k : Nat) (st : St) (gas : Nat), needs2 ts ≤ gas →
  tokenizeBlock (dcfg ti) gas (numbered k (writes2 ts ++ sepS tail)) (k + 1) st =
    .ok ({ entries := entries2 (k + 1) ts, loose := decide (1 < ts.length) || tail }, after st (touches ts))

def firstLine (items : List (List T2)) : Str :=
  match items with
  | it :: _ => (writes2 it).headD []
  | [] => []

/-- `List.read` entered on the first item (no leader, no marker yet), or re-entered on a later item (the first item's
    marker as leader, the marker of this item handed on by the previous `ListItem.read`) -/
def LdNm (o : Bool) (mk : Char) (pad n : Nat) (items : List (List T2)) (ld : Option Str) (nm : Option (Nat × Nat × Str × Str)) : Prop :=
  (ld = none ∧ nm = none) ∨
  (∃ n0, ld = some (leaderOf o n0 mk) ∧ leaderOk o (leaderOf o n0 mk) = true ∧
    nm = some (0, (leaderOf o n mk).length + pad, leaderOf o n mk, firstLine items))

/-- `List.read` over the written items, anywhere in a buffer: `pre` before them, `post` behind them -/
def ItemsClaim (ti : Bool) (o : Bool) (mk : Char) (pad : Nat) (loose : Bool) (n : Nat) (items : List (List T2)) : Prop :=
  ∀ (pre post : List Line) (start k : Nat) (st : St) (gas : Nat) (acc : List Item) ld nm,
    start + pre.length = k + 1 → needItems items ≤ gas → PostOk post → LdNm o mk pad n items ld nm →
    readList (dcfg ti) gas ⟨pre ++ numbered k (writeItems o mk pad loose n items) ++ post, pre.length, start⟩ st ld nm acc =
      .ok (acc.reverse ++ items2 o mk pad loose n (k + 1) items,
           ⟨pre ++ numbered k (writeItems o mk pad loose n items) ++ post,
            pre.length + (writeItems o mk pad loose n items).length, start⟩,
           after st (touchItems items))

theorem after_after (st : St) (a b : Bool) : after (after st a) b = after st (a || b) := by
  simp [after, Bool.or_assoc]

mutual
theorem entry2_shift (j : Nat) : ∀ (n : Nat) (t : T2), shiftEntry j (entry2 n t) = entry2 (n + j) t
  | n, .para ls => by simp [entry2, shiftEntry]
  | n, .heading lv t line => by simp [entry2, shiftEntry]
  | n, .hr line => by simp [entry2, shiftEntry]
  | n, .quote _ kids => by simp [entry2, shiftEntry, entries2_shift j n kids]
  | n, .list o s mk pad loose items => by simp [entry2, shiftEntry, items2_shift j o mk pad loose s n items]
theorem entries2_shift (j : Nat) : ∀ (n : Nat) (ts : List T2), shiftEntries j (entries2 n ts) = entries2 (n + j) ts
  | n, [] => by simp [entries2, shiftEntries]
  | n, t :: rest => by
    simp only [entries2, shiftEntries, entry2_shift j n t, entries2_shift j _ rest]
    congr 2; omega
theorem items2_shift (j : Nat) (o : Bool) (mk : Char) (pad : Nat) (loose : Bool) : ∀ (s n : Nat) (items : List (List T2)),
    shiftItems j (items2 o mk pad loose s n items) = items2 o mk pad loose s (n + j) items
  | s, n, [] => by simp [items2, shiftItems]
  | s, n, it :: rest => by
    simp only [items2, shiftItems, shiftItem, entries2_shift j n it, items2_shift j o mk pad loose _ _ rest]
    congr 2; omega
end

theorem entries2_length (n : Nat) : ∀ (ts : List T2), (entries2 n ts).length = ts.length := by
  intro ts
  induction ts generalizing n with
  | nil => rfl
  | cons t rest ih => simp [entries2, ih]

theorem closed_entry2 (n : Nat) : ∀ (t : T2), isList t = false → closedE (entry2 n t) = true
  | .para _, _ => rfl
  | .heading _ _ _, _ => rfl
  | .hr _, _ => rfl
  | .quote _ _, _ => rfl
  | .list .., h => by simp [isList] at h

theorem writeItems_head (o : Bool) (mk : Char) (pad : Nat) (loose : Bool) (n : Nat) (it : List T2) (rest : List (List T2))
    (c0 : Str) (cs : List Str) (h : writes2 it = c0 :: cs) :
    ∃ tl, writeItems o mk pad loose n (it :: rest) = (leaderOf o n mk ++ List.replicate pad ' ' ++ c0) :: tl := by
  cases rest with
  | nil => rw [writeItems_single, h]; exact ⟨_, rfl⟩
  | cons a b => rw [writeItems_cons2, h]; exact ⟨_, rfl⟩

theorem otherMarker_of_ldnm (o : Bool) (mk : Char) (pad n : Nat) (items : List (List T2)) (ld nm)
    (h : LdNm o mk pad n items ld nm) (hok : leaderOk o (leaderOf o n mk) = true) : otherMarkerType ld nm = false := by
  rcases h with ⟨rfl, _⟩ | ⟨n0, rfl, h0, rfl⟩
  · exact otherMarkerType_none_left _
  · simp only [otherMarkerType, Bool.not_eq_eq_eq_not, Bool.not_false]
    cases o with
    | false => simp [leaderOf, sameMarkerType]
    | true =>
      obtain ⟨d, e, hd, _, h1, _, hdig⟩ := leaderOk_ordered _ h0
      obtain ⟨d', e', hd', _, h1', _, hdig'⟩ := leaderOk_ordered _ hok
      simp only [leaderOf, if_true] at hd hd' ⊢
      have e1 : natDigits n0 = d ∧ mk = e := by
        have := List.append_inj' hd (by simp)
        exact ⟨this.1, by simpa using this.2⟩
      have e2 : natDigits n = d' ∧ mk = e' := by
        have := List.append_inj' hd' (by simp)
        exact ⟨this.1, by simpa using this.2⟩
      have hl : ((natDigits n0 ++ [mk]).length == 1) = false := by
        rw [e1.1]; simp only [List.length_append, List.length_singleton, beq_eq_false_iff_ne, ne_eq]; omega
      simp only [sameMarkerType, hl, Bool.false_eq_true, if_false, List.dropLast_concat, List.getLast?_concat,
        Bool.and_eq_true, List.all_eq_true, Bool.not_eq_eq_eq_not, Bool.not_true, List.isEmpty_eq_false_iff, beq_self_eq_true, and_true]
      rw [e1.1, e2.1]
      refine ⟨⟨⟨?_, ?_⟩, ?_⟩, ?_⟩
      · intro x hx; exact (asciiDigit_facts x (hdig x hx)).1
      · intro x hx; exact (asciiDigit_facts x (hdig' x hx)).1
      · intro e; subst e; simp at h1
      · intro e; subst e; simp at h1'


/-! ### `List.read` over the written items -/

theorem needItems_cons (it : List T2) (rest : List (List T2)) : needItems (it :: rest) = needs2 it + needItems rest + 1 := by
  simp [needItems]

/-- the last item -/
theorem items_last (ti : Bool) (o : Bool) (mk : Char) (pad : Nat) (loose : Bool) (n : Nat) (it : List T2)
    (h1 : 1 ≤ pad) (h4 : pad ≤ 4) (hok : T2.okItems o mk pad n [it] = true) (hN : NodesClaim ti it) :
    ItemsClaim ti o mk pad loose n [it] := by
  intro pre post start k st gas acc ld nm hk hg hpost hln
  obtain ⟨_, _, hlead, hdoc, _, _⟩ := okItems_cons o mk pad n it [] hok
  have hm := listLeader_of o _ hlead
  obtain ⟨c0, cs, hw⟩ : ∃ c0 cs, writes2 it = c0 :: cs := by
    cases hw : writes2 it with
    | nil => rw [hw] at hdoc; simp [itemDocOk] at hdoc
    | cons c0 cs => exact ⟨c0, cs, rfl⟩
  rw [hw] at hdoc
  obtain ⟨g, rfl⟩ : ∃ g, gas = g + 1 := ⟨gas - 1, by rw [needItems_cons] at hg; omega⟩
  have hg' : needs2 it ≤ g := by rw [needItems_cons] at hg; omega
  have hprev : nm = none ∨ nm = some (0, (leaderOf o n mk).length + pad, leaderOf o n mk, c0) := by
    rcases hln with ⟨_, h⟩ | ⟨_, _, _, h⟩
    · exact Or.inl h
    · right; rw [h]; simp [firstLine, hw]
  have hil := item_lines_last (dcfg ti) _ hm pad h1 h4 c0 cs hdoc pre post start k hk hpost nm hprev
  have htok := hN false k st g hg'
  simp only [sepS, Bool.false_eq_true, if_false, List.append_nil, hw] at htok
  have hom := otherMarker_of_ldnm o mk pad n [it] ld nm hln hlead
  rw [writeItems_single, hw]
  rw [readList_step_stop (dcfg ti) g _ st ld nm acc _ _ _ _ _ _ _ _ _ _ hom hil htok]
  simp only [items2, entries2_length, List.isEmpty_nil, Bool.not_true, Bool.and_false, Bool.false_or, Bool.or_false,
    touchItems, gt_iff_lt, Bool.and_self, List.length_cons, indentDoc, List.length_map]

/-- an item and the items behind it -/
theorem items_cons (ti : Bool) (o : Bool) (mk : Char) (pad : Nat) (loose : Bool) (n : Nat) (it it' : List T2) (r : List (List T2))
    (h1 : 1 ≤ pad) (h4 : pad ≤ 4) (hok : T2.okItems o mk pad n (it :: it' :: r) = true) (hN : NodesClaim ti it)
    (hR : ItemsClaim ti o mk pad loose (n + 1) (it' :: r)) :
    ItemsClaim ti o mk pad loose n (it :: it' :: r) := by
  intro pre post start k st gas acc ld nm hk hg hpost hln
  obtain ⟨_, _, hlead, hdoc, _, hok'⟩ := okItems_cons o mk pad n it (it' :: r) hok
  obtain ⟨_, _, hlead', hdoc', htb', _⟩ := okItems_cons o mk pad (n + 1) it' r hok'
  have hm := listLeader_of o _ hlead
  have hm' := listLeader_of o _ hlead'
  obtain ⟨c0, cs, hw⟩ : ∃ c0 cs, writes2 it = c0 :: cs := by
    cases hw : writes2 it with
    | nil => rw [hw] at hdoc; simp [itemDocOk] at hdoc
    | cons c0 cs => exact ⟨c0, cs, rfl⟩
  obtain ⟨c0', cs', hw'⟩ : ∃ c0 cs, writes2 it' = c0 :: cs := by
    cases hw : writes2 it' with
    | nil => rw [hw] at hdoc'; simp [itemDocOk] at hdoc'
    | cons c0 cs => exact ⟨c0, cs, rfl⟩
  rw [hw] at hdoc
  rw [hw'] at hdoc' htb'
  simp only [List.headD_cons] at htb'
  obtain ⟨⟨ch', r0', rfl, hch'⟩, _, _⟩ := itemDoc_facts c0' cs' hdoc'
  obtain ⟨g, rfl⟩ : ∃ g, gas = g + 1 := ⟨gas - 1, by rw [needItems_cons] at hg; omega⟩
  have hg1 : needs2 it ≤ g := by rw [needItems_cons] at hg; omega
  have hg2 : needItems (it' :: r) ≤ g := by rw [needItems_cons] at hg; omega
  have hprev : nm = none ∨ nm = some (0, (leaderOf o n mk).length + pad, leaderOf o n mk, c0) := by
    rcases hln with ⟨_, h⟩ | ⟨_, _, _, h⟩
    · exact Or.inl h
    · right; rw [h]; simp [firstLine, hw]
  -- the lines of the list, split behind the first item
  obtain ⟨tl, htl⟩ := writeItems_head o mk pad loose (n + 1) it' r (ch' :: r0') cs' hw'
  let k2 := k + (cs.length + 1 + (sepS loose).length)
  have hlen : (indentDoc (leaderOf o n mk) pad (c0 :: cs) ++ sepS loose).length = cs.length + 1 + (sepS loose).length := by
    simp [indentDoc]; omega
  have hsplit : numbered k (writeItems o mk pad loose n (it :: it' :: r)) =
      numbered k (indentDoc (leaderOf o n mk) pad (c0 :: cs) ++ sepS loose) ++
        numbered k2 (writeItems o mk pad loose (n + 1) (it' :: r)) := by
    rw [writeItems_cons2, hw, ← List.append_assoc, numbered_append, hlen]
  -- the marker line of the next item
  obtain ⟨c, m'', hmc, hc⟩ := hm'.lead
  let l' : Line := { s := leaderOf o (n + 1) mk ++ List.replicate pad ' ' ++ ch' :: r0', origin := k2 + 1 }
  have hl's : l'.s = c :: (m'' ++ List.replicate pad ' ' ++ ch' :: r0') := by
    show leaderOf o (n + 1) mk ++ List.replicate pad ' ' ++ ch' :: r0' = _
    rw [hmc]; simp
  have hnext : numbered k2 (writeItems o mk pad loose (n + 1) (it' :: r)) = l' :: numbered (k2 + 1) tl := by
    rw [htl, numbered_cons]
  have hnc : parseContinuation l'.s ((leaderOf o n mk).length + pad) = none := by
    rw [hl's]
    exact parseContinuation_lead c _ _ (by omega) hc.n_sp hc.n_tab (by rintro rfl; exact absurd hc.nsp (by decide))
  have hpm' : parseMarker l'.s = some (0, (leaderOf o (n + 1) mk).length + pad, leaderOf o (n + 1) mk, ch' :: r0') :=
    parseMarker_first _ hm' pad h1 h4 ch' r0' hch'
  have hne : NoEarly l'.s := by
    rw [hl's]
    refine lead_noEarly hc _ ?_
    rw [← hl's]
    exact htb'
  have hil := item_lines_next (dcfg ti) _ hm pad h1 h4 c0 cs hdoc loose pre (numbered (k2 + 1) tl ++ post) l' start k hk _ hnc hpm' hne nm hprev
  have htok := hN loose k st g hg1
  rw [hw] at htok
  have hom := otherMarker_of_ldnm o mk pad n (it :: it' :: r) ld nm hln hlead
  have hbuf : pre ++ numbered k (writeItems o mk pad loose n (it :: it' :: r)) ++ post =
      pre ++ numbered k (indentDoc (leaderOf o n mk) pad (c0 :: cs) ++ sepS loose) ++ l' :: (numbered (k2 + 1) tl ++ post) := by
    rw [hsplit, hnext]; simp
  rw [hbuf, readList_step_next (dcfg ti) g _ st ld nm acc _ _ _ _ _ _ _ _ _ _ _ hom hil htok]
  -- the items behind
  have hbuf2 : pre ++ numbered k (indentDoc (leaderOf o n mk) pad (c0 :: cs) ++ sepS loose) ++ l' :: (numbered (k2 + 1) tl ++ post) =
      (pre ++ numbered k (indentDoc (leaderOf o n mk) pad (c0 :: cs) ++ sepS loose)) ++
        numbered k2 (writeItems o mk pad loose (n + 1) (it' :: r)) ++ post := by
    rw [hnext]; simp
  have hpos : pre.length + (cs.length + 1 + (sepS loose).length) =
      (pre ++ numbered k (indentDoc (leaderOf o n mk) pad (c0 :: cs) ++ sepS loose)).length := by
    rw [List.length_append, numbered_length, hlen]
  have hln' : LdNm o mk pad (n + 1) (it' :: r) (some (ld.getD (leaderOf o n mk)))
      (some (0, (leaderOf o (n + 1) mk).length + pad, leaderOf o (n + 1) mk, ch' :: r0')) := by
    right
    rcases hln with ⟨rfl, _⟩ | ⟨n0, rfl, h0, _⟩
    · exact ⟨n, rfl, hlead, by simp [firstLine, hw']⟩
    · exact ⟨n0, rfl, h0, by simp [firstLine, hw']⟩
  rw [hbuf2, hpos]
  rw [hR _ post start k2 _ g _ _ _ (by rw [← hpos]; omega) hg2 hpost hln']
  simp only [items2, hw, List.length_cons, touchItems, after_after, List.isEmpty_cons, Bool.not_false, Bool.and_true,
    List.reverse_cons, List.append_assoc, List.singleton_append, List.length_append, numbered_length, hlen]
  have e1 : k2 + 1 = k + 1 + (cs.length + 1) + (sepS loose).length := by show k + _ + 1 = _; omega
  have e2 : (writeItems o mk pad loose n (it :: it' :: r)).length =
      cs.length + 1 + (sepS loose).length + (writeItems o mk pad loose (n + 1) (it' :: r)).length := by
    rw [writeItems_cons2, hw, ← List.append_assoc, List.length_append, hlen]
  rw [e1, e2, Bool.or_comm (decide (1 < it.length)) loose]
  simp only [← Nat.add_assoc, hnext, List.cons_append]


/-! ### Nodes that are not lists -/

theorem needs2_cons (t : T2) (rest : List T2) : needs2 (t :: rest) = need2 t + needs2 rest + 14 := by simp [needs2]

theorem node_para (ti : Bool) (ls : List Str) (h : (T2.para ls).ok = true) : NodeClaim ti (.para ls) := by
  intro k st gas hg
  have hp := paraOk_of ls (by simpa [T2.ok, T.ok] using h)
  obtain ⟨l0, tl, hl, ho⟩ := numbered_ne k ls hp.ne
  have hs : (l0 :: tl).map (·.s) = ls := by rw [← hl]; exact numbered_s k ls
  obtain ⟨g, rfl⟩ : ∃ g, gas = g + 14 := ⟨gas - 14, by simp only [need2] at hg; omega⟩
  have := Props.C14.C14_single_paragraph_default ti l0 tl
    (fun l hm => hp.inert _ (numbered_mem k ls l (by rw [hl]; exact hm))) (k + 1) st g
  simp only [write2, touch, after_false, entry2, hl]
  rw [hs, ho] at this
  exact this

theorem node_heading (ti : Bool) (lv : Nat) (t line : Str) (h : (T2.heading lv t line).ok = true) : NodeClaim ti (.heading lv t line) := by
  intro k st gas hg
  have hh := headOk_of lv t line (by simpa [T2.ok, T.ok] using h)
  obtain ⟨g, rfl⟩ : ∃ g, gas = g + 6 := ⟨gas - 6, by simp only [need2] at hg; omega⟩
  have := tokenize_heading ti lv t line hh.head (k + 1) (k + 1) st g
  simp only [write2, touch, after_false, entry2, numbered_cons, show numbered (k + 1) [] = [] from rfl]
  exact this

theorem node_hr (ti : Bool) (line : Str) (h : (T2.hr line).ok = true) : NodeClaim ti (.hr line) := by
  intro k st gas hg
  have hh := hrOk_of line (by simpa [T2.ok, T.ok] using h)
  obtain ⟨g, rfl⟩ : ∃ g, gas = g + 9 := ⟨gas - 9, by simp only [need2] at hg; omega⟩
  have := tokenize_hr ti line hh.1 (k + 1) (k + 1) st g
  simp only [write2, touch, after_false, entry2, numbered_cons, show numbered (k + 1) [] = [] from rfl]
  exact this

theorem node_quote (ti : Bool) (bare : Bool) (kids : List T2) (h : (T2.quote bare kids).ok = true) (hN : NodesClaim ti kids) :
    NodeClaim ti (.quote bare kids) := by
  intro k st gas hg
  obtain ⟨hne, hk, hbare⟩ := quoteOk2_of bare kids h
  obtain ⟨g, rfl⟩ : ∃ g, gas = g + 6 := ⟨gas - 6, by simp only [need2] at hg; omega⟩
  have hg' : needs2 kids ≤ g := by simp only [need2] at hg; omega
  have ih := hN false k { st with setext := false } g hg'
  simp only [sepS, Bool.false_eq_true, if_false, List.append_nil, Bool.or_false] at ih
  have hw := writes2_lineOk kids hk
  obtain ⟨l0, tl, hl, ho⟩ := numbered_ne k (writes2 kids) (hw.2 hne)
  rw [hl] at ih
  simp only [write2, touch, entry2]
  have hmem : ∀ l ∈ l0 :: tl, l.s ∈ writes2 kids := fun l hm => numbered_mem k _ l (by rw [hl]; exact hm)
  cases bare with
  | false =>
    have := Props.C04.C04_quote_wraps_default ti l0 tl
      (fun l hm => lineOk_notab (hw.1 _ (hmem l hm))) (k + 1) st _ g _ ih
    have e1 : numbered k ((writes2 kids).map qsp) = (l0 :: tl).map quoteSp := by
      rw [← hl]; exact Props.C04.numbered_map_sp k (writes2 kids)
    simp only [Bool.false_eq_true, if_false]
    rw [e1]
    refine Eq.trans this ?_
    rw [ho]
    simp [after]
  | true =>
    have := Props.C04.C04_quote_wraps_bare (dcfg ti) [.htmlBlock, .blockCode, .heading]
      [.codeFence, .thematicBreak, .list, .table, .footnote, .paragraph] rfl (by decide) (by decide) l0 tl
      (fun l hm => ⟨lineOk_notab (hw.1 _ (hmem l hm)), by
        have hne' := lineOk_ne (hw.1 _ (hmem l hm))
        have hsp := hbare rfl _ (hmem l hm)
        cases hs : l.s with
        | nil => exact absurd hs hne'
        | cons c r =>
          refine ⟨c, r, rfl, ?_⟩
          intro e; rw [hs, e] at hsp; exact hsp rfl⟩)
      (k + 1) st _ g _ ih
    have e1 : numbered k ((writes2 kids).map qbare) = (l0 :: tl).map quoteBare := by
      rw [← hl]; exact Props.C04.numbered_map_bare k (writes2 kids)
    simp only [if_true]
    rw [e1]
    refine Eq.trans this ?_
    rw [ho]
    simp [after]

theorem lines_ok_tail (ts : List T2) (h : T2.oks ts = true) (tail : Bool) : ∀ s ∈ writes2 ts ++ sepS tail, LineOk s := by
  intro s hs
  rcases List.mem_append.mp hs with hs | hs
  · exact (writes2_lineOk ts h).1 s hs
  · cases tail with
    | false => simp [sepS] at hs
    | true => simp only [sepS, if_true, List.mem_singleton] at hs; rw [hs]; exact lineOk_nl

theorem dcfg_noBlank (ti : Bool) : BTok.blankLine ∉ (dcfg ti).types := by
  show BTok.blankLine ∉ defaultTypes
  decide

theorem dcfg_len (ti : Bool) : (dcfg ti).types.length = 10 := rfl

/-- a node that is not a list, alone or before a final "\n" line -/
theorem nodes_single_closed (ti : Bool) (t : T2) (hok : t.ok = true) (hnl : isList t = false) (hT : NodeClaim ti t) :
    NodesClaim ti [t] := by
  intro tail k st gas hg
  rw [needs2_cons] at hg
  cases tail with
  | false =>
    have := hT k st gas (by omega)
    simpa [sepS, writes2_single, entries2, touches] using this
  | true =>
    have hA := hT k st (need2 t) (Nat.le_refl _)
    have hw := write2_lineOk t hok
    obtain ⟨g', hg', heq⟩ := tokenizeBlock_prefix_lists (dcfg ti) (dcfg_noBlank ti) (numbered k (write2 t))
      { s := ['\n'], origin := k + (write2 t).length + 1 } rfl [] (k + 1) st (need2 t) _ _ hA
      (by intro e he; simp only [List.getLast?_singleton, Option.some.injEq] at he; subst he; exact closed_entry2 _ t hnl)
      (numbered_allNlEnd k _ hw.1) 11 (by rw [dcfg_len]; omega)
    obtain ⟨g'', rfl⟩ : ∃ g'', g' = g'' + 1 := ⟨g' - 1, by omega⟩
    have hend : FW.peek ⟨numbered k (write2 t) ++ [{ s := ['\n'], origin := k + (write2 t).length + 1 }],
        (numbered k (write2 t)).length + 1, k + 1⟩ = none := by
      have := peek_end (numbered k (write2 t) ++ [{ s := ['\n'], origin := k + (write2 t).length + 1 }]) (k + 1)
      simpa using this
    simp only [tokLoop, hend] at heq
    have hbuf : numbered k (writes2 [t] ++ sepS true) =
        numbered k (write2 t) ++ [{ s := ['\n'], origin := k + (write2 t).length + 1 }] := by
      rw [writes2_single, numbered_append]; rfl
    rw [hbuf]
    refine tokenizeBlock_mono (dcfg ti) _ _ _ _ (need2 t + 11) gas (by omega) ?_
    rw [heq]
    simp [entries2, touches]


theorem buf_cons2 (t t' : T2) (r : List T2) (tail : Bool) (k : Nat) :
    numbered k (writes2 (t :: t' :: r) ++ sepS tail) =
      numbered k (write2 t) ++ { s := ['\n'], origin := k + (write2 t).length + 1 } ::
        (numbered k (writes2 (t' :: r) ++ sepS tail)).map (Line.sh ((numbered k (write2 t)).length + 1)) := by
  rw [writes2_cons2, List.append_assoc, numbered_append, List.cons_append, numbered_cons, numbered_length, ← numbered_sh]
  have : k + (write2 t).length + 1 = k + ((write2 t).length + 1) := by omega
  rw [this]

/-- a node that is not a list, a "\n" line, further siblings: C05 -/
theorem nodes_cons_closed (ti : Bool) (t t' : T2) (r : List T2) (hok : T2.oks (t :: t' :: r) = true) (hnl : isList t = false)
    (hT : NodeClaim ti t) (hR : NodesClaim ti (t' :: r)) : NodesClaim ti (t :: t' :: r) := by
  intro tail k st gas hg
  rw [needs2_cons] at hg
  obtain ⟨h1, h2, _⟩ := oks2_cons t (t' :: r) hok
  have hA := hT k st (need2 t) (Nat.le_refl _)
  have hB := hR tail k (after st (touch t)) (gas - need2 t - 11) (by omega)
  have hwt := write2_lineOk t h1
  have key := tokenizeBlock_concat_lists (dcfg ti) (dcfg_noBlank ti) (numbered k (write2 t))
    (numbered k (writes2 (t' :: r) ++ sepS tail)) { s := ['\n'], origin := k + (write2 t).length + 1 } rfl (k + 1) st
    (need2 t) (gas - need2 t - 11) _ _ _ _ hA
    (by intro e he; simp only [List.getLast?_singleton, Option.some.injEq] at he; subst he; exact closed_entry2 _ t hnl)
    hB (numbered_allNlEnd k _ hwt.1) (numbered_allNlEnd k _ (lines_ok_tail _ h2 tail))
  have hgas : gas = need2 t + (gas - need2 t - 11 + (dcfg ti).types.length + 1) := by rw [dcfg_len]; omega
  rw [buf_cons2, hgas, key, numbered_length, entries2_shift]
  have e3 : k + 1 + ((write2 t).length + 1) = k + 1 + (write2 t).length + 1 := by omega
  simp only [List.singleton_append, entries2, e3, List.length_cons, touches, after_after]
  have hl : decide (1 < r.length + 1 + 1) = true := by simp
  rw [hl]
  simp


/-! ### Lists among the siblings -/

/-- the dispatch loop on the first line of a written list, `post` behind the list: one `List` entry, the cursor on the
    line behind the list -/
theorem list_then (ti : Bool) (o : Bool) (n : Nat) (mk : Char) (pad : Nat) (loose : Bool) (items : List (List T2))
    (hok : (T2.list o n mk pad loose items).ok = true) (hI : ItemsClaim ti o mk pad loose n items)
    (post : List Line) (hpost : PostOk post) (k : Nat) (st : St) (g : Nat) (hg : needItems items ≤ g)
    (acc : List Entry) (lo : Bool) :
    tokLoop (dcfg ti) (g + 8) ⟨numbered k (write2 (.list o n mk pad loose items)) ++ post, 0, k + 1⟩ st acc lo =
      tokLoop (dcfg ti) (g + 7)
        ⟨numbered k (write2 (.list o n mk pad loose items)) ++ post, (write2 (.list o n mk pad loose items)).length, k + 1⟩
        (after st (touch (.list o n mk pad loose items))) (entry2 (k + 1) (.list o n mk pad loose items) :: acc) lo := by
  have hl := listOk_of o n mk pad loose items hok
  cases items with
  | nil => exact absurd rfl hl.ne
  | cons it rest =>
    obtain ⟨_, _, hlead, hdoc, htb, _⟩ := okItems_cons o mk pad n it rest hl.its
    have hm := listLeader_of o _ hlead
    obtain ⟨c0, cs, hw⟩ : ∃ c0 cs, writes2 it = c0 :: cs := by
      cases hw : writes2 it with
      | nil => rw [hw] at hdoc; simp [itemDocOk] at hdoc
      | cons c0 cs => exact ⟨c0, cs, rfl⟩
    rw [hw] at htb
    simp only [List.headD_cons] at htb
    obtain ⟨tl, htl⟩ := writeItems_head o mk pad loose n it rest c0 cs hw
    obtain ⟨c, m'', hmc, hc⟩ := hm.lead
    have hrl := hI [] post (k + 1) k st g [] none none (by simp) hg hpost (Or.inl ⟨rfl, rfl⟩)
    simp only [List.nil_append, List.length_nil, Nat.zero_add, List.reverse_nil] at hrl
    simp only [write2, touch, entry2]
    generalize hL : writeItems o mk pad loose n (it :: rest) = L at hrl htl ⊢
    subst htl
    rw [numbered_cons] at hrl ⊢
    have hls : ({ s := leaderOf o n mk ++ List.replicate pad ' ' ++ c0, origin := k + 1 } : Line).s =
        c :: (m'' ++ List.replicate pad ' ' ++ c0) := by
      show leaderOf o n mk ++ List.replicate pad ' ' ++ c0 = _
      rw [hmc]; simp
    have hp := peek_at [] { s := leaderOf o n mk ++ List.replicate pad ' ' ++ c0, origin := k + 1 } (numbered (k + 1) tl ++ post) (k + 1)
    simp only [List.nil_append, List.length_nil] at hp
    have hty := tryTypes_lead (dcfg ti)
      ⟨{ s := leaderOf o n mk ++ List.replicate pad ' ' ++ c0, origin := k + 1 } :: (numbered (k + 1) tl ++ post), 0, k + 1⟩ st
      _ c _ hls hc htb [.table, .footnote, .paragraph] g [.htmlBlock, .blockCode, .heading, .quote, .codeFence, .thematicBreak]
      (by decide) (by decide) (by decide)
    have hstart : listStart (leaderOf o n mk ++ List.replicate pad ' ' ++ c0) = true := listStart_first _ hm pad hl.p1 _
    have e : g + 8 = (g + 7) + 1 := by omega
    rw [e]
    generalize hG : g + 7 = G
    simp only [tokLoop, List.cons_append, hp]
    subst hG
    have hty' : (dcfg ti).types = [.htmlBlock, .blockCode, .heading, .quote, .codeFence, .thematicBreak] ++ .list :: [.table, .footnote, .paragraph] := rfl
    rw [hty']
    simp only [List.length_cons, List.length_nil, Nat.zero_add] at hty
    have e2 : g + 7 = g + 1 + (1 + 1 + 1 + 1 + 1 + 1) := by omega
    rw [e2, hty]
    simp only [tryTypes, hstart, if_true]
    simp only [List.cons_append] at hrl
    rw [hrl]


theorem need2_list (o : Bool) (n : Nat) (mk : Char) (pad : Nat) (loose : Bool) (items : List (List T2)) :
    need2 (.list o n mk pad loose items) = needItems items + 12 := by simp [need2]

/-- a list alone in its buffer, or before a final "\n" line -/
theorem nodes_single_list (ti : Bool) (o : Bool) (n : Nat) (mk : Char) (pad : Nat) (loose : Bool) (items : List (List T2))
    (hok : (T2.list o n mk pad loose items).ok = true) (hI : ItemsClaim ti o mk pad loose n items) :
    NodesClaim ti [.list o n mk pad loose items] := by
  intro tail k st gas hg
  rw [needs2_cons, need2_list] at hg
  obtain ⟨g, rfl⟩ : ∃ g, gas = (g + 8) + 1 := ⟨gas - 9, by omega⟩
  have hgi : needItems items ≤ g := by simp only [needs2] at hg; omega
  rw [writes2_single, numbered_append]
  simp only [tokenizeBlock]
  cases tail with
  | false =>
    have := list_then ti o n mk pad loose items hok hI [] (Or.inl rfl) k st g hgi [] false
    simp only [sepS, Bool.false_eq_true, if_false, show ∀ j, numbered j ([] : List Str) = [] from fun _ => rfl]
    rw [this]
    have hend := peek_end (numbered k (write2 (.list o n mk pad loose items)) ++ []) (k + 1)
    simp only [List.length_append, numbered_length, List.length_nil, Nat.add_zero] at hend
    have e : g + 7 = (g + 6) + 1 := by omega
    rw [e]
    simp only [tokLoop, hend]
    simp [entries2, touches]
  | true =>
    have hpost : PostOk [{ s := ['\n'], origin := k + (write2 (.list o n mk pad loose items)).length + 1 }] :=
      Or.inr ⟨_, [], rfl, rfl, by simp⟩
    have := list_then ti o n mk pad loose items hok hI _ hpost k st g hgi [] false
    simp only [sepS, if_true, numbered_cons, show ∀ j, numbered j ([] : List Str) = [] from fun _ => rfl]
    rw [this]
    have hp := peek_at (numbered k (write2 (.list o n mk pad loose items)))
      { s := ['\n'], origin := k + (write2 (.list o n mk pad loose items)).length + 1 } [] (k + 1)
    rw [numbered_length] at hp
    have e : g + 7 = (g + 6) + 1 := by omega
    rw [e]
    generalize hG : g + 6 = G
    simp only [tokLoop, hp]
    rw [tryTypes_nl_none (dcfg ti) _ _ _ rfl _ G (dcfg_noBlank ti) (by rw [dcfg_len]; omega)]
    simp only
    obtain ⟨G', rfl⟩ : ∃ G', G = G' + 1 := ⟨G - 1, by omega⟩
    have hend := peek_end (numbered k (write2 (.list o n mk pad loose items)) ++
      [{ s := ['\n'], origin := k + (write2 (.list o n mk pad loose items)).length + 1 }]) (k + 1)
    simp only [List.length_append, numbered_length, List.length_singleton] at hend
    simp only [tokLoop, FW.next, hend]
    simp [entries2, touches]


/-- a list, a "\n" line, further siblings: `ListItem.read` steps back onto the "\n" line, the dispatcher goes on behind it -/
theorem nodes_cons_list (ti : Bool) (o : Bool) (n : Nat) (mk : Char) (pad : Nat) (loose : Bool) (items : List (List T2))
    (t' : T2) (r : List T2) (hok : T2.oks (.list o n mk pad loose items :: t' :: r) = true)
    (hI : ItemsClaim ti o mk pad loose n items) (hR : NodesClaim ti (t' :: r)) :
    NodesClaim ti (.list o n mk pad loose items :: t' :: r) := by
  intro tail k st gas hg
  obtain ⟨h1, h2, hsep⟩ := oks2_cons _ (t' :: r) hok
  have hsep' := hsep t' r rfl
  rw [needs2_cons, need2_list] at hg
  obtain ⟨g, rfl⟩ : ∃ g, gas = (g + 8) + 1 := ⟨gas - 9, by omega⟩
  have hgi : needItems items ≤ g := by omega
  have hgr : needs2 (t' :: r) ≤ g + 7 := by omega
  generalize ht : T2.list o n mk pad loose items = t at *
  -- the first line of the next sibling
  obtain ⟨h1', _, _⟩ := oks2_cons t' r h2
  have hw' := write2_lineOk t' h1'
  obtain ⟨s0, ss, hs0⟩ : ∃ s0 ss, write2 t' = s0 :: ss := by
    cases hh : write2 t' with
    | nil => exact absurd hh hw'.2
    | cons a b => exact ⟨a, b, rfl⟩
  have hstop : StopLine s0 := by
    subst ht
    simp only [sepOk, isList, Bool.not_true, Bool.false_or, Bool.and_eq_true, hs0, List.headD_cons] at hsep'
    exact stopLine_of s0 hsep'.2 (hw'.1 s0 (by rw [hs0]; simp))
  have hhead : ∃ ss', writes2 (t' :: r) ++ sepS tail = s0 :: ss' := by
    cases r with
    | nil => rw [writes2_single, hs0]; exact ⟨_, rfl⟩
    | cons a b => rw [writes2_cons2, hs0]; exact ⟨_, rfl⟩
  obtain ⟨ss', hss'⟩ := hhead
  have hpost : PostOk ({ s := ['\n'], origin := k + (write2 t).length + 1 } ::
      (numbered k (writes2 (t' :: r) ++ sepS tail)).map (Line.sh ((numbered k (write2 t)).length + 1))) := by
    refine Or.inr ⟨_, _, rfl, rfl, ?_⟩
    intro s hs
    rw [hss', numbered_cons] at hs
    simp only [List.map_cons, List.head?_cons, Option.some.injEq] at hs
    subst hs
    exact hstop
  have hlt := list_then ti o n mk pad loose items (by rw [ht]; exact h1) hI _ hpost k st g hgi [] false
  rw [ht] at hlt
  rw [buf_cons2]
  simp only [tokenizeBlock]
  rw [hlt]
  have hp := peek_at (numbered k (write2 t)) { s := ['\n'], origin := k + (write2 t).length + 1 }
    ((numbered k (writes2 (t' :: r) ++ sepS tail)).map (Line.sh ((numbered k (write2 t)).length + 1))) (k + 1)
  have e : g + 7 = (g + 6) + 1 := by omega
  rw [e]
  generalize hG : g + 6 = G
  rw [numbered_length] at hp ⊢
  simp only [tokLoop, hp]
  rw [tryTypes_nl_none (dcfg ti) _ _ _ rfl _ G (dcfg_noBlank ti) (by rw [dcfg_len]; omega)]
  simp only
  -- behind the "\n" line: the siblings, in a buffer of their own
  have hB := hR tail k (after st (touch t)) (G + 1) (by omega)
  have hnlB : AllNlEnd (numbered k (writes2 (t' :: r) ++ sepS tail)) := numbered_allNlEnd k _ (lines_ok_tail _ h2 tail)
  have hsh := tokLoop_suffix_shift (dcfg ti) G (numbered k (write2 t) ++ [{ s := ['\n'], origin := k + (write2 t).length + 1 }])
    (numbered k (writes2 (t' :: r) ++ sepS tail)) (k + 1) (after st (touch t)) [entry2 (k + 1) t] true hnlB
  simp only [List.length_append, numbered_length, List.length_singleton, List.append_assoc, List.singleton_append] at hsh
  simp only [FW.next]
  rw [hsh, hB]
  simp only [rmap_ok, shB, withAcc]
  rw [entries2_shift]
  have e3 : k + 1 + ((write2 t).length + 1) = k + 1 + (write2 t).length + 1 := by omega
  rw [e3]
  have hl : decide (1 < (t :: t' :: r).length) = true := by simp
  rw [hl]
  simp only [entries2, touches, after_after, List.reverse_singleton, List.singleton_append, Bool.true_or]


/-! ### The induction over the tree -/

theorem nodes_step_closed (ti : Bool) (t : T2) (rest : List T2) (hok : T2.oks (t :: rest) = true) (hnl : isList t = false)
    (hT : NodeClaim ti t) (hR : rest ≠ [] → NodesClaim ti rest) : NodesClaim ti (t :: rest) := by
  cases rest with
  | nil => exact nodes_single_closed ti t (oks2_cons t [] hok).1 hnl hT
  | cons t' r => exact nodes_cons_closed ti t t' r hok hnl hT (hR (by simp))

theorem nodes_step_list (ti : Bool) (o : Bool) (n : Nat) (mk : Char) (pad : Nat) (loose : Bool) (items : List (List T2))
    (rest : List T2) (hok : T2.oks (.list o n mk pad loose items :: rest) = true)
    (hI : ItemsClaim ti o mk pad loose n items) (hR : rest ≠ [] → NodesClaim ti rest) :
    NodesClaim ti (.list o n mk pad loose items :: rest) := by
  cases rest with
  | nil => exact nodes_single_list ti o n mk pad loose items (oks2_cons _ [] hok).1 hI
  | cons t' r => exact nodes_cons_list ti o n mk pad loose items t' r hok hI (hR (by simp))

theorem items_step (ti : Bool) (o : Bool) (mk : Char) (pad : Nat) (loose : Bool) (n : Nat) (it : List T2) (rest : List (List T2))
    (h1 : 1 ≤ pad) (h4 : pad ≤ 4) (hok : T2.okItems o mk pad n (it :: rest) = true) (hN : NodesClaim ti it)
    (hR : rest ≠ [] → ItemsClaim ti o mk pad loose (n + 1) rest) : ItemsClaim ti o mk pad loose n (it :: rest) := by
  cases rest with
  | nil => exact items_last ti o mk pad loose n it h1 h4 hok hN
  | cons it' r => exact items_cons ti o mk pad loose n it it' r h1 h4 hok hN (hR (by simp))

mutual
/-- **siblings** (any nodes of the fragment), in a buffer of their own -/
theorem nodes_claim (ti : Bool) : ∀ (ts : List T2), T2.oks ts = true → ts ≠ [] → NodesClaim ti ts
  | [], _, hne => absurd rfl hne
  | .para ls :: rest, h, _ =>
    nodes_step_closed ti _ rest h rfl (node_para ti ls (oks2_cons _ _ h).1)
      (fun hne => nodes_claim ti rest (oks2_cons _ _ h).2.1 hne)
  | .heading lv t line :: rest, h, _ =>
    nodes_step_closed ti _ rest h rfl (node_heading ti lv t line (oks2_cons _ _ h).1)
      (fun hne => nodes_claim ti rest (oks2_cons _ _ h).2.1 hne)
  | .hr line :: rest, h, _ =>
    nodes_step_closed ti _ rest h rfl (node_hr ti line (oks2_cons _ _ h).1)
      (fun hne => nodes_claim ti rest (oks2_cons _ _ h).2.1 hne)
  | .quote bare kids :: rest, h, _ =>
    nodes_step_closed ti _ rest h rfl
      (node_quote ti bare kids (oks2_cons _ _ h).1
        (nodes_claim ti kids (quoteOk2_of bare kids (oks2_cons _ _ h).1).2.1 (quoteOk2_of bare kids (oks2_cons _ _ h).1).1))
      (fun hne => nodes_claim ti rest (oks2_cons _ _ h).2.1 hne)
  | .list o n mk pad loose items :: rest, h, _ =>
    have hl := listOk_of o n mk pad loose items (oks2_cons _ _ h).1
    nodes_step_list ti o n mk pad loose items rest h
      (items_claim ti o mk pad loose hl.p1 hl.p4 n items hl.its hl.ne)
      (fun hne => nodes_claim ti rest (oks2_cons _ _ h).2.1 hne)
/-- **the items of a list**, anywhere in a buffer -/
theorem items_claim (ti : Bool) (o : Bool) (mk : Char) (pad : Nat) (loose : Bool) (h1 : 1 ≤ pad) (h4 : pad ≤ 4) :
    ∀ (n : Nat) (items : List (List T2)), T2.okItems o mk pad n items = true → items ≠ [] → ItemsClaim ti o mk pad loose n items
  | _, [], _, hne => absurd rfl hne
  | n, it :: rest, h, _ =>
    items_step ti o mk pad loose n it rest h1 h4 h
      (nodes_claim ti it (okItems_cons o mk pad n it rest h).2.1 (okItems_cons o mk pad n it rest h).1)
      (fun hne => items_claim ti o mk pad loose h1 h4 (n + 1) rest (okItems_cons o mk pad n it rest h).2.2.2.2.2 hne)
end

/-- **the block phase of a written document** -/
theorem blockPhase_writes2 (ti : Bool) (ts : List T2) (h : T2.oks ts = true) (hne : ts ≠ []) (gas : Nat) (hg : needs2 ts ≤ gas) :
    blockPhase (dcfg ti) gas (writes2 ts) =
      .ok ({ entries := entries2 1 ts, loose := decide (1 < ts.length) }, {}) := by
  have e : blockPhase (dcfg ti) gas (writes2 ts) = tokenizeBlock (dcfg ti) gas (numbered 0 (writes2 ts)) 1 {} := rfl
  rw [e]
  have := nodes_claim ti ts h hne false 0 {} gas hg
  simp only [sepS, Bool.false_eq_true, if_false, List.append_nil, Nat.zero_add, Bool.or_false] at this
  rw [this]
  simp [after]

end Mistletoe.ComposeL
