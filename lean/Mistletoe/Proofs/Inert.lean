/-
  Lemmas for C14: lines on which no block-start pattern fires ("quiet" lines) are passed over by
  every token type before `Paragraph`, never interrupt a paragraph, and so a run of them forms one
  paragraph.  Also: a line that begins (after at most three spaces) with a character that no block
  pattern can begin with is quiet.
-/
import Mistletoe.Proofs.Block
namespace Mistletoe.Block
open Mistletoe Mistletoe.Py Mistletoe.Scan

def plainStart (c : Char) : Bool :=
  !pyIsSpace c && !isDigit c && c != ' ' && c != '\t' && c != '\n' && c != '#' && c != '>' && c != '`' && c != '~'
  && c != '-' && c != '_' && c != '*' && c != '+' && c != '=' && c != '<' && c != '[' && c != '|' && c != ':'

structure PlainChar (c : Char) : Prop where
  nsp : pyIsSpace c = false
  ndig : isDigit c = false
  n_sp : c ≠ ' '
  n_tab : c ≠ '\t'
  n_nl : c ≠ '\n'
  n_hash : c ≠ '#'
  n_gt : c ≠ '>'
  n_bt : c ≠ '`'
  n_tilde : c ≠ '~'
  n_dash : c ≠ '-'
  n_us : c ≠ '_'
  n_star : c ≠ '*'
  n_plus : c ≠ '+'
  n_eq : c ≠ '='
  n_lt : c ≠ '<'
  n_lb : c ≠ '['
  n_bar : c ≠ '|'
  n_colon : c ≠ ':'

theorem plainChar_of (c : Char) (hp : plainStart c = true) : PlainChar c := by
  simp only [plainStart, Bool.and_eq_true, Bool.not_eq_eq_eq_not, Bool.not_true, bne_iff_ne, ne_eq] at hp
  obtain ⟨⟨⟨⟨⟨⟨⟨⟨⟨⟨⟨⟨⟨⟨⟨⟨⟨h1, h2⟩, h3⟩, h4⟩, h5⟩, h6⟩, h7⟩, h8⟩, h9⟩, h10⟩, h11⟩, h12⟩, h13⟩, h14⟩, h15⟩, h16⟩, h17⟩, h18⟩ := hp
  exact ⟨h1, h2, h3, h4, h5, h6, h7, h8, h9, h10, h11, h12, h13, h14, h15, h16, h17, h18⟩

theorem countLeading_rep (n : Nat) (c : Char) (rest : Str) (hc : c ≠ ' ') :
    countLeading ' ' (List.replicate n ' ' ++ c :: rest) = n := by
  induction n with
  | zero => simp [countLeading, hc]
  | succ k ih => simp [List.replicate_succ, countLeading, ih]

theorem upTo3_rep (n : Nat) (c : Char) (rest : Str) (hc : c ≠ ' ') (hn : n < 4) :
    upTo3Spaces (List.replicate n ' ' ++ c :: rest) = some (n, c :: rest) := by
  unfold upTo3Spaces
  simp only [countLeading_rep n c rest hc]
  have : ¬ n > 3 := by omega
  simp [this]

theorem lstripSp_rep (n : Nat) (c : Char) (rest : Str) (hc : c ≠ ' ') :
    lstripSp (List.replicate n ' ' ++ c :: rest) = c :: rest := by
  induction n with
  | zero =>
    simp only [List.replicate_zero, List.nil_append]
    unfold lstripSp
    split
    · rename_i h; simp at h; exact absurd h.1 hc
    · rfl
  | succ k ih => simp [List.replicate_succ, lstripSp, ih]

theorem lstrip_rep (n : Nat) (c : Char) (rest : Str) (hc : pyIsSpace c = false) :
    lstrip (List.replicate n ' ' ++ c :: rest) = c :: rest := by
  induction n with
  | zero => simp [lstrip, hc]
  | succ k ih =>
    have : pyIsSpace ' ' = true := by decide
    simp [List.replicate_succ, lstrip, ih, this]

theorem span_ws_rep (n : Nat) (c : Char) (rest : Str) (hc : pyIsSpace c = false) :
    span ws (List.replicate n ' ' ++ c :: rest) = (List.replicate n ' ', c :: rest) := by
  induction n with
  | zero => simp [span, ws, hc]
  | succ k ih =>
    have : pyIsSpace ' ' = true := by decide
    simp [List.replicate_succ, span, ws, ih, this]

theorem isPrefix_ne (a c : Char) (p r : Str) (h : c ≠ a) : (a :: p).isPrefixOf (c :: r) = false := by
  simp only [List.isPrefixOf_cons_cons, Bool.and_eq_false_imp, beq_iff_eq]
  intro e; exact absurd e.symm h

theorem alignCol_none (c : Char) (rest : Str) (h1 : c ≠ ':') (h2 : c ≠ '-') : alignCol (c :: rest) = none := by
  unfold alignCol
  simp [h1, h2, span]

theorem replaceTab_plain (c : Char) (rest : Str) (h : c ≠ '\t') :
   replaceFirst ['\t'] [' ', ' ', ' ', ' '] (c :: rest) = c :: replaceFirst ['\t'] [' ', ' ', ' ', ' '] rest := by
  simp [replaceFirst, isPrefix_ne _ _ _ _ h]


theorem plain_heading (n : Nat) (c : Char) (rest : Str) (hn : n < 4) (hp : PlainChar c) : heading (List.replicate n ' ' ++ c :: rest) = none := by
  unfold heading
  rw [upTo3_rep n c rest hp.n_sp hn]
  simp [span, hp.n_hash]

theorem plain_setext (n : Nat) (c : Char) (rest : Str) (hn : n < 4) (hp : PlainChar c) : setext (List.replicate n ' ' ++ c :: rest) = false := by
  unfold setext
  rw [upTo3_rep n c rest hp.n_sp hn]
  simp [span, hp.n_eq, hp.n_dash]

theorem plain_codeFence (n : Nat) (c : Char) (rest : Str) (hn : n < 4) (hp : PlainChar c) : codeFenceStart (List.replicate n ' ' ++ c :: rest) = none := by
  unfold codeFenceStart codeFence
  rw [upTo3_rep n c rest hp.n_sp hn]
  simp [hp.n_bt, hp.n_tilde]

theorem plain_listMarker (n : Nat) (c : Char) (rest : Str) (_hn : n < 4) (hp : PlainChar c) : listMarker (c :: rest) = none := by
  unfold listMarker
  simp [span, hp.n_plus, hp.n_dash, hp.n_star, hp.ndig]

theorem plain_listStart (n : Nat) (c : Char) (rest : Str) (hn : n < 4) (hp : PlainChar c) : listStart (List.replicate n ' ' ++ c :: rest) = false := by
  unfold listStart
  simp only [upTo3_rep n c rest hp.n_sp hn, plain_listMarker n c rest hn hp]

theorem plain_listItem (n : Nat) (c : Char) (rest : Str) (hn : n < 4) (hp : PlainChar c) : listItem (List.replicate n ' ' ++ c :: rest) = none := by
  unfold listItem
  simp only [upTo3_rep n c rest hp.n_sp hn, plain_listMarker n c rest hn hp]

theorem plain_thematicBreak (n : Nat) (c : Char) (rest : Str) (hn : n < 4) (hp : PlainChar c) : thematicBreak (List.replicate n ' ' ++ c :: rest) = false := by
  unfold thematicBreak
  rw [upTo3_rep n c rest hp.n_sp hn]
  simp [hp.n_dash, hp.n_us, hp.n_star]

theorem plain_quote (n : Nat) (c : Char) (rest : Str) (_hn : n < 4) (hp : PlainChar c) : quoteStart (List.replicate n ' ' ++ c :: rest) = false := by
  unfold quoteStart
  simp [lstripSp_rep n c rest hp.n_sp, startsWith, isPrefix_ne _ _ _ _ hp.n_gt]

theorem plain_bracket (n : Nat) (c : Char) (rest : Str) (_hn : n < 4) (hp : PlainChar c) : startsWith ['['] (lstrip (List.replicate n ' ' ++ c :: rest)) = false := by
  simp [lstrip_rep n c rest hp.nsp, startsWith, isPrefix_ne _ _ _ _ hp.n_lb]

theorem plain_nonblank (n : Nat) (c : Char) (rest : Str) (_hn : n < 4) (hp : PlainChar c) : isBlank (List.replicate n ' ' ++ c :: rest) = false := by
  simp [isBlank, hp.nsp]

theorem plain_delimiterRow (n : Nat) (c : Char) (rest : Str) (_hn : n < 4) (hp : PlainChar c) : delimiterRow (List.replicate n ' ' ++ c :: rest) = false := by
  unfold delimiterRow
  simp [span_ws_rep n c rest hp.nsp, hp.n_bar, span, ws, hp.nsp, alignCol_none c rest hp.n_colon hp.n_dash]

theorem plain_blockCode (n : Nat) (c : Char) (rest : Str) (hn : n < 4) (hp : PlainChar c) : blockCodeStart (List.replicate n ' ' ++ c :: rest) = false := by
  unfold blockCodeStart replaceTab1
  have hs : (' ' : Char) ≠ '\t' := by decide
  obtain rfl | rfl | rfl | rfl : n = 0 ∨ n = 1 ∨ n = 2 ∨ n = 3 := by omega
  all_goals simp [List.replicate, replaceTab_plain _ _ hp.n_tab, replaceTab_plain _ _ hs, startsWith, isPrefix_ne _ _ _ _ hp.n_sp]

theorem plain_html (n : Nat) (c : Char) (rest : Str) (hn : n < 4) (hp : PlainChar c) : htmlBlockStart (List.replicate n ' ' ++ c :: rest) = .ok none := by
  unfold htmlBlockStart
  simp only [lstrip_rep n c rest hp.nsp]
  have hlen : ¬ ((List.replicate n ' ' ++ c :: rest).length - (c :: rest).length ≥ 4) := by
    simp; omega
  simp only [hlen, if_false]
  have hm : multiblock (c :: rest) = none := by
    unfold multiblock; simp [hp.n_lt]
  have hs : ∀ p : Str, startsWith ('<' :: p) (c :: rest) = false := by
    intro p; simp [startsWith, isPrefix_ne _ _ _ _ hp.n_lt]
  have hr : htmlRest (c :: rest) = none := by
    unfold htmlRest
    have h1 : predefined (c :: rest) = none := by
      unfold predefined; simp [hp.n_lt]
    have h2 : customTag (c :: rest) = false := by
      unfold customTag
      have a : openTag (c :: rest) = none := by
        unfold openTag; simp [hp.n_lt]
      have b : closingTag (c :: rest) = none := by
        unfold closingTag; simp [hp.n_lt]
      simp [a, b]
    simp [h1, h2]
  have e1 : "<!--".toList = '<' :: ['!', '-', '-'] := by decide
  have e2 : "<?".toList = '<' :: ['?'] := by decide
  have e3 : "<!".toList = '<' :: ['!'] := by decide
  simp only [hm, e1, e2, e3, hs, hr, Bool.false_eq_true, if_false]
structure Quiet (s : Str) : Prop where
  nb : isBlank s = false
  bc : blockCodeStart s = false
  hd : heading s = none
  qt : quoteStart s = false
  cf : codeFenceStart s = none
  tb : thematicBreak s = false
  ls : listStart s = false
  li : listItem s = none
  html : htmlBlockStart s = .ok none
  se : setext s = false
  dr : delimiterRow s = false
  br : startsWith ['['] (lstrip s) = false


theorem quiet_of_plain (n : Nat) (c : Char) (rest : Str) (hn : n < 4) (hp : PlainChar c) :
    Quiet (List.replicate n ' ' ++ c :: rest) :=
  ⟨plain_nonblank n c rest hn hp, plain_blockCode n c rest hn hp, plain_heading n c rest hn hp, plain_quote n c rest hn hp,
   plain_codeFence n c rest hn hp, plain_thematicBreak n c rest hn hp, plain_listStart n c rest hn hp,
   plain_listItem n c rest hn hp, plain_html n c rest hn hp, plain_setext n c rest hn hp,
   plain_delimiterRow n c rest hn hp, plain_bracket n c rest hn hp⟩

theorem alpha_lt (c : Char) (h : isAlpha c = true) : c.toNat < 128 := by
  simp only [isAlpha, Bool.or_eq_true, Bool.and_eq_true, decide_eq_true_eq] at h
  have e1 : ∀ a b : Char, a ≤ b → a.toNat ≤ b.toNat := by
    intro a b hab; exact hab
  rcases h with ⟨_, h⟩ | ⟨_, h⟩
  · have := e1 _ _ h; have e : 'z'.toNat = 122 := by decide
    omega
  · have := e1 _ _ h; have e : 'Z'.toNat = 90 := by decide
    omega

theorem alpha_cases (P : Char → Bool) (h : ∀ n : Fin 128, isAlpha (Char.ofNat n) = true → P (Char.ofNat n) = true) :
    ∀ c, isAlpha c = true → P c = true := by
  intro c hc
  have hl := alpha_lt c hc
  have := h ⟨c.toNat, hl⟩
  simp only [Char.ofNat_toNat] at this
  exact this hc

/-- every ASCII letter is a character no block pattern begins with -/
theorem alpha_plain : ∀ c, isAlpha c = true → plainStart c = true :=
  alpha_cases _ (by decide)

theorem countLeading_split : ∀ (s : Str), s = List.replicate (countLeading ' ' s) ' ' ++ s.drop (countLeading ' ' s)
  | [] => rfl
  | c :: rest => by
    simp only [countLeading]
    split
    · rename_i hc
      subst hc
      simp only [List.replicate_succ, List.cons_append, List.drop_succ_cons]
      rw [← countLeading_split rest]
    · simp

theorem peek_at (pre : List Line) (l : Line) (rest : List Line) (start : Nat) :
    FW.peek ⟨pre ++ l :: rest, pre.length, start⟩ = some l := by simp [FW.peek]

theorem peek_end (pre : List Line) (start : Nat) : FW.peek ⟨pre, pre.length, start⟩ = none := by simp [FW.peek]

theorem peek_succ (pre : List Line) (l : Line) (rest : List Line) (start : Nat) :
    FW.peek ⟨pre ++ l :: rest, pre.length + 1, start⟩ = rest.head? := by
  simp [FW.peek, List.getElem?_append_right, List.head?_eq_getElem?]

theorem tableLoop_shape : ∀ (fuel : Nat) (fw : FW) (buf : List Str),
    (tableLoop fuel fw buf).1 = buf ∨ ∃ l more, fw.peek = some l ∧ (tableLoop fuel fw buf).1 = more ++ l.s :: buf
  | 0, _, _ => Or.inl rfl
  | fuel + 1, fw, buf => by
    simp only [tableLoop]
    split
    · rename_i l hp
      split
      · right
        rcases tableLoop_shape fuel fw.next (l.s :: buf) with h | ⟨l', more, _, h⟩
        · exact ⟨l, [], hp, by rw [h]; rfl⟩
        · exact ⟨l, more ++ [l'.s], hp, by rw [h]; simp⟩
      · exact Or.inl rfl
    · exact Or.inl rfl

theorem readTable_none (pre : List Line) (l : Line) (rest : List Line) (start : Nat)
    (h : ∀ l', rest.head? = some l' → delimiterRow l'.s = false) :
    readTable ⟨pre ++ l :: rest, pre.length, start⟩ = none := by
  unfold readTable
  rw [peek_at]
  simp only
  have hn : (FW.next ⟨pre ++ l :: rest, pre.length, start⟩) = ⟨pre ++ l :: rest, pre.length + 1, start⟩ := rfl
  rw [hn]
  have hs := tableLoop_shape (FW.remaining ⟨pre ++ l :: rest, pre.length, start⟩ + 1) ⟨pre ++ l :: rest, pre.length + 1, start⟩ [l.s]
  generalize tableLoop (FW.remaining ⟨pre ++ l :: rest, pre.length, start⟩ + 1) ⟨pre ++ l :: rest, pre.length + 1, start⟩ [l.s] = r at hs
  obtain ⟨b, f⟩ := r
  simp only at hs ⊢
  rcases hs with rfl | ⟨l', more, hp, rfl⟩
  · simp
  · rw [peek_succ] at hp
    simp [h l' hp]

theorem span_all_true (p : Char → Bool) : ∀ (s : Str), (∀ x ∈ s, p x = true) → span p s = (s, [])
  | [], _ => rfl
  | c :: rest, h => by
    simp [span, h c (by simp), span_all_true p rest (fun x hx => h x (List.mem_cons_of_mem _ hx))]

theorem delimiterRow_blank (s : Str) (h : isBlank s = true) : delimiterRow s = false := by
  unfold delimiterRow
  have : span ws s = (s, []) := span_all_true ws s (by simpa [isBlank, ws] using h)
  simp [this, alignCol, span]

theorem parseMarker_none (s : Str) (h : listItem s = none) : parseMarker s = none := by
  unfold parseMarker; rw [h]

theorem anyInterrupt_quiet (cfg : Cfg) (fw : FW) (l : Line) (skip : BTok) (hp : fw.peek = some l) (hq : Quiet l.s)
    (ht : readTable fw = none) : ∀ ts, anyInterrupt cfg fw skip false ts = .ok false
  | [] => rfl
  | t :: ts => by
    have ih := anyInterrupt_quiet cfg fw l skip hp hq ht ts
    simp only [anyInterrupt]
    split
    · exact ih
    · have : interruptsOne cfg fw t = .ok false := by
        unfold interruptsOne
        rw [hp]
        cases t <;> simp [hq.hd, hq.qt, hq.cf, hq.tb, hq.html, ht, listInterrupts, parseMarker_none _ hq.li]
      rw [this]; exact ih


/-! ### Paragraph.read over a run of quiet lines -/

theorem quiet_noDelim (para post : List Line) (hq : ∀ l ∈ para, Quiet l.s)
    (hb : ∀ b, post.head? = some b → isBlank b.s = true) :
    ∀ l', (para ++ post).head? = some l' → delimiterRow l'.s = false := by
  intro l' h
  cases para with
  | nil => exact delimiterRow_blank _ (hb l' (by simpa using h))
  | cons x xs =>
    simp only [List.cons_append, List.head?_cons, Option.some.injEq] at h
    subst h; exact (hq _ (by simp)).dr

theorem paragraphLoop_run (cfg : Cfg) (so : Bool) (start : Nat) : ∀ (para pre post : List Line) (buf : List Str) (fuel : Nat),
    (∀ l ∈ para, Quiet l.s) → (∀ b, post.head? = some b → isBlank b.s = true) → para.length < fuel →
    paragraphLoop cfg so fuel ⟨pre ++ (para ++ post), pre.length, start⟩ buf =
      .ok ((para.map (·.s)).reverse ++ buf, false, ⟨pre ++ (para ++ post), pre.length + para.length, start⟩)
  | [], pre, post, buf, 0, _, _, hf => by simp at hf
  | [], pre, post, buf, fuel + 1, _, hb, _ => by
    simp only [paragraphLoop, List.nil_append]
    cases post with
    | nil => simp [peek_end]
    | cons b rest => simp [peek_at, hb b rfl]
  | l :: para, pre, post, buf, 0, _, _, hf => by simp at hf
  | l :: para, pre, post, buf, fuel + 1, hq, hb, hf => by
    have hl := hq l (by simp)
    have hq' : ∀ x ∈ para, Quiet x.s := fun x hx => hq x (List.mem_cons_of_mem _ hx)
    have ht := readTable_none pre l (para ++ post) start (quiet_noDelim para post hq' hb)
    have hp := peek_at pre l (para ++ post) start
    simp only [paragraphLoop, List.cons_append, hp, hl.nb, Bool.false_eq_true, if_false,
      anyInterrupt_quiet cfg _ l .thematicBreak hp hl ht, hl.se, hl.tb, Bool.and_false]
    have hn : (FW.next ⟨pre ++ l :: (para ++ post), pre.length, start⟩) =
        ⟨(pre ++ [l]) ++ (para ++ post), (pre ++ [l]).length, start⟩ := by
      simp [FW.next]
    rw [hn, paragraphLoop_run cfg so start para (pre ++ [l]) post (l.s :: buf) fuel hq' hb (by simp only [List.length_cons] at hf; omega)]
    simp only [List.map_cons, List.reverse_cons, List.append_assoc, List.singleton_append, List.length_append,
      List.length_cons, List.length_nil]
    have e : pre.length + (0 + 1) + para.length = pre.length + (para.length + 1) := by omega
    rw [e]

theorem readParagraph_run (cfg : Cfg) (so : Bool) (start : Nat) (l : Line) (para pre post : List Line)
    (hq : ∀ x ∈ para, Quiet x.s) (hb : ∀ b, post.head? = some b → isBlank b.s = true) :
    readParagraph cfg so ⟨pre ++ (l :: para ++ post), pre.length, start⟩ l.s =
      .ok ((l :: para).map (·.s), false, ⟨pre ++ (l :: para ++ post), pre.length + (para.length + 1), start⟩) := by
  unfold readParagraph
  have hn : (FW.next ⟨pre ++ (l :: para ++ post), pre.length, start⟩) =
      ⟨(pre ++ [l]) ++ (para ++ post), (pre ++ [l]).length, start⟩ := by
    simp [FW.next]
  rw [hn, paragraphLoop_run cfg so start para (pre ++ [l]) post [l.s] _ hq hb (by simp [FW.remaining]; omega)]
  simp only [List.map_cons, List.reverse_append, List.reverse_reverse, List.reverse_cons, List.reverse_nil,
    List.nil_append, List.append_assoc, List.length_append, List.length_cons, List.length_nil,
    List.cons_append]
  have e : pre.length + (0 + 1) + para.length = pre.length + (para.length + 1) := by omega
  rw [e]


/-! ### The dispatcher on a quiet line and on an empty line -/

/-- on a quiet line no token type before `Paragraph` starts; `Paragraph` does -/
theorem tryTypes_quiet (cfg : Cfg) (fw : FW) (st : St) (l : Line) (b : List Str) (fw' : FW)
    (hq : Quiet l.s) (ht : readTable fw = none)
    (hR : readParagraph cfg st.setext fw l.s = .ok (b, false, fw')) :
    ∀ (ts : List BTok) (gas : Nat), .paragraph ∈ ts → ts.length ≤ gas →
      tryTypes cfg gas fw st l ts = .ok (some (.paragraph b (fw.start + fw.pos) l.origin, fw', st))
  | [], _, hm, _ => by simp at hm
  | t :: ts, 0, _, hg => by simp at hg
  | t :: ts, gas + 1, hm, hg => by
    have hg' : ts.length ≤ gas := by simp only [List.length_cons] at hg; omega
    have ih : t ≠ .paragraph → tryTypes cfg gas fw st l ts = .ok (some (.paragraph b (fw.start + fw.pos) l.origin, fw', st)) := by
      intro hne
      refine tryTypes_quiet cfg fw st l b fw' hq ht hR ts gas ?_ hg'
      rcases List.mem_cons.mp hm with h | h
      · exact absurd h.symm hne
      · exact h
    have hbl : blankLine l.s = false := by
      have := hq.nb
      simp only [isBlank] at this
      unfold blankLine
      have e : l.s.all ws = l.s.all pyIsSpace := rfl
      rw [e, this]; rfl
    unfold tryTypes
    cases t <;> simp only
    · rw [hq.html]; exact ih (by decide)
    · rw [hq.bc]; exact ih (by decide)
    · simp only [readHeading, hq.hd]; exact ih (by decide)
    · rw [hq.qt]; exact ih (by decide)
    · rw [hq.cf]; exact ih (by decide)
    · rw [hq.tb]; exact ih (by decide)
    · rw [hq.ls]; exact ih (by decide)
    · rw [ht]
      split <;> exact ih (by decide)
    · rw [hq.br]; exact ih (by decide)
    · simp only [hq.nb, Bool.not_false, if_true, hR]
    · rw [hbl]; exact ih (by decide)
    · rw [hq.br]; exact ih (by decide)

/-- on the line "\n" no token type other than the Markdown renderer's `BlankLine` starts -/
theorem tryTypes_nl (cfg : Cfg) (fw : FW) (st : St) (l : Line) (hl : l.s = ['\n']) :
    ∀ (ts : List BTok) (gas : Nat), .blankLine ∉ ts → ts.length < gas → tryTypes cfg gas fw st l ts = .ok none
  | _, 0, _, hg => by simp at hg
  | [], gas + 1, _, _ => by simp [tryTypes]
  | t :: ts, gas + 1, hm, hg => by
    have hg' : ts.length < gas := by simp only [List.length_cons] at hg; omega
    have ih := tryTypes_nl cfg fw st l hl ts gas (fun h => hm (List.mem_cons_of_mem _ h)) hg'
    have h1 : htmlBlockStart ['\n'] = .ok none := by decide
    have h2 : blockCodeStart ['\n'] = false := by decide
    have h3 : heading ['\n'] = none := by decide
    have h4 : quoteStart ['\n'] = false := by decide
    have h5 : codeFenceStart ['\n'] = none := by decide
    have h6 : thematicBreak ['\n'] = false := by decide
    have h7 : listStart ['\n'] = false := by decide
    have h8 : (['\n'] : Str).contains '|' = false := by decide
    have h9 : startsWith ['['] (lstrip ['\n']) = false := by decide
    have h10 : isBlank ['\n'] = true := by decide
    unfold tryTypes
    cases t <;> simp only [hl, h1, h2, h3, h4, h5, h6, h7, h8, h9, h10, readHeading, Bool.false_eq_true, if_false,
      Bool.not_true] <;> first | exact ih | exact absurd (List.mem_cons_self ..) hm


/-- on the line "\n" the Markdown renderer's `BlankLine`, if present, is the type that starts -/
theorem tryTypes_nl_bl (cfg : Cfg) (fw : FW) (st : St) (l : Line) (hl : l.s = ['\n']) :
    ∀ (ts : List BTok) (gas : Nat), .blankLine ∈ ts → ts.length ≤ gas →
      tryTypes cfg gas fw st l ts = .ok (some (.blankLine (fw.start + fw.pos) l.origin, fw.next, st))
  | [], _, hm, _ => by simp at hm
  | t :: ts, 0, _, hg => by simp at hg
  | t :: ts, gas + 1, hm, hg => by
    have hg' : ts.length ≤ gas := by simp only [List.length_cons] at hg; omega
    have ih : t ≠ .blankLine → tryTypes cfg gas fw st l ts = .ok (some (.blankLine (fw.start + fw.pos) l.origin, fw.next, st)) := by
      intro hne
      refine tryTypes_nl_bl cfg fw st l hl ts gas ?_ hg'
      rcases List.mem_cons.mp hm with h | h
      · exact absurd h.symm hne
      · exact h
    have h1 : htmlBlockStart ['\n'] = .ok none := by decide
    have h2 : blockCodeStart ['\n'] = false := by decide
    have h3 : heading ['\n'] = none := by decide
    have h4 : quoteStart ['\n'] = false := by decide
    have h5 : codeFenceStart ['\n'] = none := by decide
    have h6 : thematicBreak ['\n'] = false := by decide
    have h7 : listStart ['\n'] = false := by decide
    have h8 : (['\n'] : Str).contains '|' = false := by decide
    have h9 : startsWith ['['] (lstrip ['\n']) = false := by decide
    have h10 : isBlank ['\n'] = true := by decide
    have h11 : blankLine ['\n'] = true := by decide
    unfold tryTypes
    cases t <;> simp only [hl, h1, h2, h3, h4, h5, h6, h7, h8, h9, h10, h11, readHeading, Bool.false_eq_true, if_false,
      Bool.not_true, if_true] <;> exact ih (by decide)

/-! ### The `while line is not None` loop over quiet paragraphs separated by "\n" lines -/

theorem tokLoop_end (cfg : Cfg) (gas : Nat) (pre : List Line) (start : Nat) (st : St) (acc : List Entry) (loose : Bool) :
    tokLoop cfg (gas + 1) ⟨pre, pre.length, start⟩ st acc loose = .ok ({ entries := acc.reverse, loose := loose }, st) := by
  simp only [tokLoop, peek_end]

/-- one paragraph: a run of quiet lines followed by the end of the buffer or a blank line -/
theorem tokLoop_para_step (cfg : Cfg) (hpar : .paragraph ∈ cfg.types) (gas : Nat) (hg : cfg.types.length ≤ gas)
    (l : Line) (para pre post : List Line) (start : Nat) (st : St) (acc : List Entry) (loose : Bool)
    (hl : Quiet l.s) (hq : ∀ x ∈ para, Quiet x.s) (hb : ∀ b, post.head? = some b → isBlank b.s = true) :
    tokLoop cfg (gas + 1) ⟨pre ++ (l :: para ++ post), pre.length, start⟩ st acc loose =
      tokLoop cfg gas ⟨(pre ++ l :: para) ++ post, (pre ++ l :: para).length, start⟩ st
        (.paragraph ((l :: para).map (·.s)) (start + pre.length) l.origin :: acc) loose := by
  have hp := peek_at pre l (para ++ post) start
  have ht := readTable_none pre l (para ++ post) start (quiet_noDelim para post hq hb)
  have hR := readParagraph_run cfg st.setext start l para pre post hq hb
  have hT := tryTypes_quiet cfg _ st l _ _ hl ht hR cfg.types gas hpar hg
  simp only [tokLoop, List.cons_append, hp]
  simp only [List.cons_append] at hT
  rw [hT]
  simp only [List.append_assoc, List.cons_append, List.length_append, List.length_cons]

/-- one "\n" line -/
theorem tokLoop_nl_step (cfg : Cfg) (gas : Nat) (hg : cfg.types.length < gas)
    (b : Line) (pre post : List Line) (start : Nat) (st : St) (acc : List Entry) (loose : Bool) (hb : b.s = ['\n']) :
    tokLoop cfg (gas + 1) ⟨pre ++ b :: post, pre.length, start⟩ st acc loose =
      if cfg.types.contains .blankLine then
        tokLoop cfg gas ⟨(pre ++ [b]) ++ post, (pre ++ [b]).length, start⟩ st (.blankLine (start + pre.length) b.origin :: acc) loose
      else
        tokLoop cfg gas ⟨(pre ++ [b]) ++ post, (pre ++ [b]).length, start⟩ st acc true := by
  have hp := peek_at pre b post start
  simp only [tokLoop, hp]
  by_cases hm : BTok.blankLine ∈ cfg.types
  · have hc : cfg.types.contains .blankLine = true := by simpa using hm
    rw [tryTypes_nl_bl cfg _ st b hb cfg.types gas hm (by omega)]
    simp only [hc, if_true]
    simp [FW.next]
  · have hc : cfg.types.contains .blankLine = false := by simpa using hm
    rw [tryTypes_nl cfg _ st b hb cfg.types gas hm hg]
    simp only [hc, Bool.false_eq_true, if_false]
    simp [FW.next]

/-- the lines of a document: a first paragraph, then (separator line, paragraph) pairs -/
def docLines : List Line → List (Line × List Line) → List Line
  | p, [] => p
  | p, (b, q) :: rest => p ++ b :: docLines q rest

def firstOrigin : List Line → Nat
  | [] => 0
  | l :: _ => l.origin

/-- the entries expected for `docLines p rest` when its first line has number `start`:
    one `Paragraph` per paragraph, holding exactly its lines, numbered with the line it starts on;
    with `bl` (the Markdown renderer's `BlankLine` is among the token types) one `BlankLine` per separator -/
def docEntries (bl : Bool) : Nat → List Line → List (Line × List Line) → List Entry
  | start, p, [] => [.paragraph (p.map (·.s)) start (firstOrigin p)]
  | start, p, (b, q) :: rest =>
    .paragraph (p.map (·.s)) start (firstOrigin p) ::
      ((if bl then [.blankLine (start + p.length) b.origin] else []) ++ docEntries bl (start + p.length + 1) q rest)

theorem tokLoop_doc (cfg : Cfg) (hpar : .paragraph ∈ cfg.types) (start : Nat) (st : St) :
    ∀ (rest : List (Line × List Line)) (p pre : List Line) (acc : List Entry) (loose : Bool) (gas : Nat),
      p ≠ [] → (∀ l ∈ p, Quiet l.s) →
      (∀ bq ∈ rest, bq.1.s = ['\n'] ∧ bq.2 ≠ [] ∧ ∀ l ∈ bq.2, Quiet l.s) →
      2 * rest.length + cfg.types.length + 3 ≤ gas →
      tokLoop cfg gas ⟨pre ++ docLines p rest, pre.length, start⟩ st acc loose =
        .ok ({ entries := acc.reverse ++ docEntries (cfg.types.contains .blankLine) (start + pre.length) p rest,
               loose := loose || (!cfg.types.contains .blankLine && !rest.isEmpty) }, st)
  | _, [], _, _, _, _, hne, _, _, _ => absurd rfl hne
  | [], l :: para, pre, acc, loose, gas, _, hq, _, hg => by
    obtain ⟨g, rfl⟩ : ∃ g, gas = g + 2 := ⟨gas - 2, by simp only [List.length_nil] at hg; omega⟩
    have h1 := tokLoop_para_step cfg hpar (g + 1) (by simp only [List.length_nil] at hg; omega) l para pre [] start st acc loose
      (hq l (by simp)) (fun x hx => hq x (List.mem_cons_of_mem _ hx)) (by simp)
    simp only [List.append_nil] at h1
    simp only [docLines, docEntries, firstOrigin]
    refine h1.trans ?_
    rw [tokLoop_end]
    simp
  | (b, q) :: rest, l :: para, pre, acc, loose, gas, _, hq, hr, hg => by
    obtain ⟨g, rfl⟩ : ∃ g, gas = g + 2 := ⟨gas - 2, by simp only [List.length_cons] at hg; omega⟩
    simp only [List.length_cons] at hg
    have hbq := hr (b, q) (by simp)
    have h1 := tokLoop_para_step cfg hpar (g + 1) (by omega) l para pre (b :: docLines q rest) start st acc loose
      (hq l (by simp)) (fun x hx => hq x (List.mem_cons_of_mem _ hx)) (by
        intro b' hb'
        simp only [List.head?_cons, Option.some.injEq] at hb'
        subst hb'; rw [hbq.1]; decide)
    have h2 := tokLoop_nl_step cfg g (by omega) b (pre ++ l :: para) (docLines q rest) start st
    have ih := fun acc loose => tokLoop_doc cfg hpar start st rest q ((pre ++ l :: para) ++ [b]) acc loose g hbq.2.1 hbq.2.2
      (fun x hx => hr x (List.mem_cons_of_mem _ hx)) (by omega)
    simp only [docLines, docEntries, firstOrigin]
    refine h1.trans ?_
    have h2 := fun acc loose => h2 acc loose hbq.1
    rw [h2]
    have e : start + ((pre ++ l :: para) ++ [b]).length = start + pre.length + (l :: para).length + 1 := by
      simp only [List.length_append, List.length_cons, List.length_nil]; omega
    have e2 : start + (pre ++ l :: para).length = start + pre.length + (l :: para).length := by
      simp only [List.length_append, List.length_cons]; omega
    rw [e] at ih
    rw [e2] at h2
    by_cases hm : BTok.blankLine ∈ cfg.types
    · have hc : cfg.types.contains .blankLine = true := by simpa using hm
      rw [hc] at ih h2 ⊢
      simp only [if_true]
      rw [ih]
      simp
      omega
    · have hc : cfg.types.contains .blankLine = false := by simpa using hm
      rw [hc] at ih h2 ⊢
      simp only [Bool.false_eq_true, if_false]
      rw [ih]
      simp

end Mistletoe.Block
