/-
  C01 for the LaTeX renderer (`mistletoe/latex_renderer.py`, model `Model/Latex.lean`): on every
  document the parser produces under the LaTeX renderer's own token lists, the renderer returns a
  string — unless the document contains an inline code span in which every character of
  `verb_delimiters` occurs (the documented refusal, `RuntimeError('Unable to find delimiter for verb
  macro')`).  No other raise site of latex_renderer.py / `BaseRenderer.render` is reachable.

  Part 1  `Latex.renderRes : Doc → Res Str`, the raise sites of the Python on top of the total
          `Latex.render`, built from `refusesBlocks` / `supportedBlocks` of Model/Latex.lean;
          the exact domain on which it is `.ok` (`renderRes_isOk`); the refusal is exactly
          "some rendered inline code contains every delimiter" (`refusesBlocks_iff`).
  Part 2  the inline phase only makes tokens of the classes in the span-token list (no HtmlSpan,
          GithubWiki, XWiki macro token under the LaTeX list; Math IS in the list).
  Part 3  the block phase makes no HtmlBlock / BlankLine / LinkReferenceDefinitionBlock entry unless
          the class is in the block-token list.
  Part 4  the block token constructors (`mkBlocks`) on such a buffer give a supported tree whose tables
          have `column_align` entries in {None, 0, 1} (`parseAlign`) and a header that is one TableRow.
  Part 5  `Config.latex`, `C01_latex_total_or_refusal`, `C01_latex_total`, `C01_latex_no_raise`,
          the refusal witness and non-vacuity.

  Raise sites of latex_renderer.py, read line by line against the model:
    * `render_inline_code`: RuntimeError when no delimiter is free      -> `refuses*`   (`.refusal 0`)
    * `BaseRenderer.render`: KeyError for a class without render_map entry (HtmlBlock, HtmlSpan,
      BlankLine, LinkReferenceDefinition(Block), GithubWiki, XWiki macros) -> `supported*` (`.key`)
    * `render_table.get_align`: an entry outside {None, 0, 1}.  The statement is
      `raise RuntimeError('Unrecognized align option: ' + col)`; with an `int` entry (the only kind
      `Table.parse_align` could ever give) evaluating `str + int` raises TypeError before the
      RuntimeError is built (run on the real code: `TypeError: can only concatenate str (not "int")
      to str`)                                                           -> `supported*` (`.type`)
    * NOT covered by `refuses*` / `supported*`: `render_table` calls `render_table_row(token.header)`
      DIRECTLY (not through the render map), and `Latex.renderRow` writes nothing for a header that is
      not a TableRow, where the Python would read `.children` of whatever token is there
      (AttributeError for a ThematicBreak, a string for a Paragraph).  `headersOkBlocks` below is the
      predicate for it (header absent, or exactly one TableRow — the model's `header : List Block`
      also has lists of two or more, which no Python object corresponds to); `renderRes` reports
      `.type` there, conservatively.
    * `token.children[0]` in `render_inline_code` / `render_block_code`: the AST of the model stores the
      content string itself (InlineCode, BlockCode, CodeFence always have exactly one RawText child).
    * `escape_url` -> `urllib.parse.quote`: raises UnicodeEncodeError on a lone surrogate.  Lean's
      `Char` has no surrogates (DESIGN.md: inputs come from UTF-8 text), so this is outside the model;
      `mistletoe.markdown('<http://a.b/\ud800>', LaTeXRenderer)` does raise on the real code.
-/
import Mistletoe.Proofs.ContribTotal
import Mistletoe.Model.Latex

namespace Mistletoe.Config
open Mistletoe

/-- token lists while a `LaTeXRenderer` is active (regenerated from /repo): the default lists plus Math;
    no HtmlBlock, no HtmlSpan -/
def latex : Option Document.Cfg := cfgOf Gen.RenderMaps.latexBlockTokens Gen.RenderMaps.latexSpanTokens

end Mistletoe.Config

namespace Mistletoe.Latex
open Mistletoe Mistletoe.Block Mistletoe.Inline

/-! ## Part 1: the `Res`-valued view of the renderer -/

/-- `token.header`: absent, or one TableRow -/
def headerShape : List Mistletoe.Block → Bool
  | [] => true
  | [.tableRow ..] => true
  | _ => false

mutual
/-- every table reached by the renderer has a header that is absent or one TableRow -/
def headersOkBlock : Mistletoe.Block → Bool
  | .quote kids _ => headersOkBlocks kids
  | .list _ _ items _ => headersOkBlocks items
  | .listItem _ _ _ _ kids _ => headersOkBlocks kids
  | .table _ header rows _ => headerShape header && headersOkBlocks header && headersOkBlocks rows
  | .tableRow _ cells _ => headersOkBlocks cells
  | _ => true
def headersOkBlocks : List Mistletoe.Block → Bool
  | [] => true
  | b :: bs => headersOkBlock b && headersOkBlocks bs
end

mutual
/-- every table reached by the renderer has `column_align` entries in {None, 0, 1} -/
def alignsOkBlock : Mistletoe.Block → Bool
  | .quote kids _ => alignsOkBlocks kids
  | .list _ _ items _ => alignsOkBlocks items
  | .listItem _ _ _ _ kids _ => alignsOkBlocks kids
  | .table cols header rows _ => cols.all alignOk && alignsOkBlocks header && alignsOkBlocks rows
  | .tableRow _ cells _ => alignsOkBlocks cells
  | _ => true
def alignsOkBlocks : List Mistletoe.Block → Bool
  | [] => true
  | b :: bs => alignsOkBlock b && alignsOkBlocks bs
end

mutual
/-- every token reached by the renderer has a `render_map` entry (`supportedBlock` without the
    `column_align` clause) -/
def classOkBlock : Mistletoe.Block → Bool
  | .paragraph k _ => supportedInlines k
  | .heading _ _ k _ => supportedInlines k
  | .setextHeading _ _ k _ => supportedInlines k
  | .quote kids _ => classOkBlocks kids
  | .list _ _ items _ => classOkBlocks items
  | .listItem _ _ _ _ kids _ => classOkBlocks kids
  | .table _ header rows _ => classOkBlocks header && classOkBlocks rows
  | .tableRow _ cells _ => classOkBlocks cells
  | .tableCell _ k _ => supportedInlines k
  | .htmlBlock .. => false
  | .blankLine _ => false
  | .linkRefDefBlock .. => false
  | _ => true
def classOkBlocks : List Mistletoe.Block → Bool
  | [] => true
  | b :: bs => classOkBlock b && classOkBlocks bs
end

theorem and4 (a b c d : Bool) : (a && b && (c && d)) = (a && c && (b && d)) := by
  cases a <;> cases b <;> cases c <;> cases d <;> rfl

mutual
/-- `supportedBlock` of Model/Latex.lean is: every class has a render-map entry, and every
    `column_align` entry is one `get_align` knows -/
theorem supportedBlock_split : ∀ (b : Mistletoe.Block), supportedBlock b = (classOkBlock b && alignsOkBlock b)
  | .paragraph .. => by simp [supportedBlock, classOkBlock, alignsOkBlock]
  | .heading .. => by simp [supportedBlock, classOkBlock, alignsOkBlock]
  | .setextHeading .. => by simp [supportedBlock, classOkBlock, alignsOkBlock]
  | .quote kids _ => by simp only [supportedBlock, classOkBlock, alignsOkBlock]; exact supportedBlocks_split kids
  | .blockCode .. => rfl
  | .codeFence .. => rfl
  | .list _ _ items _ => by simp only [supportedBlock, classOkBlock, alignsOkBlock]; exact supportedBlocks_split items
  | .listItem _ _ _ _ kids _ => by
    simp only [supportedBlock, classOkBlock, alignsOkBlock]; exact supportedBlocks_split kids
  | .table cols header rows _ => by
    simp only [supportedBlock, classOkBlock, alignsOkBlock]
    rw [supportedBlocks_split header, supportedBlocks_split rows]
    cases List.all cols alignOk <;> cases classOkBlocks header <;> cases alignsOkBlocks header <;>
      cases classOkBlocks rows <;> cases alignsOkBlocks rows <;> rfl
  | .tableRow _ cells _ => by
    simp only [supportedBlock, classOkBlock, alignsOkBlock]; exact supportedBlocks_split cells
  | .tableCell .. => by simp [supportedBlock, classOkBlock, alignsOkBlock]
  | .thematicBreak .. => rfl
  | .htmlBlock .. => rfl
  | .blankLine _ => rfl
  | .linkRefDefBlock .. => rfl
theorem supportedBlocks_split : ∀ (bs : List Mistletoe.Block), supportedBlocks bs = (classOkBlocks bs && alignsOkBlocks bs)
  | [] => rfl
  | b :: bs => by
    simp only [supportedBlocks, classOkBlocks, alignsOkBlocks]
    rw [supportedBlock_split b, supportedBlocks_split bs]
    exact and4 _ _ _ _
end

/-- **`LaTeXRenderer().render(doc)` with its raise sites.**
    `.err (.refusal 0)`: some rendered inline code has no free `\verb` delimiter (RuntimeError, the
    documented refusal).  `.err .key`: some rendered token's class has no `render_map` entry (KeyError).
    `.err .type`: a `column_align` entry outside {None, 0, 1} (TypeError, see the file header), or a table
    header that is not one TableRow (outside what `Latex.render` describes).  Otherwise the string
    `Latex.render d`.

    When a tree has raise sites of several kinds the Python raises the one it meets first in rendering
    order; this view reports by kind (refusal, then class, then the rest).  On parsed documents only the
    refusal exists (`C01_latex_total_or_refusal`), so the order is immaterial there. -/
def renderRes (d : Doc) : Res Str :=
  if refusesBlocks d.kids then .err (.refusal 0)
  else if supportedBlocks d.kids && headersOkBlocks d.kids then .ok (render d)
  else if classOkBlocks d.kids then .err .type
  else .err .key

/-- **the domain of the renderer, exactly** -/
theorem renderRes_isOk (d : Doc) :
    (renderRes d).isOk = (!refusesBlocks d.kids && supportedBlocks d.kids && headersOkBlocks d.kids) := by
  unfold renderRes
  cases refusesBlocks d.kids <;> cases supportedBlocks d.kids <;> cases headersOkBlocks d.kids <;>
    cases classOkBlocks d.kids <;> rfl

theorem renderRes_ok (d : Doc) (h : renderRes d = .ok out) : out = render d := by
  unfold renderRes at h
  split at h
  · cases h
  · split at h
    · cases h; rfl
    · split at h <;> cases h

/-- what each error value of `renderRes` means -/
theorem renderRes_err (d : Doc) (e : Err) (h : renderRes d = .err e) :
    (e = .refusal 0 ∧ refusesBlocks d.kids = true) ∨
    (e = .key ∧ classOkBlocks d.kids = false) ∨
    (e = .type ∧ classOkBlocks d.kids = true ∧ (alignsOkBlocks d.kids = false ∨ headersOkBlocks d.kids = false)) := by
  unfold renderRes at h
  split at h
  · rename_i hr; cases h; exact .inl ⟨rfl, hr⟩
  · split at h
    · cases h
    · rename_i hs
      split at h
      · rename_i hc
        cases h
        refine .inr (.inr ⟨rfl, hc, ?_⟩)
        rw [supportedBlocks_split, hc] at hs
        cases ha : alignsOkBlocks d.kids
        · exact .inl rfl
        · cases hh : headersOkBlocks d.kids
          · exact .inr rfl
          · rw [ha, hh] at hs; exact absurd rfl hs
      · rename_i hc
        cases h
        exact .inr (.inl ⟨rfl, by simpa using hc⟩)

/-! ### the refusal, exactly: a rendered inline code in which every delimiter occurs -/

mutual
/-- the contents of the inline code spans `render_inline_code` is called on (the children of an image
    are not rendered) -/
def codesInline : Inline → List Str
  | .inlineCode _ _ c => [c]
  | .strong _ k => codesInlines k
  | .emphasis _ k => codesInlines k
  | .strikethrough k => codesInlines k
  | .link _ _ _ _ _ k => codesInlines k
  | _ => []
def codesInlines : List Inline → List Str
  | [] => []
  | i :: is => codesInline i ++ codesInlines is
end

mutual
def codesBlock : Mistletoe.Block → List Str
  | .paragraph k _ => codesInlines k
  | .heading _ _ k _ => codesInlines k
  | .setextHeading _ _ k _ => codesInlines k
  | .quote kids _ => codesBlocks kids
  | .list _ _ items _ => codesBlocks items
  | .listItem _ _ _ _ kids _ => codesBlocks kids
  | .table _ header rows _ => codesBlocks header ++ codesBlocks rows
  | .tableRow _ cells _ => codesBlocks cells
  | .tableCell _ k _ => codesInlines k
  | _ => []
def codesBlocks : List Mistletoe.Block → List Str
  | [] => []
  | b :: bs => codesBlock b ++ codesBlocks bs
end

/-- the inline code contents of a document, in rendering order -/
def codes (d : Doc) : List Str := codesBlocks d.kids

/-- every character of `verb_delimiters` occurs in the code -/
def UsesAllDelims (c : Str) : Prop := ∀ x ∈ Gen.Chains.verbDelimiters, x ∈ c

theorem verbDelim_isNone (c : Str) : (verbDelim c).isNone = true ↔ UsesAllDelims c := by
  unfold verbDelim UsesAllDelims
  rw [Option.isNone_iff_eq_none, List.find?_eq_none]
  constructor
  · intro h x hx; simpa using h x hx
  · intro h x hx; simpa using h x hx

def noDelim (c : Str) : Bool := (verbDelim c).isNone

mutual
theorem refusesInline_any : ∀ (i : Inline), refusesInline i = (codesInline i).any noDelim
  | .inlineCode _ _ c => by simp [refusesInline, codesInline, noDelim]
  | .strong _ k => by simp only [refusesInline, codesInline]; exact refusesInlines_any k
  | .emphasis _ k => by simp only [refusesInline, codesInline]; exact refusesInlines_any k
  | .strikethrough k => by simp only [refusesInline, codesInline]; exact refusesInlines_any k
  | .link _ _ _ _ _ k => by simp only [refusesInline, codesInline]; exact refusesInlines_any k
  | .rawText _ => rfl
  | .image .. => rfl
  | .autoLink .. => rfl
  | .escapeSequence _ => rfl
  | .lineBreak .. => rfl
  | .math _ => rfl
  | .htmlSpan _ => rfl
  | .githubWiki .. => rfl
  | .xwikiMacroStart _ => rfl
  | .xwikiMacroEnd _ => rfl
  | .linkRefDef .. => rfl
theorem refusesInlines_any : ∀ (k : List Inline), refusesInlines k = (codesInlines k).any noDelim
  | [] => rfl
  | i :: is => by
    simp only [refusesInlines, codesInlines, List.any_append]
    rw [refusesInline_any i, refusesInlines_any is]
end

mutual
theorem refusesBlock_any : ∀ (b : Mistletoe.Block), refusesBlock b = (codesBlock b).any noDelim
  | .paragraph k _ => by simp only [refusesBlock, codesBlock]; exact refusesInlines_any k
  | .heading _ _ k _ => by simp only [refusesBlock, codesBlock]; exact refusesInlines_any k
  | .setextHeading _ _ k _ => by simp only [refusesBlock, codesBlock]; exact refusesInlines_any k
  | .quote kids _ => by simp only [refusesBlock, codesBlock]; exact refusesBlocks_any kids
  | .list _ _ items _ => by simp only [refusesBlock, codesBlock]; exact refusesBlocks_any items
  | .listItem _ _ _ _ kids _ => by simp only [refusesBlock, codesBlock]; exact refusesBlocks_any kids
  | .table _ header rows _ => by
    simp only [refusesBlock, codesBlock, List.any_append]
    rw [refusesBlocks_any header, refusesBlocks_any rows]
  | .tableRow _ cells _ => by simp only [refusesBlock, codesBlock]; exact refusesBlocks_any cells
  | .tableCell _ k _ => by simp only [refusesBlock, codesBlock]; exact refusesInlines_any k
  | .blockCode .. => rfl
  | .codeFence .. => rfl
  | .thematicBreak .. => rfl
  | .htmlBlock .. => rfl
  | .blankLine _ => rfl
  | .linkRefDefBlock .. => rfl
theorem refusesBlocks_any : ∀ (bs : List Mistletoe.Block), refusesBlocks bs = (codesBlocks bs).any noDelim
  | [] => rfl
  | b :: bs => by
    simp only [refusesBlocks, codesBlocks, List.any_append]
    rw [refusesBlock_any b, refusesBlocks_any bs]
end

/-- **the refusal predicate of Model/Latex.lean holds exactly when some rendered inline code of the
    tree contains every character of `verb_delimiters`** -/
theorem refusesBlocks_iff (bs : List Mistletoe.Block) :
    refusesBlocks bs = true ↔ ∃ c ∈ codesBlocks bs, UsesAllDelims c := by
  rw [refusesBlocks_any, List.any_eq_true]
  constructor
  · rintro ⟨c, hc, h⟩; exact ⟨c, hc, (verbDelim_isNone c).mp h⟩
  · rintro ⟨c, hc, h⟩; exact ⟨c, hc, (verbDelim_isNone c).mpr h⟩

/-- on a supported tree with well-shaped tables the renderer returns a string or refuses — nothing else -/
theorem renderRes_ok_or_refusal (d : Doc) (hs : supportedBlocks d.kids = true) (hh : headersOkBlocks d.kids = true) :
    (∃ out, renderRes d = .ok out) ∨
    (renderRes d = .err (.refusal 0) ∧ ∃ c ∈ codes d, UsesAllDelims c) := by
  unfold renderRes
  cases hr : refusesBlocks d.kids
  · left; exact ⟨render d, by simp [hs, hh]⟩
  · right; exact ⟨by simp, (refusesBlocks_iff d.kids).mp hr⟩

/-! ## Part 2: the inline phase only makes tokens of the classes in the span-token list -/

/-- the span-token classes whose tokens the LaTeX renderer can render (Math yes; HtmlSpan no) -/
def clsLx : STok → Bool
  | .htmlSpan => false
  | .githubWiki => false
  | .xwikiMacroStart => false
  | .xwikiMacroEnd => false
  | _ => true

theorem inlineCodeOf_lx (s : Str) (m : InlineScan.CodeM) : supportedInline (inlineCodeOf s m) = true := by
  unfold inlineCodeOf
  simp only
  split <;> rfl

mutual
theorem build_lx (s : Str) (found : List Found) (hf : ∀ f ∈ found, clsLx f.cls = true) :
    ∀ (o : Span.Out), supportedInline (build s found o) = true
  | .raw a b => by simp [build, supportedInline]
  | .tok c kids => by
    have ih := builds_lx s found hf kids
    simp only [build]
    split
    · rfl
    · rename_i f hfe
      have hc := hf f (List.mem_of_getElem? hfe)
      split
      all_goals first
        | rfl
        | exact ih
        | exact inlineCodeOf_lx s _
        | (split <;> first | exact ih | rfl)
        | (rename_i hcls _; rw [hcls] at hc; exact absurd hc (by simp [clsLx]))
        | (rename_i hcls; rw [hcls] at hc; exact absurd hc (by simp [clsLx]))
theorem builds_lx (s : Str) (found : List Found) (hf : ∀ f ∈ found, clsLx f.cls = true) :
    ∀ (os : List Span.Out), supportedInlines (builds s found os) = true
  | [] => rfl
  | o :: os => by
    simp only [builds, supportedInlines, Bool.and_eq_true]
    exact ⟨build_lx s found hf o, builds_lx s found hf os⟩
end

/-- **`tokenize_inner` under a span-token list without HtmlSpan, GithubWiki and the XWiki macro tokens
    only returns tokens the LaTeX renderer has a render function for**, at every depth -/
theorem tokenizeInner_lx (types : List STok) (ht : ∀ t ∈ types, clsLx t = true)
    (fn : Footnotes.Table) (s : Str) (ks : List Inline) (h : tokenizeInner types fn s = .ok ks) :
    supportedInlines ks = true := by
  unfold tokenizeInner at h
  split at h
  · cases h
  · rename_i found hfound
    cases h
    apply builds_lx
    intro f hf
    have key : ∀ (cr : Res (List Core.CoreM × List InlineScan.CodeM)),
        (match cr with
          | .err e => (Res.err e : Res (List Found))
          | .ok (core, codes) => .ok (types.flatMap (findOne s core codes))) = .ok found → clsLx f.cls = true := by
      intro cr hcr
      split at hcr
      · cases hcr
      · cases hcr
        obtain ⟨t, htm, hft⟩ := List.mem_flatMap.mp hf
        rw [Contrib.findOne_cls _ _ _ t f hft]
        exact ht t htm
    exact key _ hfound

/-! ## Part 3: the block phase makes no HtmlBlock / BlankLine / LinkReferenceDefinitionBlock entry
    unless the class is in the list -/

mutual
/-- no HtmlBlock, BlankLine or LinkReferenceDefinitionBlock entry, at any nesting depth -/
def EntryLx : Entry → Prop
  | .blockCode _ _ _ => True
  | .heading _ _ _ _ _ => True
  | .quote inner _ _ _ => EntriesLx inner
  | .codeFence _ _ _ _ _ _ _ => True
  | .thematicBreak _ _ _ => True
  | .list items _ _ => ItemsLx items
  | .table _ _ _ _ => True
  | .footnote _ _ _ => True
  | .linkRefDefs _ _ _ => False
  | .paragraph _ _ _ => True
  | .setext _ _ _ => True
  | .htmlBlock _ _ _ => False
  | .blankLine _ _ => False
def EntriesLx : List Entry → Prop
  | [] => True
  | e :: es => EntryLx e ∧ EntriesLx es
def ItemLx : Item → Prop
  | .mk inner _ _ _ _ _ _ => EntriesLx inner
def ItemsLx : List Item → Prop
  | [] => True
  | i :: is => ItemLx i ∧ ItemsLx is
end

theorem entriesLx_append : ∀ (a b : List Entry), EntriesLx a → EntriesLx b → EntriesLx (a ++ b)
  | [], _, _, hb => by simpa using hb
  | x :: xs, b, ha, hb => by
    simp only [List.cons_append, EntriesLx] at ha ⊢
    exact ⟨ha.1, entriesLx_append xs b ha.2 hb⟩

theorem entriesLx_reverse : ∀ (a : List Entry), EntriesLx a → EntriesLx a.reverse
  | [], _ => by simp [EntriesLx]
  | x :: xs, h => by
    simp only [EntriesLx] at h
    rw [List.reverse_cons]
    exact entriesLx_append _ _ (entriesLx_reverse xs h.2) (by simp [EntriesLx, h.1])

theorem itemsLx_append : ∀ (a b : List Item), ItemsLx a → ItemsLx b → ItemsLx (a ++ b)
  | [], _, _, hb => by simpa using hb
  | x :: xs, b, ha, hb => by
    simp only [List.cons_append, ItemsLx] at ha ⊢
    exact ⟨ha.1, itemsLx_append xs b ha.2 hb⟩

theorem itemsLx_reverse : ∀ (a : List Item), ItemsLx a → ItemsLx a.reverse
  | [], _ => by simp [ItemsLx]
  | x :: xs, h => by
    simp only [ItemsLx] at h
    rw [List.reverse_cons]
    exact itemsLx_append _ _ (itemsLx_reverse xs h.2) (by simp [ItemsLx, h.1])

def TokLx (cfg : Block.Cfg) (gas : Nat) : Prop :=
  ∀ (lines : List Line) (start : Nat) (st : St) (b : Buf) (st' : St),
    tokenizeBlock cfg gas lines start st = .ok (b, st') → EntriesLx b.entries

def LoopLx (cfg : Block.Cfg) (gas : Nat) : Prop :=
  ∀ (fw : FW) (st : St) (acc : List Entry) (loose : Bool) (b) (st'),
    tokLoop cfg gas fw st acc loose = .ok (b, st') → EntriesLx acc → EntriesLx b.entries

def TryLx (cfg : Block.Cfg) (gas : Nat) : Prop :=
  ∀ (fw : FW) (st : St) (l : Line) (ts : List BTok) (e : Entry) (fw' : FW) (st' : St),
    tryTypes cfg gas fw st l ts = .ok (some (e, fw', st')) →
      .htmlBlock ∉ ts → .blankLine ∉ ts → .linkRefDefBlock ∉ ts → EntryLx e

def ListLx (cfg : Block.Cfg) (gas : Nat) : Prop :=
  ∀ (fw : FW) (st : St) (ld) (nm) (acc : List Item) (r),
    readList cfg gas fw st ld nm acc = .ok r → ItemsLx acc → ItemsLx r.1

theorem list_lx (cfg : Block.Cfg) (gas : Nat) (hT : TokLx cfg gas) (hL : ListLx cfg gas) : ListLx cfg (gas + 1) := by
  intro fw st ld nm acc r h hacc
  have hstop : ∀ (items : List Item) (fwEnd : FW) (stEnd : St) (rr : List Item × FW × St), ItemsLx items →
      (Res.ok ((match items with
        | .mk inner loose i p l n g :: rest => Item.mk inner (decide (inner.length > 1) && loose) i p l n g :: rest
        | [] => []).reverse, fwEnd, stEnd) : Res _) = .ok rr → ItemsLx rr.1 := by
    intro items fwEnd stEnd rr hi he
    cases he
    cases items with
    | nil => simp [ItemsLx]
    | cons x xs =>
      cases x
      simp only [ItemsLx, ItemLx] at hi
      refine itemsLx_reverse _ ?_
      simp only [ItemsLx, ItemLx]
      exact hi
  simp only [readList] at h
  split at h
  · exact hstop acc _ _ r hacc h
  split at h
  · cases h
  · rename_i il hil
    have key : ∀ (item : Item) (itemLeader : Str) (next : Option (Nat × Nat × Str × Str)) (fw' : FW) (st' : St),
        (match il with
          | .empty ind pre ldr ln og next fw' => (Res.ok (Item.mk [] true ind pre ldr ln og, ldr, next, fw', st) : Res _)
          | .lines buf cstart ind pre ldr ln og next fw' =>
            match tokenizeBlock cfg gas buf cstart st with
            | .err e => .err e
            | .ok (b, st') => .ok (Item.mk b.entries b.loose ind pre ldr ln og, ldr, next, fw', st'))
          = .ok (item, itemLeader, next, fw', st') → ItemLx item := by
      intro item itemLeader next fw' st' he
      cases il with
      | empty ind pre ldr ln og nx fwx =>
        simp only at he; cases he
        trivial
      | lines buf cstart ind pre ldr ln og nx fwx =>
        simp only at he
        split at he
        · cases he
        · rename_i b stb hb
          cases he
          exact hT _ _ _ _ _ hb
    split at h
    · cases h
    · rename_i item itemLeader next fw' st' hres
      have hkw := key item itemLeader next fw' st' hres
      have hacc' : ItemsLx (item :: acc) := ⟨hkw, hacc⟩
      split at h
      · split at h
        · exact hstop _ _ _ r hacc' h
        · exact hL _ st' _ _ _ r h hacc'
      · split at h
        · exact hstop _ _ _ r hacc' h
        · exact hL _ st' _ _ _ r h hacc'

theorem try_lx (cfg : Block.Cfg) (gas : Nat) (hT : TokLx cfg gas) (hL : ListLx cfg gas) (hY : TryLx cfg gas) :
    TryLx cfg (gas + 1) := by
  intro fw st l ts e fw' st' h hhb hbl hlr
  cases ts with
  | nil => simp [tryTypes] at h
  | cons t ts =>
    have hhb' : .htmlBlock ∉ ts := fun hm => hhb (List.mem_cons_of_mem _ hm)
    have hbl' : .blankLine ∉ ts := fun hm => hbl (List.mem_cons_of_mem _ hm)
    have hlr' : .linkRefDefBlock ∉ ts := fun hm => hlr (List.mem_cons_of_mem _ hm)
    have ih := fun fw2 st2 (h2 : tryTypes cfg gas fw2 st2 l ts = .ok (some (e, fw', st'))) =>
      hY fw2 st2 l ts e fw' st' h2 hhb' hbl' hlr'
    unfold tryTypes at h
    cases t <;> simp only at h
    · -- htmlBlock
      exact absurd (List.mem_cons_self ..) hhb
    · -- blockCode
      split at h
      · cases h; trivial
      · exact ih fw st h
    · -- heading
      split at h
      · cases h; trivial
      · exact ih fw st h
    · -- quote
      split at h
      · split at h
        · cases h
        · split at h
          · cases h
          · rename_i b stb hb
            cases h
            exact hT _ _ _ _ _ hb
      · exact ih fw st h
    · -- codeFence
      split at h
      · cases h; trivial
      · exact ih fw st h
    · -- thematicBreak
      split at h
      · cases h; trivial
      · exact ih fw st h
    · -- list
      split at h
      · split at h
        · cases h
        · rename_i items fwl stl hrl
          cases h
          exact hL fw st none none [] _ hrl trivial
      · exact ih fw st h
    · -- table
      split at h
      · split at h
        · cases h; trivial
        · exact ih fw st h
      · exact ih fw st h
    · -- footnote
      split at h
      · split at h
        · cases h
        · split at h
          · exact ih _ _ h
          · cases h; trivial
      · exact ih fw st h
    · -- paragraph
      split at h
      · split at h
        · cases h
        · cases h; trivial
        · cases h; trivial
      · exact ih fw st h
    · -- blankLine
      exact absurd (List.mem_cons_self ..) hbl
    · -- linkRefDefBlock
      exact absurd (List.mem_cons_self ..) hlr

theorem loop_lx (cfg : Block.Cfg) (hhb : .htmlBlock ∉ cfg.types) (hbl : .blankLine ∉ cfg.types)
    (hlr : .linkRefDefBlock ∉ cfg.types)
    (gas : Nat) (hY : TryLx cfg gas) (hP : LoopLx cfg gas) : LoopLx cfg (gas + 1) := by
  intro fw st acc loose b st' h hacc
  simp only [tokLoop] at h
  split at h
  · cases h; exact entriesLx_reverse acc hacc
  · rename_i l hp
    split at h
    · cases h
    · rename_i e fw2 st2 ht
      exact hP fw2 st2 _ loose b st' h ⟨hY fw st l cfg.types e fw2 st2 ht hhb hbl hlr, hacc⟩
    · exact hP fw.next st acc true b st' h hacc

theorem tok_lx (cfg : Block.Cfg) (gas : Nat) (hP : LoopLx cfg gas) : TokLx cfg (gas + 1) := by
  intro lines start st b st' h
  simp only [tokenizeBlock] at h
  exact hP _ _ _ _ _ _ h trivial

theorem all_lx (cfg : Block.Cfg) (hhb : .htmlBlock ∉ cfg.types) (hbl : .blankLine ∉ cfg.types)
    (hlr : .linkRefDefBlock ∉ cfg.types) :
    ∀ (gas : Nat), TokLx cfg gas ∧ LoopLx cfg gas ∧ TryLx cfg gas ∧ ListLx cfg gas
  | 0 => by
    refine ⟨?_, ?_, ?_, ?_⟩
    · intro lines start st b st' h; simp [tokenizeBlock] at h
    · intro fw st acc loose b st' h; simp [tokLoop] at h
    · intro fw st l ts e fw' st' h; simp [tryTypes] at h
    · intro fw st ld nm acc r h; simp [readList] at h
  | gas + 1 => by
    obtain ⟨hT, hP, hY, hL⟩ := all_lx cfg hhb hbl hlr gas
    exact ⟨tok_lx cfg gas hP, loop_lx cfg hhb hbl hlr gas hY hP, try_lx cfg gas hT hL hY, list_lx cfg gas hT hL⟩

/-- **a block-token list without HtmlBlock, BlankLine and LinkReferenceDefinitionBlock yields a buffer
    without such entries**, at every nesting depth (no hypothesis on the lines) -/
theorem blockPhase_lx (cfg : Block.Cfg) (hhb : .htmlBlock ∉ cfg.types) (hbl : .blankLine ∉ cfg.types)
    (hlr : .linkRefDefBlock ∉ cfg.types)
    (gas : Nat) (lines : List Str) (b : Buf) (st : St) (h : blockPhase cfg gas lines = .ok (b, st)) : EntriesLx b.entries :=
  (all_lx cfg hhb hbl hlr gas).1 _ 1 {} b st h

/-! ## Part 4: the block token constructors on such a buffer -/

/-- what the renderer needs of a block: every class has a render function, `column_align` entries are
    known, headers are TableRows -/
def BlockLx (b : Mistletoe.Block) : Prop := supportedBlock b = true ∧ headersOkBlock b = true
def BlocksLx (bs : List Mistletoe.Block) : Prop := supportedBlocks bs = true ∧ headersOkBlocks bs = true

theorem blocksLx_nil : BlocksLx [] := ⟨rfl, rfl⟩

theorem blocksLx_cons {b : Mistletoe.Block} {bs : List Mistletoe.Block} (hb : BlockLx b) (hbs : BlocksLx bs) : BlocksLx (b :: bs) := by
  refine ⟨?_, ?_⟩
  · simp only [supportedBlocks, Bool.and_eq_true]; exact ⟨hb.1, hbs.1⟩
  · simp only [headersOkBlocks, Bool.and_eq_true]; exact ⟨hb.2, hbs.2⟩

/-- the hypothesis on the inline phase (discharged by `tokenizeInner_lx`) -/
def InlLx (cfg : Document.Cfg) (fn : Footnotes.Table) : Prop :=
  ∀ (s : Str) (ks : List Inline), Document.inl cfg fn s = .ok ks → supportedInlines ks = true

/-- `Table.parse_align` returns None, 0 or 1 -/
theorem parseAlign_ok (col : Str) (a : Option Nat) (h : Document.parseAlign col = .ok a) : alignOk a = true := by
  unfold Document.parseAlign at h
  split at h
  · cases h
    split
    · split <;> rfl
    · rfl
  · cases h

theorem mapRes_parseAlign_ok : ∀ (cols : List Str) (al : List (Option Nat)),
    Document.mapRes Document.parseAlign cols = .ok al → al.all alignOk = true
  | [], al, h => by simp only [Document.mapRes] at h; cases h; rfl
  | c :: cs, al, h => by
    simp only [Document.mapRes] at h
    split at h
    · cases h
    · rename_i a ha
      split at h
      · cases h
      · rename_i more hm
        cases h
        simp only [List.all_cons, Bool.and_eq_true]
        exact ⟨parseAlign_ok c a ha, mapRes_parseAlign_ok cs more hm⟩

theorem tableRow_go_lx (cfg : Document.Cfg) (fn : Footnotes.Table) (hinl : InlLx cfg fn) (ln : Nat) :
    ∀ (zs : List (Option Str × Option Nat)) (cs : List Mistletoe.Block),
      Document.tableRow.go cfg fn ln zs = .ok cs → BlocksLx cs
  | [], cs, h => by simp only [Document.tableRow.go] at h; cases h; exact blocksLx_nil
  | (c, a) :: rest, cs, h => by
    simp only [Document.tableRow.go] at h
    split at h
    · cases h
    · rename_i kids hk
      split at h
      · cases h
      · rename_i more hm
        cases h
        refine blocksLx_cons ⟨?_, rfl⟩ (tableRow_go_lx cfg fn hinl ln rest more hm)
        simp only [supportedBlock]
        exact hinl _ _ hk

/-- `TableRow(line, row_align, line_number)` is a TableRow of renderable cells -/
theorem tableRow_lx (cfg : Document.Cfg) (fn : Footnotes.Table) (hinl : InlLx cfg fn)
    (line : Str) (al : List (Option Nat)) (ln : Nat) (r : Mistletoe.Block)
    (h : Document.tableRow cfg fn line al ln = .ok r) : headerShape [r] = true ∧ BlockLx r := by
  unfold Document.tableRow at h
  simp only at h
  split at h
  · cases h
  · rename_i cs hcs
    cases h
    have := tableRow_go_lx cfg fn hinl ln _ cs hcs
    refine ⟨rfl, ?_, ?_⟩
    · simp only [supportedBlock]; exact this.1
    · simp only [headersOkBlock]; exact this.2

theorem tableRows_lx (cfg : Document.Cfg) (fn : Footnotes.Table) (hinl : InlLx cfg fn) :
    ∀ (ls : List Str) (al : List (Option Nat)) (ln : Nat) (rs : List Mistletoe.Block),
      Document.tableRows cfg fn ls al ln = .ok rs → BlocksLx rs
  | [], _, _, rs, h => by simp only [Document.tableRows] at h; cases h; exact blocksLx_nil
  | l :: rest, al, ln, rs, h => by
    simp only [Document.tableRows] at h
    split at h
    · cases h
    · rename_i r hr
      split at h
      · cases h
      · rename_i more hm
        cases h
        exact blocksLx_cons (tableRow_lx cfg fn hinl l al ln r hr).2 (tableRows_lx cfg fn hinl rest al (ln + 1) more hm)

mutual
theorem mkBlock_lx (cfg : Document.Cfg) (fn : Footnotes.Table) (hinl : InlLx cfg fn) :
    ∀ (e : Entry), EntryLx e → ∀ (b : Mistletoe.Block), Document.mkBlock cfg fn e = .ok (some b) → BlockLx b
  | .blockCode ls ln og, _, b, h => by simp only [Document.mkBlock] at h; cases h; exact ⟨rfl, rfl⟩
  | .heading lvl content closing ln og, _, b, h => by
    simp only [Document.mkBlock] at h
    split at h
    · cases h
    · rename_i kids hk; cases h; exact ⟨hinl _ _ hk, rfl⟩
  | .quote inner lo ln og, hc, b, h => by
    simp only [Document.mkBlock] at h
    split at h
    · cases h
    · rename_i kids hk
      cases h
      have := mkBlocks_lx cfg fn hinl inner (by simpa [EntryLx] using hc) kids hk
      exact ⟨by simp only [supportedBlock]; exact this.1, by simp only [headersOkBlock]; exact this.2⟩
  | .codeFence ls p ld info lang ln og, _, b, h => by simp only [Document.mkBlock] at h; cases h; exact ⟨rfl, rfl⟩
  | .thematicBreak line ln og, _, b, h => by simp only [Document.mkBlock] at h; cases h; exact ⟨rfl, rfl⟩
  | .list items ln og, hc, b, h => by
    simp only [Document.mkBlock] at h
    split at h
    · cases h
    · rename_i its hits
      have hi := mkItems_lx cfg fn hinl items (by simpa [EntryLx] using hc) its hits
      split at h
      · cases h
      · cases h
        exact ⟨by simp only [supportedBlock]; exact hi.1, by simp only [headersOkBlock]; exact hi.2⟩
  | .table lines sl ln og, _, b, h => by
    simp only [Document.mkBlock] at h
    split at h
    · rename_i l0 l1 rest
      split at h
      · split at h
        · cases h
        · rename_i align hal
          split at h
          · cases h
          · rename_i header hh
            split at h
            · cases h
            · rename_i rows hr
              cases h
              have hA := mapRes_parseAlign_ok _ _ hal
              obtain ⟨hS, hH⟩ := tableRow_lx cfg fn hinl _ _ _ _ hh
              have hR := tableRows_lx cfg fn hinl _ _ _ _ hr
              refine ⟨?_, ?_⟩
              · simp only [supportedBlock, supportedBlocks, Bool.and_eq_true, Bool.and_true]
                exact ⟨⟨hA, hH.1⟩, hR.1⟩
              · simp only [headersOkBlock, headersOkBlocks, Bool.and_eq_true, Bool.and_true]
                exact ⟨⟨hS, hH.2⟩, hR.2⟩
      · split at h
        · cases h
        · rename_i rows hr
          cases h
          have hR := tableRows_lx cfg fn hinl _ _ _ _ hr
          refine ⟨?_, ?_⟩
          · simp only [supportedBlock, supportedBlocks, Bool.and_eq_true, Bool.and_true]
            exact ⟨by decide, hR.1⟩
          · simp only [headersOkBlock, headersOkBlocks, headerShape, Bool.true_and]
            exact hR.2
    · cases h
  | .footnote ms ln og, _, b, h => by simp only [Document.mkBlock] at h; cases h
  | .linkRefDefs ms ln og, hc, _, _ => by simp [EntryLx] at hc
  | .paragraph lines ln og, _, b, h => by
    simp only [Document.mkBlock] at h
    split at h
    · cases h
    · rename_i kids hk; cases h; exact ⟨hinl _ _ hk, rfl⟩
  | .setext lines ln og, _, b, h => by
    simp only [Document.mkBlock] at h
    split at h
    · cases h
    · split at h
      · cases h
      · rename_i kids hk; cases h; exact ⟨hinl _ _ hk, rfl⟩
  | .htmlBlock lines ln og, hc, _, _ => by simp [EntryLx] at hc
  | .blankLine ln og, hc, _, _ => by simp [EntryLx] at hc
theorem mkBlocks_lx (cfg : Document.Cfg) (fn : Footnotes.Table) (hinl : InlLx cfg fn) :
    ∀ (es : List Entry), EntriesLx es → ∀ (bs : List Mistletoe.Block), Document.mkBlocks cfg fn es = .ok bs → BlocksLx bs
  | [], _, bs, h => by simp only [Document.mkBlocks] at h; cases h; exact blocksLx_nil
  | e :: es, hc, bs, h => by
    simp only [EntriesLx] at hc
    simp only [Document.mkBlocks] at h
    split at h
    · cases h
    · rename_i b hb
      split at h
      · cases h
      · rename_i bs' hbs
        cases h
        have ih := mkBlocks_lx cfg fn hinl es hc.2 bs' hbs
        cases b with
        | none => exact ih
        | some x => exact blocksLx_cons (mkBlock_lx cfg fn hinl e hc.1 x hb) ih
theorem mkItems_lx (cfg : Document.Cfg) (fn : Footnotes.Table) (hinl : InlLx cfg fn) :
    ∀ (is : List Item), ItemsLx is → ∀ (bs : List Mistletoe.Block), Document.mkItems cfg fn is = .ok bs → BlocksLx bs
  | [], _, bs, h => by simp only [Document.mkItems] at h; cases h; exact blocksLx_nil
  | .mk inner lo ind pre ld ln og :: rest, hc, bs, h => by
    simp only [ItemsLx, ItemLx] at hc
    simp only [Document.mkItems] at h
    split at h
    · cases h
    · rename_i kids hk
      split at h
      · cases h
      · rename_i more hm
        cases h
        have hk' := mkBlocks_lx cfg fn hinl inner hc.1 kids hk
        refine blocksLx_cons ⟨?_, ?_⟩ (mkItems_lx cfg fn hinl rest hc.2 more hm)
        · simp only [supportedBlock]; exact hk'.1
        · simp only [headersOkBlock]; exact hk'.2
end

/-- **every document `Document(lines)` returns under token lists without HtmlBlock, BlankLine,
    LinkReferenceDefinitionBlock, HtmlSpan, GithubWiki and the XWiki macro tokens is a tree the LaTeX
    renderer has a render function for at every node, with known `column_align` entries and TableRow
    headers** — for every list of lines and every gas -/
theorem parseLines_lx (cfg : Document.Cfg)
    (hhb : .htmlBlock ∉ cfg.block.types) (hbl : .blankLine ∉ cfg.block.types) (hlr : .linkRefDefBlock ∉ cfg.block.types)
    (hsp : ∀ t ∈ cfg.span, clsLx t = true)
    (gas : Nat) (lines : List Str) (d : Doc) (h : Document.parseLines cfg gas lines = .ok d) : BlocksLx d.kids := by
  unfold Document.parseLines at h
  split at h
  · cases h
  · rename_i buf st hb
    simp only at h
    split at h
    · cases h
    · rename_i kids hk
      cases h
      exact mkBlocks_lx cfg _ (fun s ks hs => tokenizeInner_lx cfg.span hsp _ s ks hs) _
        (blockPhase_lx cfg.block hhb hbl hlr gas lines buf st hb) kids hk

theorem parse_lx (cfg : Document.Cfg)
    (hhb : .htmlBlock ∉ cfg.block.types) (hbl : .blankLine ∉ cfg.block.types) (hlr : .linkRefDefBlock ∉ cfg.block.types)
    (hsp : ∀ t ∈ cfg.span, clsLx t = true)
    (gas : Nat) (t : Str) (d : Doc) (h : Document.parse cfg gas t = .ok d) : BlocksLx d.kids :=
  parseLines_lx cfg hhb hbl hlr hsp gas _ d h

/-! ## Part 5: the regenerated LaTeX configuration; parse-and-render returns a string or refuses -/

/-- the regenerated LaTeX lists, as the model reads them -/
theorem latex_lists (cfg : Document.Cfg) (hc : Config.latex = some cfg) :
    cfg.block.types = [.blockCode, .heading, .quote, .codeFence, .thematicBreak, .list, .table, .footnote, .paragraph] ∧
    cfg.span = [.escapeSequence, .math, .strikethrough, .autoLink, .coreTokens, .inlineCode, .lineBreak] := by
  have h : Config.latex.map (fun c => (c.block.types, c.span)) =
      some ([.blockCode, .heading, .quote, .codeFence, .thematicBreak, .list, .table, .footnote, .paragraph],
            [.escapeSequence, .math, .strikethrough, .autoLink, .coreTokens, .inlineCode, .lineBreak]) := by decide +kernel
  rw [hc] at h
  simp only [Option.map_some, Option.some.injEq, Prod.mk.injEq] at h
  exact h

/-- **every document parsed under the LaTeX renderer's token lists is supported and well shaped** -/
theorem latex_parse_lx (cfg : Document.Cfg) (hc : Config.latex = some cfg) (gas : Nat) (t : Str) (d : Doc)
    (h : Document.parse cfg gas t = .ok d) : supportedBlocks d.kids = true ∧ headersOkBlocks d.kids = true := by
  obtain ⟨hb, hs⟩ := latex_lists cfg hc
  exact parse_lx cfg (by rw [hb]; decide) (by rw [hb]; decide) (by rw [hb]; decide) (by rw [hs]; decide) gas t d h

end Mistletoe.Latex

namespace Mistletoe.Config
open Mistletoe

/-- `LaTeXRenderer().render(Document(text))`: `none` if the configuration is unknown to the model, else the
    result of the parse model followed by `Latex.renderRes` -/
def renderLatex (gas : Nat) (text : Str) : Option (Res Str) :=
  match latex with
  | none => none
  | some cfg => some ((Document.parse cfg gas text).bind Latex.renderRes)

end Mistletoe.Config

namespace Mistletoe.Props.C01
open Mistletoe Mistletoe.Block Mistletoe.Lines Mistletoe.Latex

/-- **On a parsed document the LaTeX renderer returns a string, or raises the documented refusal — and
    then some inline code of the document contains every character of `verb_delimiters`.**  No KeyError
    (every class the parser can produce under the LaTeX token lists has a `render_map` entry: no HtmlBlock,
    HtmlSpan, BlankLine, LinkReferenceDefinitionBlock; Math is rendered), no failure of `get_align`
    (`Table.parse_align` gives None, 0 or 1), `token.header` is a TableRow whenever present. -/
theorem C01_latex_total_or_refusal (cfg : Document.Cfg) (hc : Config.latex = some cfg) (gas : Nat) (t : Str) (d : Doc)
    (h : Document.parse cfg gas t = .ok d) :
    (∃ out, Latex.renderRes d = .ok out) ∨
    (Latex.renderRes d = .err (.refusal 0) ∧ ∃ c ∈ Latex.codes d, Latex.UsesAllDelims c) := by
  obtain ⟨hs, hh⟩ := latex_parse_lx cfg hc gas t d h
  exact renderRes_ok_or_refusal d hs hh

/-- **Parse-and-render with the LaTeX renderer, for every text**: with the token lists the LaTeX renderer
    installs (regenerated from /repo) and enough gas, `Document(text)` returns a document, and rendering it
    returns a string (`Latex.render d`) or raises the documented refusal. -/
theorem C01_latex_total (cfg : Document.Cfg) (hc : Config.latex = some cfg) (gas : Nat) (t : Str)
    (hg : gasBound cfg.block (docBuf (normalize (.str t))) ≤ gas) :
    ∃ d, Document.parse cfg gas t = .ok d ∧
      (Latex.renderRes d = .ok (Latex.render d) ∨
       (Latex.renderRes d = .err (.refusal 0) ∧ ∃ c ∈ Latex.codes d, Latex.UsesAllDelims c)) := by
  obtain ⟨d, hd⟩ := C01_parse_terminates cfg gas t hg
  refine ⟨d, hd, ?_⟩
  rcases C01_latex_total_or_refusal cfg hc gas t d hd with ⟨out, ho⟩ | hr
  · left; rw [ho, renderRes_ok d ho]
  · right; exact hr

/-- how rare the refusal is: on ANY tree it needs an inline code that contains (among the 42 delimiters) a
    backtick, a '|' and every digit — so the code span must be delimited by two or more backticks -/
theorem C01_latex_refusal_needs_backtick (d : Doc) (h : Latex.renderRes d = .err (.refusal 0)) :
    ∃ c ∈ Latex.codes d, '`' ∈ c ∧ '|' ∈ c ∧ ∀ x ∈ "0123456789".toList, x ∈ c := by
  rcases renderRes_err d _ h with hr | hr | hr
  · obtain ⟨c, hc, hall⟩ := (refusesBlocks_iff d.kids).mp hr.2
    exact ⟨c, hc, hall _ (by decide), hall _ (by decide), fun x hx => hall x (by revert x; decide)⟩
  · cases hr.1
  · cases hr.1

/-- the only error values parse-and-render can return at all: `.fuel` (too little gas given to the model)
    and the documented refusal -/
theorem C01_latex_no_raise (cfg : Document.Cfg) (hc : Config.latex = some cfg) (gas : Nat) (t : Str) (e : Err)
    (h : (Document.parse cfg gas t).bind Latex.renderRes = .err e) : e = .fuel ∨ e = .refusal 0 := by
  cases hd : Document.parse cfg gas t with
  | err e' =>
    rw [hd] at h
    cases h
    exact .inl (C01_parse_no_raise cfg gas t _ hd)
  | ok d =>
    rw [hd] at h
    simp only [Res.bind] at h
    rcases C01_latex_total_or_refusal cfg hc gas t d hd with ⟨out, ho⟩ | hr
    · rw [ho] at h; cases h
    · rw [hr.1] at h; cases h; exact .inr rfl

/-- the configuration exists: the regenerated lists are known to the model -/
example : Config.latex.isSome = true := by decide +kernel

/-! ### The documented refusal is reachable: a witness -/

/-- an inline code (double-backtick delimited, so that it may contain a backtick) holding all 42 characters
    of `verb_delimiters`.  On the real code:
    `mistletoe.markdown('`` |!"\'=+#$%&()*,-./:;<>?@[\\]^_`{}~0123456789 ``', LaTeXRenderer)` raises
    `RuntimeError: Unable to find delimiter for verb macro`. -/
def refusalText : Str := "`` |!\"'=+#$%&()*,-./:;<>?@[\\]^_`{}~0123456789 ``".toList

example : Config.renderLatex 50 refusalText = some (.err (.refusal 0)) := by decide +kernel

/-- the witness really is built from the regenerated table -/
example : refusalText = "`` ".toList ++ Gen.Chains.verbDelimiters ++ " ``".toList := by decide +kernel

/-- one delimiter fewer ('9' missing) and the renderer picks it -/
example : Config.renderLatex 50 "`` |!\"'=+#$%&()*,-./:;<>?@[\\]^_`{}~012345678 ``".toList =
    some (.ok ("\\documentclass{article}\n\\begin{document}\n\n\\verb9|!\"'=+#$%&()*,-./:;<>?@[\\]^_`{}~0123456789\n\\end{document}\n".toList)) := by
  decide +kernel

/-! ### Non-vacuity of the `.ok` side -/

/-- a table (centred and right-aligned columns, a math span and an inline code in cells), a nested list
    (ordered inside bullet) and a code fence.  The expected string is the output of the real code:
    `mistletoe.markdown("| a | $x$ |\n|:-:|--:|\n| 1 | `c` |\n\n- x\n  1. y\n\n```py\nz\n```\n", LaTeXRenderer)` -/
def sample : Str := "| a | $x$ |\n|:-:|--:|\n| 1 | `c` |\n\n- x\n  1. y\n\n```py\nz\n```\n".toList

example : Config.renderLatex 60 sample = some (.ok
    "\\documentclass{article}\n\\usepackage{amsmath}\n\\usepackage{amsfonts}\n\\usepackage{amssymb}\n\\usepackage{listings}\n\\begin{document}\n\\begin{tabular}{c r}\na & $x$ \\\\\n\\hline\n1 & \\verb|c| \\\\\n\\end{tabular}\n\\begin{itemize}\n\\item \nx\n\\begin{enumerate}\n\\item \ny\n\n\\end{enumerate}\n\n\\end{itemize}\n\n\\begin{lstlisting}[language=py]\nz\n\\end{lstlisting}\n\\end{document}\n".toList) := by
  decide +kernel

/-- under the LaTeX lists raw HTML is not a token: it stays text (the real code gives the same string) -/
example : Config.renderLatex 50 "<div>\nhi\n</div>\n\na <b>x</b>\n".toList =
    some (.ok "\\documentclass{article}\n\\begin{document}\n\n<div>\nhi\n</div>\n\na <b>x</b>\n\\end{document}\n".toList) := by
  decide +kernel

/-- the theorems applied: the hypotheses (configuration known, gas bound) are satisfiable -/
example : ∃ d, Document.parse (Config.latex.get (by decide +kernel)) 2000 "> - `a`\n>\n> $b$".toList = .ok d ∧
    (Latex.renderRes d = .ok (Latex.render d) ∨
     (Latex.renderRes d = .err (.refusal 0) ∧ ∃ c ∈ Latex.codes d, Latex.UsesAllDelims c)) :=
  C01_latex_total (Config.latex.get (by decide +kernel)) (Option.some_get _).symm 2000 _ (by decide +kernel)

/-- `renderRes` is exact: what the theorem excludes does make the view raise (trees no parse produces) -/
example : Latex.renderRes ⟨[.htmlBlock "<p>".toList 1], []⟩ = .err .key ∧
    Latex.renderRes ⟨[.paragraph [.htmlSpan "<b>".toList] 1], []⟩ = .err .key ∧
    Latex.renderRes ⟨[.blankLine 1], []⟩ = .err .key ∧
    Latex.renderRes ⟨[.table [some 2] [] [] 1], []⟩ = .err .type ∧
    Latex.renderRes ⟨[.table [none] [.thematicBreak [] 1] [] 1], []⟩ = .err .type ∧
    (Latex.renderRes ⟨[.table [none] [] [] 1, .quote [] 2, .list false none [] 3,
        .paragraph [.image [] [] .uri none none [.htmlSpan "<b>".toList]] 4], []⟩).isOk = true := by
  decide +kernel

end Mistletoe.Props.C01
