/-
  The model of `core_tokens.find_core_tokens` refines the specification of emphasis
  (Spec/Emphasis.lean: CommonMark 0.30 section 6.2 and the *process emphasis* procedure).
-/
import Mistletoe.Proofs.EmphSpec
import Mistletoe.Spec.Emphasis
namespace Mistletoe.EmphRefine
open Mistletoe Mistletoe.Py Mistletoe.Scan Mistletoe.InlineScan Mistletoe.Core Mistletoe.Spec
set_option linter.unusedVariables false

/-! ### character classes -/

/-- the eight code points that `core_tokens.unicode_whitespace` contains and that are not Unicode
    whitespace characters in the sense of the specification: U+000B, U+001C–U+001F, U+0085,
    U+2028, U+2029 -/
def deviantWs (c : Char) : Bool := inRanges [(11, 11), (28, 31), (133, 133), (8232, 8233)] c

/-- `core_tokens.unicode_whitespace` = the specification's Unicode whitespace ∪ the eight -/
theorem uniWs_eq (c : Char) : uniWs c = (Emphasis.isUnicodeWhitespace c || deviantWs c) := by
  unfold uniWs Emphasis.isUnicodeWhitespace deviantWs inRanges Gen.Tables.unicodeWhitespace
  simp only [List.any_cons, List.any_nil, Bool.or_false]
  generalize c.toNat = n
  rw [Bool.eq_iff_iff]
  simp only [Bool.or_eq_true, Bool.and_eq_true, decide_eq_true_eq]
  omega

theorem punct_eq (c : Char) : punct c = Emphasis.isUnicodePunctuation c := rfl

theorem uniWs_space : uniWs ' ' = true := by decide
theorem punct_space : punct ' ' = false := by decide

/-- no character of the text is one of the eight -/
def StdWs (s : Str) : Prop := ∀ c ∈ s, deviantWs c = false

theorem uniWs_std {s : Str} (h : StdWs s) (c : Char) (hc : c ∈ s) : uniWs c = Emphasis.isUnicodeWhitespace c := by
  rw [uniWs_eq, h c hc, Bool.or_false]

/-! ### flanking: `is_opener` / `is_closer` are the specification's "can open" / "can close" -/

theorem precededBy_ws (s : Str) (a : Nat) (h : StdWs s) :
    precededBy a s uniWs = Emphasis.wsAt (Emphasis.charBefore s a) := by
  unfold precededBy Emphasis.charBefore
  by_cases ha : a = 0
  · simp [ha, Emphasis.wsAt, uniWs_space]
  · rw [if_pos (by omega), if_neg ha]
    cases hc : s[a - 1]? with
    | none => simp [Emphasis.wsAt, uniWs_space]
    | some c => simp [Emphasis.wsAt, uniWs_std h c (List.mem_of_getElem? hc)]

theorem succeededBy_ws (s : Str) (b : Nat) (h : StdWs s) :
    succeededBy b s uniWs = Emphasis.wsAt (Emphasis.charAfter s b) := by
  unfold succeededBy Emphasis.charAfter
  cases hc : s[b]? with
  | none => simp [Emphasis.wsAt, uniWs_space]
  | some c => simp [Emphasis.wsAt, uniWs_std h c (List.mem_of_getElem? hc)]

theorem precededBy_punct (s : Str) (a : Nat) :
    precededBy a s punct = Emphasis.punctAt (Emphasis.charBefore s a) := by
  unfold precededBy Emphasis.charBefore
  by_cases ha : a = 0
  · simp [ha, Emphasis.punctAt, punct_space]
  · rw [if_pos (by omega), if_neg ha]
    cases hc : s[a - 1]? with
    | none => simp [Emphasis.punctAt, punct_space]
    | some c => simp [Emphasis.punctAt, punct_eq]

theorem succeededBy_punct (s : Str) (b : Nat) :
    succeededBy b s punct = Emphasis.punctAt (Emphasis.charAfter s b) := by
  unfold succeededBy Emphasis.charAfter
  cases hc : s[b]? with
  | none => simp [Emphasis.punctAt, punct_space]
  | some c => simp [Emphasis.punctAt, punct_eq]

theorem isLeft_eq (s : Str) (a b : Nat) (h : StdWs s) :
    isLeftDelimiter a b s = Emphasis.leftFlanking (Emphasis.charBefore s a) (Emphasis.charAfter s b) := by
  unfold isLeftDelimiter Emphasis.leftFlanking
  rw [precededBy_ws s a h, succeededBy_ws s b h, precededBy_punct, succeededBy_punct]
  cases Emphasis.wsAt (Emphasis.charBefore s a) <;> cases Emphasis.wsAt (Emphasis.charAfter s b) <;>
    cases Emphasis.punctAt (Emphasis.charBefore s a) <;> cases Emphasis.punctAt (Emphasis.charAfter s b) <;> rfl

theorem isRight_eq (s : Str) (a b : Nat) (h : StdWs s) :
    isRightDelimiter a b s = Emphasis.rightFlanking (Emphasis.charBefore s a) (Emphasis.charAfter s b) := by
  unfold isRightDelimiter Emphasis.rightFlanking
  rw [precededBy_ws s a h, succeededBy_ws s b h, precededBy_punct, succeededBy_punct]
  cases Emphasis.wsAt (Emphasis.charBefore s a) <;> cases Emphasis.wsAt (Emphasis.charAfter s b) <;>
    cases Emphasis.punctAt (Emphasis.charBefore s a) <;> cases Emphasis.punctAt (Emphasis.charAfter s b) <;> rfl

/-- **`is_opener` is "can open emphasis"** (rules 1, 2, 5, 6) for a run of `c` at `[a, b)` -/
theorem isOpener_eq (s : Str) (a b : Nat) (c : Char) (h : StdWs s) (hc : s[a]? = some c) :
    isOpener a b s = Emphasis.canOpen c (Emphasis.charBefore s a) (Emphasis.charAfter s b) := by
  unfold isOpener Emphasis.canOpen
  rw [hc, isLeft_eq s a b h, isRight_eq s a b h, precededBy_punct]
  by_cases hs : c = '*'
  · simp [hs]
  · simp [hs]

/-- **`is_closer` is "can close emphasis"** (rules 3, 4, 7, 8) -/
theorem isCloser_eq (s : Str) (a b : Nat) (c : Char) (h : StdWs s) (hc : s[a]? = some c) :
    isCloser a b s = Emphasis.canClose c (Emphasis.charBefore s a) (Emphasis.charAfter s b) := by
  unfold isCloser Emphasis.canClose
  rw [hc, isLeft_eq s a b h, isRight_eq s a b h, succeededBy_punct]
  by_cases hs : c = '*'
  · simp [hs]
  · simp [hs]

/-! ### stack entries of the specification as `Delimiter`s -/

/-- the `Delimiter` object of a stack entry of the specification -/
def toDelim (r : Emphasis.Run) : Delim :=
  { type := List.replicate r.count r.char, number := r.count, runLength := r.orig, active := true,
    start := r.start, stop := r.start + r.count, emph := true, opens := r.canOpen, closes := r.canClose }

/-- the `MatchObj` of an emphasis node of the specification -/
def toCoreM (s : Str) (m : Emphasis.Match) : CoreM :=
  { start := m.openStart, stop := m.closeStop, kind := if m.strong then .strong else .emphasis,
    ts := m.openStop, te := m.closeStart, dest := [], title := [], delimiter := (s[m.openStart]?).getD ' ' }

/-- **`Delimiter(start, end, string)` for a delimiter run is the specification's stack entry** -/
theorem mkDelim_eq_toDelim (s : Str) (c : Char) (a n : Nat) (h : StdWs s) (hn : 1 ≤ n)
    (hd : Emphasis.isDelimChar c = true) (hsl : slice s a (a + n) = List.replicate n c) :
    mkDelim a (a + n) s = toDelim (Emphasis.mkRun s c a n) := by
  have hhead : (slice s a (a + n)).head? = some c := by
    rw [hsl]; cases n with
    | zero => omega
    | succ k => rfl
  have hc : s[a]? = some c := by rw [← slice_head s a (a + n) (by omega)]; exact hhead
  have he : ((some c == some '*') || (some c == some '_')) = true := by
    simpa [Emphasis.isDelimChar] using hd
  unfold mkDelim toDelim Emphasis.mkRun
  simp only [hhead, he, Bool.true_and, Nat.add_sub_cancel_left,
    isOpener_eq s a (a + n) c h hc, isCloser_eq s a (a + n) c h hc]
  rw [hsl]

/-! ### the delimiter runs of a text -/

theorem countRun_take (c : Char) : ∀ (l : Str), l.take (Emphasis.countRun c l) = List.replicate (Emphasis.countRun c l) c
  | [] => rfl
  | d :: rest => by
    simp only [Emphasis.countRun]
    split
    · rename_i h; subst h
      simp [List.replicate_succ, countRun_take d rest]
    · rfl

/-- every run found lies at or after `pos`, is a run of a delimiter character, is not empty, and the
    text holds that many copies of the character there -/
theorem runSpans_spec : ∀ (suf pre : Str) (prev : Option Char) (r : Char × Nat × Nat),
    r ∈ Emphasis.runSpans prev pre.length suf →
    Emphasis.isDelimChar r.1 = true ∧ pre.length ≤ r.2.1 ∧ 1 ≤ r.2.2 ∧
      slice (pre ++ suf) r.2.1 (r.2.1 + r.2.2) = List.replicate r.2.2 r.1
  | [], _, _, _, h => by simp [Emphasis.runSpans] at h
  | c :: rest, pre, prev, r, h => by
    have hrec : r ∈ Emphasis.runSpans (some c) (pre.length + 1) rest →
        Emphasis.isDelimChar r.1 = true ∧ pre.length ≤ r.2.1 ∧ 1 ≤ r.2.2 ∧
          slice (pre ++ c :: rest) r.2.1 (r.2.1 + r.2.2) = List.replicate r.2.2 r.1 := by
      intro h'
      have := runSpans_spec rest (pre ++ [c]) (some c) r (by simpa using h')
      simp only [List.length_append, List.length_singleton, List.append_assoc, List.singleton_append] at this
      have h2 := this.2.1
      exact ⟨this.1, by omega, this.2.2⟩
    simp only [Emphasis.runSpans] at h
    split at h
    · rename_i hcond
      rcases List.mem_cons.1 h with rfl | h
      · simp only [Bool.and_eq_true] at hcond
        refine ⟨hcond.1, Nat.le_refl _, Nat.le_add_left _ _, ?_⟩
        simp only [slice, List.drop_left, Nat.add_sub_cancel_left]
        rw [List.take_succ_cons, countRun_take, ← List.replicate_succ]
      · exact hrec h
    · exact hrec h

theorem runSpans_lb : ∀ (suf : Str) (prev : Option Char) (pos : Nat) (r : Char × Nat × Nat),
    r ∈ Emphasis.runSpans prev pos suf → pos ≤ r.2.1
  | [], _, _, _, h => by simp [Emphasis.runSpans] at h
  | c :: rest, prev, pos, r, h => by
    simp only [Emphasis.runSpans] at h
    split at h
    · rcases List.mem_cons.1 h with rfl | h
      · exact Nat.le_refl _
      · have := runSpans_lb rest _ _ r h; omega
    · have := runSpans_lb rest _ _ r h; omega

/-- after a character `c`, the next runs start after the copies of `c` that follow -/
theorem runSpans_after : ∀ (rest : Str) (c : Char) (pos : Nat) (r : Char × Nat × Nat),
    r ∈ Emphasis.runSpans (some c) pos rest → pos + Emphasis.countRun c rest ≤ r.2.1
  | [], _, _, _, h => by simp [Emphasis.runSpans] at h
  | d :: rest, c, pos, r, h => by
    by_cases hdc : d = c
    · subst hdc
      simp only [Emphasis.runSpans, bne_self_eq_false, Bool.and_false, Bool.false_eq_true, if_false] at h
      have := runSpans_after rest d (pos + 1) r h
      simp only [Emphasis.countRun, if_true]; omega
    · have := runSpans_lb _ _ _ r h
      simp only [Emphasis.countRun, hdc, if_false]; omega

/-- the runs are disjoint and in text order -/
theorem runSpans_sorted : ∀ (suf : Str) (prev : Option Char) (pos : Nat),
    (Emphasis.runSpans prev pos suf).Pairwise (fun r1 r2 => r1.2.1 + r1.2.2 ≤ r2.2.1)
  | [], _, _ => by simp [Emphasis.runSpans]
  | c :: rest, prev, pos => by
    simp only [Emphasis.runSpans]
    split
    · refine List.pairwise_cons.2 ⟨fun r hr => ?_, runSpans_sorted rest _ _⟩
      have := runSpans_after rest c (pos + 1) r hr
      simp only; omega
    · exact runSpans_sorted rest _ _

/-! ### the character loop of `find_core_tokens` on a plain text -/

/-- the state after the character `c` at position `i` of a plain text -/
def nextSt (s : Str) (i : Nat) (c : Char) (st : FState) : FState :=
  { st2Of i c (st1Of s i c st) with inImage := (c == '!') }

theorem st1Of_fields (s : Str) (i : Nat) (c : Char) (st : FState) :
    (st1Of s i c st).escaped = st.escaped ∧ (st1Of s i c st).code = st.code ∧ (st1Of s i c st).ms = st.ms ∧
      (st1Of s i c st).codes = st.codes := by
  unfold st1Of; split <;> simp [pushDelim]

theorem st2Of_fields (i : Nat) (c : Char) (st : FState) :
    (st2Of i c st).escaped = st.escaped ∧ (st2Of i c st).code = st.code ∧ (st2Of i c st).ms = st.ms ∧
      (st2Of i c st).codes = st.codes := by
  unfold st2Of; split <;> simp

theorem nextSt_common (s : Str) (i : Nat) (c : Char) (st : FState) (hesc : st.escaped = false) :
    (nextSt s i c st).escaped = false ∧ (nextSt s i c st).code = st.code ∧ (nextSt s i c st).ms = st.ms ∧
      (nextSt s i c st).codes = st.codes := by
  obtain ⟨a1, a2, a3, a4⟩ := st1Of_fields s i c st
  obtain ⟨b1, b2, b3, b4⟩ := st2Of_fields i c (st1Of s i c st)
  simp only [nextSt]
  exact ⟨by rw [b1, a1, hesc], by rw [b2, a2], by rw [b3, a3], by rw [b4, a4]⟩

theorem nextSt_none_delim (s : Str) (i : Nat) (c : Char) (st : FState) (hesc : st.escaped = false)
    (hr : st.inRun = none) (hd : Emphasis.isDelimChar c = true) :
    (nextSt s i c st).ds = st.ds ∧ (nextSt s i c st).inRun = some c ∧ (nextSt s i c st).start = i := by
  obtain ⟨ds, ms, codes, escaped, inRun, inImage, start, code⟩ := st
  simp only at hesc hr
  subst hesc hr
  simp only [Emphasis.isDelimChar, Bool.or_eq_true, beq_iff_eq] at hd
  simp [nextSt, st1Of, st2Of, hd]

theorem nextSt_none_other (s : Str) (i : Nat) (c : Char) (st : FState) (hesc : st.escaped = false)
    (hr : st.inRun = none) (hd : Emphasis.isDelimChar c = false) :
    (nextSt s i c st).ds = st.ds ∧ (nextSt s i c st).inRun = none := by
  obtain ⟨ds, ms, codes, escaped, inRun, inImage, start, code⟩ := st
  simp only at hesc hr
  subst hesc hr
  simp only [Emphasis.isDelimChar, Bool.or_eq_false_iff, beq_eq_false_iff_ne] at hd
  simp [nextSt, st1Of, st2Of, hd]

theorem nextSt_same (s : Str) (i : Nat) (c : Char) (st : FState) (hesc : st.escaped = false)
    (hr : st.inRun = some c) :
    (nextSt s i c st).ds = st.ds ∧ (nextSt s i c st).inRun = some c ∧ (nextSt s i c st).start = st.start := by
  obtain ⟨ds, ms, codes, escaped, inRun, inImage, start, code⟩ := st
  simp only at hesc hr
  subst hesc hr
  simp [nextSt, st1Of, st2Of]

theorem nextSt_diff_delim (s : Str) (i : Nat) (c ch : Char) (st : FState) (hesc : st.escaped = false)
    (hr : st.inRun = some ch) (hne : c ≠ ch) (hd : Emphasis.isDelimChar c = true) :
    (nextSt s i c st).ds = st.ds ++ [mkDelim st.start i s] ∧ (nextSt s i c st).inRun = some c ∧
      (nextSt s i c st).start = i := by
  obtain ⟨ds, ms, codes, escaped, inRun, inImage, start, code⟩ := st
  simp only at hesc hr
  subst hesc hr
  simp only [Emphasis.isDelimChar, Bool.or_eq_true, beq_iff_eq] at hd
  simp [nextSt, st1Of, st2Of, pushDelim, hne, hd]

theorem nextSt_diff_other (s : Str) (i : Nat) (c ch : Char) (st : FState) (hesc : st.escaped = false)
    (hr : st.inRun = some ch) (hne : c ≠ ch) (hd : Emphasis.isDelimChar c = false) :
    (nextSt s i c st).ds = st.ds ++ [mkDelim st.start i s] ∧ (nextSt s i c st).inRun = none := by
  obtain ⟨ds, ms, codes, escaped, inRun, inImage, start, code⟩ := st
  simp only at hesc hr
  subst hesc hr
  simp only [Emphasis.isDelimChar, Bool.or_eq_false_iff, beq_eq_false_iff_ne] at hd
  simp [nextSt, st1Of, st2Of, pushDelim, hne, hd]

/-- one iteration of the character loop on a character of the fragment -/
theorem coreLoopNB_step (s : Str) (fn : Footnotes.Table) (fuel i : Nat) (c : Char) (st : FState)
    (hc : s[i]? = some c) (hp : Emphasis.plainChar c = true) (hcode : st.code = none) (hesc : st.escaped = false) :
    coreLoopNB s fn (fuel + 1) i st = coreLoopNB s fn fuel (i + 1) (nextSt s i c st) := by
  simp only [Emphasis.plainChar, Bool.and_eq_true, bne_iff_ne, ne_eq] at hp
  obtain ⟨⟨⟨⟨⟨h1, h2⟩, h3⟩, h4⟩, h5⟩, h6⟩ := hp
  have e2 : (st2Of i c (st1Of s i c st)).escaped = false := by
    have := (nextSt_common s i c st hesc).1
    simpa [nextSt] using this
  rw [coreLoopNB]
  simp only [hc, hcode, Bool.false_eq_true, if_false]
  unfold restExprNB
  rw [if_neg (by simp [h1])]
  unfold tailExprNB nextSt
  generalize st2Of i c (st1Of s i c st) = X at e2
  obtain ⟨ds, ms, codes, escaped, inRun, inImage, start, code⟩ := X
  simp only at e2
  subst e2
  simp only [Bool.not_false, if_true, h3, h4, if_false]
  by_cases hb : c = '!'
  · simp [hb]
  · have hb' : (c == '!') = false := by simpa using hb
    cases inImage <;> simp [hb, hb']

/-- the delimiters handed to the final `process_emphasis` -/
def finalDs (s : Str) (st : FState) : List Delim :=
  (if st.inRun.isSome then pushDelim st (mkDelim st.start s.length s) else st).ds

/-- the delimiter of the run in progress at position `i`, when the rest of the text is `suf` -/
def pendingHead (s : Str) (st : FState) (i : Nat) (suf : Str) : List Delim :=
  match st.inRun with
  | none => []
  | some ch => [mkDelim st.start (i + Emphasis.countRun ch suf) s]

/-- `Delimiter(start, end, string)` of a run given as (character, position, length) -/
def spanDelim (s : Str) (r : Char × Nat × Nat) : Delim := mkDelim r.2.1 (r.2.1 + r.2.2) s

/-- `in_delimiter_run` is set iff the previous character is a delimiter character, and then to it -/
structure RunInv (pre : Str) (st : FState) : Prop where
  none_ : st.inRun = none → ∀ c, pre.getLast? = some c → Emphasis.isDelimChar c = false
  some_ : ∀ ch, st.inRun = some ch → Emphasis.isDelimChar ch = true ∧ pre.getLast? = some ch

/-- **The character loop on a plain text** pushes exactly one delimiter per delimiter run of the
    specification, in order, and nothing else; it finds no match and no code span. -/
theorem coreLoopNB_plain (s : Str) (fn : Footnotes.Table) (hp : ∀ c ∈ s, Emphasis.plainChar c = true) :
    ∀ (suf pre : Str) (st : FState) (fuel : Nat), s = pre ++ suf → st.code = none → st.escaped = false →
      suf.length < fuel → RunInv pre st →
      ∃ st', coreLoopNB s fn fuel pre.length st = .ok (s.length, st') ∧ st'.escaped = false ∧ st'.ms = st.ms ∧
        st'.codes = st.codes ∧
        finalDs s st' = st.ds ++ pendingHead s st pre.length suf ++
          (Emphasis.runSpans pre.getLast? pre.length suf).map (spanDelim s)
  | [], pre, st, fuel, hs, hcode, hesc, hf, hinv => by
    obtain ⟨f, rfl⟩ : ∃ f, fuel = f + 1 := ⟨fuel - 1, by simp at hf; omega⟩
    simp only [List.append_nil] at hs
    subst hs
    refine ⟨st, by simp [coreLoopNB], hesc, rfl, rfl, ?_⟩
    unfold finalDs pendingHead
    cases hr : st.inRun with
    | none => simp [Emphasis.runSpans]
    | some ch => simp [Emphasis.runSpans, pushDelim, Emphasis.countRun]
  | c :: rest, pre, st, fuel, hs, hcode, hesc, hf, hinv => by
    obtain ⟨f, rfl⟩ : ∃ f, fuel = f + 1 := ⟨fuel - 1, by simp at hf; omega⟩
    have hc : s[pre.length]? = some c := by rw [hs]; simp
    have hpc : Emphasis.plainChar c = true := hp c (by rw [hs]; simp)
    obtain ⟨n1, n2, n3, n4⟩ := nextSt_common s pre.length c st hesc
    have hs' : s = (pre ++ [c]) ++ rest := by rw [hs]; simp
    have hlen : (pre ++ [c]).length = pre.length + 1 := by simp
    have hlast : (pre ++ [c]).getLast? = some c := by simp
    have key : ∀ (hinv' : RunInv (pre ++ [c]) (nextSt s pre.length c st)),
        (nextSt s pre.length c st).ds ++ pendingHead s (nextSt s pre.length c st) (pre.length + 1) rest ++
            (Emphasis.runSpans (some c) (pre.length + 1) rest).map (spanDelim s) =
          st.ds ++ pendingHead s st pre.length (c :: rest) ++
            (Emphasis.runSpans pre.getLast? pre.length (c :: rest)).map (spanDelim s) →
        ∃ st', coreLoopNB s fn (f + 1) pre.length st = .ok (s.length, st') ∧ st'.escaped = false ∧ st'.ms = st.ms ∧
          st'.codes = st.codes ∧
          finalDs s st' = st.ds ++ pendingHead s st pre.length (c :: rest) ++
            (Emphasis.runSpans pre.getLast? pre.length (c :: rest)).map (spanDelim s) := by
      intro hinv' heq
      obtain ⟨st', e1, e2, e3, e4, e5⟩ := coreLoopNB_plain s fn hp rest (pre ++ [c]) (nextSt s pre.length c st) f hs'
        (by rw [n2, hcode]) n1 (by simp at hf; omega) hinv'
      rw [hlen, hlast] at e5
      rw [hlen] at e1
      refine ⟨st', ?_, e2, by rw [e3, n3], by rw [e4, n4], by rw [e5, heq]⟩
      rw [coreLoopNB_step s fn f pre.length c st hc hpc hcode hesc, e1]
    cases hr : st.inRun with
    | none =>
      have hprev := hinv.none_ hr
      cases hd : Emphasis.isDelimChar c with
      | true =>
        obtain ⟨d1, d2, d3⟩ := nextSt_none_delim s pre.length c st hesc hr hd
        have hne : (pre.getLast? != some c) = true := by
          cases hl : pre.getLast? with
          | none => rfl
          | some x =>
            have := hprev x hl
            by_cases hxc : x = c
            · subst hxc; rw [hd] at this; cases this
            · simpa using hxc
        refine key ⟨fun h => (by rw [d2] at h; cases h), fun ch h => ?_⟩ ?_
        · rw [d2] at h; cases h; exact ⟨hd, hlast⟩
        · simp only [pendingHead, d1, d2, d3, hr, Emphasis.runSpans, hd, hne, Bool.and_self, if_true,
            List.map_cons, spanDelim, List.append_nil]
          simp [Nat.add_assoc, Nat.add_comm 1]
      | false =>
        obtain ⟨d1, d2⟩ := nextSt_none_other s pre.length c st hesc hr hd
        refine key ⟨fun _ x hx => ?_, fun ch h => by rw [d2] at h; cases h⟩ ?_
        · rw [hlast] at hx; cases hx; exact hd
        · simp only [pendingHead, d1, d2, hr, Emphasis.runSpans, hd, Bool.false_and, Bool.false_eq_true, if_false]
    | some ch =>
      obtain ⟨hdch, hlastp⟩ := hinv.some_ ch hr
      by_cases hcc : c = ch
      · subst hcc
        obtain ⟨d1, d2, d3⟩ := nextSt_same s pre.length c st hesc hr
        refine key ⟨fun h => (by rw [d2] at h; cases h), fun ch h => ?_⟩ ?_
        · rw [d2] at h; cases h; exact ⟨hdch, hlast⟩
        · simp only [pendingHead, d1, d2, d3, hr, Emphasis.runSpans, hlastp, bne_self_eq_false, Bool.and_false,
            Bool.false_eq_true, if_false, Emphasis.countRun, if_true]
          simp [Nat.add_assoc, Nat.add_comm 1]
      · have hne : (some ch != some c) = true := by simpa using fun e => hcc e.symm
        cases hd : Emphasis.isDelimChar c with
        | true =>
          obtain ⟨d1, d2, d3⟩ := nextSt_diff_delim s pre.length c ch st hesc hr hcc hd
          refine key ⟨fun h => (by rw [d2] at h; cases h), fun ch' h => ?_⟩ ?_
          · rw [d2] at h; cases h; exact ⟨hd, hlast⟩
          · simp only [pendingHead, d1, d2, d3, hr, Emphasis.runSpans, hlastp, hd, hne, Bool.and_self, if_true,
              List.map_cons, spanDelim, Emphasis.countRun, hcc, if_false, Nat.add_zero]
            simp [Nat.add_assoc, Nat.add_comm 1]
        | false =>
          obtain ⟨d1, d2⟩ := nextSt_diff_other s pre.length c ch st hesc hr hcc hd
          refine key ⟨fun _ x hx => ?_, fun ch' h => by rw [d2] at h; cases h⟩ ?_
          · rw [hlast] at hx; cases hx; exact hd
          · simp only [pendingHead, d1, d2, hr, Emphasis.runSpans, hd, Bool.false_and, Bool.false_eq_true, if_false,
              Emphasis.countRun, hcc, Nat.add_zero]
            simp

/-! a text without backtick has no code span (as in Proofs/InertInline.lean, which is not imported here) -/

theorem countLeading_notin (ch : Char) : ∀ (s : Str), ch ∉ s → countLeading ch s = 0
  | [], _ => rfl
  | c :: rest, h => by
    have : c ≠ ch := fun e => h (by simp [e])
    simp [countLeading, this]

theorem codeAt_none (prev : Option Char) (r : Str) (h : '`' ∉ r) : codeAt prev r = none := by
  unfold codeAt
  have : countLeading '`' (r.drop (leadingBackslashes r)) = 0 :=
    countLeading_notin _ _ (fun hm => h (List.mem_of_mem_drop hm))
  simp [this]

theorem codeSearchAux_none : ∀ (fuel pos : Nat) (prev : Option Char) (s : Str), '`' ∉ s → codeSearchAux fuel pos prev s = none
  | 0, _, _, _, _ => by simp [codeSearchAux]
  | _ + 1, _, _, [], _ => by simp [codeSearchAux]
  | fuel + 1, pos, prev, c :: rest, h => by
    simp only [codeSearchAux, codeAt_none prev (c :: rest) h]
    exact codeSearchAux_none fuel (pos + 1) (some c) rest (fun hm => h (List.mem_cons_of_mem _ hm))

theorem codeSearch_none (s : Str) (pos : Nat) (h : '`' ∉ s) : codeSearch s pos = none :=
  codeSearchAux_none _ _ _ _ (fun hm => h (List.mem_of_mem_drop hm))

theorem plain_mem {s : Str} (hp : Emphasis.plain s = true) : ∀ c ∈ s, Emphasis.plainChar c = true := by
  simpa [Emphasis.plain] using hp

theorem plain_no_backtick {s : Str} (hp : Emphasis.plain s = true) : '`' ∉ s := by
  intro h
  have := plain_mem hp _ h
  revert this; decide

/-- the delimiters of the runs, as the character loop builds them, are the stack entries of the
    specification -/
theorem spanDelims_eq (s : Str) (hw : StdWs s) :
    (Emphasis.runSpans none 0 s).map (spanDelim s) = (Emphasis.runs s).map toDelim := by
  unfold Emphasis.runs
  rw [List.map_map]
  apply List.map_congr_left
  intro r hr
  obtain ⟨h1, _, h3, h4⟩ := runSpans_spec s [] none r (by simpa using hr)
  simp only [List.nil_append] at h4
  exact mkDelim_eq_toDelim s r.1 r.2.1 r.2.2 hw h3 h1 h4

/-- **`find_core_tokens` on a plain text** = `process_emphasis` (without bottoms) on the delimiter
    stack of the specification, with no previous match -/
theorem findCoreTokensNB_plain (s : Str) (fn : Footnotes.Table) (hp : Emphasis.plain s = true) (hw : StdWs s) :
    findCoreTokensNB s fn =
      match processEmphasisNB s none ((Emphasis.runs s).map toDelim) [] with
      | .err e => .err e
      | .ok (_, ms) => .ok (ms.reverse, []) := by
  obtain ⟨st', e1, e2, e3, e4, e5⟩ := coreLoopNB_plain s fn (plain_mem hp) s [] { code := codeSearch s 0 } (s.length + 2)
    rfl (codeSearch_none s 0 (plain_no_backtick hp)) rfl (by omega)
    ⟨fun _ c hc => by simp at hc, fun ch h => by simp at h⟩
  simp only [List.length_nil] at e1
  unfold findCoreTokensNB
  rw [e1]
  simp only [e2, Bool.not_false, if_true]
  have hds : (if st'.inRun.isSome then pushDelim st' (mkDelim st'.start s.length s) else st').ds =
      (Emphasis.runs s).map toDelim := by
    have := e5
    simp only [finalDs, pendingHead, List.getLast?_nil, List.length_nil, List.nil_append, List.append_nil] at this
    rw [this, spanDelims_eq s hw]
  have hms : (if st'.inRun.isSome then pushDelim st' (mkDelim st'.start s.length s) else st').ms = [] := by
    split <;> simp [pushDelim, e3]
  have hcs : (if st'.inRun.isSome then pushDelim st' (mkDelim st'.start s.length s) else st').codes = [] := by
    split <;> simp [pushDelim, e4]
  rw [hds, hms, hcs]
  rfl

/-! ### one iteration of `process_emphasis` (without bottoms), computed -/

theorem nextCloser_append (X Y : List Delim) : nextCloser X.length (X ++ Y) = nextCloser.go Y X.length := by
  unfold nextCloser; rw [List.drop_left]

theorem getElem?_two {α} (A B C : List α) (o c : α) : (A ++ o :: (B ++ c :: C))[A.length + 1 + B.length]? = some c := by
  rw [List.getElem?_append_right (by omega)]
  have : A.length + 1 + B.length - A.length = B.length + 1 := by omega
  rw [this, List.getElem?_cons_succ, List.getElem?_append_right (Nat.le_refl _)]
  simp

/-- no opener found -/
theorem emphStepNB_none (s : Str) (ds : List Delim) (ms : List CoreM) (curr : Nat) (closer : Delim) (ch : Char)
    (hc : ds[curr]? = some closer) (hh : closer.type.head? = some ch)
    (hm : matchingOpener curr ds none = .ok none) :
    emphStepNB s none ds ms curr =
      if !closer.opens then .ok ((ds.eraseIdx curr, ms), nextCloser curr (ds.eraseIdx curr))
      else .ok ((ds, ms), nextCloser (curr + 1) ds) := by
  unfold emphStepNB
  rw [hc]; simp only
  rw [hh]; simp only
  rw [hm]

/-- the opener found is `o`, with `B` between it and the closer `c` -/
theorem emphStepNB_some (s : Str) (A B C : List Delim) (o c : Delim) (ms : List CoreM) (ch : Char)
    (hm : matchingOpener (A.length + 1 + B.length) (A ++ o :: (B ++ c :: C)) none = .ok (some A.length))
    (hh : c.type.head? = some ch) :
    emphStepNB s none (A ++ o :: (B ++ c :: C)) ms (A.length + 1 + B.length) =
      match s[o.stop - emphN o c]? with
      | none => .err .index
      | some dch =>
        .ok ((A ++ (shrink o (emphN o c) false ++ (shrink c (emphN o c) true ++ C)), emphMatch o c (emphN o c) dch :: ms),
          nextCloser (A.length + (shrink o (emphN o c) false).length)
            (A ++ (shrink o (emphN o c) false ++ (shrink c (emphN o c) true ++ C)))) := by
  have hc := getElem?_two A B C o c
  have ho : (A ++ o :: (B ++ c :: C))[A.length]? = some o := by simp
  unfold emphStepNB
  rw [hc]; simp only
  rw [hh]; simp only
  rw [hm]; simp only
  rw [ho]; simp only
  have hN : (if (decide (c.number ≥ 2) && decide (o.number ≥ 2)) = true then 2 else 1) = emphN o c := rfl
  simp only [hN]
  cases hs : s[o.stop - emphN o c]? with
  | none => rfl
  | some dch =>
    simp only
    rw [take_drop_two]
    have hmm : ({ start := o.stop - emphN o c, stop := c.start + emphN o c,
                 kind := if emphN o c = 2 then Kind.strong else Kind.emphasis,
                 ts := o.stop - emphN o c + emphN o c, te := c.start + emphN o c - emphN o c,
                 dest := [], title := [], delimiter := dch } : CoreM) = emphMatch o c (emphN o c) dch := rfl
    rw [hmm]
    have set_mid : ∀ (X : List Delim) (a b : Delim), (A ++ a :: X).set A.length b = A ++ b :: X := by
      intro X a b; simp
    have set_mid1 : ∀ (X : List Delim) (a b c : Delim), (A ++ a :: b :: X).set (A.length + 1) c = A ++ a :: c :: X := by
      intro X a b c; simp
    cases hor : delimRemove o (emphN o c) false with
    | none =>
      cases hcr : delimRemove c (emphN o c) true with
      | none => simp [erase_mid, shrink, hor, hcr]
      | some c' => simp [erase_mid, set_mid, shrink, hor, hcr]
    | some o' =>
      cases hcr : delimRemove c (emphN o c) true with
      | none => simp [erase_mid1, set_mid, shrink, hor, hcr]
      | some c' => simp [set_mid1, set_mid, shrink, hor, hcr]

end Mistletoe.EmphRefine
