/-
  The model of `core_tokens.find_core_tokens` refines the specification of emphasis
  (Spec/Emphasis.lean: CommonMark 0.30 section 6.2 and the *process emphasis* procedure).
-/
import Mistletoe.Proofs.EmphSpec
import Mistletoe.Spec.Emphasis
namespace Mistletoe.EmphRefine
open Mistletoe Mistletoe.Py Mistletoe.Scan Mistletoe.InlineScan Mistletoe.Core Mistletoe.Spec
set_option linter.unusedVariables false

/-! ### character classes -/

/-- the eight code points that `core_tokens.unicode_whitespace` contains and that are not Unicode
    whitespace characters in the sense of the specification: U+000B, U+001C–U+001F, U+0085,
    U+2028, U+2029 -/
def deviantWs (c : Char) : Bool := inRanges [(11, 11), (28, 31), (133, 133), (8232, 8233)] c

/-- `core_tokens.unicode_whitespace` = the specification's Unicode whitespace ∪ the eight -/
theorem uniWs_eq (c : Char) : uniWs c = (Emphasis.isUnicodeWhitespace c || deviantWs c) := by
  unfold uniWs Emphasis.isUnicodeWhitespace deviantWs inRanges Gen.Tables.unicodeWhitespace
  simp only [List.any_cons, List.any_nil, Bool.or_false]
  generalize c.toNat = n
  rw [Bool.eq_iff_iff]
  simp only [Bool.or_eq_true, Bool.and_eq_true, decide_eq_true_eq]
  omega

theorem punct_eq (c : Char) : punct c = Emphasis.isUnicodePunctuation c := rfl

theorem uniWs_space : uniWs ' ' = true := by decide
theorem punct_space : punct ' ' = false := by decide

/-- no character of the text is one of the eight -/
def StdWs (s : Str) : Prop := ∀ c ∈ s, deviantWs c = false

theorem uniWs_std {s : Str} (h : StdWs s) (c : Char) (hc : c ∈ s) : uniWs c = Emphasis.isUnicodeWhitespace c := by
  rw [uniWs_eq, h c hc, Bool.or_false]

/-! ### flanking: `is_opener` / `is_closer` are the specification's "can open" / "can close" -/

theorem precededBy_ws (s : Str) (a : Nat) (h : StdWs s) :
    precededBy a s uniWs = Emphasis.wsAt (Emphasis.charBefore s a) := by
  unfold precededBy Emphasis.charBefore
  by_cases ha : a = 0
  · simp [ha, Emphasis.wsAt, uniWs_space]
  · rw [if_pos (by omega), if_neg ha]
    cases hc : s[a - 1]? with
    | none => simp [Emphasis.wsAt, uniWs_space]
    | some c => simp [Emphasis.wsAt, uniWs_std h c (List.mem_of_getElem? hc)]

theorem succeededBy_ws (s : Str) (b : Nat) (h : StdWs s) :
    succeededBy b s uniWs = Emphasis.wsAt (Emphasis.charAfter s b) := by
  unfold succeededBy Emphasis.charAfter
  cases hc : s[b]? with
  | none => simp [Emphasis.wsAt, uniWs_space]
  | some c => simp [Emphasis.wsAt, uniWs_std h c (List.mem_of_getElem? hc)]

theorem precededBy_punct (s : Str) (a : Nat) :
    precededBy a s punct = Emphasis.punctAt (Emphasis.charBefore s a) := by
  unfold precededBy Emphasis.charBefore
  by_cases ha : a = 0
  · simp [ha, Emphasis.punctAt, punct_space]
  · rw [if_pos (by omega), if_neg ha]
    cases hc : s[a - 1]? with
    | none => simp [Emphasis.punctAt, punct_space]
    | some c => simp [Emphasis.punctAt, punct_eq]

theorem succeededBy_punct (s : Str) (b : Nat) :
    succeededBy b s punct = Emphasis.punctAt (Emphasis.charAfter s b) := by
  unfold succeededBy Emphasis.charAfter
  cases hc : s[b]? with
  | none => simp [Emphasis.punctAt, punct_space]
  | some c => simp [Emphasis.punctAt, punct_eq]

theorem isLeft_eq (s : Str) (a b : Nat) (h : StdWs s) :
    isLeftDelimiter a b s = Emphasis.leftFlanking (Emphasis.charBefore s a) (Emphasis.charAfter s b) := by
  unfold isLeftDelimiter Emphasis.leftFlanking
  rw [precededBy_ws s a h, succeededBy_ws s b h, precededBy_punct, succeededBy_punct]
  cases Emphasis.wsAt (Emphasis.charBefore s a) <;> cases Emphasis.wsAt (Emphasis.charAfter s b) <;>
    cases Emphasis.punctAt (Emphasis.charBefore s a) <;> cases Emphasis.punctAt (Emphasis.charAfter s b) <;> rfl

theorem isRight_eq (s : Str) (a b : Nat) (h : StdWs s) :
    isRightDelimiter a b s = Emphasis.rightFlanking (Emphasis.charBefore s a) (Emphasis.charAfter s b) := by
  unfold isRightDelimiter Emphasis.rightFlanking
  rw [precededBy_ws s a h, succeededBy_ws s b h, precededBy_punct, succeededBy_punct]
  cases Emphasis.wsAt (Emphasis.charBefore s a) <;> cases Emphasis.wsAt (Emphasis.charAfter s b) <;>
    cases Emphasis.punctAt (Emphasis.charBefore s a) <;> cases Emphasis.punctAt (Emphasis.charAfter s b) <;> rfl

/-- **`is_opener` is "can open emphasis"** (rules 1, 2, 5, 6) for a run of `c` at `[a, b)` -/
theorem isOpener_eq (s : Str) (a b : Nat) (c : Char) (h : StdWs s) (hc : s[a]? = some c) :
    isOpener a b s = Emphasis.canOpen c (Emphasis.charBefore s a) (Emphasis.charAfter s b) := by
  unfold isOpener Emphasis.canOpen
  rw [hc, isLeft_eq s a b h, isRight_eq s a b h, precededBy_punct]
  by_cases hs : c = '*'
  · simp [hs]
  · simp [hs]

/-- **`is_closer` is "can close emphasis"** (rules 3, 4, 7, 8) -/
theorem isCloser_eq (s : Str) (a b : Nat) (c : Char) (h : StdWs s) (hc : s[a]? = some c) :
    isCloser a b s = Emphasis.canClose c (Emphasis.charBefore s a) (Emphasis.charAfter s b) := by
  unfold isCloser Emphasis.canClose
  rw [hc, isLeft_eq s a b h, isRight_eq s a b h, succeededBy_punct]
  by_cases hs : c = '*'
  · simp [hs]
  · simp [hs]

/-! ### stack entries of the specification as `Delimiter`s -/

/-- the `Delimiter` object of a stack entry of the specification -/
def toDelim (r : Emphasis.Run) : Delim :=
  { type := List.replicate r.count r.char, number := r.count, runLength := r.orig, active := true,
    start := r.start, stop := r.start + r.count, emph := true, opens := r.canOpen, closes := r.canClose }

/-- the `MatchObj` of an emphasis node of the specification -/
def toCoreM (s : Str) (m : Emphasis.Match) : CoreM :=
  { start := m.openStart, stop := m.closeStop, kind := if m.strong then .strong else .emphasis,
    ts := m.openStop, te := m.closeStart, dest := [], title := [], delimiter := (s[m.openStart]?).getD ' ' }

/-- the stack entry of a run, classified by mistletoe's own `is_opener` / `is_closer` -/
def mkRunM (s : Str) (c : Char) (a n : Nat) : Emphasis.Run :=
  { char := c, start := a, orig := n, count := n, canOpen := isOpener a (a + n) s, canClose := isCloser a (a + n) s }

/-- `Delimiter(start, end, string)` for a run of `n` characters `c` at `a` -/
theorem mkDelim_eq_toDelimM (s : Str) (c : Char) (a n : Nat) (hn : 1 ≤ n)
    (hd : Emphasis.isDelimChar c = true) (hsl : slice s a (a + n) = List.replicate n c) :
    mkDelim a (a + n) s = toDelim (mkRunM s c a n) := by
  have hhead : (slice s a (a + n)).head? = some c := by
    rw [hsl]; cases n with
    | zero => omega
    | succ k => rfl
  have he : ((some c == some '*') || (some c == some '_')) = true := by
    simpa [Emphasis.isDelimChar] using hd
  unfold mkDelim toDelim mkRunM
  simp only [hhead, he, Bool.true_and, Nat.add_sub_cancel_left]
  rw [hsl]

/-- **On a text without the eight deviant whitespace characters, mistletoe's classification of a
    delimiter run is the specification's** ("can open emphasis", "can close emphasis"). -/
theorem mkRunM_eq (s : Str) (c : Char) (a n : Nat) (h : StdWs s) (hc : s[a]? = some c) :
    mkRunM s c a n = Emphasis.mkRun s c a n := by
  unfold mkRunM Emphasis.mkRun
  rw [isOpener_eq s a (a + n) c h hc, isCloser_eq s a (a + n) c h hc]

/-! ### the delimiter runs of a text -/

theorem countRun_take (c : Char) : ∀ (l : Str), l.take (Emphasis.countRun c l) = List.replicate (Emphasis.countRun c l) c
  | [] => rfl
  | d :: rest => by
    simp only [Emphasis.countRun]
    split
    · rename_i h; subst h
      simp [List.replicate_succ, countRun_take d rest]
    · rfl

/-- every run found lies at or after `pos`, is a run of a delimiter character, is not empty, and the
    text holds that many copies of the character there -/
theorem runSpans_spec : ∀ (suf pre : Str) (prev : Option Char) (r : Char × Nat × Nat),
    r ∈ Emphasis.runSpans prev pre.length suf →
    Emphasis.isDelimChar r.1 = true ∧ pre.length ≤ r.2.1 ∧ 1 ≤ r.2.2 ∧
      slice (pre ++ suf) r.2.1 (r.2.1 + r.2.2) = List.replicate r.2.2 r.1
  | [], _, _, _, h => by simp [Emphasis.runSpans] at h
  | c :: rest, pre, prev, r, h => by
    have hrec : r ∈ Emphasis.runSpans (some c) (pre.length + 1) rest →
        Emphasis.isDelimChar r.1 = true ∧ pre.length ≤ r.2.1 ∧ 1 ≤ r.2.2 ∧
          slice (pre ++ c :: rest) r.2.1 (r.2.1 + r.2.2) = List.replicate r.2.2 r.1 := by
      intro h'
      have := runSpans_spec rest (pre ++ [c]) (some c) r (by simpa using h')
      simp only [List.length_append, List.length_singleton, List.append_assoc, List.singleton_append] at this
      have h2 := this.2.1
      exact ⟨this.1, by omega, this.2.2⟩
    simp only [Emphasis.runSpans] at h
    split at h
    · rename_i hcond
      rcases List.mem_cons.1 h with rfl | h
      · simp only [Bool.and_eq_true] at hcond
        refine ⟨hcond.1, Nat.le_refl _, Nat.le_add_left _ _, ?_⟩
        simp only [slice, List.drop_left, Nat.add_sub_cancel_left]
        rw [List.take_succ_cons, countRun_take, ← List.replicate_succ]
      · exact hrec h
    · exact hrec h

theorem runSpans_lb : ∀ (suf : Str) (prev : Option Char) (pos : Nat) (r : Char × Nat × Nat),
    r ∈ Emphasis.runSpans prev pos suf → pos ≤ r.2.1
  | [], _, _, _, h => by simp [Emphasis.runSpans] at h
  | c :: rest, prev, pos, r, h => by
    simp only [Emphasis.runSpans] at h
    split at h
    · rcases List.mem_cons.1 h with rfl | h
      · exact Nat.le_refl _
      · have := runSpans_lb rest _ _ r h; omega
    · have := runSpans_lb rest _ _ r h; omega

/-- after a character `c`, the next runs start after the copies of `c` that follow -/
theorem runSpans_after : ∀ (rest : Str) (c : Char) (pos : Nat) (r : Char × Nat × Nat),
    r ∈ Emphasis.runSpans (some c) pos rest → pos + Emphasis.countRun c rest ≤ r.2.1
  | [], _, _, _, h => by simp [Emphasis.runSpans] at h
  | d :: rest, c, pos, r, h => by
    by_cases hdc : d = c
    · subst hdc
      simp only [Emphasis.runSpans, bne_self_eq_false, Bool.and_false, Bool.false_eq_true, if_false] at h
      have := runSpans_after rest d (pos + 1) r h
      simp only [Emphasis.countRun, if_true]; omega
    · have := runSpans_lb _ _ _ r h
      simp only [Emphasis.countRun, hdc, if_false]; omega

/-- the runs are disjoint and in text order -/
theorem runSpans_sorted : ∀ (suf : Str) (prev : Option Char) (pos : Nat),
    (Emphasis.runSpans prev pos suf).Pairwise (fun r1 r2 => r1.2.1 + r1.2.2 ≤ r2.2.1)
  | [], _, _ => by simp [Emphasis.runSpans]
  | c :: rest, prev, pos => by
    simp only [Emphasis.runSpans]
    split
    · refine List.pairwise_cons.2 ⟨fun r hr => ?_, runSpans_sorted rest _ _⟩
      have := runSpans_after rest c (pos + 1) r hr
      simp only; omega
    · exact runSpans_sorted rest _ _

/-! ### the character loop of `find_core_tokens` on a plain text -/

/-- the state after the character `c` at position `i` of a plain text -/
def nextSt (s : Str) (i : Nat) (c : Char) (st : FState) : FState :=
  { st2Of i c (st1Of s i c st) with inImage := (c == '!') }

theorem st1Of_fields (s : Str) (i : Nat) (c : Char) (st : FState) :
    (st1Of s i c st).escaped = st.escaped ∧ (st1Of s i c st).code = st.code ∧ (st1Of s i c st).ms = st.ms ∧
      (st1Of s i c st).codes = st.codes := by
  unfold st1Of; split <;> simp [pushDelim]

theorem st2Of_fields (i : Nat) (c : Char) (st : FState) :
    (st2Of i c st).escaped = st.escaped ∧ (st2Of i c st).code = st.code ∧ (st2Of i c st).ms = st.ms ∧
      (st2Of i c st).codes = st.codes := by
  unfold st2Of; split <;> simp

theorem nextSt_common (s : Str) (i : Nat) (c : Char) (st : FState) (hesc : st.escaped = false) :
    (nextSt s i c st).escaped = false ∧ (nextSt s i c st).code = st.code ∧ (nextSt s i c st).ms = st.ms ∧
      (nextSt s i c st).codes = st.codes := by
  obtain ⟨a1, a2, a3, a4⟩ := st1Of_fields s i c st
  obtain ⟨b1, b2, b3, b4⟩ := st2Of_fields i c (st1Of s i c st)
  simp only [nextSt]
  exact ⟨by rw [b1, a1, hesc], by rw [b2, a2], by rw [b3, a3], by rw [b4, a4]⟩

theorem nextSt_none_delim (s : Str) (i : Nat) (c : Char) (st : FState) (hesc : st.escaped = false)
    (hr : st.inRun = none) (hd : Emphasis.isDelimChar c = true) :
    (nextSt s i c st).ds = st.ds ∧ (nextSt s i c st).inRun = some c ∧ (nextSt s i c st).start = i := by
  obtain ⟨ds, ms, codes, escaped, inRun, inImage, start, code⟩ := st
  simp only at hesc hr
  subst hesc hr
  simp only [Emphasis.isDelimChar, Bool.or_eq_true, beq_iff_eq] at hd
  simp [nextSt, st1Of, st2Of, hd]

theorem nextSt_none_other (s : Str) (i : Nat) (c : Char) (st : FState) (hesc : st.escaped = false)
    (hr : st.inRun = none) (hd : Emphasis.isDelimChar c = false) :
    (nextSt s i c st).ds = st.ds ∧ (nextSt s i c st).inRun = none := by
  obtain ⟨ds, ms, codes, escaped, inRun, inImage, start, code⟩ := st
  simp only at hesc hr
  subst hesc hr
  simp only [Emphasis.isDelimChar, Bool.or_eq_false_iff, beq_eq_false_iff_ne] at hd
  simp [nextSt, st1Of, st2Of, hd]

theorem nextSt_same (s : Str) (i : Nat) (c : Char) (st : FState) (hesc : st.escaped = false)
    (hr : st.inRun = some c) :
    (nextSt s i c st).ds = st.ds ∧ (nextSt s i c st).inRun = some c ∧ (nextSt s i c st).start = st.start := by
  obtain ⟨ds, ms, codes, escaped, inRun, inImage, start, code⟩ := st
  simp only at hesc hr
  subst hesc hr
  simp [nextSt, st1Of, st2Of]

theorem nextSt_diff_delim (s : Str) (i : Nat) (c ch : Char) (st : FState) (hesc : st.escaped = false)
    (hr : st.inRun = some ch) (hne : c ≠ ch) (hd : Emphasis.isDelimChar c = true) :
    (nextSt s i c st).ds = st.ds ++ [mkDelim st.start i s] ∧ (nextSt s i c st).inRun = some c ∧
      (nextSt s i c st).start = i := by
  obtain ⟨ds, ms, codes, escaped, inRun, inImage, start, code⟩ := st
  simp only at hesc hr
  subst hesc hr
  simp only [Emphasis.isDelimChar, Bool.or_eq_true, beq_iff_eq] at hd
  simp [nextSt, st1Of, st2Of, pushDelim, hne, hd]

theorem nextSt_diff_other (s : Str) (i : Nat) (c ch : Char) (st : FState) (hesc : st.escaped = false)
    (hr : st.inRun = some ch) (hne : c ≠ ch) (hd : Emphasis.isDelimChar c = false) :
    (nextSt s i c st).ds = st.ds ++ [mkDelim st.start i s] ∧ (nextSt s i c st).inRun = none := by
  obtain ⟨ds, ms, codes, escaped, inRun, inImage, start, code⟩ := st
  simp only at hesc hr
  subst hesc hr
  simp only [Emphasis.isDelimChar, Bool.or_eq_false_iff, beq_eq_false_iff_ne] at hd
  simp [nextSt, st1Of, st2Of, pushDelim, hne, hd]

/-- one iteration of the character loop on a character of the fragment -/
theorem coreLoopNB_step (s : Str) (fn : Footnotes.Table) (fuel i : Nat) (c : Char) (st : FState)
    (hc : s[i]? = some c) (hp : Emphasis.plainChar c = true) (hcode : st.code = none) (hesc : st.escaped = false) :
    coreLoopNB s fn (fuel + 1) i st = coreLoopNB s fn fuel (i + 1) (nextSt s i c st) := by
  simp only [Emphasis.plainChar, Bool.and_eq_true, bne_iff_ne, ne_eq] at hp
  obtain ⟨⟨⟨⟨⟨h1, h2⟩, h3⟩, h4⟩, h5⟩, h6⟩ := hp
  have e2 : (st2Of i c (st1Of s i c st)).escaped = false := by
    have := (nextSt_common s i c st hesc).1
    simpa [nextSt] using this
  rw [coreLoopNB]
  simp only [hc, hcode, Bool.false_eq_true, if_false]
  unfold restExprNB
  rw [if_neg (by simp [h1])]
  unfold tailExprNB nextSt
  generalize st2Of i c (st1Of s i c st) = X at e2
  obtain ⟨ds, ms, codes, escaped, inRun, inImage, start, code⟩ := X
  simp only at e2
  subst e2
  simp only [Bool.not_false, if_true, h3, h4, if_false]
  by_cases hb : c = '!'
  · simp [hb]
  · have hb' : (c == '!') = false := by simpa using hb
    cases inImage <;> simp [hb, hb']

/-- the delimiters handed to the final `process_emphasis` -/
def finalDs (s : Str) (st : FState) : List Delim :=
  (if st.inRun.isSome then pushDelim st (mkDelim st.start s.length s) else st).ds

/-- the delimiter of the run in progress at position `i`, when the rest of the text is `suf` -/
def pendingHead (s : Str) (st : FState) (i : Nat) (suf : Str) : List Delim :=
  match st.inRun with
  | none => []
  | some ch => [mkDelim st.start (i + Emphasis.countRun ch suf) s]

/-- `Delimiter(start, end, string)` of a run given as (character, position, length) -/
def spanDelim (s : Str) (r : Char × Nat × Nat) : Delim := mkDelim r.2.1 (r.2.1 + r.2.2) s

/-- `in_delimiter_run` is set iff the previous character is a delimiter character, and then to it -/
structure RunInv (pre : Str) (st : FState) : Prop where
  none_ : st.inRun = none → ∀ c, pre.getLast? = some c → Emphasis.isDelimChar c = false
  some_ : ∀ ch, st.inRun = some ch → Emphasis.isDelimChar ch = true ∧ pre.getLast? = some ch

/-- **The character loop on a plain text** pushes exactly one delimiter per delimiter run of the
    specification, in order, and nothing else; it finds no match and no code span. -/
theorem coreLoopNB_plain (s : Str) (fn : Footnotes.Table) (hp : ∀ c ∈ s, Emphasis.plainChar c = true) :
    ∀ (suf pre : Str) (st : FState) (fuel : Nat), s = pre ++ suf → st.code = none → st.escaped = false →
      suf.length < fuel → RunInv pre st →
      ∃ st', coreLoopNB s fn fuel pre.length st = .ok (s.length, st') ∧ st'.escaped = false ∧ st'.ms = st.ms ∧
        st'.codes = st.codes ∧
        finalDs s st' = st.ds ++ pendingHead s st pre.length suf ++
          (Emphasis.runSpans pre.getLast? pre.length suf).map (spanDelim s)
  | [], pre, st, fuel, hs, hcode, hesc, hf, hinv => by
    obtain ⟨f, rfl⟩ : ∃ f, fuel = f + 1 := ⟨fuel - 1, by simp at hf; omega⟩
    simp only [List.append_nil] at hs
    subst hs
    refine ⟨st, by simp [coreLoopNB], hesc, rfl, rfl, ?_⟩
    unfold finalDs pendingHead
    cases hr : st.inRun with
    | none => simp [Emphasis.runSpans]
    | some ch => simp [Emphasis.runSpans, pushDelim, Emphasis.countRun]
  | c :: rest, pre, st, fuel, hs, hcode, hesc, hf, hinv => by
    obtain ⟨f, rfl⟩ : ∃ f, fuel = f + 1 := ⟨fuel - 1, by simp at hf; omega⟩
    have hc : s[pre.length]? = some c := by rw [hs]; simp
    have hpc : Emphasis.plainChar c = true := hp c (by rw [hs]; simp)
    obtain ⟨n1, n2, n3, n4⟩ := nextSt_common s pre.length c st hesc
    have hs' : s = (pre ++ [c]) ++ rest := by rw [hs]; simp
    have hlen : (pre ++ [c]).length = pre.length + 1 := by simp
    have hlast : (pre ++ [c]).getLast? = some c := by simp
    have key : ∀ (hinv' : RunInv (pre ++ [c]) (nextSt s pre.length c st)),
        (nextSt s pre.length c st).ds ++ pendingHead s (nextSt s pre.length c st) (pre.length + 1) rest ++
            (Emphasis.runSpans (some c) (pre.length + 1) rest).map (spanDelim s) =
          st.ds ++ pendingHead s st pre.length (c :: rest) ++
            (Emphasis.runSpans pre.getLast? pre.length (c :: rest)).map (spanDelim s) →
        ∃ st', coreLoopNB s fn (f + 1) pre.length st = .ok (s.length, st') ∧ st'.escaped = false ∧ st'.ms = st.ms ∧
          st'.codes = st.codes ∧
          finalDs s st' = st.ds ++ pendingHead s st pre.length (c :: rest) ++
            (Emphasis.runSpans pre.getLast? pre.length (c :: rest)).map (spanDelim s) := by
      intro hinv' heq
      obtain ⟨st', e1, e2, e3, e4, e5⟩ := coreLoopNB_plain s fn hp rest (pre ++ [c]) (nextSt s pre.length c st) f hs'
        (by rw [n2, hcode]) n1 (by simp at hf; omega) hinv'
      rw [hlen, hlast] at e5
      rw [hlen] at e1
      refine ⟨st', ?_, e2, by rw [e3, n3], by rw [e4, n4], by rw [e5, heq]⟩
      rw [coreLoopNB_step s fn f pre.length c st hc hpc hcode hesc, e1]
    cases hr : st.inRun with
    | none =>
      have hprev := hinv.none_ hr
      cases hd : Emphasis.isDelimChar c with
      | true =>
        obtain ⟨d1, d2, d3⟩ := nextSt_none_delim s pre.length c st hesc hr hd
        have hne : (pre.getLast? != some c) = true := by
          cases hl : pre.getLast? with
          | none => rfl
          | some x =>
            have := hprev x hl
            by_cases hxc : x = c
            · subst hxc; rw [hd] at this; cases this
            · simpa using hxc
        refine key ⟨fun h => (by rw [d2] at h; cases h), fun ch h => ?_⟩ ?_
        · rw [d2] at h; cases h; exact ⟨hd, hlast⟩
        · simp only [pendingHead, d1, d2, d3, hr, Emphasis.runSpans, hd, hne, Bool.and_self, if_true,
            List.map_cons, spanDelim, List.append_nil]
          simp [Nat.add_assoc, Nat.add_comm 1]
      | false =>
        obtain ⟨d1, d2⟩ := nextSt_none_other s pre.length c st hesc hr hd
        refine key ⟨fun _ x hx => ?_, fun ch h => by rw [d2] at h; cases h⟩ ?_
        · rw [hlast] at hx; cases hx; exact hd
        · simp only [pendingHead, d1, d2, hr, Emphasis.runSpans, hd, Bool.false_and, Bool.false_eq_true, if_false]
    | some ch =>
      obtain ⟨hdch, hlastp⟩ := hinv.some_ ch hr
      by_cases hcc : c = ch
      · subst hcc
        obtain ⟨d1, d2, d3⟩ := nextSt_same s pre.length c st hesc hr
        refine key ⟨fun h => (by rw [d2] at h; cases h), fun ch h => ?_⟩ ?_
        · rw [d2] at h; cases h; exact ⟨hdch, hlast⟩
        · simp only [pendingHead, d1, d2, d3, hr, Emphasis.runSpans, hlastp, bne_self_eq_false, Bool.and_false,
            Bool.false_eq_true, if_false, Emphasis.countRun, if_true]
          simp [Nat.add_assoc, Nat.add_comm 1]
      · have hne : (some ch != some c) = true := by simpa using fun e => hcc e.symm
        cases hd : Emphasis.isDelimChar c with
        | true =>
          obtain ⟨d1, d2, d3⟩ := nextSt_diff_delim s pre.length c ch st hesc hr hcc hd
          refine key ⟨fun h => (by rw [d2] at h; cases h), fun ch' h => ?_⟩ ?_
          · rw [d2] at h; cases h; exact ⟨hd, hlast⟩
          · simp only [pendingHead, d1, d2, d3, hr, Emphasis.runSpans, hlastp, hd, hne, Bool.and_self, if_true,
              List.map_cons, spanDelim, Emphasis.countRun, hcc, if_false, Nat.add_zero]
            simp [Nat.add_assoc, Nat.add_comm 1]
        | false =>
          obtain ⟨d1, d2⟩ := nextSt_diff_other s pre.length c ch st hesc hr hcc hd
          refine key ⟨fun _ x hx => ?_, fun ch' h => by rw [d2] at h; cases h⟩ ?_
          · rw [hlast] at hx; cases hx; exact hd
          · simp only [pendingHead, d1, d2, hr, Emphasis.runSpans, hd, Bool.false_and, Bool.false_eq_true, if_false,
              Emphasis.countRun, hcc, Nat.add_zero]
            simp

/-! a text without backtick has no code span (as in Proofs/InertInline.lean, which is not imported here) -/

theorem countLeading_notin (ch : Char) : ∀ (s : Str), ch ∉ s → countLeading ch s = 0
  | [], _ => rfl
  | c :: rest, h => by
    have : c ≠ ch := fun e => h (by simp [e])
    simp [countLeading, this]

theorem codeAt_none (prev : Option Char) (r : Str) (h : '`' ∉ r) : codeAt prev r = none := by
  unfold codeAt
  have : countLeading '`' (r.drop (leadingBackslashes r)) = 0 :=
    countLeading_notin _ _ (fun hm => h (List.mem_of_mem_drop hm))
  simp [this]

theorem codeSearchAux_none : ∀ (fuel pos : Nat) (prev : Option Char) (s : Str), '`' ∉ s → codeSearchAux fuel pos prev s = none
  | 0, _, _, _, _ => by simp [codeSearchAux]
  | _ + 1, _, _, [], _ => by simp [codeSearchAux]
  | fuel + 1, pos, prev, c :: rest, h => by
    simp only [codeSearchAux, codeAt_none prev (c :: rest) h]
    exact codeSearchAux_none fuel (pos + 1) (some c) rest (fun hm => h (List.mem_cons_of_mem _ hm))

theorem codeSearch_none (s : Str) (pos : Nat) (h : '`' ∉ s) : codeSearch s pos = none :=
  codeSearchAux_none _ _ _ _ (fun hm => h (List.mem_of_mem_drop hm))

theorem plain_mem {s : Str} (hp : Emphasis.plain s = true) : ∀ c ∈ s, Emphasis.plainChar c = true := by
  simpa [Emphasis.plain] using hp

theorem plain_no_backtick {s : Str} (hp : Emphasis.plain s = true) : '`' ∉ s := by
  intro h
  have := plain_mem hp _ h
  revert this; decide

/-- the delimiter runs of a text with mistletoe's classification -/
def runsM (s : Str) : List Emphasis.Run :=
  (Emphasis.runSpans none 0 s).map (fun r => mkRunM s r.1 r.2.1 r.2.2)

/-- they are the delimiter stack of the specification, when the text has none of the eight deviant
    whitespace characters -/
theorem runsM_eq (s : Str) (hw : StdWs s) : runsM s = Emphasis.runs s := by
  unfold runsM Emphasis.runs
  apply List.map_congr_left
  intro r hr
  obtain ⟨h1, _, h3, h4⟩ := runSpans_spec s [] none r (by simpa using hr)
  simp only [List.nil_append] at h4
  apply mkRunM_eq s r.1 r.2.1 r.2.2 hw
  rw [← slice_head s r.2.1 (r.2.1 + r.2.2) (by omega), h4]
  cases hn : r.2.2 with
  | zero => omega
  | succ k => rfl

/-- the delimiters of the runs, as the character loop builds them -/
theorem spanDelims_eq (s : Str) :
    (Emphasis.runSpans none 0 s).map (spanDelim s) = (runsM s).map toDelim := by
  unfold runsM
  rw [List.map_map]
  apply List.map_congr_left
  intro r hr
  obtain ⟨h1, _, h3, h4⟩ := runSpans_spec s [] none r (by simpa using hr)
  simp only [List.nil_append] at h4
  exact mkDelim_eq_toDelimM s r.1 r.2.1 r.2.2 h3 h1 h4

/-- **`find_core_tokens` on a plain text** = `process_emphasis` (without bottoms) on the delimiter
    runs of the text, with no previous match -/
theorem findCoreTokensNB_plain (s : Str) (fn : Footnotes.Table) (hp : Emphasis.plain s = true) :
    findCoreTokensNB s fn =
      match processEmphasisNB s none ((runsM s).map toDelim) [] with
      | .err e => .err e
      | .ok (_, ms) => .ok (ms.reverse, []) := by
  obtain ⟨st', e1, e2, e3, e4, e5⟩ := coreLoopNB_plain s fn (plain_mem hp) s [] { code := codeSearch s 0 } (s.length + 2)
    rfl (codeSearch_none s 0 (plain_no_backtick hp)) rfl (by omega)
    ⟨fun _ c hc => by simp at hc, fun ch h => by simp at h⟩
  simp only [List.length_nil] at e1
  unfold findCoreTokensNB
  rw [e1]
  simp only [e2, Bool.not_false, if_true]
  have hds : (if st'.inRun.isSome then pushDelim st' (mkDelim st'.start s.length s) else st').ds =
      (runsM s).map toDelim := by
    have := e5
    simp only [finalDs, pendingHead, List.getLast?_nil, List.length_nil, List.nil_append, List.append_nil] at this
    rw [this, spanDelims_eq s]
  have hms : (if st'.inRun.isSome then pushDelim st' (mkDelim st'.start s.length s) else st').ms = [] := by
    split <;> simp [pushDelim, e3]
  have hcs : (if st'.inRun.isSome then pushDelim st' (mkDelim st'.start s.length s) else st').codes = [] := by
    split <;> simp [pushDelim, e4]
  rw [hds, hms, hcs]
  rfl

/-! ### one iteration of `process_emphasis` (without bottoms), computed -/

theorem nextCloser_append (X Y : List Delim) : nextCloser X.length (X ++ Y) = nextCloser.go Y X.length := by
  unfold nextCloser; rw [List.drop_left]

theorem getElem?_two {α} (A B C : List α) (o c : α) : (A ++ o :: (B ++ c :: C))[A.length + 1 + B.length]? = some c := by
  rw [List.getElem?_append_right (by omega)]
  have : A.length + 1 + B.length - A.length = B.length + 1 := by omega
  rw [this, List.getElem?_cons_succ, List.getElem?_append_right (Nat.le_refl _)]
  simp

/-- no opener found -/
theorem emphStepNB_none (s : Str) (ds : List Delim) (ms : List CoreM) (curr : Nat) (closer : Delim) (ch : Char)
    (hc : ds[curr]? = some closer) (hh : closer.type.head? = some ch)
    (hm : matchingOpener curr ds none = .ok none) :
    emphStepNB s none ds ms curr =
      if !closer.opens then .ok ((ds.eraseIdx curr, ms), nextCloser curr (ds.eraseIdx curr))
      else .ok ((ds, ms), nextCloser (curr + 1) ds) := by
  unfold emphStepNB
  rw [hc]; simp only
  rw [hh]; simp only
  rw [hm]

/-- the opener found is `o`, with `B` between it and the closer `c` -/
theorem emphStepNB_some (s : Str) (A B C : List Delim) (o c : Delim) (ms : List CoreM) (ch : Char)
    (hm : matchingOpener (A.length + 1 + B.length) (A ++ o :: (B ++ c :: C)) none = .ok (some A.length))
    (hh : c.type.head? = some ch) :
    emphStepNB s none (A ++ o :: (B ++ c :: C)) ms (A.length + 1 + B.length) =
      match s[o.stop - emphN o c]? with
      | none => .err .index
      | some dch =>
        .ok ((A ++ (shrink o (emphN o c) false ++ (shrink c (emphN o c) true ++ C)), emphMatch o c (emphN o c) dch :: ms),
          nextCloser (A.length + (shrink o (emphN o c) false).length)
            (A ++ (shrink o (emphN o c) false ++ (shrink c (emphN o c) true ++ C)))) := by
  have hc := getElem?_two A B C o c
  have ho : (A ++ o :: (B ++ c :: C))[A.length]? = some o := by simp
  unfold emphStepNB
  rw [hc]; simp only
  rw [hh]; simp only
  rw [hm]; simp only
  rw [ho]; simp only
  have hN : (if (decide (c.number ≥ 2) && decide (o.number ≥ 2)) = true then 2 else 1) = emphN o c := rfl
  simp only [hN]
  cases hs : s[o.stop - emphN o c]? with
  | none => rfl
  | some dch =>
    simp only
    rw [take_drop_two]
    have hmm :
        ({ start := o.stop - emphN o c, stop := c.start + emphN o c,
           kind := if emphN o c = 2 then Kind.strong else Kind.emphasis,
           ts := o.stop - emphN o c + emphN o c, te := c.start + emphN o c - emphN o c,
           dest := [], title := [], delimiter := dch } : CoreM) = emphMatch o c (emphN o c) dch := rfl
    rw [hmm]
    have set_mid : ∀ (X : List Delim) (a b : Delim), (A ++ a :: X).set A.length b = A ++ b :: X := by
      intro X a b; simp
    have set_mid1 : ∀ (X : List Delim) (a b c : Delim), (A ++ a :: b :: X).set (A.length + 1) c = A ++ a :: c :: X := by
      intro X a b c; simp
    cases hor : delimRemove o (emphN o c) false with
    | none =>
      cases hcr : delimRemove c (emphN o c) true with
      | none => simp [erase_mid, shrink, hor, hcr]
      | some c' => simp [erase_mid, set_mid, shrink, hor, hcr]
    | some o' =>
      cases hcr : delimRemove c (emphN o c) true with
      | none => simp [erase_mid1, set_mid, shrink, hor, hcr]
      | some c' => simp [set_mid1, set_mid, shrink, hor, hcr]

/-! ### `Delimiter` operations on stack entries of the specification -/

theorem toDelim_head (r : Emphasis.Run) (h : 1 ≤ r.count) : (toDelim r).type.head? = some r.char := by
  simp only [toDelim, List.head?_replicate]
  rw [if_neg (by omega)]

/-- **`Delimiter.closed_by` is "same character, and the rule of three"** (rules 9 and 10) -/
theorem closedBy_toDelim (o c : Emphasis.Run) (ho : 1 ≤ o.count) (hc : 1 ≤ c.count) :
    closedBy (toDelim o) (toDelim c) = .ok (o.char == c.char && Emphasis.ruleOfThree o c) := by
  unfold closedBy
  rw [toDelim_head o ho, toDelim_head c hc]
  show (if (o.char != c.char) = true then Res.ok false
        else if ((o.canOpen && o.canClose) || (c.canOpen && c.canClose)) = true then
          Res.ok ((o.orig + c.orig) % 3 != 0 || (o.orig % 3 == 0 && c.orig % 3 == 0))
        else Res.ok true) = _
  unfold Emphasis.ruleOfThree
  by_cases hcc : o.char = c.char
  · by_cases hx : ((o.canOpen && o.canClose) || (c.canOpen && c.canClose)) = true
    · simp [hcc, hx]
    · simp [hcc, hx]
  · have h1 : (o.char != c.char) = true := by simpa using hcc
    have h2 : (o.char == c.char) = false := by simpa using hcc
    simp [h1, h2]

/-- **`matching_opener` is "look back in the stack for the first matching potential opener"**, on
    the part of the stack below the closer -/
theorem go_below (c : Emphasis.Run) (hc : 1 ≤ c.count) : ∀ (below : List Emphasis.Run) (Y : List Delim) (n : Nat),
    (∀ r ∈ below, 1 ≤ r.count) → below.length ≤ n → below ≠ [] →
    matchingOpener.go (below.reverse.map toDelim ++ Y) (toDelim c) 0 n (below.length - 1) =
      match Emphasis.lookBack c none below with
      | none => .ok none
      | some (o, under) => .ok (some under.length)
  | [], _, _, _, _, h => absurd rfl h
  | o :: rest, Y, 0, _, h, _ => by simp at h
  | o :: rest, Y, n + 1, hpos, hn, _ => by
    have hidx : ((o :: rest).reverse.map toDelim ++ Y)[rest.length]? = some (toDelim o) := by
      simp
    simp only [List.length_cons, Nat.add_sub_cancel, matchingOpener.go, Nat.not_lt_zero, if_false, hidx,
      Emphasis.lookBack, Emphasis.aboveBottom, if_true]
    have ho := hpos o (by simp)
    rw [closedBy_toDelim o c ho hc]
    have hrec : (if rest.length = 0 then Res.ok none
        else matchingOpener.go ((o :: rest).reverse.map toDelim ++ Y) (toDelim c) 0 n (rest.length - 1)) =
        match Emphasis.lookBack c none rest with
        | none => .ok none
        | some (o, under) => .ok (some under.length) := by
      cases rest with
      | nil => simp [Emphasis.lookBack]
      | cons o2 rest2 =>
        rw [if_neg (by simp)]
        have := go_below c hc (o2 :: rest2) (toDelim o :: Y) n (fun r hr => hpos r (by simp [hr]))
          (by simp at hn ⊢; omega) (by simp)
        rw [← this]
        congr 1
        simp
    have hcm : Emphasis.canMatch o c = (o.canOpen && (o.char == c.char && Emphasis.ruleOfThree o c)) := by
      simp [Emphasis.canMatch, Bool.and_assoc]
    have hop : ((toDelim o).emph && (toDelim o).opens) = o.canOpen := by simp [toDelim]
    simp only [hcm, hop]
    by_cases hco : o.canOpen = true
    · simp only [hco, Bool.true_and, if_true]
      cases hb : (o.char == c.char && Emphasis.ruleOfThree o c) with
      | true => simp
      | false => simpa using hrec
    · have hco' : o.canOpen = false := by simpa using hco
      simp only [hco', Bool.false_and, Bool.false_eq_true, if_false]
      exact hrec

theorem matchingOpener_below (c : Emphasis.Run) (hc : 1 ≤ c.count) (below : List Emphasis.Run) (C : List Delim)
    (hpos : ∀ r ∈ below, 1 ≤ r.count) :
    matchingOpener below.length (below.reverse.map toDelim ++ toDelim c :: C) none =
      match Emphasis.lookBack c none below with
      | none => .ok none
      | some (o, under) => .ok (some under.length) := by
  unfold matchingOpener
  by_cases hb : below = []
  · subst hb; simp [Emphasis.lookBack]
  · have hl : below.length ≠ 0 := fun e => hb (List.eq_nil_of_length_eq_zero e)
    rw [if_neg hl]
    have hcur : (below.reverse.map toDelim ++ toDelim c :: C)[below.length]? = some (toDelim c) := by
      simp
    rw [hcur]
    simp only
    exact go_below c hc below (toDelim c :: C) below.length hpos (Nat.le_refl _) hb

theorem lookBack_none_split (c : Emphasis.Run) : ∀ (below : List Emphasis.Run) (o : Emphasis.Run) (under : List Emphasis.Run),
    Emphasis.lookBack c none below = some (o, under) → ∃ skipped, below = skipped ++ o :: under
  | [], _, _, h => by simp [Emphasis.lookBack] at h
  | x :: rest, o, under, h => by
    simp only [Emphasis.lookBack, Emphasis.aboveBottom, if_true] at h
    split at h
    · simp only [Option.some.injEq, Prod.mk.injEq] at h
      obtain ⟨rfl, rfl⟩ := h
      exact ⟨[], rfl⟩
    · obtain ⟨sk, hsk⟩ := lookBack_none_split c rest o under h
      exact ⟨x :: sk, by rw [hsk]; rfl⟩

theorem emphN_toDelim (o c : Emphasis.Run) :
    emphN (toDelim o) (toDelim c) = if (decide (2 ≤ o.count) && decide (2 ≤ c.count)) = true then 2 else 1 := by
  unfold emphN toDelim
  simp only [ge_iff_le]
  rw [Bool.and_comm]

/-- **`Delimiter.remove(n, left=False)`** on an opener: its last `n` characters go -/
theorem shrink_opener (o : Emphasis.Run) (n : Nat) (hn : n ≤ o.count) :
    shrink (toDelim o) n false = if o.count - n = 0 then [] else [toDelim { o with count := o.count - n }] := by
  unfold shrink delimRemove
  by_cases h : o.count = n
  · simp [toDelim, h]
  · have h0 : o.count - n ≠ 0 := by omega
    simp only [toDelim, h, if_false, Bool.false_eq_true, Option.toList_some, h0, List.drop_replicate]
    congr 2
    · omega
    · omega

/-- **`Delimiter.remove(n, left=True)`** on a closer: its first `n` characters go -/
theorem shrink_closer (c : Emphasis.Run) (n : Nat) (hn : n ≤ c.count) :
    shrink (toDelim c) n true =
      if c.count - n = 0 then [] else [toDelim { c with start := c.start + n, count := c.count - n }] := by
  unfold shrink delimRemove
  by_cases h : c.count = n
  · simp [toDelim, h]
  · have h0 : c.count - n ≠ 0 := by omega
    simp only [toDelim, h, if_false, if_true, Option.toList_some, h0, List.drop_replicate]
    congr 2
    · omega
    · omega

/-! ### the procedure of the specification without `openers_bottom` -/

def noBottoms : Emphasis.Key → Option Nat := fun _ => none

/-- forget `openers_bottom` -/
def forget (st : Emphasis.State) : Emphasis.State := { st with bottoms := noBottoms }

/-- one round in which the opener is searched down to the bottom of the stack -/
def stepNB (st : Emphasis.State) : Option Emphasis.State := (Emphasis.step (forget st)).map forget

def runNB : Nat → Emphasis.State → Emphasis.State
  | 0, st => st
  | n + 1, st =>
    match stepNB st with
    | none => st
    | some st' => runNB n st'

/-- every stack entry still holds at least one delimiter character -/
def Pos (st : Emphasis.State) : Prop := ∀ r ∈ st.below ++ st.above, 1 ≤ r.count

theorem total_append (A B : List Emphasis.Run) : Emphasis.total (A ++ B) = Emphasis.total A + Emphasis.total B := by
  induction A with
  | nil => simp [Emphasis.total]
  | cons d A ih => simp only [List.cons_append, Emphasis.total, ih]; omega

theorem lookBack_split (c : Emphasis.Run) (b : Option Nat) : ∀ (below : List Emphasis.Run) (o : Emphasis.Run)
    (under : List Emphasis.Run), Emphasis.lookBack c b below = some (o, under) →
    ∃ skipped, below = skipped ++ o :: under
  | [], _, _, h => by simp [Emphasis.lookBack] at h
  | x :: rest, o, under, h => by
    simp only [Emphasis.lookBack] at h
    split at h
    · split at h
      · simp only [Option.some.injEq, Prod.mk.injEq] at h
        obtain ⟨rfl, rfl⟩ := h
        exact ⟨[], rfl⟩
      · obtain ⟨sk, hsk⟩ := lookBack_split c b rest o under h
        exact ⟨x :: sk, by rw [hsk]; rfl⟩
    · cases h

/-- **Every round makes the measure smaller and keeps the entries non-empty**, whatever the
    `openers_bottom` are. -/
theorem step_measure (st st' : Emphasis.State) (hpos : Pos st) (h : Emphasis.step st = some st') :
    Emphasis.measure st' < Emphasis.measure st ∧ Pos st' := by
  unfold Emphasis.step at h
  cases ha : st.above with
  | nil => rw [ha] at h; cases h
  | cons c rest =>
    rw [ha] at h
    simp only at h
    have hposb : ∀ r ∈ st.below, 1 ≤ r.count := fun r hr => hpos r (by simp [hr])
    have hposc : 1 ≤ c.count := hpos c (by simp [ha])
    have hposr : ∀ r ∈ rest, 1 ≤ r.count := fun r hr => hpos r (by simp [ha, hr])
    split at h
    · cases h
      refine ⟨?_, fun r hr => ?_⟩
      · simp only [Emphasis.measure, ha, Emphasis.total, List.length_cons]; omega
      · simp only [List.mem_append, List.mem_cons] at hr
        rcases hr with (rfl | hr) | hr
        · exact hposc
        · exact hposb r hr
        · exact hposr r hr
    · split at h
      · rename_i o under hlb
        obtain ⟨sk, hsk⟩ := lookBack_split c _ _ o under hlb
        have hposo : 1 ≤ o.count := hposb o (by rw [hsk]; simp)
        have hposu : ∀ r ∈ under, 1 ≤ r.count := fun r hr => hposb r (by rw [hsk]; simp [hr])
        cases h
        have hn : (if (decide (2 ≤ o.count) && decide (2 ≤ c.count)) = true then 2 else 1) ≤ o.count ∧
            (if (decide (2 ≤ o.count) && decide (2 ≤ c.count)) = true then 2 else 1) ≤ c.count ∧
            1 ≤ (if (decide (2 ≤ o.count) && decide (2 ≤ c.count)) = true then 2 else 1) := by
          split
          · rename_i h2; simp only [Bool.and_eq_true, decide_eq_true_eq] at h2; omega
          · omega
        generalize (if (decide (2 ≤ o.count) && decide (2 ≤ c.count)) = true then 2 else 1) = n at hn ⊢
        refine ⟨?_, fun r hr => ?_⟩
        · simp only [Emphasis.measure, ha, hsk, total_append, Emphasis.total, List.length_cons]
          split <;> split <;> (try simp only [Emphasis.total, List.length_cons]) <;> omega
        · simp only [List.mem_append] at hr
          rcases hr with hr | hr
          · split at hr
            · exact hposu r hr
            · rename_i h0
              rcases List.mem_cons.1 hr with rfl | hr
              · simp only at h0 ⊢; omega
              · exact hposu r hr
          · split at hr
            · exact hposr r hr
            · rename_i h0
              rcases List.mem_cons.1 hr with rfl | hr
              · simp only at h0 ⊢; omega
              · exact hposr r hr
      · cases h
        refine ⟨?_, fun r hr => ?_⟩
        · simp only [Emphasis.measure, ha, Emphasis.total, List.length_cons]
          split <;> (try simp only [Emphasis.total]) <;> omega
        · simp only [List.mem_append] at hr
          rcases hr with hr | hr
          · split at hr
            · rcases List.mem_cons.1 hr with rfl | hr
              · exact hposc
              · exact hposb r hr
            · exact hposb r hr
          · exact hposr r hr

theorem forget_measure (st : Emphasis.State) : Emphasis.measure (forget st) = Emphasis.measure st := rfl

theorem stepNB_measure (st st' : Emphasis.State) (hpos : Pos st) (h : stepNB st = some st') :
    Emphasis.measure st' < Emphasis.measure st ∧ Pos st' := by
  unfold stepNB at h
  cases hs : Emphasis.step (forget st) with
  | none => rw [hs] at h; cases h
  | some x =>
    rw [hs] at h
    simp only [Option.map_some, Option.some.injEq] at h
    subst h
    exact step_measure (forget st) x hpos hs

/-- **The number of rounds that `process` allows is enough**: after `measure st` rounds (or more)
    from a state whose entries are not empty, there is no element at `current_position`. -/
theorem run_complete : ∀ (n : Nat) (st : Emphasis.State), Pos st → Emphasis.measure st ≤ n →
    Emphasis.step (Emphasis.run n st) = none
  | 0, st, _, hm => by
    have : st.above = [] := by
      cases ha : st.above with
      | nil => rfl
      | cons c rest => simp [Emphasis.measure, ha] at hm
    simp [Emphasis.run, Emphasis.step, this]
  | n + 1, st, hpos, hm => by
    simp only [Emphasis.run]
    cases hs : Emphasis.step st with
    | none => exact hs
    | some st' =>
      obtain ⟨h1, h2⟩ := step_measure st st' hpos hs
      exact run_complete n st' h2 (by omega)

/-! ### simulation: `process_emphasis` without bottoms against the procedure without bottoms -/

/-- the `delimiters` list of a stack of the specification split at `current_position` -/
def dsOf (below above : List Emphasis.Run) : List Delim := below.reverse.map toDelim ++ above.map toDelim

theorem dsOf_shift (c : Emphasis.Run) (below rest : List Emphasis.Run) :
    dsOf (c :: below) rest = dsOf below (c :: rest) := by
  simp [dsOf]

theorem nextCloser_dsOf (below above : List Emphasis.Run) :
    nextCloser below.length (dsOf below above) = nextCloser.go (above.map toDelim) below.length := by
  have := nextCloser_append (below.reverse.map toDelim) (above.map toDelim)
  simpa [dsOf] using this

theorem nextCloser_go_cons (c : Emphasis.Run) (Y : List Delim) (i : Nat) :
    nextCloser.go (toDelim c :: Y) i = if c.canClose then some i else nextCloser.go Y (i + 1) := by
  simp [nextCloser.go, toDelim]

theorem runNB_none (n : Nat) (st : Emphasis.State) (h : stepNB st = none) : runNB n st = st := by
  cases n with
  | zero => rfl
  | succ n => simp [runNB, h]

theorem emphLoopNB_none (s : Str) (fuel : Nat) (ds : List Delim) (ms : List CoreM) (r : List Delim × List CoreM)
    (h : emphLoopNB s none fuel ds ms none = .ok r) : r = (ds, ms) := by
  cases fuel with
  | zero => simp [emphLoopNB] at h
  | succ f => simp only [emphLoopNB, Res.ok.injEq] at h; exact h.symm

theorem emphLoopNB_some (s : Str) (fuel : Nat) (ds : List Delim) (ms : List CoreM) (curr : Nat)
    (r : List Delim × List CoreM) (h : emphLoopNB s none fuel ds ms (some curr) = .ok r) :
    ∃ f ds' ms' c', fuel = f + 1 ∧ emphStepNB s none ds ms curr = .ok ((ds', ms'), c') ∧
      emphLoopNB s none f ds' ms' c' = .ok r := by
  cases fuel with
  | zero => simp [emphLoopNB] at h
  | succ f =>
    simp only [emphLoopNB] at h
    cases hs : emphStepNB s none ds ms curr with
    | err e => rw [hs] at h; cases h
    | ok x =>
      obtain ⟨⟨ds', ms'⟩, c'⟩ := x
      rw [hs] at h
      exact ⟨f, ds', ms', c', rfl, rfl, h⟩

/-- a matched round, model side, in the vocabulary of the specification -/
theorem emphStepNB_matched (s : Str) (under skipped rest : List Emphasis.Run) (o c : Emphasis.Run) (ms : List CoreM)
    (hpos : ∀ r ∈ skipped ++ o :: under, 1 ≤ r.count) (hc : 1 ≤ c.count)
    (hlb : Emphasis.lookBack c none (skipped ++ o :: under) = some (o, under))
    (n : Nat) (hn : n = if (decide (2 ≤ o.count) && decide (2 ≤ c.count)) = true then 2 else 1)
    (below' above' : List Emphasis.Run)
    (hb : below' = if o.count - n = 0 then under else { o with count := o.count - n } :: under)
    (ha : above' = if c.count - n = 0 then rest else { c with start := c.start + n, count := c.count - n } :: rest) :
    emphStepNB s none (dsOf (skipped ++ o :: under) (c :: rest)) ms (skipped ++ o :: under).length =
      match s[o.start + o.count - n]? with
      | none => .err .index
      | some dch =>
        .ok ((dsOf below' above',
              toCoreM s { openStart := o.start + o.count - n, openStop := o.start + o.count,
                          closeStart := c.start, closeStop := c.start + n, strong := n == 2 } :: ms),
          nextCloser below'.length (dsOf below' above')) := by
  have ho : 1 ≤ o.count := hpos o (by simp)
  have hds : dsOf (skipped ++ o :: under) (c :: rest) =
      under.reverse.map toDelim ++ toDelim o :: (skipped.reverse.map toDelim ++ toDelim c :: rest.map toDelim) := by
    simp [dsOf]
  have hlen : (skipped ++ o :: under).length =
      (under.reverse.map toDelim).length + 1 + (skipped.reverse.map toDelim).length := by
    simp; omega
  have hm := matchingOpener_below c hc (skipped ++ o :: under) (rest.map toDelim) hpos
  rw [hlb] at hm
  simp only at hm
  have hds' : (skipped ++ o :: under).reverse.map toDelim ++ toDelim c :: rest.map toDelim =
      under.reverse.map toDelim ++ toDelim o :: (skipped.reverse.map toDelim ++ toDelim c :: rest.map toDelim) := by
    simp
  rw [hds', hlen] at hm
  have hul : under.length = (under.reverse.map toDelim).length := by simp
  rw [hul] at hm
  rw [hds, hlen, emphStepNB_some s _ _ _ _ _ ms c.char hm (toDelim_head c hc)]
  have hnb : n ≤ o.count ∧ n ≤ c.count ∧ 1 ≤ n := by
    rw [hn]; split
    · rename_i h2; simp only [Bool.and_eq_true, decide_eq_true_eq] at h2; omega
    · omega
  rw [emphN_toDelim, ← hn, shrink_opener o n hnb.1, shrink_closer c n hnb.2.1]
  have hstop : (toDelim o).stop - n = o.start + o.count - n := rfl
  rw [hstop]
  cases hs : s[o.start + o.count - n]? with
  | none => rfl
  | some dch =>
    simp only
    have hmatch : emphMatch (toDelim o) (toDelim c) n dch =
        toCoreM s { openStart := o.start + o.count - n, openStop := o.start + o.count,
                    closeStart := c.start, closeStop := c.start + n, strong := n == 2 } := by
      simp only [emphMatch, toCoreM, toDelim, hs, Option.getD_some, beq_iff_eq]
      congr 1
      · omega
      · omega
    rw [hmatch, hb, ha]
    by_cases h1 : o.count - n = 0 <;> by_cases h2 : c.count - n = 0 <;> simp [h1, h2, dsOf]

theorem stepNB_nil (st : Emphasis.State) (ha : st.above = []) : stepNB st = none := by
  simp [stepNB, forget, Emphasis.step, ha]

theorem stepNB_shift (st : Emphasis.State) (c : Emphasis.Run) (rest : List Emphasis.Run) (ha : st.above = c :: rest)
    (hcl : c.canClose = false) :
    stepNB st = some { below := c :: st.below, above := rest, bottoms := noBottoms, found := st.found } := by
  simp [stepNB, forget, Emphasis.step, ha, hcl]

theorem stepNB_nomatch (st : Emphasis.State) (c : Emphasis.Run) (rest : List Emphasis.Run) (ha : st.above = c :: rest)
    (hcl : c.canClose = true) (hlb : Emphasis.lookBack c none st.below = none) :
    stepNB st = some { below := if c.canOpen then c :: st.below else st.below, above := rest,
                       bottoms := noBottoms, found := st.found } := by
  simp [stepNB, forget, Emphasis.step, ha, hcl, noBottoms, hlb]

theorem stepNB_match (st : Emphasis.State) (c : Emphasis.Run) (rest : List Emphasis.Run) (ha : st.above = c :: rest)
    (hcl : c.canClose = true) (o : Emphasis.Run) (under : List Emphasis.Run)
    (hlb : Emphasis.lookBack c none st.below = some (o, under))
    (n : Nat) (hn : n = if (decide (2 ≤ o.count) && decide (2 ≤ c.count)) = true then 2 else 1) :
    stepNB st = some
      { below := if o.count - n = 0 then under else { o with count := o.count - n } :: under,
        above := if c.count - n = 0 then rest else { c with start := c.start + n, count := c.count - n } :: rest,
        bottoms := noBottoms,
        found := { openStart := o.start + o.count - n, openStop := o.start + o.count,
                   closeStart := c.start, closeStop := c.start + n, strong := n == 2 } :: st.found } := by
  subst hn
  simp [stepNB, forget, Emphasis.step, ha, hcl, noBottoms, hlb]

/-- **Simulation.**  From a stack of the specification and the corresponding `delimiters` list,
    with the same matches so far, the loop of `process_emphasis` without bottoms (if it does not
    fail) returns the matches of the specification's procedure without `openers_bottom`. -/
theorem sim (s : Str) : ∀ (n : Nat) (st : Emphasis.State) (fuelM : Nat) (r : List Delim × List CoreM),
    Pos st → Emphasis.measure st ≤ n →
    emphLoopNB s none fuelM (dsOf st.below st.above) (st.found.map (toCoreM s))
      (nextCloser st.below.length (dsOf st.below st.above)) = .ok r →
    r.2 = (runNB n st).found.map (toCoreM s) := by
  intro n
  induction n with
  | zero =>
    intro st fuelM r hpos hm h
    have ha : st.above = [] := by
      cases ha : st.above with
      | nil => rfl
      | cons c rest => simp [Emphasis.measure, ha] at hm
    rw [nextCloser_dsOf, ha] at h
    simp only [List.map_nil, nextCloser.go] at h
    rw [emphLoopNB_none s _ _ _ _ h]
    rfl
  | succ n ih =>
    intro st fuelM r hpos hm h
    cases ha : st.above with
    | nil =>
      rw [nextCloser_dsOf, ha] at h
      simp only [List.map_nil, nextCloser.go] at h
      rw [emphLoopNB_none s _ _ _ _ h, runNB_none _ _ (stepNB_nil st ha)]
    | cons c rest =>
      have hposb : ∀ r ∈ st.below, 1 ≤ r.count := fun r hr => hpos r (by simp [hr])
      have hposc : 1 ≤ c.count := hpos c (by simp [ha])
      rw [ha] at h
      cases hcl : c.canClose with
      | false =>
        have hstep := stepNB_shift st c rest ha hcl
        obtain ⟨hm', hpos'⟩ := stepNB_measure st _ hpos hstep
        simp only [runNB, hstep]
        apply ih _ fuelM r hpos' (by omega)
        simp only
        rw [nextCloser_dsOf, dsOf_shift, List.length_cons]
        rw [nextCloser_dsOf, List.map_cons, nextCloser_go_cons, hcl] at h
        exact h
      | true =>
        rw [nextCloser_dsOf, List.map_cons, nextCloser_go_cons, hcl] at h
        simp only [if_true] at h
        obtain ⟨f, ds', ms', c', hf, hstepM, hloop⟩ := emphLoopNB_some s _ _ _ _ _ h
        cases hlb : Emphasis.lookBack c none st.below with
        | none =>
          have hstep := stepNB_nomatch st c rest ha hcl hlb
          obtain ⟨hm', hpos'⟩ := stepNB_measure st _ hpos hstep
          simp only [runNB, hstep]
          have hmo := matchingOpener_below c hposc st.below (rest.map toDelim) hposb
          rw [hlb] at hmo
          simp only at hmo
          have hcur : (dsOf st.below (c :: rest))[st.below.length]? = some (toDelim c) := by
            simp [dsOf]
          have hdsf : dsOf st.below (c :: rest) = st.below.reverse.map toDelim ++ toDelim c :: rest.map toDelim := by
            simp [dsOf]
          rw [← hdsf] at hmo
          rw [emphStepNB_none s _ _ _ (toDelim c) c.char hcur (toDelim_head c hposc) hmo] at hstepM
          apply ih _ f r hpos' (by omega)
          simp only
          cases hco : c.canOpen with
          | false =>
            have hop : (toDelim c).opens = false := hco
            simp only [hop, Bool.not_false, if_true, Res.ok.injEq, Prod.mk.injEq] at hstepM
            obtain ⟨⟨rfl, rfl⟩, rfl⟩ := hstepM
            have herase : (dsOf st.below (c :: rest)).eraseIdx st.below.length = dsOf st.below rest := by
              rw [hdsf]
              have := erase_mid (st.below.reverse.map toDelim) (rest.map toDelim) (toDelim c)
              simpa [dsOf] using this
            rw [herase] at hloop
            simpa using hloop
          | true =>
            have hop : (toDelim c).opens = true := hco
            simp only [hop, Bool.not_true, Bool.false_eq_true, if_false, Res.ok.injEq, Prod.mk.injEq] at hstepM
            obtain ⟨⟨rfl, rfl⟩, rfl⟩ := hstepM
            simp only [if_true]
            rw [dsOf_shift, List.length_cons]
            exact hloop
        | some p =>
          obtain ⟨o, under⟩ := p
          obtain ⟨skipped, hsk⟩ := lookBack_none_split c st.below o under hlb
          have hstep := stepNB_match st c rest ha hcl o under hlb _ rfl
          obtain ⟨hm', hpos'⟩ := stepNB_measure st _ hpos hstep
          simp only [runNB, hstep]
          have hM := emphStepNB_matched s under skipped rest o c (st.found.map (toCoreM s))
            (by rw [← hsk]; exact hposb) hposc (by rw [← hsk]; exact hlb) _ rfl _ _ rfl rfl
          rw [← hsk, hstepM] at hM
          apply ih _ f r hpos' (by omega)
          simp only
          split at hM
          · cases hM
          · simp only [Res.ok.injEq, Prod.mk.injEq] at hM
            obtain ⟨⟨rfl, rfl⟩, rfl⟩ := hM
            simpa using hloop

/-! ### `openers_bottom` is sound: the procedure of the specification = the procedure without it -/

/-- `canMatch e c` as a function of `e` and the `openers_bottom` index of the closer `c` -/
def keyMatch (e : Emphasis.Run) (k : Emphasis.Key) : Bool :=
  e.canOpen && e.char == k.1 &&
    (if (e.canOpen && e.canClose) || k.2.1 then (e.orig + k.2.2) % 3 != 0 || (e.orig % 3 == 0 && k.2.2 % 3 == 0)
     else true)

theorem canMatch_key (e c : Emphasis.Run) (hcl : c.canClose = true) :
    Emphasis.canMatch e c = keyMatch e (Emphasis.keyOf c) := by
  unfold Emphasis.canMatch keyMatch Emphasis.ruleOfThree Emphasis.keyOf
  simp only [hcl, Bool.and_true]
  have e1 : (e.orig + c.orig % 3) % 3 = (e.orig + c.orig) % 3 := by omega
  have e2 : c.orig % 3 % 3 = c.orig % 3 := by omega
  rw [e1, e2]

theorem lookBack_none_all (c : Emphasis.Run) (b : Option Nat) : ∀ (l : List Emphasis.Run),
    (∀ e ∈ l, Emphasis.canMatch e c = false) → Emphasis.lookBack c b l = none
  | [], _ => rfl
  | o :: rest, h => by
    simp only [Emphasis.lookBack, h o (by simp), Bool.false_eq_true, if_false]
    split
    · exact lookBack_none_all c b rest (fun e he => h e (by simp [he]))
    · rfl

theorem lookBack_none_conv (c : Emphasis.Run) : ∀ (l : List Emphasis.Run),
    Emphasis.lookBack c none l = none → ∀ e ∈ l, Emphasis.canMatch e c = false
  | [], _, e, he => by cases he
  | o :: rest, h, e, he => by
    simp only [Emphasis.lookBack, Emphasis.aboveBottom, if_true] at h
    split at h
    · cases h
    · rename_i hno
      rcases List.mem_cons.1 he with rfl | he
      · simpa using hno
      · exact lookBack_none_conv c rest h e he

/-- searching down to a sound bottom = searching down to the bottom of the stack -/
theorem lookBack_bottom (c : Emphasis.Run) (p : Nat) : ∀ (l : List Emphasis.Run),
    l.Pairwise (fun a b => b.start + b.count ≤ a.start) →
    (∀ e ∈ l, e.start ≤ p → Emphasis.canMatch e c = false) →
    Emphasis.lookBack c (some p) l = Emphasis.lookBack c none l
  | [], _, _ => rfl
  | o :: rest, hs, h => by
    have hs' := List.pairwise_cons.1 hs
    by_cases hp : p < o.start
    · simp only [Emphasis.lookBack, Emphasis.aboveBottom, hp, decide_true, if_true]
      rw [lookBack_bottom c p rest hs'.2 (fun e he => h e (by simp [he]))]
    · have hall : ∀ e ∈ o :: rest, Emphasis.canMatch e c = false := by
        intro e he
        apply h e he
        rcases List.mem_cons.1 he with rfl | he
        · omega
        · have := hs'.1 e he; omega
      rw [lookBack_none_all c none _ hall]
      simp [Emphasis.lookBack, Emphasis.aboveBottom, hp]

/-- Invariant of the stack and of `openers_bottom`: the stack is in text order with disjoint
    entries; for every recorded bottom `p` of an index `k`, no entry under `current_position` at or
    below position `p` is an opener that a closer with index `k` matches, and `p` lies before
    `current_position`. -/
structure SInv (st : Emphasis.State) : Prop where
  sortedB : st.below.Pairwise (fun a b => b.start + b.count ≤ a.start)
  sortedA : st.above.Pairwise (fun a b => a.start + a.count ≤ b.start)
  cross : ∀ b ∈ st.below, ∀ a ∈ st.above, b.start + b.count ≤ a.start
  bot : ∀ k p, st.bottoms k = some p →
    (∀ e ∈ st.below, e.start ≤ p → keyMatch e k = false) ∧ ∀ a ∈ st.above, p < a.start

/-- with the invariant, the opener found is the one found without `openers_bottom` -/
theorem lookBack_sound (st : Emphasis.State) (hinv : SInv st) (c : Emphasis.Run) (hcl : c.canClose = true) :
    Emphasis.lookBack c (st.bottoms (Emphasis.keyOf c)) st.below = Emphasis.lookBack c none st.below := by
  cases hb : st.bottoms (Emphasis.keyOf c) with
  | none => rfl
  | some p =>
    apply lookBack_bottom c p st.below hinv.sortedB
    intro e he hle
    rw [canMatch_key e c hcl]
    exact (hinv.bot _ p hb).1 e he hle

/-- one round with `openers_bottom`, forgetting them, is one round without -/
theorem step_forget (st : Emphasis.State) (hinv : SInv st) : (Emphasis.step st).map forget = stepNB st := by
  unfold stepNB Emphasis.step
  cases ha : st.above with
  | nil => simp [forget, ha]
  | cons c rest =>
    have ha' : (forget st).above = c :: rest := ha
    simp only [ha']
    cases hcl : c.canClose with
    | false => simp [forget]
    | true =>
      simp only [Bool.not_true, Bool.false_eq_true, if_false]
      rw [lookBack_sound st hinv c hcl]
      have hb : (forget st).bottoms (Emphasis.keyOf c) = none := rfl
      have hbl : (forget st).below = st.below := rfl
      rw [hb, hbl]
      cases Emphasis.lookBack c none st.below with
      | none => simp [forget]
      | some p => simp [forget]

theorem keyMatch_count (e : Emphasis.Run) (n : Nat) (k : Emphasis.Key) :
    keyMatch { e with count := n } k = keyMatch e k := rfl

/-- **Every round keeps the invariant of `openers_bottom`.** -/
theorem SInv.step {st st' : Emphasis.State} (hinv : SInv st) (hpos : Pos st) (h : Emphasis.step st = some st') :
    SInv st' := by
  unfold Emphasis.step at h
  cases ha : st.above with
  | nil => rw [ha] at h; cases h
  | cons c rest =>
    rw [ha] at h
    simp only at h
    have hposb : ∀ r ∈ st.below, 1 ≤ r.count := fun r hr => hpos r (by simp [hr])
    have hposc : 1 ≤ c.count := hpos c (by simp [ha])
    have hsA := hinv.sortedA
    rw [ha] at hsA
    have hsA' := List.pairwise_cons.1 hsA
    have hcross : ∀ b ∈ st.below, ∀ a ∈ c :: rest, b.start + b.count ≤ a.start := by
      intro b hb a ha'; exact hinv.cross b hb a (by rw [ha]; exact ha')
    have hbot : ∀ k p, st.bottoms k = some p →
        (∀ e ∈ st.below, e.start ≤ p → keyMatch e k = false) ∧ ∀ a ∈ c :: rest, p < a.start := by
      intro k p hk
      obtain ⟨h1, h2⟩ := hinv.bot k p hk
      exact ⟨h1, fun a ha' => h2 a (by rw [ha]; exact ha')⟩
    -- pushing the element at `current_position` onto the part below keeps everything
    have push : ∀ (bs : Emphasis.Key → Option Nat),
        (∀ k p, bs k = some p → (∀ e ∈ st.below, e.start ≤ p → keyMatch e k = false) ∧ ∀ a ∈ c :: rest, p < a.start) →
        SInv { below := c :: st.below, above := rest, bottoms := bs, found := st.found } := by
      intro bs hbs
      refine ⟨List.pairwise_cons.2 ⟨fun b hb => hcross b hb c (by simp), hinv.sortedB⟩, hsA'.2, ?_, ?_⟩
      · intro b hb a ha'
        rcases List.mem_cons.1 hb with rfl | hb
        · exact hsA'.1 a ha'
        · exact hcross b hb a (by simp [ha'])
      · intro k p hk
        obtain ⟨h1, h2⟩ := hbs k p hk
        refine ⟨fun e he hle => ?_, fun a ha' => h2 a (by simp [ha'])⟩
        rcases List.mem_cons.1 he with rfl | he
        · have := h2 e (by simp); omega
        · exact h1 e he hle
    have drop : ∀ (bs : Emphasis.Key → Option Nat),
        (∀ k p, bs k = some p → (∀ e ∈ st.below, e.start ≤ p → keyMatch e k = false) ∧ ∀ a ∈ c :: rest, p < a.start) →
        SInv { below := st.below, above := rest, bottoms := bs, found := st.found } := by
      intro bs hbs
      refine ⟨hinv.sortedB, hsA'.2, fun b hb a ha' => hcross b hb a (by simp [ha']), ?_⟩
      intro k p hk
      obtain ⟨h1, h2⟩ := hbs k p hk
      exact ⟨h1, fun a ha' => h2 a (by simp [ha'])⟩
    split at h
    · cases h
      exact push st.bottoms hbot
    · rename_i hcl
      have hcl' : c.canClose = true := by simpa using hcl
      split at h
      · rename_i o under hlb
        obtain ⟨sk, hsk⟩ := lookBack_split c _ _ o under hlb
        cases h
        have hn : (if (decide (2 ≤ o.count) && decide (2 ≤ c.count)) = true then 2 else 1) ≤ o.count ∧
            (if (decide (2 ≤ o.count) && decide (2 ≤ c.count)) = true then 2 else 1) ≤ c.count ∧
            1 ≤ (if (decide (2 ≤ o.count) && decide (2 ≤ c.count)) = true then 2 else 1) := by
          have := hposb o (by rw [hsk]; simp)
          split
          · rename_i h2; simp only [Bool.and_eq_true, decide_eq_true_eq] at h2; omega
          · omega
        generalize (if (decide (2 ≤ o.count) && decide (2 ≤ c.count)) = true then 2 else 1) = n at hn ⊢
        have hsB := hinv.sortedB
        rw [hsk] at hsB
        have hsB2 := (List.pairwise_append.1 hsB).2.1
        have hsB3 := List.pairwise_cons.1 hsB2
        have hmo : o ∈ st.below := by rw [hsk]; simp
        have hmu : ∀ u ∈ under, u ∈ st.below := fun u hu => by rw [hsk]; simp [hu]
        -- every new entry lies inside an old one on the same side
        have hB : ∀ b ∈ (if o.count - n = 0 then under else { o with count := o.count - n } :: under),
            ∃ b0 ∈ st.below, b.start = b0.start ∧ b.count ≤ b0.count ∧ ∀ k, keyMatch b k = keyMatch b0 k := by
          intro b hb
          split at hb
          · exact ⟨b, hmu b hb, rfl, Nat.le_refl _, fun _ => rfl⟩
          · rcases List.mem_cons.1 hb with rfl | hb
            · exact ⟨o, hmo, rfl, Nat.sub_le _ _, fun _ => rfl⟩
            · exact ⟨b, hmu b hb, rfl, Nat.le_refl _, fun _ => rfl⟩
        have hA : ∀ a ∈ (if c.count - n = 0 then rest else { c with start := c.start + n, count := c.count - n } :: rest),
            ∃ a0 ∈ c :: rest, a0.start ≤ a.start := by
          intro a ha'
          split at ha'
          · exact ⟨a, by simp [ha'], Nat.le_refl _⟩
          · rcases List.mem_cons.1 ha' with rfl | ha'
            · exact ⟨c, by simp, Nat.le_add_right _ _⟩
            · exact ⟨a, by simp [ha'], Nat.le_refl _⟩
        refine ⟨?_, ?_, ?_, ?_⟩
        · show (if o.count - n = 0 then under else { o with count := o.count - n } :: under).Pairwise _
          split
          · exact hsB3.2
          · exact List.pairwise_cons.2 ⟨fun u hu => hsB3.1 u hu, hsB3.2⟩
        · show (if c.count - n = 0 then rest else { c with start := c.start + n, count := c.count - n } :: rest).Pairwise _
          split
          · exact hsA'.2
          · refine List.pairwise_cons.2 ⟨fun a ha' => ?_, hsA'.2⟩
            have := hsA'.1 a ha'
            show c.start + n + (c.count - n) ≤ a.start
            omega
        · intro b hb a ha'
          obtain ⟨b0, hb0, e1, e2, _⟩ := hB b hb
          obtain ⟨a0, ha0, e3⟩ := hA a ha'
          have := hcross b0 hb0 a0 ha0
          omega
        · intro k p hk
          obtain ⟨h1, h2⟩ := hbot k p hk
          refine ⟨fun e he hle => ?_, fun a ha' => ?_⟩
          · obtain ⟨b0, hb0, e1, _, e3⟩ := hB e he
            rw [e3 k]
            exact h1 b0 hb0 (by omega)
          · obtain ⟨a0, ha0, e3⟩ := hA a ha'
            have := h2 a0 ha0
            omega
      · rename_i hlb
        cases h
        rw [lookBack_sound st hinv c hcl'] at hlb
        have hnm := lookBack_none_conv c st.below hlb
        have hbs : ∀ k p, (if k = Emphasis.keyOf c then st.below.head?.map (·.start) else st.bottoms k) = some p →
            (∀ e ∈ st.below, e.start ≤ p → keyMatch e k = false) ∧ ∀ a ∈ c :: rest, p < a.start := by
          intro k p hk
          split at hk
          · rename_i hkc
            subst hkc
            cases hb : st.below with
            | nil => rw [hb] at hk; cases hk
            | cons e0 bs =>
              rw [hb] at hk
              simp only [List.head?_cons, Option.map_some, Option.some.injEq] at hk
              subst hk
              have he0 : e0 ∈ st.below := by rw [hb]; simp
              refine ⟨fun e he _ => ?_, fun a ha' => ?_⟩
              · rw [← canMatch_key e c hcl']
                exact hnm e (by rw [hb]; exact he)
              · have := hcross e0 he0 a ha'
                have := hposb e0 he0
                omega
          · exact hbot k p hk
        split
        · exact push _ hbs
        · exact drop _ hbs

theorem forget_forget (st : Emphasis.State) : forget (forget st) = forget st := rfl

theorem stepNB_forget (st : Emphasis.State) : stepNB (forget st) = stepNB st := rfl

/-- **The procedure of the specification computes what the procedure without `openers_bottom`
    computes** (same stack, same emphasis nodes), from any state that satisfies the invariant. -/
theorem run_forget : ∀ (n : Nat) (st : Emphasis.State), SInv st → Pos st →
    forget (Emphasis.run n st) = runNB n (forget st)
  | 0, _, _, _ => rfl
  | n + 1, st, hinv, hpos => by
    simp only [Emphasis.run, runNB, stepNB_forget, ← step_forget st hinv]
    cases hs : Emphasis.step st with
    | none => rfl
    | some st' =>
      simp only [Option.map_some]
      exact run_forget n st' (hinv.step hpos hs) (step_measure st st' hpos hs).2

/-! ### the refinement theorems -/

theorem runsM_pos (s : Str) : ∀ r ∈ runsM s, 1 ≤ r.count := by
  intro r hr
  obtain ⟨x, hx, rfl⟩ := List.mem_map.1 hr
  exact (runSpans_spec s [] none x (by simpa using hx)).2.2.1

theorem runsM_sorted (s : Str) : (runsM s).Pairwise (fun a b => a.start + a.count ≤ b.start) :=
  List.pairwise_map.2 (runSpans_sorted s none 0)

theorem initial_pos (rs : List Emphasis.Run) (hpos : ∀ r ∈ rs, 1 ≤ r.count) : Pos (Emphasis.initial rs) := by
  intro r hr
  exact hpos r (by simpa [Emphasis.initial] using hr)

theorem initial_sinv (rs : List Emphasis.Run) (hs : rs.Pairwise (fun a b => a.start + a.count ≤ b.start)) :
    SInv (Emphasis.initial rs) :=
  ⟨List.Pairwise.nil, hs, fun b hb => (by cases hb), fun k p hk => (by cases hk)⟩

/-- **`process_emphasis` (without bottoms) computes *process emphasis* of the specification**
    (with `openers_bottom`), on any stack of non-empty entries in text order: if it does not fail,
    its matches are the emphasis nodes of the specification, in the same order. -/
theorem processEmphasisNB_spec (s : Str) (rs : List Emphasis.Run) (hpos : ∀ r ∈ rs, 1 ≤ r.count)
    (hs : rs.Pairwise (fun a b => a.start + a.count ≤ b.start)) (ds' : List Delim) (ms' : List CoreM)
    (h : processEmphasisNB s none (rs.map toDelim) [] = .ok (ds', ms')) :
    ms'.reverse = (Emphasis.process rs).map (toCoreM s) := by
  unfold processEmphasisNB at h
  cases hl : emphLoopNB s none (2 * s.length + 2 * (rs.map toDelim).length + 4) (rs.map toDelim) []
      (nextCloser (Option.getD none 0) (rs.map toDelim)) with
  | err e => rw [hl] at h; cases h
  | ok r =>
    rw [hl] at h
    obtain ⟨rd, rm⟩ := r
    simp only [Res.ok.injEq, Prod.mk.injEq] at h
    obtain ⟨_, rfl⟩ := h
    have hP := initial_pos rs hpos
    have hsim := sim s (Emphasis.measure (Emphasis.initial rs)) (Emphasis.initial rs) _ (rd, rm) hP (Nat.le_refl _)
      (by simpa [Emphasis.initial, dsOf] using hl)
    have hrf := run_forget (Emphasis.measure (Emphasis.initial rs)) (Emphasis.initial rs) (initial_sinv rs hs) hP
    have hfi : forget (Emphasis.initial rs) = Emphasis.initial rs := rfl
    rw [hfi] at hrf
    simp only at hsim
    rw [hsim, ← hrf, ← List.map_reverse]
    rfl

/-- **Refinement, first form (every plain text).**  For every text `s` of the fragment (no `\`,
    backtick, `[`, `]`, `<`, `&`) and every table of link reference definitions,
    `find_core_tokens(s, root)` returns exactly the emphasis nodes that *process emphasis* of the
    specification (with `openers_bottom`, the rule of three on original run lengths, strong iff both
    lengths ≥ 2, …) computes on the delimiter runs of `s`, in the same order, with the same four
    positions and the same kind, and no code span.  Here the runs are those of the specification
    (`runSpans`), classified as opener / closer by mistletoe's own `is_opener` / `is_closer`
    (`runsM`); the second form replaces this classification by the specification's. -/
theorem findCoreTokens_process (s : Str) (fn : Footnotes.Table) (hp : Emphasis.plain s = true) :
    findCoreTokens s fn = .ok ((Emphasis.process (runsM s)).map (toCoreM s), []) := by
  obtain ⟨r0, hr0⟩ := findCoreTokens_ok s fn
  rw [findCoreTokens_eq_noBottoms, findCoreTokensNB_plain s fn hp] at hr0 ⊢
  cases hpe : processEmphasisNB s none ((runsM s).map toDelim) [] with
  | err e => rw [hpe] at hr0; cases hr0
  | ok x =>
    obtain ⟨ds', ms'⟩ := x
    simp only
    rw [processEmphasisNB_spec s (runsM s) (runsM_pos s) (runsM_sorted s) ds' ms' hpe]

/-- **Refinement (main theorem).**  For every text `s` of the fragment that contains none of the
    eight code points which `core_tokens.unicode_whitespace` wrongly counts as Unicode whitespace
    (U+000B, U+001C–U+001F, U+0085, U+2028, U+2029: `StdWs s`), and every table of link reference
    definitions, `find_core_tokens(s, root)` returns exactly `Spec.Emphasis.emphasis s`, mapped to
    the model's match record: same `start`/`ts`/`te`/`stop`, same kind, same order; and no code span.

    `_partial`: the hypothesis `StdWs s` was added because the statement is false without it
    (`not_refines_deviant` below): mistletoe treats those eight characters as whitespace in the
    flanking tests, the specification (0.30, section 2.1) does not. -/
theorem findCoreTokens_refines_spec_partial (s : Str) (fn : Footnotes.Table) (hp : Emphasis.plain s = true)
    (hw : StdWs s) :
    findCoreTokens s fn = .ok ((Emphasis.emphasis s).map (toCoreM s), []) := by
  rw [findCoreTokens_process s fn hp, runsM_eq s hw]
  rfl

/-- executable form of `StdWs` -/
def stdWs (s : Str) : Bool := s.all (fun c => !deviantWs c)

theorem stdWs_iff (s : Str) : stdWs s = true ↔ StdWs s := by
  simp [stdWs, StdWs]

/-- **The hypothesis `StdWs` cannot be dropped: a disagreement between mistletoe and the
    specification.**  The text `*␟a*` (`*`, U+001F, `a`, `*`) is in the fragment.  U+001F is a control
    character (category `Cc`): not in `Zs`, not tab / line feed / form feed / carriage return, hence
    not a Unicode whitespace character, and not punctuation; so the first `*` is left-flanking, the
    last one right-flanking, and the specification gives `<em>␟a</em>`.  mistletoe has U+001F in
    `core_tokens.unicode_whitespace`, finds that the first `*` is followed by whitespace, and gives
    no emphasis.  The real code does the same: `mistletoe.markdown('*\x1fa*')` is
    `<p>*\x1fa*</p>`.  (The other seven code points, U+000B, U+001C–U+001E, U+0085, U+2028, U+2029,
    behave alike in `find_core_tokens`, but `Document` splits the text at them first, because
    `str.splitlines` does.) -/
theorem not_refines_deviant :
    Emphasis.plain "*\x1fa*".toList = true ∧
    findCoreTokens "*\x1fa*".toList [] = .ok ([], []) ∧
    Emphasis.spans "*\x1fa*".toList = [(0, 1, 3, 4, false)] := by decide +kernel

/-! ### property level (C06, first clause) -/

/-- **C06: the emphasis structure is the specification's.**  For every inline text `s` of the
    fragment (no `\`, backtick, `[`, `]`, `<`, `&`) without the eight deviant whitespace code points,
    and every table of link reference definitions: `find_core_tokens(s, root)` does not fail; it
    returns no code span; every match it returns is a `Strong` or an `Emphasis`; and the matches are,
    one for one and in the same order, the emphasis nodes that the CommonMark 0.30 delimiter
    algorithm computes for `s` (`Spec.Emphasis.emphasis`: delimiter runs, left/right flanking, the
    restrictions on `_`, *process emphasis* with `openers_bottom`, the rule of three on original run
    lengths, strong iff both lengths ≥ 2): same opening delimiter `[start, ts)`, same closing
    delimiter `[te, stop)`, same kind.

    `_partial`: see `findCoreTokens_refines_spec_partial` for the added hypothesis `StdWs s`. -/
theorem C06_emphasis_is_spec_partial (s : Str) (fn : Footnotes.Table) (hp : Emphasis.plain s = true) (hw : StdWs s) :
    ∃ ms, findCoreTokens s fn = .ok (ms, []) ∧
      ms = (Emphasis.emphasis s).map (toCoreM s) ∧
      (∀ m ∈ ms, m.kind = .strong ∨ m.kind = .emphasis) ∧
      ms.map (fun m => (m.start, m.ts, m.te, m.stop, m.kind == .strong)) = Emphasis.spans s := by
  refine ⟨_, findCoreTokens_refines_spec_partial s fn hp hw, rfl, ?_, ?_⟩
  · intro m hm
    obtain ⟨x, _, rfl⟩ := List.mem_map.1 hm
    simp only [toCoreM]
    cases x.strong <;> simp
  · simp only [Emphasis.spans, List.map_map]
    apply List.map_congr_left
    intro x _
    simp only [Function.comp, toCoreM]
    cases x.strong <;> rfl

/-- the same for every plain text, with mistletoe's own opener / closer classification of the runs -/
theorem C06_emphasis_is_process (s : Str) (fn : Footnotes.Table) (hp : Emphasis.plain s = true) :
    findCoreTokens s fn = .ok ((Emphasis.process (runsM s)).map (toCoreM s), []) :=
  findCoreTokens_process s fn hp

/-! non-vacuity: emphasis inside strong inside emphasis, `_` and `*` mixed -/

example : findCoreTokens "_x **y *z* y** x_".toList [] =
    .ok ((Emphasis.emphasis "_x **y *z* y** x_".toList).map (toCoreM "_x **y *z* y** x_".toList), []) :=
  findCoreTokens_refines_spec_partial _ _ (by decide +kernel) ((stdWs_iff _).1 (by decide +kernel))

example : Emphasis.spans "_x **y *z* y** x_".toList =
    [(7, 8, 9, 10, false), (3, 5, 12, 14, true), (0, 1, 16, 17, false)] := by decide +kernel

example : ∃ ms, findCoreTokens "***a** b*".toList [] = .ok (ms, []) ∧
    ms.map (fun m => (m.start, m.ts, m.te, m.stop, m.kind == .strong)) = [(1, 3, 4, 6, true), (0, 1, 8, 9, false)] := by
  obtain ⟨ms, h1, _, _, h4⟩ := C06_emphasis_is_spec_partial "***a** b*".toList [] (by decide +kernel)
    ((stdWs_iff _).1 (by decide +kernel))
  refine ⟨ms, h1, ?_⟩
  rw [h4]
  decide +kernel

end Mistletoe.EmphRefine
