/-
  Helper lemmas for C16 (span tokenizer).  Property theorems are in Props/C16.lean.
-/
import Mistletoe.Model.Span
namespace Mistletoe.Span

/-- A match whose parse group lies inside the match. -/
def CandWF (c : Cand) : Prop := c.start ≤ c.pstart ∧ c.pstart ≤ c.pend ∧ c.pend ≤ c.stop

instance (c : Cand) : Decidable (CandWF c) := by unfold CandWF; exact inferInstance

mutual
/-- Well-formed `ParseToken`: its children (reversed) are well-formed, lie in its parse group,
    and each ends before the next starts. -/
def PTok.WF : PTok → Prop
  | .mk c kids => CandWF c ∧ KidsOK kids c.pstart c.pend
/-- `KidsOK kidsRev lo hi`: the (reversed) list is ordered, pairwise disjoint, inside `[lo, hi]`. -/
def KidsOK : List PTok → Nat → Nat → Prop
  | [], _, _ => True
  | t :: earlier, lo, hi => t.WF ∧ lo ≤ t.c.start ∧ t.c.stop ≤ hi ∧ KidsOK earlier lo t.c.start
end

mutual
/-- Every token on the right spine of `p` starts at or before `n` (candidates arrive sorted). -/
def SpineLE : PTok → Nat → Prop
  | .mk c kids, n => c.start ≤ n ∧ SpineLEs kids n
def SpineLEs : List PTok → Nat → Prop
  | [], _ => True
  | t :: _, n => SpineLE t n
end

theorem KidsOK_mono_hi : ∀ (kids : List PTok) (lo hi hi' : Nat), hi ≤ hi' → KidsOK kids lo hi → KidsOK kids lo hi'
  | [], _, _, _, _, _ => by simp [KidsOK]
  | t :: e, lo, hi, hi', h, hk => by
    simp only [KidsOK] at hk ⊢
    exact ⟨hk.1, hk.2.1, Nat.le_trans hk.2.2.1 h, hk.2.2.2⟩

mutual
theorem SpineLE_mono : ∀ (p : PTok) (n m : Nat), n ≤ m → SpineLE p n → SpineLE p m
  | .mk c kids, n, m, h, hp => by
    simp only [SpineLE] at hp ⊢
    exact ⟨Nat.le_trans hp.1 h, SpineLEs_mono kids n m h hp.2⟩
theorem SpineLEs_mono : ∀ (ks : List PTok) (n m : Nat), n ≤ m → SpineLEs ks n → SpineLEs ks m
  | [], _, _, _, _ => by simp [SpineLEs]
  | t :: _, n, m, h, hp => by
    simp only [SpineLEs] at hp ⊢
    exact SpineLE_mono t n m h hp
end

theorem appendChild_c (p child : PTok) : (appendChild p child).c = p.c := by
  cases p with
  | mk c kids => simp only [appendChild]; split <;> rfl

theorem relation_two {x y : Cand} (h : relation x y = 2) :
    x.pstart ≤ y.start ∧ y.stop ≤ x.pend := by
  unfold relation at h
  split at h
  · omega
  · split at h
    · split at h
      · rename_i h2; exact ⟨h2.1, h2.2⟩
      · split at h <;> omega
    · omega

theorem relation_zero {x y : Cand} (h : relation x y = 0) : x.stop ≤ y.start := by
  unfold relation at h
  split at h
  · assumption
  · split at h
    · split at h
      · omega
      · split at h <;> omega
    · omega

/-- Main structural lemma: inserting a well-formed, sorted-after candidate keeps the invariant. -/
theorem insert_ok :
    (∀ (p child : PTok), p.WF → child.WF → SpineLE p child.c.start →
        p.c.pstart ≤ child.c.start → child.c.stop ≤ p.c.pend →
        (appendChild p child).WF ∧
        (∀ m, child.c.start ≤ m → SpineLE child m → SpineLE (appendChild p child) m)) ∧
    (∀ (kids : List PTok) (child : PTok), ∀ lo hi, KidsOK kids lo hi → child.WF →
        SpineLEs kids child.c.start → lo ≤ child.c.start → child.c.stop ≤ hi →
        KidsOK (evalNewChild kids child) lo hi ∧
        (∀ m, child.c.start ≤ m → SpineLE child m → SpineLEs (evalNewChild kids child) m)) := by
  apply appendChild.mutual_induct
  · -- inner
    intro c kids child hin ih hp hc hs h1 h2
    simp only [PTok.WF, PTok.c, SpineLE] at hp hs h1 h2
    have := ih c.pstart c.pend hp.2 hc hs.2 h1 h2
    simp only [appendChild, hin, if_true, PTok.WF, SpineLE]
    refine ⟨⟨hp.1, this.1⟩, ?_⟩
    intro m hm hcm
    exact ⟨Nat.le_trans hs.1 hm, this.2 m hm hcm⟩
  · -- not inner
    intro c kids child hin hp hc hs _ _
    simp only [appendChild, hin]
    refine ⟨hp, ?_⟩
    intro m hm _
    exact SpineLE_mono _ _ _ hm hs
  · -- []
    intro child lo hi _ hc _ h1 h2
    simp only [evalNewChild, KidsOK, SpineLEs]
    exact ⟨⟨hc, h1, h2, trivial⟩, fun m _ h => h⟩
  · -- r = 0
    intro last rest child hr lo hi hk hc hs h1 h2
    simp only [evalNewChild, hr, KidsOK, SpineLEs] at hk ⊢
    refine ⟨⟨hc, h1, h2, hk.1, hk.2.1, relation_zero hr, hk.2.2.2⟩, fun m _ h => h⟩
  · -- r = 1, replaced
    intro last rest child hr hlt lo hi hk hc hs h1 h2
    simp only [evalNewChild, hr, hlt, if_true, KidsOK, SpineLEs] at hk hs ⊢
    have hls : last.c.start ≤ child.c.start := by
      cases last with | mk lc lk => simp only [SpineLE, PTok.c] at hs ⊢; exact hs.1
    exact ⟨⟨hc, h1, h2, KidsOK_mono_hi _ _ _ _ hls hk.2.2.2⟩, fun m _ h => h⟩
  · -- r = 1, kept
    intro last rest child hr hlt lo hi hk hc hs h1 h2
    simp only [evalNewChild, hr, hlt, if_false]
    exact ⟨hk, fun m hm _ => SpineLEs_mono _ _ _ hm hs⟩
  · -- r = 2
    intro last rest child hr ih lo hi hk hc hs h1 h2
    simp only [evalNewChild, hr, KidsOK, SpineLEs] at hk hs ⊢
    have h12 := relation_two hr
    have := ih hk.1 hc hs h12.1 h12.2
    rw [appendChild_c]
    exact ⟨⟨this.1, hk.2.1, hk.2.2.1, hk.2.2.2⟩, this.2⟩
  · -- r = 3
    intro last rest child h0 h1' h2' lo hi hk hc hs h1 h2
    have : evalNewChild (last :: rest) child = last :: rest := by
      simp only [evalNewChild]
    rw [this]
    exact ⟨hk, fun m hm _ => SpineLEs_mono _ _ _ hm hs⟩


/-! ### The top-level loop is the child-insertion loop of a virtual root -/

def Acc.toList (a : Acc) : List PTok := a.prev :: a.bufRev

theorem evalTokens_toList (a : Acc) (y : PTok) :
    (evalTokens a y).toList = evalNewChild a.toList y := by
  unfold evalTokens Acc.toList
  simp only [evalNewChild]
  generalize relation a.prev.c y.c = r
  match r with
  | 0 => rfl
  | 1 =>
    simp only [ge_iff_le]
    by_cases h : a.prev.c.prec < y.c.prec
    · have : ¬ y.c.prec ≤ a.prev.c.prec := by omega
      simp [h, this]
    · have : y.c.prec ≤ a.prev.c.prec := by omega
      simp [h, this]
  | 2 => rfl
  | n + 3 => rfl

theorem foldl_evalTokens_toList (ys : List PTok) (a : Acc) :
    (ys.foldl evalTokens a).toList = ys.foldl evalNewChild a.toList := by
  induction ys generalizing a with
  | nil => rfl
  | cons y ys ih => simp only [List.foldl_cons]; rw [ih, evalTokens_toList]

/-- The forest handed to `make_tokens`, reversed, is the fold of `evalNewChild` from `[]`. -/
theorem resolveSorted_reverse (cs : List Cand) :
    (resolveSorted cs).reverse = (cs.map (fun c => PTok.mk c [])).foldl evalNewChild [] := by
  cases cs with
  | nil => rfl
  | cons c cs =>
    simp only [resolveSorted, List.reverse_reverse, List.map_cons, List.foldl_cons, evalNewChild]
    exact foldl_evalTokens_toList _ _

/-! ### Sorting -/

def SortedByStart (cs : List Cand) : Prop := cs.Pairwise (fun a b => a.start ≤ b.start)

theorem mem_insertByStart (x y : Cand) (cs : List Cand) :
    y ∈ insertByStart x cs ↔ y = x ∨ y ∈ cs := by
  induction cs with
  | nil => simp [insertByStart]
  | cons z zs ih =>
    simp only [insertByStart]
    split
    · simp
    · simp only [List.mem_cons, ih]
      constructor
      · rintro (h | h | h) <;> simp [h]
      · rintro (h | h | h) <;> simp [h]

theorem sorted_insertByStart (x : Cand) (cs : List Cand) (h : SortedByStart cs) :
    SortedByStart (insertByStart x cs) := by
  induction cs with
  | nil => simp [insertByStart, SortedByStart]
  | cons z zs ih =>
    simp only [insertByStart]
    unfold SortedByStart at h ih ⊢
    rw [List.pairwise_cons] at h
    split
    · rename_i hlt
      rw [List.pairwise_cons]
      refine ⟨?_, List.pairwise_cons.mpr h⟩
      intro a ha
      rcases List.mem_cons.mp ha with rfl | ha
      · omega
      · have := h.1 a ha; omega
    · rename_i hge
      rw [List.pairwise_cons]
      refine ⟨?_, ih h.2⟩
      intro a ha
      rcases (mem_insertByStart x a zs).mp ha with rfl | ha
      · omega
      · exact h.1 a ha

theorem sorted_sortByStart (cs : List Cand) : SortedByStart (sortByStart cs) := by
  induction cs with
  | nil => simp [sortByStart, SortedByStart]
  | cons c cs ih => exact sorted_insertByStart c _ ih

theorem mem_sortByStart (y : Cand) (cs : List Cand) : y ∈ sortByStart cs ↔ y ∈ cs := by
  induction cs with
  | nil => simp [sortByStart]
  | cons c cs ih =>
    show y ∈ insertByStart c (sortByStart cs) ↔ _
    rw [mem_insertByStart, ih, List.mem_cons]

/-- Stability of one insertion: among candidates with `start = k`, `x` comes first. -/
theorem filter_insertByStart (k : Nat) (x : Cand) (cs : List Cand) :
    (insertByStart x cs).filter (fun c => c.start = k) =
      (if x.start = k then [x] else []) ++ cs.filter (fun c => c.start = k) := by
  induction cs with
  | nil => by_cases hx : x.start = k <;> simp [insertByStart, List.filter, hx]
  | cons z zs ih =>
    simp only [insertByStart]
    split
    · by_cases hx : x.start = k <;> simp [List.filter_cons, hx]
    · rename_i hge
      rw [List.filter_cons, ih, List.filter_cons]
      by_cases hz : z.start = k
      · have hx : ¬ x.start = k := by omega
        simp [hz, hx]
      · simp [hz]

/-- Stability: candidates with the same `start` keep their input order. -/
theorem filter_sortByStart (k : Nat) (cs : List Cand) :
    (sortByStart cs).filter (fun c => c.start = k) = cs.filter (fun c => c.start = k) := by
  induction cs with
  | nil => rfl
  | cons c cs ih =>
    show (insertByStart c (sortByStart cs)).filter _ = _
    rw [filter_insertByStart, ih, List.filter_cons]
    by_cases hc : c.start = k <;> simp [hc]

/-! ### Invariant of the whole loop -/

theorem fold_ok (n : Nat) (cs : List Cand) (hs : SortedByStart cs)
    (hwf : ∀ c ∈ cs, CandWF c ∧ c.stop ≤ n) (kids : List PTok)
    (hk : KidsOK kids 0 n) (hsp : ∀ c ∈ cs, SpineLEs kids c.start) :
    KidsOK ((cs.map (fun c => PTok.mk c [])).foldl evalNewChild kids) 0 n := by
  induction cs generalizing kids with
  | nil => exact hk
  | cons c cs ih =>
    simp only [List.map_cons, List.foldl_cons]
    unfold SortedByStart at hs
    rw [List.pairwise_cons] at hs
    have hc := hwf c (List.mem_cons_self ..)
    have hchild : (PTok.mk c []).WF := by simp [PTok.WF, KidsOK, hc.1]
    have := insert_ok.2 kids (PTok.mk c []) 0 n hk hchild (hsp c (List.mem_cons_self ..))
      (Nat.zero_le _) hc.2
    apply ih hs.2 (fun c' h' => hwf c' (List.mem_cons_of_mem _ h')) _ this.1
    intro c' h'
    apply this.2
    · exact hs.1 c' h'
    · simp only [SpineLE, SpineLEs]; exact ⟨hs.1 c' h', trivial⟩

/-- The resolved forest (reversed) satisfies the ordering/containment invariant. -/
theorem resolve_ok (n : Nat) (cs : List Cand) (hwf : ∀ c ∈ cs, CandWF c ∧ c.stop ≤ n) :
    KidsOK (resolve cs).reverse 0 n := by
  unfold resolve
  rw [resolveSorted_reverse]
  apply fold_ok n _ (sorted_sortByStart cs)
  · intro c hc; exact hwf c ((mem_sortByStart c cs).mp hc)
  · simp [KidsOK]
  · intro c _; simp [SpineLEs]


/-! ### Output tokens tile their interval -/

mutual
/-- Well-formed output token: a non-empty gap, or a token whose children tile its parse group. -/
def OutOK : Out → Prop
  | .raw a b => a < b
  | .tok c kids => CandWF c ∧ ((c.inner = true → TilesL kids c.pstart c.pend) ∧ (c.inner = false → kids = []))
/-- `TilesL os a b`: the tokens `os`, in order, cover `[a, b)` exactly: the first starts at `a`,
    each starts where the previous one stopped, the last stops at `b`. -/
def TilesL : List Out → Nat → Nat → Prop
  | [], a, b => a = b
  | o :: os, a, b => o.lo = a ∧ OutOK o ∧ TilesL os o.hi b
end

theorem TilesL_append : ∀ (xs ys : List Out) (a b c : Nat),
    TilesL xs a b → TilesL ys b c → TilesL (xs ++ ys) a c
  | [], ys, a, b, c, h1, h2 => by simp only [TilesL] at h1; subst h1; simpa using h2
  | x :: xs, ys, a, b, c, h1, h2 => by
    simp only [TilesL, List.cons_append] at h1 ⊢
    exact ⟨h1.1, h1.2.1, TilesL_append xs ys _ b c h1.2.2 h2⟩

theorem OutOK_le : ∀ (o : Out), OutOK o → o.lo ≤ o.hi
  | .raw a b, h => by simp only [OutOK] at h; simp only [Out.lo, Out.hi]; omega
  | .tok c k, h => by
    simp only [OutOK, CandWF] at h; simp only [Out.lo, Out.hi]; omega

theorem TilesL_le : ∀ (os : List Out) (a b : Nat), TilesL os a b → a ≤ b
  | [], a, b, h => by simp only [TilesL] at h; omega
  | o :: os, a, b, h => by
    simp only [TilesL] at h
    have := OutOK_le o h.2.1
    have := TilesL_le os _ _ h.2.2
    omega

theorem make_lo (t : PTok) : (make t).lo = t.c.start := by
  cases t with | mk c k => simp only [make]; split <;> rfl
theorem make_hi (t : PTok) : (make t).hi = t.c.stop := by
  cases t with | mk c k => simp only [make]; split <;> rfl

mutual
theorem make_ok : ∀ (t : PTok), t.WF → OutOK (make t)
  | .mk c kids, h => by
    simp only [PTok.WF] at h
    simp only [make]
    split
    · rename_i hin
      simp only [OutOK]
      refine ⟨h.1, fun _ => makeTokensRev_tiles kids _ _ h.2 h.1.2.1, fun hf => by simp [hin] at hf⟩
    · rename_i hin
      simp only [OutOK]
      exact ⟨h.1, fun ht => absurd ht hin, by simp⟩
theorem makeTokensRev_tiles : ∀ (kids : List PTok) (s e : Nat), KidsOK kids s e → s ≤ e →
    TilesL (makeTokensRev kids s e) s e
  | [], s, e, _, hle => by
    simp only [makeTokensRev]
    split
    · rename_i hh; simp only [TilesL, Out.lo, Out.hi, OutOK]; exact ⟨trivial, by omega, trivial⟩
    · rename_i hh; simp only [TilesL]; omega
  | t :: earlier, s, e, hk, hle => by
    simp only [KidsOK] at hk
    simp only [makeTokensRev]
    have h1 := makeBefore_tiles earlier s t.c.start hk.2.2.2 hk.2.1
    have h2 : TilesL [make t] t.c.start t.c.stop := by
      simp only [TilesL, make_lo, make_hi]; exact ⟨trivial, make_ok t hk.1, trivial⟩
    have h3 : TilesL (if t.c.stop ≠ e then [Out.raw t.c.stop e] else []) t.c.stop e := by
      split
      · rename_i hh; simp only [TilesL, Out.lo, Out.hi, OutOK]; exact ⟨trivial, by omega, trivial⟩
      · rename_i hh; simp only [TilesL]; omega
    exact TilesL_append _ _ _ _ _ (TilesL_append _ _ _ _ _ h1 h2) h3
theorem makeBefore_tiles : ∀ (kids : List PTok) (s upto : Nat), KidsOK kids s upto → s ≤ upto →
    TilesL (makeBefore kids s upto) s upto
  | [], s, e, _, hle => by
    simp only [makeBefore]
    split
    · rename_i hh; simp only [TilesL, Out.lo, Out.hi, OutOK]; exact ⟨trivial, by omega, trivial⟩
    · rename_i hh; simp only [TilesL]; omega
  | t :: earlier, s, e, hk, hle => by
    simp only [KidsOK] at hk
    simp only [makeBefore]
    have h1 := makeBefore_tiles earlier s t.c.start hk.2.2.2 hk.2.1
    have h2 : TilesL [make t] t.c.start t.c.stop := by
      simp only [TilesL, make_lo, make_hi]; exact ⟨trivial, make_ok t hk.1, trivial⟩
    have h3 : TilesL (if e > t.c.stop then [Out.raw t.c.stop e] else []) t.c.stop e := by
      split
      · rename_i hh; simp only [TilesL, Out.lo, Out.hi, OutOK]; exact ⟨trivial, by omega, trivial⟩
      · rename_i hh; simp only [TilesL]; omega
    exact TilesL_append _ _ _ _ _ (TilesL_append _ _ _ _ _ h1 h2) h3
end

/-! ### Tiling recovers the source text -/

theorem slice_append {α} (s : List α) (a b c : Nat) (h1 : a ≤ b) (h2 : b ≤ c) :
    slice s a b ++ slice s b c = slice s a c := by
  unfold slice
  have e1 : c - a = (b - a) + (c - b) := by omega
  have e2 : List.drop b s = List.drop (b - a) (List.drop a s) := by
    rw [List.drop_drop]; congr 1; omega
  rw [e1, List.take_add, e2]

theorem slice_self {α} (s : List α) (a : Nat) : slice s a a = [] := by
  unfold slice; simp

theorem slice_full {α} (s : List α) : slice s 0 s.length = s := by
  unfold slice; simp

mutual
theorem flattenOut_eq (s : Str) : ∀ (o : Out), OutOK o → flattenOut s o = slice s o.lo o.hi
  | .raw a b, _ => by simp only [flattenOut, Out.lo, Out.hi]
  | .tok c kids, h => by
    simp only [OutOK, CandWF] at h
    simp only [flattenOut, Out.lo, Out.hi]
    split
    · rename_i hin
      rw [flattenOuts_eq s kids _ _ (h.2.1 hin)]
      rw [slice_append s _ _ _ h.1.1 h.1.2.1, slice_append s _ _ _ (by omega) h.1.2.2]
    · rfl
theorem flattenOuts_eq (s : Str) : ∀ (os : List Out) (a b : Nat), TilesL os a b →
    flattenOuts s os = slice s a b
  | [], a, b, h => by
    simp only [TilesL] at h; subst h; simp only [flattenOuts, slice_self]
  | o :: os, a, b, h => by
    simp only [TilesL] at h
    simp only [flattenOuts]
    rw [flattenOut_eq s o h.2.1, flattenOuts_eq s os _ _ h.2.2, h.1]
    exact slice_append s _ _ _ (h.1 ▸ OutOK_le o h.2.1) (TilesL_le _ _ _ h.2.2)
end

end Mistletoe.Span
