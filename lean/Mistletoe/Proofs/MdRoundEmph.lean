/-
  C09 (Markdown round trip) with INLINE MARKUP: emphasis, strong emphasis and backslash escapes.

  The theorems of Props/C09*.lean cover block constructs whose text is inline-inert (one `RawText` per line).  This file
  adds the first inline constructs: for a one-line text `s` of the C06 alphabet with backslashes (`plainEsc`: no backquote,
  brackets, `<`, `&`; `stdWs`; no `~~`) the Markdown renderer writes the inline tokens back as the text itself:

    A. fragments: `texts fs`, the concatenation of the fragment texts; plain mode of `fragments_to_lines` on fragments
       without newline is that concatenation (`plainAux_flat`);
    B. `make_tokens` + the token constructors (`Inline.build`) + `MarkdownRenderer.make_fragments`
       (`Markdown.renderInlines`) on a resolved forest all of whose nodes are `Emphasis` / `Strong` tokens that carry the
       delimiter character found in the source, or `EscapeSequence`s, give back the source text, piece by piece
       (`md_make` / `md_rev` / `md_before`, by induction over the forest: arbitrary nesting; the gaps are `RawText`, whose
       content is the source piece because there is no `&` for `html.unescape` to act on);
    C. the candidates of a text of the alphabet are such nodes (from `C06_emphasis_wellformed`,
       `C06_emphasis_delimiters`: the delimiters of a match are one or two copies of `m.delimiter`, in the source);
    D. `md_inline_exact_esc`, `md_inline_exact`: `tokenize_inner(s)` succeeds and `span_to_lines(tokens, None)` is `[s]`;
    E. `C09_emphasis_paragraph_roundtrip_partial`: `Document(s + "\n")` under the Markdown renderer's token lists is one
       paragraph and `MarkdownRenderer(max_line_length=None, normalize_whitespace=…).render` of it is `s + "\n"`
       (`strip s = s`; in general `strip s + "\n"`, `C09_emphasis_paragraph_render`), hence idempotence and same meaning;
    F. `C09_emphasis_blocks_exact_partial`, `C09_emphasis_blocks_roundtrip_partial`: documents whose blocks are such
       paragraphs (`Blk3.emph`) or blocks of the fragment of Props/C09_Code.lean (`Blk2`: inert prose paragraphs, ATX
       headings, thematic breaks, fenced and indented code blocks), separated by single empty lines, inside `k ≥ 0` nested
       block quotes (the chain of Proofs/MdRoundCode.lean one level up; its lemmas are reused case by case).

  No counterexample: on the alphabet the model reproduces every text exactly (the `Emphasis` / `Strong` tokens keep their
  `delimiter`, so `__a__` stays `__a__`; `EscapeSequence` is written back with its backslash), and so does the real code
  (see the examples at the end).
-/
import Mistletoe.Proofs.EmphHtml
import Mistletoe.Proofs.MdRoundCode
namespace Mistletoe.MdRoundEmph
open Mistletoe Mistletoe.Span Mistletoe.Inline Mistletoe.Wrap Mistletoe.Markdown Mistletoe.EmphHtml

/-! ## A. Fragments -/

/-- the concatenation of the fragment texts -/
def texts (fs : List Fragment) : Str := (fs.map (·.text)).flatten

theorem texts_nil : texts [] = [] := rfl
theorem texts_cons (f : Fragment) (fs : List Fragment) : texts (f :: fs) = f.text ++ texts fs := by simp [texts]
theorem texts_append (a b : List Fragment) : texts (a ++ b) = texts a ++ texts b := by simp [texts]

theorem mem_texts {fs : List Fragment} {f : Fragment} (hf : f ∈ fs) : ∀ c ∈ f.text, c ∈ texts fs := by
  intro c hc
  unfold texts
  rw [List.mem_flatten]
  exact ⟨f.text, List.mem_map.2 ⟨f, hf, rfl⟩, hc⟩

/-- **plain mode of `fragments_to_lines`** (no line limit) on fragments without newline: one line, the fragment texts
    glued to the pending line; nothing if that is empty -/
theorem plainAux_flat : ∀ (fs : List Fragment) (cur : Str), (∀ f ∈ fs, '\n' ∉ f.text) →
    plainAux fs cur = if (cur ++ texts fs).isEmpty then [] else [cur ++ texts fs]
  | [], cur, _ => by simp [plainAux, texts]
  | f :: fs, cur, h => by
    have hf := h f (by simp)
    simp only [plainAux, MdRound.contains_nl_false f.text hf, Bool.false_eq_true, if_false]
    rw [plainAux_flat fs (cur ++ f.text) (fun g hg => h g (List.mem_cons_of_mem _ hg)), texts_cons]
    simp only [List.append_assoc]

theorem renderInlines_append_ok : ∀ (a b : List Mistletoe.Inline) (fa fb : List Fragment),
    renderInlines a = .ok fa → renderInlines b = .ok fb → renderInlines (a ++ b) = .ok (fa ++ fb)
  | [], b, fa, fb, ha, hb => by
    simp only [renderInlines, Res.ok.injEq] at ha
    subst ha
    simpa using hb
  | i :: a, b, fa, fb, ha, hb => by
    simp only [renderInlines] at ha
    cases hi : renderInline i with
    | err e => rw [hi] at ha; cases ha
    | ok f =>
      rw [hi] at ha
      cases hr : renderInlines a with
      | err e => rw [hr] at ha; cases ha
      | ok fs =>
        rw [hr] at ha
        simp only [Res.ok.injEq] at ha
        subst ha
        simp only [List.cons_append, renderInlines, hi, renderInlines_append_ok a b fs fb hr hb, List.append_assoc]

/-! ## B. From the resolved forest back to the source text -/

section
variable (s : Str) (found : List Found)

/-- the Markdown renderer's fragments for the tokens built from `os` spell the source text `s[a:b]` -/
def Rd (os : List Out) (a b : Nat) : Prop :=
  ∃ fs, renderInlines (builds s found os) = .ok fs ∧ texts fs = slice s a b

theorem Rd_nil (a : Nat) : Rd s found [] a a := ⟨[], rfl, by rw [slice_self]; rfl⟩

theorem Rd_append {xs ys : List Out} {a b c : Nat} (h1 : Rd s found xs a b) (h2 : Rd s found ys b c) (hab : a ≤ b) (hbc : b ≤ c) :
    Rd s found (xs ++ ys) a c := by
  obtain ⟨fa, ha, ta⟩ := h1
  obtain ⟨fb, hb, tb⟩ := h2
  refine ⟨fa ++ fb, ?_, ?_⟩
  · rw [InertInline.builds_append]
    exact renderInlines_append_ok _ _ _ _ ha hb
  · rw [texts_append, ta, tb, slice_append s a b c hab hbc]

/-- a gap is a `RawText` holding the source piece: written back as it is -/
theorem Rd_raw (hamp : ∀ c ∈ s, c ≠ '&') (a b : Nat) (hab : a ≤ b) :
    Rd s found (if a ≠ b then [.raw a b] else []) a b := by
  by_cases he : a = b
  · subst he; simp only [ne_eq, not_true_eq_false, if_false]; exact Rd_nil s found a
  · rw [if_pos he]
    have hamp' : InertInline.ampOk (slice s a b) = true := by
      apply InertInline.ampOk_plain
      intro c hc
      exact hamp c (List.mem_of_mem_drop (List.mem_of_mem_take hc))
    refine ⟨[fragW (slice s a b)], ?_, ?_⟩
    · simp only [builds, build, InertInline.unescape_inert _ hamp', renderInlines, renderInline, List.append_nil]
    · simp [texts, fragW]

/-- what the renderer needs to know about the token built from the candidate `c`: it is an `Emphasis` / `Strong` whose
    `delimiter` is the character the source has at both delimiter positions (once / twice), or the `EscapeSequence` of
    a backslash of the source with the character after it -/
def NodeMd (c : Cand) : Prop :=
  (c.inner = true ∧ ∃ (strong : Bool) (d : Char),
    slice s c.start c.pstart = (if strong then [d, d] else [d]) ∧
    slice s c.pend c.stop = (if strong then [d, d] else [d]) ∧
    ∀ kids, build s found (.tok c kids) =
      if strong then Mistletoe.Inline.strong [d] (builds s found kids) else Mistletoe.Inline.emphasis [d] (builds s found kids)) ∨
  (c.inner = false ∧ c.stop = c.start + 2 ∧ s[c.start]? = some '\\' ∧ c.start + 2 ≤ s.length ∧
    ∀ kids, build s found (.tok c kids) = Mistletoe.Inline.escapeSequence (slice s (c.start + 1) (c.start + 2)))

variable {s found}

mutual
theorem md_make (hamp : ∀ c ∈ s, c ≠ '&') : ∀ (t : PTok), t.WF → (∀ c ∈ nodes t, NodeMd s found c) →
    Rd s found [make t] t.c.start t.c.stop
  | .mk c kids, hwf, hN => by
    simp only [PTok.WF, CandWF] at hwf
    simp only [PTok.c]
    rcases hN c (by simp [nodes]) with ⟨hin, strong, d, ho, hcl, hb⟩ | ⟨hin, e3, hbs, hlen, hb⟩
    · -- an emphasis: delimiter, children, delimiter
      obtain ⟨fs, hfs, tfs⟩ := md_rev hamp kids c.pstart c.pend hwf.2 (by omega)
        (fun c' hc' => hN c' (by simp [nodes, hc']))
      simp only [make, hin, if_true]
      have hsl : slice s c.start c.pstart ++ slice s c.pstart c.pend ++ slice s c.pend c.stop = slice s c.start c.stop := by
        rw [slice_append s _ _ _ (by omega) (by omega), slice_append s _ _ _ (by omega) (by omega)]
      cases strong
      · refine ⟨embed (frag [d]) fs (frag [d]) ++ [], ?_, ?_⟩
        · simp only [builds, hb, Bool.false_eq_true, if_false, renderInlines, renderInline, hfs]
        · rw [← hsl, ho, hcl, ← tfs]
          simp [texts, embed, frag]
      · refine ⟨embed (frag ([d] ++ [d])) fs (frag ([d] ++ [d])) ++ [], ?_, ?_⟩
        · simp only [builds, hb, if_true, renderInlines, renderInline, hfs]
        · rw [← hsl, ho, hcl, ← tfs]
          simp [texts, embed, frag]
    · -- an escape sequence: the backslash and the character
      have hmk : make (.mk c kids) = .tok c [] := by simp [make, hin]
      rw [hmk]
      refine ⟨[frag ('\\' :: slice s (c.start + 1) (c.start + 2))], ?_, ?_⟩
      · simp only [builds, hb, renderInlines, renderInline, List.append_nil]
      · rw [e3, slice_step s c.start (c.start + 2) '\\' (by omega) hbs]
        simp [texts, frag]
theorem md_rev (hamp : ∀ c ∈ s, c ≠ '&') : ∀ (ts : List PTok) (a e : Nat), KidsOK ts a e → a ≤ e →
    (∀ c ∈ nodesL ts, NodeMd s found c) → Rd s found (makeTokensRev ts a e) a e
  | [], a, e, _, hae, _ => by
    simp only [makeTokensRev]
    exact Rd_raw s found hamp a e hae
  | t :: earlier, a, e, hk, hae, hN => by
    simp only [KidsOK] at hk
    have wt := wf_cand t hk.1
    unfold CandWF at wt
    simp only [makeTokensRev]
    have i1 := md_before hamp earlier a t.c.start hk.2.2.2 hk.2.1 (fun c' hc' => hN c' (by simp [nodesL, hc']))
    have i2 := md_make hamp t hk.1 (fun c' hc' => hN c' (by simp [nodesL, hc']))
    have i3 := Rd_raw s found hamp t.c.stop e hk.2.2.1
    exact Rd_append s found (Rd_append s found i1 i2 hk.2.1 (by omega)) i3 (by omega) hk.2.2.1
theorem md_before (hamp : ∀ c ∈ s, c ≠ '&') : ∀ (ts : List PTok) (a e : Nat), KidsOK ts a e → a ≤ e →
    (∀ c ∈ nodesL ts, NodeMd s found c) → Rd s found (makeBefore ts a e) a e
  | [], a, e, _, hae, _ => by
    simp only [makeBefore]
    have := Rd_raw s found hamp a e hae
    by_cases h : e > a
    · rw [if_pos h]; rw [if_pos (by omega)] at this; exact this
    · rw [if_neg h]; rw [if_neg (by omega)] at this; exact this
  | t :: earlier, a, e, hk, hae, hN => by
    simp only [KidsOK] at hk
    have wt := wf_cand t hk.1
    unfold CandWF at wt
    simp only [makeBefore]
    have i1 := md_before hamp earlier a t.c.start hk.2.2.2 hk.2.1 (fun c' hc' => hN c' (by simp [nodesL, hc']))
    have i2 := md_make hamp t hk.1 (fun c' hc' => hN c' (by simp [nodesL, hc']))
    have i3 := Rd_raw s found hamp t.c.stop e hk.2.2.1
    have e3 : (if e > t.c.stop then [Out.raw t.c.stop e] else []) = (if t.c.stop ≠ e then [Out.raw t.c.stop e] else []) := by
      by_cases h : e > t.c.stop
      · rw [if_pos h, if_pos (by omega)]
      · rw [if_neg h, if_neg (by omega)]
    rw [e3]
    exact Rd_append s found (Rd_append s found i1 i2 hk.2.1 (by omega)) i3 (by omega) hk.2.2.1
end

end

/-! ## C. The candidates of a text of the alphabet -/

open Mistletoe.Core Mistletoe.InertInline Mistletoe.RefResolve Mistletoe.InlineScan

/-- a stretch of the text that holds the same character everywhere -/
theorem slice_const (s : Str) (d : Char) : ∀ (n a : Nat), (∀ k, a ≤ k → k < a + n → s[k]? = some d) →
    slice s a (a + n) = List.replicate n d
  | 0, a, _ => by simp [slice_self]
  | n + 1, a, h => by
    rw [slice_step s a (a + (n + 1)) d (by omega) (h a (by omega) (by omega))]
    have := slice_const s d n (a + 1) (fun k h1 h2 => h k (by omega) (by omega))
    have e : a + 1 + n = a + (n + 1) := by omega
    rw [e] at this
    rw [this]
    rfl

section
variable (s : Str) (ms : List CoreM) (es : List Nat)
  (hK : ∀ m ∈ ms, m.kind = .strong ∨ m.kind = .emphasis)
  (hD : ∀ m ∈ ms, slice s m.start m.ts = (if (m.kind == .strong) = true then [m.delimiter, m.delimiter] else [m.delimiter]) ∧
    slice s m.te m.stop = (if (m.kind == .strong) = true then [m.delimiter, m.delimiter] else [m.delimiter]))
  (hB : ∀ i ∈ es, s[i]? = some '\\' ∧ i + 2 ≤ s.length)

include hK hD hB in
theorem candsF_nodeMd (types : List STok) (found : List Found)
    (hf : ∀ f, f ∈ found ↔ (∃ m ∈ ms, f = foundOf m) ∨ (∃ i ∈ es, f = escFound i)) :
    ∀ c ∈ candsF types found, NodeMd s found c := by
  intro c hc
  obtain ⟨k, hk, rfl⟩ := List.mem_iff_getElem.1 hc
  rw [candsF_get]
  have hk' : k < found.length := by rw [candsF_length] at hk; exact hk
  have hfk : found[(candF types found[k] k).ord]? = some found[k] := by simp [candF, hk']
  rcases (hf found[k]).1 (List.getElem_mem hk') with ⟨m, hm, e⟩ | ⟨i, hi, e⟩
  · left
    refine ⟨by rw [e]; rfl, m.kind == .strong, m.delimiter, ?_, ?_, ?_⟩
    · rw [e]; exact (hD m hm).1
    · rw [e]; exact (hD m hm).2
    · intro kids
      simp only [build, hfk]
      rw [e]
      simp only [foundOf]
      rcases hK m hm with h | h <;> simp [h]
  · right
    have := hB i hi
    refine ⟨by rw [e]; rfl, by rw [e]; rfl, by rw [e]; exact this.1, by rw [e]; exact this.2, ?_⟩
    intro kids
    simp only [build, hfk]
    rw [e]
    rfl

end

/-! ## D. The inline theorem -/

open Mistletoe.Py Mistletoe.Spec.EmphasisEsc

/-- **Exact reproduction at inline level, with backslash escapes.**  `s` is a one-line text of the alphabet of
    `C06_emphasis_is_spec_esc_partial` (`plainEsc`: no backquote, brackets, `<`, `&`; `stdWs`) without `~~`; `types` is a
    list of covered span token classes holding `CoreTokens` and `EscapeSequence` once each (the Markdown renderer's list:
    `md_config_covered`); `fn` is any table of link reference definitions.  Then `tokenize_inner(s)` succeeds, the
    fragments `MarkdownRenderer.make_fragments` makes of the tokens spell `s`, and `span_to_lines(tokens, None)` - what
    `render_paragraph` returns without line limit - is the single line `s`. -/
theorem md_inline_exact_esc (types : List STok) (fn : Footnotes.Table) (s : Str)
    (hp : plainEsc s = true) (hw : EmphRefine.stdWs s = true) (hnl : '\n' ∉ s) (htl : tildeOk s = true)
    (ht : ∀ t ∈ types, inertClass t = true) (hc : types.count .coreTokens = 1)
    (he : types.count .escapeSequence = 1) :
    ∃ ks, tokenizeInner types fn s = .ok ks ∧
      (∃ fs, renderInlines ks = .ok fs ∧ texts fs = s) ∧
      spanToLines ks none = .ok (if s.isEmpty then [] else [s]) := by
  obtain ⟨ms, h1, h2, h3, h4⟩ := Props.C06.C06_emphasis_is_spec_esc_partial s fn hp ((EmphRefine.stdWs_iff s).1 hw)
  have hpf := plainEsc_facts s hp
  have hs : ScanEsc s := ⟨fun hm => (hpf _ hm).1 rfl, htl, hnl⟩
  obtain ⟨found, hfa, hfound⟩ := findAll_esc s types fn hs ht hc he ms h1
  have hW : ∀ m ∈ ms, m.start < m.ts ∧ m.ts < m.te ∧ m.te < m.stop ∧ m.stop ≤ s.length := by
    intro m hm
    have := Props.C06.C06_emphasis_wellformed s fn ms [] h1 m hm (h3 m hm)
    exact ⟨this.1, this.2.1, this.2.2.1, this.2.2.2.1⟩
  have hN : ms.Pairwise (fun a b => a.stop ≤ b.start ∨ b.stop ≤ a.start ∨ (b.ts ≤ a.start ∧ a.stop ≤ b.te)) :=
    (Props.C06.C06_emphasis_nested s fn ms [] h1).imp_of_mem (fun ha hb hab => hab (h3 _ ha) (h3 _ hb))
  have hmarks := escPos_marks 0 s
  have hEs : ∀ i ∈ escPos 0 s, i + 2 ≤ s.length ∧ escapedAt s (i + 1) = true ∧ escapedAt s (i + 1 + 1) = false := by
    intro i hi
    have h5 := escPos_spec 0 s i hi
    refine ⟨by omega, ?_, ?_⟩
    · exact (hmarks i).2 (by simpa using hi)
    · cases h6 : escapedAt s (i + 1 + 1) with
      | false => rfl
      | true =>
        have := (hmarks (i + 1)).1 h6
        simp only [Nat.zero_add] at this
        rcases pairwise_mem _ (escPos_gap 0 s) i hi (i + 1) this with h | h | h <;> omega
  have hX : ∀ m ∈ ms, ∀ i ∈ escPos 0 s, ∀ k, k = i ∨ k = i + 1 →
      ¬ ((m.start ≤ k ∧ k < m.ts) ∨ (m.te ≤ k ∧ k < m.stop)) := by
    intro m hm i hi k hk hd
    rcases hk with rfl | rfl
    · have h5 := (escPos_spec 0 s k hi).1
      simp only [Nat.sub_zero] at h5
      obtain ⟨hst, ho, hcl⟩ := Props.C06.C06_emphasis_delimiters s fn ms [] h1 m hm (h3 m hm)
      have : s[k]? = some m.delimiter := by
        rcases hd with hd | hd
        · exact ho k hd.1 hd.2
        · exact hcl k hd.1 hd.2
      rw [h5] at this
      rcases hst with e | e <;> rw [e] at this <;> cases this
    · rw [h2] at hm
      obtain ⟨x, hx, rfl⟩ := List.mem_map.1 hm
      have := emphasisEsc_unescaped s x hx (i + 1) (by simpa [EmphRefine.toCoreM] using hd)
      rw [(hEs i hi).2.1] at this
      cases this
  -- the delimiters of a match, in the source, are copies of `m.delimiter`
  have hD : ∀ m ∈ ms, slice s m.start m.ts = (if (m.kind == .strong) = true then [m.delimiter, m.delimiter] else [m.delimiter]) ∧
      slice s m.te m.stop = (if (m.kind == .strong) = true then [m.delimiter, m.delimiter] else [m.delimiter]) := by
    intro m hm
    obtain ⟨w1, w2, w3, w4, w5, w6, _⟩ := Props.C06.C06_emphasis_wellformed s fn ms [] h1 m hm (h3 m hm)
    obtain ⟨_, ho, hcl⟩ := Props.C06.C06_emphasis_delimiters s fn ms [] h1 m hm (h3 m hm)
    have o1 := slice_const s m.delimiter (m.ts - m.start) m.start (fun k k1 k2 => ho k k1 (by omega))
    have c1 := slice_const s m.delimiter (m.stop - m.te) m.te (fun k k1 k2 => hcl k k1 (by omega))
    rw [show m.start + (m.ts - m.start) = m.ts by omega] at o1
    rw [show m.te + (m.stop - m.te) = m.stop by omega] at c1
    rw [o1, c1, ← w5]
    rcases w6 with ⟨k, n⟩ | ⟨k, n⟩
    · rw [n]; simp [k, List.replicate]
    · rw [n]; simp [k, List.replicate]
  have hB : ∀ i ∈ escPos 0 s, s[i]? = some '\\' ∧ i + 2 ≤ s.length := by
    intro i hi
    have h5 := escPos_spec 0 s i hi
    simp only [Nat.sub_zero] at h5
    exact h5
  have hfc := found_cases ms (escPos 0 s) found hfound
  have hwf := candsF_wf s ms (escPos 0 s) (fun i => escapedAt s (i + 1)) hW hEs types found hfc
  have hok := resolve_ok s.length (candsF types found) hwf
  have hnodes := resolve_nodes (candsF types found) (cands_lamF s ms (escPos 0 s) hW hN (escPos_gap 0 s) hX types found hfound)
    (fun c hc => (hwf c hc).1)
  obtain ⟨fs, hfs, tfs⟩ := md_rev (s := s) (found := found) (fun c hc => (hpf c hc).2)
    (resolve (candsF types found)).reverse 0 s.length hok (Nat.zero_le _)
    (fun c hc => candsF_nodeMd s ms (escPos 0 s) h3 hD hB types found hfc c ((hnodes c).1 hc))
  rw [slice_full] at tfs
  have hti := tokenizeInner_found s types fn found hfa
  refine ⟨_, hti, ⟨fs, hfs, tfs⟩, ?_⟩
  unfold spanToLines
  have hfs' : renderInlines (builds s found (Span.tokenize (candsF types found) s.length)) = .ok fs := hfs
  rw [hfs']
  simp only [fragmentsToLines]
  rw [plainAux_flat fs [] (fun f hf hm => hnl (tfs ▸ mem_texts hf _ hm)), tfs]
  simp

theorem plainEsc_of_plain (s : Str) (hp : Spec.Emphasis.plain s = true) : plainEsc s = true := by
  simp only [Spec.Emphasis.plain, plainEsc, List.all_eq_true] at hp ⊢
  intro c hc
  have := hp c hc
  simp only [Spec.Emphasis.plainChar, plainEscChar, Bool.and_eq_true] at this ⊢
  exact ⟨⟨⟨⟨this.1.1.1.1.2, this.1.1.1.2⟩, this.1.1.2⟩, this.1.2⟩, this.2⟩

/-- **… for the alphabet without backslash** (`plain`, the alphabet of `emph_html_is_spec`): a special case -/
theorem md_inline_exact (types : List STok) (fn : Footnotes.Table) (s : Str)
    (hp : Spec.Emphasis.plain s = true) (hw : EmphRefine.stdWs s = true) (hnl : '\n' ∉ s) (htl : tildeOk s = true)
    (ht : ∀ t ∈ types, inertClass t = true) (hc : types.count .coreTokens = 1)
    (he : types.count .escapeSequence = 1) :
    ∃ ks, tokenizeInner types fn s = .ok ks ∧
      (∃ fs, renderInlines ks = .ok fs ∧ texts fs = s) ∧
      spanToLines ks none = .ok (if s.isEmpty then [] else [s]) :=
  md_inline_exact_esc types fn s (plainEsc_of_plain s hp) hw hnl htl ht hc he


/-! ## E. Document level -/

open Mistletoe.Props.C14 (inertLine inertLine_quiet markdownTypes C14_config_current C14_config_covered C14_block_phase)

/-- the span-token list the Markdown renderer installs consists of covered classes and holds `CoreTokens` and
    `EscapeSequence` once each (the lists are regenerated from /repo: Gen/RenderMaps.lean) -/
theorem md_config_covered : ∀ cfg, Config.markdown = some cfg →
    (∀ t ∈ cfg.span, inertClass t = true) ∧ cfg.span.count .coreTokens = 1 ∧ cfg.span.count .escapeSequence = 1 := by
  have h : ∀ cfg, Config.markdown = some cfg → (cfg.span.count .escapeSequence == 1) = true := by decide +kernel
  intro cfg hc
  obtain ⟨ht, hcore⟩ := C07_config_covered cfg (Or.inr (Or.inl hc))
  exact ⟨ht, hcore, by simpa using h cfg hc⟩

/-- `Document(s + "\n")` under the Markdown renderer's token lists, for a line that is one paragraph line, and
    `MarkdownRenderer.render` of it without line limit: one `Paragraph` holding the tokens of the inline phase on the
    stripped text; the output is the line `span_to_lines` makes of them -/
theorem paragraph_md (cfg : Document.Cfg) (hcfg : Config.markdown = some cfg) (o : Opts) (ho : o.maxLineLength = none)
    (gas : Nat) (s : Str) (ks : List Mistletoe.Inline) (out : Str)
    (h1 : oneLine (s ++ ['\n']) = true) (hl : inertLine (s ++ ['\n']) = true)
    (hin : tokenizeInner cfg.span (Document.footnotesOf ({} : Block.St).defs) (strip s) = .ok ks)
    (hr : spanToLines ks none = .ok [out]) :
    Document.parse cfg (gas + 15) (s ++ ['\n']) =
        .ok { kids := [.paragraph ks 1], footnotes := Document.footnotesOf ({} : Block.St).defs } ∧
      renderRes o { kids := [.paragraph ks 1], footnotes := Document.footnotesOf ({} : Block.St).defs } =
        .ok (out ++ ['\n']) := by
  have hbt : cfg.block.types = markdownTypes := by
    have := C14_config_current.2
    rw [hcfg] at this
    simpa using this
  have hpar : Block.BTok.paragraph ∈ cfg.block.types := (C14_config_covered cfg (Or.inr (Or.inl hcfg))).1
  have hnb : isBlank (s ++ ['\n']) = false := (inertLine_quiet _ hl).nb
  have hnbs : isBlank s = false := by
    have : pyIsSpace '\n' = true := by decide
    simpa [isBlank, this] using hnb
  refine ⟨?_, ?_⟩
  · have := parse_lines cfg (gas + 15) [s ++ ['\n']] (by simpa using h1)
    simp only [List.flatten_cons, List.flatten_nil, List.append_nil] at this
    rw [this]
    unfold Document.parseLines
    have hg : gas + 15 = gas + (cfg.block.types.length + 4) := by rw [hbt]; rfl
    rw [hg, C14_block_phase cfg.block hpar [s ++ ['\n']] (by simp) (by simpa using hl) gas]
    simp only
    have hin' : Document.inl cfg (Document.footnotesOf ({} : Block.St).defs) (strip ([s ++ ['\n']].map lstrip).flatten) = .ok ks := by
      unfold Document.inl
      rw [paragraph_content_one, strip_snoc_nl s hnbs]
      exact hin
    simp only [Document.mkBlocks, Document.mkBlock, hin']
  · simp only [renderRes, ho, renderBlocks, renderBlock, hr, List.append_nil, joinLines]


/-- the inline phase and the renderer on the stripped text of a paragraph line of the alphabet -/
theorem emph_line (cfg : Document.Cfg) (hcfg : Config.markdown = some cfg) (fn : Footnotes.Table) (s : Str)
    (hp : plainEsc s = true) (hw : EmphRefine.stdWs s = true) (htl : tildeOk s = true)
    (h1 : oneLine (s ++ ['\n']) = true) (hl : inertLine (s ++ ['\n']) = true) :
    ∃ ks, tokenizeInner cfg.span fn (strip s) = .ok ks ∧ spanToLines ks none = .ok [strip s] := by
  obtain ⟨ht, hc, he⟩ := md_config_covered cfg hcfg
  obtain ⟨hp', htl', hnl'⟩ := strip_hyps s _ hp htl h1
  obtain ⟨hw', _, _⟩ := strip_hyps s _ hw htl h1
  obtain ⟨ks, hk1, _, hk3⟩ := md_inline_exact_esc cfg.span fn (strip s) hp' hw' hnl' htl' ht hc he
  have hnbs : isBlank s = false := by
    have hnb : isBlank (s ++ ['\n']) = false := (inertLine_quiet _ hl).nb
    have : pyIsSpace '\n' = true := by decide
    simpa [isBlank, this] using hnb
  have hne : (strip s).isEmpty = false := by
    have := strip_ne_nil s hnbs
    cases h : strip s with
    | nil => exact absurd h this
    | cons _ _ => rfl
  rw [hne] at hk3
  exact ⟨ks, hk1, hk3⟩

/-- **One paragraph line with emphasis, strong emphasis and backslash escapes, any indentation.**  `Document(s + "\n")`
    under the Markdown renderer's token lists is one `Paragraph` holding the inline tokens of the stripped text, and
    `MarkdownRenderer(max_line_length=None, normalize_whitespace=…).render` of it is the stripped text and a newline. -/
theorem C09_emphasis_paragraph_render (cfg : Document.Cfg) (hcfg : Config.markdown = some cfg)
    (o : Opts) (ho : o.maxLineLength = none) (gas : Nat) (s : Str)
    (hp : plainEsc s = true) (hw : EmphRefine.stdWs s = true) (htl : tildeOk s = true)
    (h1 : oneLine (s ++ ['\n']) = true) (hl : inertLine (s ++ ['\n']) = true) :
    ∃ ks d, tokenizeInner cfg.span (Document.footnotesOf ({} : Block.St).defs) (strip s) = .ok ks ∧
      d = { kids := [.paragraph ks 1], footnotes := Document.footnotesOf ({} : Block.St).defs } ∧
      Document.parse cfg (gas + 15) (s ++ ['\n']) = .ok d ∧
      renderRes o d = .ok (strip s ++ ['\n']) := by
  obtain ⟨ks, hk1, hk2⟩ := emph_line cfg hcfg (Document.footnotesOf ({} : Block.St).defs) s hp hw htl h1 hl
  obtain ⟨h2, h3⟩ := paragraph_md cfg hcfg o ho gas s ks (strip s) h1 hl hk1 hk2
  exact ⟨ks, _, hk1, rfl, h2, h3⟩

/-- **C09 for a paragraph line with inline markup** (`_partial`: the alphabet and the normal form are hypotheses).
    `s` is a text of the alphabet of `C06_emphasis_is_spec_esc_partial` (`plainEsc`: anything but backquote, brackets,
    `<`, `&`; backslashes, `*`, `_` allowed; `stdWs`) without `~~`; the line `s ++ "\n"` holds no other line separator
    (`oneLine`), no block pattern fires on it (`inertLine` of C14) and `s` has no whitespace at either end (the
    renderer's normal form; otherwise the output is the stripped line: `C09_emphasis_paragraph_render`).  Then, under the
    token lists of the working tree's `MarkdownRenderer` and for `max_line_length=None` and either value of
    `normalize_whitespace`: `Document(s + "\n")` succeeds; rendering it gives `s + "\n"` byte for byte; rendering that
    text again reproduces it; the rendered text parses like the original under every configuration (same document, same
    definitions, same HTML). -/
theorem C09_emphasis_paragraph_roundtrip_partial (cfg : Document.Cfg) (hcfg : Config.markdown = some cfg)
    (o : Opts) (ho : o.maxLineLength = none) (gas : Nat) (s : Str)
    (hp : plainEsc s = true) (hw : EmphRefine.stdWs s = true) (htl : tildeOk s = true)
    (h1 : oneLine (s ++ ['\n']) = true) (hl : inertLine (s ++ ['\n']) = true) (hs : strip s = s) :
    ∃ d, Document.parse cfg (gas + 15) (s ++ ['\n']) = .ok d ∧
      renderRes o d = .ok (s ++ ['\n']) ∧
      render o d = s ++ ['\n'] ∧
      (∃ d', Document.parse cfg (gas + 15) (render o d) = .ok d' ∧ render o d' = render o d) ∧
      (∀ (cfg' : Document.Cfg) (g : Nat), Document.parse cfg' g (render o d) = Document.parse cfg' g (s ++ ['\n'])) ∧
      (∀ (hopts : Html.Opts) (g : Nat), Config.renderHtml hopts g (render o d) = Config.renderHtml hopts g (s ++ ['\n'])) := by
  obtain ⟨ks, d, _, _, h2, h3⟩ := C09_emphasis_paragraph_render cfg hcfg o ho gas s hp hw htl h1 hl
  rw [hs] at h3
  have h4 : render o d = s ++ ['\n'] := by simp only [render, h3]
  refine ⟨d, h2, h3, h4, ⟨d, ?_, rfl⟩, fun _ _ => by rw [h4], fun _ _ => by rw [h4]⟩
  rw [h4]; exact h2

/-- the same for the alphabet without backslash (`plain`, the alphabet of `emph_html_is_spec`) -/
theorem C09_emphasis_paragraph_roundtrip_plain_partial (cfg : Document.Cfg) (hcfg : Config.markdown = some cfg)
    (o : Opts) (ho : o.maxLineLength = none) (gas : Nat) (s : Str)
    (hp : Spec.Emphasis.plain s = true) (hw : EmphRefine.stdWs s = true) (htl : tildeOk s = true)
    (h1 : oneLine (s ++ ['\n']) = true) (hl : inertLine (s ++ ['\n']) = true) (hs : strip s = s) :
    ∃ d, Document.parse cfg (gas + 15) (s ++ ['\n']) = .ok d ∧
      renderRes o d = .ok (s ++ ['\n']) ∧
      render o d = s ++ ['\n'] ∧
      (∃ d', Document.parse cfg (gas + 15) (render o d) = .ok d' ∧ render o d' = render o d) ∧
      (∀ (cfg' : Document.Cfg) (g : Nat), Document.parse cfg' g (render o d) = Document.parse cfg' g (s ++ ['\n'])) ∧
      (∀ (hopts : Html.Opts) (g : Nat), Config.renderHtml hopts g (render o d) = Config.renderHtml hopts g (s ++ ['\n'])) :=
  C09_emphasis_paragraph_roundtrip_partial cfg hcfg o ho gas s (plainEsc_of_plain s hp) hw htl h1 hl hs


/-! ## F. Documents: paragraphs with inline markup among the blocks of the earlier fragments

  `Blk3`: a block of the fragment of Props/C09_Code.lean (`Blk2`: inert prose paragraph, ATX heading, thematic break,
  fenced code block, indented code block) or a one-line paragraph with inline markup (`Blk3.emph s`).  The chain is the
  one of Proofs/MdRoundCode.lean, one level up: block phase → constructors → renderer → text. -/

open Mistletoe.MdRound Mistletoe.Block
open Mistletoe.Props.C14 (numbered numbered_cons numbered_append numbered_length numbered_s numbered_mem)
open Mistletoe.Document (mkBlock mkBlocks inl)

inductive Blk3 where
  | blk2 (b : Blk2)
  | emph (s : Str)

/-- the source lines of one block, as the renderer writes them -/
def Blk3.lines : Blk3 → List Str
  | .blk2 b => b.lines
  | .emph s => [s ++ ['\n']]

/-- a paragraph line with inline markup in normal form (decidable): the text is of the alphabet (`plainEsc`, `stdWs`, no
    `~~`), the line is one line on which no block pattern fires, no whitespace at either end of the text -/
def emphOk (s : Str) : Bool :=
  plainEsc s && EmphRefine.stdWs s && tildeOk s && oneLine (s ++ ['\n']) && inertLine (s ++ ['\n']) && strip s == s

def Blk3.ok : Blk3 → Bool
  | .blk2 b => b.ok
  | .emph s => emphOk s

def Blk3.isICode : Blk3 → Bool
  | .blk2 b => b.isICode
  | .emph _ => false

/-- no two indented code blocks next to each other -/
def adjOk3 : Blk3 → List Blk3 → Bool
  | _, [] => true
  | it, it' :: rest => !(it.isICode && it'.isICode) && adjOk3 it' rest

/-- blocks separated by exactly one "\n" line -/
def itemsLines3 : Blk3 → List Blk3 → List Str
  | it, [] => it.lines
  | it, it' :: rest => it.lines ++ ['\n'] :: itemsLines3 it' rest

structure EmphOk (s : Str) : Prop where
  plain : plainEsc s = true
  ws : EmphRefine.stdWs s = true
  tilde : tildeOk s = true
  one : oneLine (s ++ ['\n']) = true
  inert : inertLine (s ++ ['\n']) = true
  flush : strip s = s

theorem emphOk_of (s : Str) (h : (Blk3.emph s).ok = true) : EmphOk s := by
  simp only [Blk3.ok, emphOk, Bool.and_eq_true, beq_iff_eq] at h
  obtain ⟨⟨⟨⟨⟨a, b⟩, c⟩, d⟩, e⟩, f⟩ := h
  exact ⟨a, b, c, d, e, f⟩

/-- the parse-buffer entry of a block whose first line is line `ln` (ghost origin `og`) -/
def itemEntry3 (ln og : Nat) : Blk3 → Entry
  | .blk2 b => itemEntry2 ln og b
  | .emph s => .paragraph [s ++ ['\n']] ln og

theorem tokLoop_item3_step (cfg : Cfg) (hty : cfg.types = markdownTypes) (it : Blk3) (hok : it.ok = true) (g : Nat)
    (pre post : List Line) (hb : ∀ b, post.head? = some b → b.s = ['\n']) (hstop : it.isICode = true → CodeStop post)
    (start : Nat) (st : St) (acc : List Entry) (loose : Bool) :
    tokLoop cfg (g + 12) ⟨pre ++ (numbered pre.length it.lines ++ post), pre.length, start⟩ st acc loose =
      tokLoop cfg (g + 11) ⟨(pre ++ numbered pre.length it.lines) ++ post, (pre ++ numbered pre.length it.lines).length, start⟩ st
        (itemEntry3 (start + pre.length) (pre.length + 1) it :: acc) loose := by
  cases it with
  | blk2 b => exact tokLoop_item2_step cfg hty b hok g pre post hb hstop start st acc loose
  | emph s =>
    have f := emphOk_of s hok
    have h1 := tokLoop_para_step cfg (mdTypes_par cfg hty) (g + 11) (by rw [mdTypes_len cfg hty]; omega)
      { s := s ++ ['\n'], origin := pre.length + 1 } [] pre post start st acc loose
      (inertLine_quiet _ f.inert) (by simp) (by intro b hb'; rw [hb b hb']; decide)
    simp only [Blk3.lines, Mistletoe.Props.C14.numbered, itemEntry3, List.cons_append, List.nil_append] at h1 ⊢
    exact h1

/-- the entries of a document: one per block, one `BlankLine` per separator -/
def itemEntries3 (ln og : Nat) : Blk3 → List Blk3 → List Entry
  | it, [] => [itemEntry3 ln og it]
  | it, it' :: rest =>
    itemEntry3 ln og it :: .blankLine (ln + it.lines.length) (og + it.lines.length) ::
      itemEntries3 (ln + it.lines.length + 1) (og + it.lines.length + 1) it' rest

theorem first_line_flush3 (it : Blk3) (hok : it.ok = true) (hni : it.isICode = false) :
    ∃ s ls, it.lines = s :: ls ∧ isBlank s = false ∧ blockCodeStart s = false := by
  cases it with
  | blk2 b => exact first_line_flush b hok hni
  | emph s =>
    have hq := inertLine_quiet _ (emphOk_of s hok).inert
    exact ⟨_, [], rfl, hq.nb, hq.bc⟩

theorem itemsLines3_head (it : Blk3) (rest : List Blk3) (s : Str) (ls : List Str) (h : it.lines = s :: ls) :
    ∃ ls', itemsLines3 it rest = s :: ls' := by
  cases rest with
  | nil => exact ⟨ls, by simp [itemsLines3, h]⟩
  | cons it' rest => exact ⟨ls ++ ['\n'] :: itemsLines3 it' rest, by simp only [itemsLines3, h, List.cons_append]⟩

theorem tokLoop_items3 (cfg : Cfg) (hty : cfg.types = markdownTypes) (start : Nat) (st : St) :
    ∀ (rest : List Blk3) (it : Blk3) (pre : List Line) (acc : List Entry) (loose : Bool) (gas : Nat),
      it.ok = true → (∀ x ∈ rest, x.ok = true) → adjOk3 it rest = true → 2 * rest.length + 13 ≤ gas →
      tokLoop cfg gas ⟨pre ++ numbered pre.length (itemsLines3 it rest), pre.length, start⟩ st acc loose =
        .ok ({ entries := acc.reverse ++ itemEntries3 (start + pre.length) (pre.length + 1) it rest, loose := loose }, st)
  | [], it, pre, acc, loose, gas, hok, _, _, hg => by
    obtain ⟨g, rfl⟩ : ∃ g, gas = g + 12 := ⟨gas - 12, by simp only [List.length_nil] at hg; omega⟩
    have h1 := tokLoop_item3_step cfg hty it hok g pre [] (by simp) (fun _ => Or.inl rfl) start st acc loose
    simp only [List.append_nil] at h1
    simp only [itemsLines3, itemEntries3]
    rw [h1, tokLoop_end]
    simp
  | it' :: rest, it, pre, acc, loose, gas, hok, hr, hadj, hg => by
    simp only [List.length_cons] at hg
    obtain ⟨g, rfl⟩ : ∃ g, gas = g + 12 := ⟨gas - 12, by omega⟩
    simp only [adjOk3, Bool.and_eq_true, Bool.not_eq_eq_eq_not, Bool.not_true, Bool.and_eq_false_iff] at hadj
    let n := it.lines.length
    let b : Line := { s := ['\n'], origin := pre.length + n + 1 }
    have hlines : numbered pre.length (itemsLines3 it (it' :: rest)) =
        numbered pre.length it.lines ++ b :: numbered (pre.length + n + 1) (itemsLines3 it' rest) := by
      simp only [itemsLines3, numbered_append, numbered_cons]
      rfl
    have hstop : it.isICode = true → CodeStop (b :: numbered (pre.length + n + 1) (itemsLines3 it' rest)) := by
      intro hi
      have hni : it'.isICode = false := by
        rcases hadj.1 with h | h
        · rw [hi] at h; cases h
        · exact h
      obtain ⟨s, ls, h1, h2, h3⟩ := first_line_flush3 it' (hr it' (by simp)) hni
      obtain ⟨ls', h4⟩ := itemsLines3_head it' rest s ls h1
      refine Or.inr ⟨b, { s := s, origin := pre.length + n + 1 + 1 }, numbered (pre.length + n + 1 + 1) ls', ?_, rfl, h2, h3⟩
      rw [h4, numbered_cons]
    have h1 := tokLoop_item3_step cfg hty it hok g pre (b :: numbered (pre.length + n + 1) (itemsLines3 it' rest))
      (by intro b' hb'; simp only [List.head?_cons, Option.some.injEq] at hb'; subst hb'; rfl) hstop start st acc loose
    obtain ⟨g', rfl⟩ : ∃ g', g = g' + 2 := ⟨g - 2, by omega⟩
    have h2 := tokLoop_nl_step cfg (g' + 12) (by rw [mdTypes_len cfg hty]; omega) b (pre ++ numbered pre.length it.lines)
      (numbered (pre.length + n + 1) (itemsLines3 it' rest)) start st
      (itemEntry3 (start + pre.length) (pre.length + 1) it :: acc) loose rfl
    rw [mdTypes_bl cfg hty] at h2
    simp only [if_true] at h2
    have hlen : (pre ++ numbered pre.length it.lines ++ [b]).length = pre.length + n + 1 := by
      simp only [List.length_append, numbered_length, List.length_cons, List.length_nil]; rfl
    have ih := tokLoop_items3 cfg hty start st rest it' (pre ++ numbered pre.length it.lines ++ [b])
      (.blankLine (start + (pre ++ numbered pre.length it.lines).length) b.origin ::
        itemEntry3 (start + pre.length) (pre.length + 1) it :: acc) loose (g' + 12)
      (hr it' (by simp)) (fun x hx => hr x (List.mem_cons_of_mem _ hx)) hadj.2 (by omega)
    rw [hlines, h1]
    have e : g' + 2 + 11 = g' + 12 + 1 := by omega
    rw [e, h2, ← hlen, ih, hlen]
    simp only [itemEntries3, List.reverse_cons, List.append_assoc, List.singleton_append, List.length_append, numbered_length]
    have e1 : start + (pre.length + it.lines.length) = start + pre.length + it.lines.length := by omega
    have e2 : start + (pre.length + n + 1) = start + pre.length + it.lines.length + 1 := by omega
    have e3 : pre.length + n + 1 + 1 = pre.length + 1 + it.lines.length + 1 := by omega
    have e4 : b.origin = pre.length + 1 + it.lines.length := by show pre.length + n + 1 = _; omega
    rw [e1, e2, e3, e4]
    simp

/-- **the block parse of a document of blocks, in every parser state** -/
theorem tokenize_items3 (cfg : Cfg) (hty : cfg.types = markdownTypes) (it : Blk3) (rest : List Blk3)
    (hok : it.ok = true) (hr : ∀ x ∈ rest, x.ok = true) (hadj : adjOk3 it rest = true) (gas : Nat) (st : St) :
    tokenizeBlock cfg (gas + (2 * rest.length + 14)) (numbered 0 (itemsLines3 it rest)) 1 st =
      .ok ({ entries := itemEntries3 1 1 it rest, loose := false }, st) := by
  have e : gas + (2 * rest.length + 14) = (gas + (2 * rest.length + 13)) + 1 := by omega
  rw [e]
  have := tokLoop_items3 cfg hty 1 st rest it [] [] false (gas + (2 * rest.length + 13)) hok hr hadj (by omega)
  simpa [tokenizeBlock] using this

/-! ### the token constructors -/

/-- the inline tokens of a text (`[]` where `tokenize_inner` raises: never, on the fragment) -/
def kidsOf (cfg : Document.Cfg) (fn : Footnotes.Table) (s : Str) : List Mistletoe.Inline :=
  match tokenizeInner cfg.span fn s with
  | .ok ks => ks
  | .err _ => []

/-- the block token of one block of the fragment -/
def itemBlock3 (cfg : Document.Cfg) (fn : Footnotes.Table) (ln : Nat) : Blk3 → Mistletoe.Block
  | .blk2 b => itemBlock2 ln b
  | .emph s => .paragraph (kidsOf cfg fn s) ln

/-- the children of `Document`: the blocks with `BlankLine` tokens between them -/
def itemBlocks3 (cfg : Document.Cfg) (fn : Footnotes.Table) (ln : Nat) : Blk3 → List Blk3 → List Mistletoe.Block
  | it, [] => [itemBlock3 cfg fn ln it]
  | it, it' :: rest =>
    itemBlock3 cfg fn ln it :: .blankLine (ln + it.lines.length) :: itemBlocks3 cfg fn (ln + it.lines.length + 1) it' rest

theorem emph_kids (cfg : Document.Cfg) (hcfg : Config.markdown = some cfg) (fn : Footnotes.Table) (s : Str) (f : EmphOk s) :
    tokenizeInner cfg.span fn s = .ok (kidsOf cfg fn s) ∧ spanToLines (kidsOf cfg fn s) none = .ok [s] := by
  obtain ⟨ks, h1, h2⟩ := emph_line cfg hcfg fn s f.plain f.ws f.tilde f.one f.inert
  rw [f.flush] at h1 h2
  have : kidsOf cfg fn s = ks := by simp only [kidsOf, h1]
  rw [this]
  exact ⟨h1, h2⟩

theorem mkBlock_item3 (cfg : Document.Cfg) (hcfg : Config.markdown = some cfg) (fn : Footnotes.Table)
    (it : Blk3) (hok : it.ok = true) (ln og : Nat) :
    mkBlock cfg fn (itemEntry3 ln og it) = .ok (some (itemBlock3 cfg fn ln it)) := by
  obtain ⟨_, ht, hc⟩ := MdRoundCode.markdown_cfg_facts cfg hcfg
  cases it with
  | blk2 b => exact mkBlock_item2 cfg fn ht hc b hok ln og
  | emph s =>
    have f := emphOk_of s hok
    have hnbs : isBlank s = false := by
      have hnb : isBlank (s ++ ['\n']) = false := (inertLine_quiet _ f.inert).nb
      have : pyIsSpace '\n' = true := by decide
      simpa [isBlank, this] using hnb
    have hin' : inl cfg fn (strip ([s ++ ['\n']].map lstrip).flatten) = .ok (kidsOf cfg fn s) := by
      unfold Document.inl
      rw [paragraph_content_one, strip_snoc_nl s hnbs, f.flush]
      exact (emph_kids cfg hcfg fn s f).1
    simp only [itemEntry3, itemBlock3, mkBlock, hin']

theorem mkBlocks_itemEntries3 (cfg : Document.Cfg) (hcfg : Config.markdown = some cfg) (fn : Footnotes.Table) :
    ∀ (rest : List Blk3) (it : Blk3) (ln og : Nat), it.ok = true → (∀ x ∈ rest, x.ok = true) →
    mkBlocks cfg fn (itemEntries3 ln og it rest) = .ok (itemBlocks3 cfg fn ln it rest)
  | [], it, ln, og, hok, _ => by
    simp only [itemEntries3, itemBlocks3, mkBlocks, mkBlock_item3 cfg hcfg fn it hok ln og]
  | it' :: rest, it, ln, og, hok, hr => by
    have ih := mkBlocks_itemEntries3 cfg hcfg fn rest it' (ln + it.lines.length + 1) (og + it.lines.length + 1)
      (hr it' (by simp)) (fun x hx => hr x (List.mem_cons_of_mem _ hx))
    simp only [itemEntries3, itemBlocks3, mkBlocks]
    rw [mkBlock_item3 cfg hcfg fn it hok ln og]
    simp only [mkBlock, ih]

/-! ### the renderer -/

/-- the lines the renderer writes for one block -/
def itemOut3 : Blk3 → List Str
  | .blk2 b => itemOut2 b
  | .emph s => [s]

def itemsOut3 : Blk3 → List Blk3 → List Str
  | it, [] => itemOut3 it
  | it, it' :: rest => itemOut3 it ++ [] :: itemsOut3 it' rest

theorem renderBlock_item3 (cfg : Document.Cfg) (hcfg : Config.markdown = some cfg) (fn : Footnotes.Table)
    (o : Opts) (it : Blk3) (hok : it.ok = true) (ln : Nat) :
    renderBlock o none (itemBlock3 cfg fn ln it) = .ok (itemOut3 it) := by
  cases it with
  | blk2 b => exact renderBlock_item2 o b hok ln
  | emph s => simp only [itemBlock3, itemOut3, renderBlock, (emph_kids cfg hcfg fn s (emphOk_of s hok)).2]

theorem renderBlocks_items3 (cfg : Document.Cfg) (hcfg : Config.markdown = some cfg) (fn : Footnotes.Table) (o : Opts) :
    ∀ (rest : List Blk3) (it : Blk3) (ln : Nat), it.ok = true → (∀ x ∈ rest, x.ok = true) →
    renderBlocks o none (itemBlocks3 cfg fn ln it rest) = .ok (itemsOut3 it rest)
  | [], it, ln, hok, _ => by
    simp only [itemBlocks3, itemsOut3, renderBlocks, renderBlock_item3 cfg hcfg fn o it hok ln]
    simp
  | it' :: rest, it, ln, hok, hr => by
    have ih := renderBlocks_items3 cfg hcfg fn o rest it' (ln + it.lines.length + 1) (hr it' (by simp))
      (fun x hx => hr x (List.mem_cons_of_mem _ hx))
    simp only [itemBlocks3, itemsOut3, renderBlocks, renderBlock_item3 cfg hcfg fn o it hok ln, renderBlock, ih]
    simp

/-! ### the text -/

theorem itemOut3_lines (it : Blk3) (hok : it.ok = true) : (itemOut3 it).map (· ++ ['\n']) = it.lines := by
  cases it with
  | blk2 b => exact itemOut2_lines b hok
  | emph s => rfl

theorem itemsOut3_lines : ∀ (rest : List Blk3) (it : Blk3), it.ok = true → (∀ x ∈ rest, x.ok = true) →
    (itemsOut3 it rest).map (· ++ ['\n']) = itemsLines3 it rest
  | [], it, hok, _ => by simp only [itemsOut3, itemsLines3, itemOut3_lines it hok]
  | it' :: rest, it, hok, hr => by
    have ih := itemsOut3_lines rest it' (hr it' (by simp)) (fun x hx => hr x (List.mem_cons_of_mem _ hx))
    simp only [itemsOut3, itemsLines3, List.map_append, List.map_cons, itemOut3_lines it hok, ih, List.nil_append]

theorem item3_oneLine (it : Blk3) (hok : it.ok = true) : ∀ l ∈ it.lines, oneLine l = true := by
  cases it with
  | blk2 b => exact item2_oneLine b hok
  | emph s =>
    intro l hl
    simp only [Blk3.lines, List.mem_singleton] at hl
    subst hl
    exact (emphOk_of s hok).one

theorem items3_oneLine : ∀ (rest : List Blk3) (it : Blk3), it.ok = true → (∀ x ∈ rest, x.ok = true) →
    ∀ l ∈ itemsLines3 it rest, oneLine l = true
  | [], it, hok, _ => by simpa [itemsLines3] using item3_oneLine it hok
  | it' :: rest, it, hok, hr => by
    have ih := items3_oneLine rest it' (hr it' (by simp)) (fun x hx => hr x (List.mem_cons_of_mem _ hx))
    intro l hl
    simp only [itemsLines3, List.mem_append, List.mem_cons] at hl
    rcases hl with hl | rfl | hl
    · exact item3_oneLine it hok l hl
    · decide
    · exact ih l hl

theorem item3_lines_ne (it : Blk3) (hok : it.ok = true) : it.lines ≠ [] := by
  cases it with
  | blk2 b => exact item2_lines_ne b hok
  | emph s => simp [Blk3.lines]

theorem itemsLines3_ne (it : Blk3) (rest : List Blk3) (hok : it.ok = true) : itemsLines3 it rest ≠ [] := by
  have := item3_lines_ne it hok
  cases rest <;> simp [itemsLines3, this]

/-! ### C09 for the fragment with inline markup -/

/-- **Documents of blocks, some of them paragraphs with emphasis, strong emphasis and backslash escapes, inside `k ≥ 0`
    nested block quotes, are reproduced byte for byte.**  The blocks `it, rest` (`Blk3.ok`) are separated by single empty
    lines, no two indented code blocks are adjacent; "> " `k` times before every line (tab-free lines when `k > 0`); the
    token lists are the working tree's `MarkdownRenderer`'s.  Then `Document(lines)` succeeds, its children are `k` nested
    `Quote`s around the block tokens with `BlankLine`s between them, and `MarkdownRenderer(no line limit, either
    normalize_whitespace).render` gives back the concatenated lines. -/
theorem C09_emphasis_blocks_exact_partial (cfg : Document.Cfg) (hcfg : Config.markdown = some cfg)
    (it : Blk3) (rest : List Blk3) (hok : it.ok = true) (hrest : ∀ x ∈ rest, x.ok = true) (hadj : adjOk3 it rest = true)
    (k : Nat) (hnt : k = 0 ∨ ∀ l ∈ itemsLines3 it rest, '\t' ∉ l)
    (o : Opts) (ho : o.maxLineLength = none) (gas : Nat) :
    ∃ d, Document.parseLines cfg (gas + (2 * rest.length + 14) + k * 8) (qStrs k (itemsLines3 it rest)) = .ok d ∧
      d.kids = qBlocks 1 (itemBlocks3 cfg (Document.footnotesOf []) 1 it rest) k ∧
      renderRes o d = .ok (qStrs k (itemsLines3 it rest)).flatten ∧
      render o d = (qStrs k (itemsLines3 it rest)).flatten := by
  obtain ⟨hty, _, _⟩ := MdRoundCode.markdown_cfg_facts cfg hcfg
  have hmk0 := mkBlocks_itemEntries3 cfg hcfg (Document.footnotesOf []) rest it 1 1 hok hrest
  have hout0 := renderBlocks_items3 cfg hcfg (Document.footnotesOf []) o rest it 1 hok hrest
  have hphase : ∃ st', blockPhase cfg.block (gas + (2 * rest.length + 14) + k * 8) (qStrs k (itemsLines3 it rest)) =
      .ok ({ entries := qEntries 1 1 (itemEntries3 1 1 it rest) k, loose := false }, st') ∧ st'.defs = [] := by
    rcases hnt with rfl | hnt
    · exact ⟨{}, tokenize_items3 cfg.block hty it rest hok hrest hadj gas {}, rfl⟩
    · obtain ⟨s, ss', hss⟩ : ∃ s ss', itemsLines3 it rest = s :: ss' := by
        cases hj : itemsLines3 it rest with
        | nil => exact absurd hj (itemsLines3_ne it rest hok)
        | cons s ss' => exact ⟨s, ss', rfl⟩
      have hnum : numbered 0 (itemsLines3 it rest) = { s := s, origin := 1 } :: numbered 1 ss' := by
        rw [hss, numbered_cons]
      have h0 : ∀ st, tokenizeBlock cfg.block (gas + (2 * rest.length + 14)) ({ s := s, origin := 1 } :: numbered 1 ss') 1 st =
          .ok ({ entries := itemEntries3 1 1 it rest, loose := false }, st) := by
        intro st
        have := tokenize_items3 cfg.block hty it rest hok hrest hadj gas st
        rwa [hnum] at this
      have hnt' : ∀ l ∈ ({ s := s, origin := 1 } : Line) :: numbered 1 ss', '\t' ∉ l.s := by
        intro l hl
        rw [← hnum] at hl
        exact hnt _ (numbered_mem _ _ _ hl)
      obtain ⟨st', hq, hd⟩ := tokenize_qLines cfg.block
        [.linkRefDefBlock, .blankLine, .htmlBlock, .blockCode, .heading] [.codeFence, .thematicBreak, .list, .table, .paragraph]
        (by rw [hty]; rfl) (by decide) (by decide) _ _ hnt' 1 _ _ h0 k {}
      refine ⟨st', ?_, hd⟩
      have e : ∀ g ls, blockPhase cfg.block g ls = tokenizeBlock cfg.block g (numbered 0 ls) 1 {} := fun _ _ => rfl
      rw [e, numbered_qStrs, hnum]
      exact hq
  obtain ⟨st', hphase, hdefs⟩ := hphase
  have hmk := mkBlocks_qEntries cfg (Document.footnotesOf []) 1 1 _ _ hmk0 k
  have hout := renderBlocks_qBlocks o 1 _ _ hout0 k
  have htext : joinLines (qStrs k (itemsOut3 it rest)) = (qStrs k (itemsLines3 it rest)).flatten := by
    rw [joinLines_eq, qStrs_nl, itemsOut3_lines rest it hok hrest]
  have hres : renderRes o { kids := qBlocks 1 (itemBlocks3 cfg (Document.footnotesOf []) 1 it rest) k, footnotes := Document.footnotesOf [] } =
      .ok (qStrs k (itemsLines3 it rest)).flatten := by
    simp only [renderRes, ho, hout, htext]
  refine ⟨{ kids := qBlocks 1 (itemBlocks3 cfg (Document.footnotesOf []) 1 it rest) k, footnotes := Document.footnotesOf [] },
    ?_, rfl, hres, ?_⟩
  · unfold Document.parseLines
    rw [hphase]
    simp only [hdefs]
    rw [hmk]
  · simp only [render, hres]

/-- **C09 for documents with inline markup, from the `str`**: exact reproduction, idempotence, same meaning (same
    document and definitions under every configuration, same HTML). -/
theorem C09_emphasis_blocks_roundtrip_partial (cfg : Document.Cfg) (hcfg : Config.markdown = some cfg)
    (it : Blk3) (rest : List Blk3) (hok : it.ok = true) (hrest : ∀ x ∈ rest, x.ok = true) (hadj : adjOk3 it rest = true)
    (k : Nat) (hnt : k = 0 ∨ ∀ l ∈ itemsLines3 it rest, '\t' ∉ l)
    (o : Opts) (ho : o.maxLineLength = none) (gas : Nat) :
    ∃ d, Document.parse cfg (gas + (2 * rest.length + 14) + k * 8) (qStrs k (itemsLines3 it rest)).flatten = .ok d ∧
      render o d = (qStrs k (itemsLines3 it rest)).flatten ∧
      (∃ d', Document.parse cfg (gas + (2 * rest.length + 14) + k * 8) (render o d) = .ok d' ∧
        render o d' = render o d) ∧
      (∀ (cfg' : Document.Cfg) (g : Nat),
        Document.parse cfg' g (render o d) = Document.parse cfg' g (qStrs k (itemsLines3 it rest)).flatten) ∧
      (∀ (hopts : Html.Opts) (g : Nat),
        Config.renderHtml hopts g (render o d) = Config.renderHtml hopts g (qStrs k (itemsLines3 it rest)).flatten) := by
  have h1 := qStrs_oneLine k _ (items3_oneLine rest it hok hrest)
  obtain ⟨d, h, _, _, h3⟩ := C09_emphasis_blocks_exact_partial cfg hcfg it rest hok hrest hadj k hnt o ho gas
  rw [← parse_lines cfg _ _ h1] at h
  refine ⟨d, h, h3, ⟨d, ?_, rfl⟩, fun _ _ => by rw [h3], fun _ _ => by rw [h3]⟩
  rw [h3]; exact h

end Mistletoe.MdRoundEmph

/-! ## Non-vacuity

  For each text: the hypotheses hold by kernel evaluation, the theorem applies, and the kernel evaluation of the whole model
  (`Document` + `MarkdownRenderer`) gives the text back; so does the real code
  (`with MarkdownRenderer() as r: r.render(Document(TEXT + "\n")) == TEXT + "\n"`, run on /repo for every text below). -/

namespace Mistletoe.MdRoundEmph.Examples
open Mistletoe Mistletoe.Inline Mistletoe.Markdown Mistletoe.InertInline Mistletoe.MdRound Mistletoe.MdRoundEmph
open Mistletoe.MdRoundCode (L mdCfg)
open Mistletoe.Props.C14 (inertLine)

/-- `mdCfg` is the configuration of the working tree (so the kernel evaluations below are about `Config.markdown`) -/
example : Config.markdown.map (fun c => (c.block.types, c.block.tableInterrupt, c.span)) =
    some (mdCfg.block.types, mdCfg.block.tableInterrupt, mdCfg.span) := by decide +kernel

/-! ### inline level -/

/-- the instance of `md_inline_exact_esc` for the Markdown renderer's span-token list -/
theorem inst (s : Str) (hp : Spec.EmphasisEsc.plainEsc s = true) (hw : EmphRefine.stdWs s = true)
    (hnl : ('\n' ∈ s) = False) (htl : tildeOk s = true) (hne : s.isEmpty = false) :
    ∃ ks, tokenizeInner mdCfg.span [] s = .ok ks ∧ spanToLines ks none = .ok [s] := by
  obtain ⟨ks, h1, _, h3⟩ := md_inline_exact_esc mdCfg.span [] s hp hw (by rw [hnl]; exact id) htl (by decide) (by decide) (by decide)
  rw [hne] at h3
  exact ⟨ks, h1, h3⟩

/-- `tokenize_inner` then `span_to_lines(…, None)`, evaluated -/
def inlineMd (s : Str) : Res (List Str) := (tokenizeInner mdCfg.span [] s).bind (fun ks => spanToLines ks none)

example : ∃ ks, tokenizeInner mdCfg.span [] (L "***a** b* and _c_ \\*d\\*") = .ok ks ∧
    spanToLines ks none = .ok [L "***a** b* and _c_ \\*d\\*"] :=
  inst _ (by decide +kernel) (by decide +kernel) (by decide +kernel) (by decide +kernel) (by decide +kernel)
example : inlineMd (L "***a** b* and _c_ \\*d\\*") = .ok [L "***a** b* and _c_ \\*d\\*"] := by decide +kernel

example : ∃ ks, tokenizeInner mdCfg.span [] (L "*a **b** c*") = .ok ks ∧ spanToLines ks none = .ok [L "*a **b** c*"] :=
  inst _ (by decide +kernel) (by decide +kernel) (by decide +kernel) (by decide +kernel) (by decide +kernel)
example : inlineMd (L "*a **b** c*") = .ok [L "*a **b** c*"] := by decide +kernel

example : ∃ ks, tokenizeInner mdCfg.span [] (L "foo*bar*baz __x__") = .ok ks ∧ spanToLines ks none = .ok [L "foo*bar*baz __x__"] :=
  inst _ (by decide +kernel) (by decide +kernel) (by decide +kernel) (by decide +kernel) (by decide +kernel)
example : inlineMd (L "foo*bar*baz __x__") = .ok [L "foo*bar*baz __x__"] := by decide +kernel

/-- the fragments `make_fragments` yields (text, word-wrappable): the text is not one `RawText` but is parsed into
    `Emphasis` / `Strong` / `EscapeSequence` tokens, each written back with its own delimiter -/
def inlineFrags (s : Str) : Res (List (Str × Bool)) :=
  ((tokenizeInner mdCfg.span [] s).bind renderInlines).bind (fun fs => .ok (fs.map (fun f => (f.text, f.wordwrap))))

example : inlineFrags (L "*a **b** c* \\*") =
    .ok [(L "*", false), (L "a ", true), (L "**", false), (L "b", true), (L "**", false), (L " c", true), (L "*", false),
         (L " ", true), (L "\\*", false)] := by decide +kernel
/-- `_` and `*` delimiters keep their spelling (the token's `delimiter`) -/
example : inlineFrags (L "__x__ _y_") =
    .ok [(L "__", false), (L "x", true), (L "__", false), (L " ", true), (L "_", false), (L "y", true), (L "_", false)] := by
  decide +kernel

/-- unmatched delimiters, an escaped backslash, a literal backslash before a letter, a final backslash, several blanks -/
example : ∃ ks, tokenizeInner mdCfg.span [] (L "x **a*  \\\\ \\a _b *c_ d*\\") = .ok ks ∧
    spanToLines ks none = .ok [L "x **a*  \\\\ \\a _b *c_ d*\\"] :=
  inst _ (by decide +kernel) (by decide +kernel) (by decide +kernel) (by decide +kernel) (by decide +kernel)
example : inlineMd (L "x **a*  \\\\ \\a _b *c_ d*\\") = .ok [L "x **a*  \\\\ \\a _b *c_ d*\\"] := by decide +kernel

/-! ### one paragraph -/

/-- the instance of `C09_emphasis_paragraph_roundtrip_partial` used below -/
theorem instDoc (cfg : Document.Cfg) (hcfg : Config.markdown = some cfg) (s : Str)
    (hp : Spec.EmphasisEsc.plainEsc s = true) (hw : EmphRefine.stdWs s = true) (htl : tildeOk s = true)
    (h1 : oneLine (s ++ ['\n']) = true) (hl : inertLine (s ++ ['\n']) = true) (hs : (Py.strip s == s) = true) :
    ∃ d, Document.parse cfg 15 (s ++ ['\n']) = .ok d ∧ renderRes {} d = .ok (s ++ ['\n']) := by
  obtain ⟨d, h2, h3, _⟩ := C09_emphasis_paragraph_roundtrip_partial cfg hcfg {} rfl 0 s hp hw htl h1 hl (by simpa using hs)
  exact ⟨d, h2, h3⟩

example (cfg : Document.Cfg) (hcfg : Config.markdown = some cfg) :
    ∃ d, Document.parse cfg 15 (L "***a** b* and _c_ \\*d\\*" ++ ['\n']) = .ok d ∧
      renderRes {} d = .ok (L "***a** b* and _c_ \\*d\\*" ++ ['\n']) :=
  instDoc cfg hcfg _ (by decide +kernel) (by decide +kernel) (by decide +kernel) (by decide +kernel) (by decide +kernel)
    (by decide +kernel)
example : (Document.parse mdCfg 15 (L "***a** b* and _c_ \\*d\\*\n")).bind (fun d => renderRes {} d) =
    .ok (L "***a** b* and _c_ \\*d\\*\n") := by decide +kernel

example (cfg : Document.Cfg) (hcfg : Config.markdown = some cfg) :
    ∃ d, Document.parse cfg 15 (L "*a **b** c*" ++ ['\n']) = .ok d ∧ renderRes {} d = .ok (L "*a **b** c*" ++ ['\n']) :=
  instDoc cfg hcfg _ (by decide +kernel) (by decide +kernel) (by decide +kernel) (by decide +kernel) (by decide +kernel)
    (by decide +kernel)
example : (Document.parse mdCfg 15 (L "*a **b** c*\n")).bind (fun d => renderRes {} d) = .ok (L "*a **b** c*\n") := by
  decide +kernel

example (cfg : Document.Cfg) (hcfg : Config.markdown = some cfg) :
    ∃ d, Document.parse cfg 15 (L "foo*bar*baz __x__" ++ ['\n']) = .ok d ∧ renderRes {} d = .ok (L "foo*bar*baz __x__" ++ ['\n']) :=
  instDoc cfg hcfg _ (by decide +kernel) (by decide +kernel) (by decide +kernel) (by decide +kernel) (by decide +kernel)
    (by decide +kernel)
example : (Document.parse mdCfg 15 (L "foo*bar*baz __x__\n")).bind (fun d => renderRes {} d) = .ok (L "foo*bar*baz __x__\n") := by
  decide +kernel

/-- with `normalize_whitespace=True` -/
example : (Document.parse mdCfg 15 (L "*a **b** c*\n")).bind (fun d => renderRes { normalizeWhitespace := true } d) =
    .ok (L "*a **b** c*\n") := by decide +kernel

/-- an indented line is outside the normal form: the output is the stripped line (`C09_emphasis_paragraph_render`) -/
example : (Document.parse mdCfg 15 (L "  *a* b  \n")).bind (fun d => renderRes {} d) = .ok (L "*a* b\n") := by decide +kernel

/-- the block-level hypothesis `inertLine` is needed: `* a*` is a list item, `***` a thematic break -/
example : inertLine (L "* a*\n") = false ∧ inertLine (L "***\n") = false ∧ inertLine (L "*a*\n") = true := by decide +kernel

/-! ### a document: heading, paragraphs with markup, a fenced code block, an inert paragraph; also inside a block quote -/

def doc : Blk3 := .blk2 (.blk (.heading 1 (L "T")))
def docRest : List Blk3 :=
  [.emph (L "***a** b* and _c_ \\*d\\*"), .blk2 (.fence (L "```") (L "py") [L "*x* = 1\n"]), .emph (L "foo*bar*baz __x__"),
   .blk2 (.blk (.para [L "last line.\n"]))]

theorem doc_ok : doc.ok = true ∧ (∀ x ∈ docRest, x.ok = true) ∧ adjOk3 doc docRest = true ∧
    (∀ l ∈ itemsLines3 doc docRest, '\t' ∉ l) := by decide +kernel

example : (itemsLines3 doc docRest).flatten =
    L "# T\n\n***a** b* and _c_ \\*d\\*\n\n```py\n*x* = 1\n```\n\nfoo*bar*baz __x__\n\nlast line.\n" := by decide +kernel

example (cfg : Document.Cfg) (hcfg : Config.markdown = some cfg) :
    ∃ d, Document.parse cfg 22 (itemsLines3 doc docRest).flatten = .ok d ∧ render {} d = (itemsLines3 doc docRest).flatten := by
  obtain ⟨d, h1, h2, _⟩ := C09_emphasis_blocks_roundtrip_partial cfg hcfg doc docRest doc_ok.1 doc_ok.2.1 doc_ok.2.2.1 0
    (Or.inl rfl) {} rfl 0
  exact ⟨d, h1, h2⟩
example : (Document.parse mdCfg 22
      (L "# T\n\n***a** b* and _c_ \\*d\\*\n\n```py\n*x* = 1\n```\n\nfoo*bar*baz __x__\n\nlast line.\n")).bind
    (fun d => renderRes {} d) =
      .ok (L "# T\n\n***a** b* and _c_ \\*d\\*\n\n```py\n*x* = 1\n```\n\nfoo*bar*baz __x__\n\nlast line.\n") := by decide +kernel

example (cfg : Document.Cfg) (hcfg : Config.markdown = some cfg) :
    ∃ d, Document.parse cfg 30 (qStrs 1 (itemsLines3 doc docRest)).flatten = .ok d ∧
      render {} d = (qStrs 1 (itemsLines3 doc docRest)).flatten := by
  obtain ⟨d, h1, h2, _⟩ := C09_emphasis_blocks_roundtrip_partial cfg hcfg doc docRest doc_ok.1 doc_ok.2.1 doc_ok.2.2.1 1
    (Or.inr doc_ok.2.2.2) {} rfl 0
  exact ⟨d, h1, h2⟩
example : (Document.parse mdCfg 30 (L "> # T\n> \n> *a **b** c*\n> \n> last\n")).bind (fun d => renderRes {} d) =
    .ok (L "> # T\n> \n> *a **b** c*\n> \n> last\n") := by decide +kernel

end Mistletoe.MdRoundEmph.Examples
