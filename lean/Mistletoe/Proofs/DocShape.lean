/-
  C12, clause "containers hold only the kinds of children their documentation states … scalar
  attributes are in range": the KIND discipline of the token tree, as a decidable predicate on the
  AST (`Block.shapeOk`, `Doc.shapeOk`) and a theorem about every parsed document, for every
  configuration.

  In `Model/Ast.lean` inline tokens cannot contain blocks (typing) and code/HTML blocks carry their one
  raw text as a field; but the child lists of `.list`, `.listItem`, `.quote`, `.table`, `.tableRow` and
  of the document are plain `List Block`.  `shapeOk` says what they hold:

  * `.list`: at least one child, every child a `.listItem`, and `start` read off the first child's
    leader (`leaderStartOk`);
  * `.listItem`, `.quote`, document: no child is a `.listItem`, `.tableRow`, `.tableCell` (`isFlow`);
  * `.table`: `header` holds at most one block; every block of `header`/`rows` is a `.tableRow`;
  * `.tableRow`: every child is a `.tableCell` (whose children are inline by typing);
  * `.heading`: 1 ≤ level ≤ 6; `.setextHeading`: level 1 or 2;
  * `.linkRefDefBlock`: every child is a `.linkRefDef`;
  * recursively for all children.  Since every container constrains the kind of every child,
    `.listItem` occurs only directly under `.list`, `.tableRow` only under `.table`, `.tableCell` only
    under `.tableRow`.
-/
import Mistletoe.Proofs.DocTotal
import Mistletoe.Props.C13
import Mistletoe.Model.Config
namespace Mistletoe
open Mistletoe.Py

/-! ## The predicate -/

def Block.isListItem : Block → Bool
  | .listItem .. => true
  | _ => false
def Block.isTableRow : Block → Bool
  | .tableRow .. => true
  | _ => false
def Block.isTableCell : Block → Bool
  | .tableCell .. => true
  | _ => false
/-- a block that may be a child of Document / Quote / ListItem: anything but the three kinds that
    exist only inside their own container -/
def Block.isFlow (b : Block) : Bool := !(b.isListItem || b.isTableRow || b.isTableCell)

def Inline.isLinkRefDef : Inline → Bool
  | .linkRefDef .. => true
  | _ => false

/-- `List.start` against the leader of the first item (`List.__init__`: `leader = self.children[0].leader;
    self.start = int(leader[:-1]) if len(leader) != 1 else None`): a one-character leader (bullet) ↔ no
    start; otherwise the leader is 1–9 decimal digits and one delimiter character, and `start` is the value
    of the digits (`parseNat` = `int`), hence below 10^9. -/
def leaderStartOk (leader : Str) (start : Option Nat) : Bool :=
  if leader.length == 1 then start.isNone
  else !leader.dropLast.isEmpty && leader.dropLast.all isDigit && decide (leader.dropLast.length ≤ 9) &&
    (match start with
     | some n => n == parseNat leader.dropLast && decide (n < 1000000000)
     | none => false)

/-- `start` agrees with the first child's leader (false when there is no first `.listItem`) -/
def listStartOk (start : Option Nat) : List Block → Bool
  | .listItem leader _ _ _ _ _ :: _ => leaderStartOk leader start
  | _ => false

mutual
def Block.shapeOk : Block → Bool
  | .paragraph _ _ => true
  | .heading level _ _ _ => decide (1 ≤ level) && decide (level ≤ 6)
  | .setextHeading level _ _ _ => level == 1 || level == 2
  | .quote kids _ => kids.all Block.isFlow && shapeOkL kids
  | .blockCode _ _ => true
  | .codeFence _ _ _ _ _ _ => true
  | .list _ start items _ =>
    !items.isEmpty && items.all Block.isListItem && listStartOk start items && shapeOkL items
  | .listItem _ _ _ _ kids _ => kids.all Block.isFlow && shapeOkL kids
  | .table _ header rows _ =>
    decide (header.length ≤ 1) && header.all Block.isTableRow && rows.all Block.isTableRow
      && shapeOkL header && shapeOkL rows
  | .tableRow _ cells _ => cells.all Block.isTableCell && shapeOkL cells
  | .tableCell _ _ _ => true
  | .thematicBreak _ _ => true
  | .htmlBlock _ _ => true
  | .blankLine _ => true
  | .linkRefDefBlock defs _ => defs.all Inline.isLinkRefDef
def shapeOkL : List Block → Bool
  | [] => true
  | b :: bs => b.shapeOk && shapeOkL bs
end

/-- the document: its children are flow blocks, each well-shaped -/
def Doc.shapeOk (d : Doc) : Bool := d.kids.all Block.isFlow && shapeOkL d.kids

theorem shapeOkL_iff (bs : List Block) : shapeOkL bs = true ↔ ∀ b ∈ bs, b.shapeOk = true := by
  induction bs with
  | nil => simp [shapeOkL]
  | cons b bs ih => simp [shapeOkL, ih]

/-! ## `int(leader[:-1])` is below 10^9 -/

theorem digitVal_le (c : Char) : digitVal c ≤ 9 := by
  unfold digitVal
  split
  · have := Nat.mod_lt (c.toNat - (by assumption : Nat × Nat).1) (by decide : 10 > 0)
    omega
  · omega

theorem parseNat_fold_lt : ∀ (s : Str) (n : Nat),
    s.foldl (fun n c => n * 10 + digitVal c) n + 1 ≤ (n + 1) * 10 ^ s.length
  | [], n => by simp
  | c :: s, n => by
    have ih := parseNat_fold_lt s (n * 10 + digitVal c)
    have hd := digitVal_le c
    simp only [List.foldl_cons, List.length_cons]
    have h1 : (n * 10 + digitVal c + 1) * 10 ^ s.length ≤ ((n + 1) * 10) * 10 ^ s.length :=
      Nat.mul_le_mul_right _ (by omega)
    have h2 : (n + 1) * 10 ^ (s.length + 1) = ((n + 1) * 10) * 10 ^ s.length := by
      rw [Nat.pow_succ, Nat.mul_assoc, Nat.mul_comm (10 ^ s.length) 10]
    omega

theorem parseNat_lt (s : Str) : parseNat s < 10 ^ s.length := by
  have := parseNat_fold_lt s 0
  unfold parseNat
  omega

theorem parseNat_lt_of_len (s : Str) (h : s.length ≤ 9) : parseNat s < 1000000000 := by
  have h1 := parseNat_lt s
  have h2 : 10 ^ s.length ≤ 10 ^ 9 := Nat.pow_le_pow_right (by decide) h
  have : (10 : Nat) ^ 9 = 1000000000 := by decide
  omega

/-- for a leader the block phase can produce (`LeaderOk`), the `start` that `List.__init__` computes
    agrees with it -/
theorem leaderStartOk_mk (leader : Str) (h : Block.LeaderOk leader) :
    leaderStartOk leader (if leader.length != 1 then some (parseNat leader.dropLast) else none) = true := by
  unfold leaderStartOk
  by_cases h1 : leader.length = 1
  · simp [h1]
  · rcases h with h | ⟨hne, hall, hlen⟩
    · exact absurd h h1
    · have hlt := parseNat_lt_of_len _ hlen
      have hne' : leader.dropLast.isEmpty = false := by
        cases hd : leader.dropLast with
        | nil => exact absurd hd hne
        | cons _ _ => rfl
      have hlen' : leader.length ≤ 10 := by
        rw [List.length_dropLast] at hlen; omega
      simp [h1, hne', hall, hlen', hlt]

end Mistletoe

namespace Mistletoe.Document
open Mistletoe Mistletoe.Py Mistletoe.Scan Mistletoe.Block Mistletoe.Inline

/-! ## The block token constructors produce well-shaped trees -/

theorem tableRow_go_shape (cfg : Cfg) (fn : Footnotes.Table) (ln : Nat) :
    ∀ (zs : List (Option Str × Option Nat)) (cs : List Mistletoe.Block), tableRow.go cfg fn ln zs = .ok cs →
      cs.all Block.isTableCell = true ∧ shapeOkL cs = true
  | [], cs, h => by
    simp only [tableRow.go] at h
    cases h
    exact ⟨rfl, rfl⟩
  | (c, a) :: rest, cs, h => by
    simp only [tableRow.go] at h
    split at h
    · cases h
    · rename_i kids _
      cases hr : tableRow.go cfg fn ln rest with
      | err e => rw [hr] at h; cases h
      | ok more =>
        rw [hr] at h
        cases h
        obtain ⟨h1, h2⟩ := tableRow_go_shape cfg fn ln rest more hr
        simp [Block.isTableCell, shapeOkL, Block.shapeOk, h1, h2]

theorem tableRow_shape (cfg : Cfg) (fn : Footnotes.Table) (line : Str) (al : List (Option Nat)) (ln : Nat)
    (r : Mistletoe.Block) (h : tableRow cfg fn line al ln = .ok r) : r.isTableRow = true ∧ r.shapeOk = true := by
  unfold tableRow at h
  simp only at h
  split at h
  · cases h
  · rename_i cs hcs
    cases h
    obtain ⟨h1, h2⟩ := tableRow_go_shape cfg fn ln _ cs hcs
    simp [Block.isTableRow, Block.shapeOk, h1, h2]

theorem tableRows_shape (cfg : Cfg) (fn : Footnotes.Table) :
    ∀ (ls : List Str) (al : List (Option Nat)) (ln : Nat) (rs : List Mistletoe.Block),
      tableRows cfg fn ls al ln = .ok rs → rs.all Block.isTableRow = true ∧ shapeOkL rs = true
  | [], _, _, rs, h => by
    simp only [tableRows] at h
    cases h
    exact ⟨rfl, rfl⟩
  | l :: rest, al, ln, rs, h => by
    simp only [tableRows] at h
    cases hr : tableRow cfg fn l al ln with
    | err e => rw [hr] at h; cases h
    | ok r =>
      rw [hr] at h
      simp only at h
      cases hm : tableRows cfg fn rest al (ln + 1) with
      | err e => rw [hm] at h; cases h
      | ok more =>
        rw [hm] at h
        cases h
        obtain ⟨h1, h2⟩ := tableRow_shape cfg fn l al ln r hr
        obtain ⟨h3, h4⟩ := tableRows_shape cfg fn rest al (ln + 1) more hm
        simp [shapeOkL, h1, h2, h3, h4]

theorem linkRefDefs_shape (ms : List FnMatch) : (ms.map linkRefDef).all Inline.isLinkRefDef = true := by
  simp [List.all_map, linkRefDef, Inline.isLinkRefDef]

mutual
/-- `token_type(result)` on a well-formed entry: a well-shaped flow block -/
theorem mkBlock_shape (cfg : Cfg) (fn : Footnotes.Table) :
    ∀ (e : Entry), EntryWF e → ∀ (b : Mistletoe.Block), mkBlock cfg fn e = .ok (some b) →
      b.shapeOk = true ∧ b.isFlow = true
  | .blockCode ls ln og, _, b, h => by
    simp only [mkBlock] at h; cases h; exact ⟨rfl, rfl⟩
  | .heading lvl content closing ln og, hw, b, h => by
    simp only [mkBlock] at h
    simp only [EntryWF] at hw
    split at h
    · cases h
    · cases h
      exact ⟨by simp [Block.shapeOk, hw.1, hw.2], rfl⟩
  | .quote inner lo ln og, hw, b, h => by
    simp only [mkBlock] at h
    simp only [EntryWF] at hw
    cases hk : mkBlocks cfg fn inner with
    | err e => rw [hk] at h; cases h
    | ok kids =>
      rw [hk] at h
      cases h
      obtain ⟨h1, h2⟩ := mkBlocks_shape cfg fn inner hw kids hk
      exact ⟨by simp [Block.shapeOk, h1, h2], rfl⟩
  | .codeFence ls p ld info lang ln og, _, b, h => by
    simp only [mkBlock] at h; cases h; exact ⟨rfl, rfl⟩
  | .thematicBreak line ln og, _, b, h => by
    simp only [mkBlock] at h; cases h; exact ⟨rfl, rfl⟩
  | .list items ln og, hw, b, h => by
    simp only [mkBlock] at h
    simp only [EntryWF] at hw
    cases hk : mkItems cfg fn items with
    | err e => rw [hk] at h; cases h
    | ok its =>
      rw [hk] at h
      obtain ⟨h1, h2, h3⟩ := mkItems_shape cfg fn items hw.2 its hk
      cases items with
      | nil => exact absurd rfl hw.1
      | cons x xs =>
        cases x with
        | mk inner lo ind pre leader iln iog =>
          simp only at h
          cases h
          have hits : ∃ kids more, its = .listItem leader ind pre lo kids iln :: more := by
            simp only [mkItems] at hk
            split at hk
            · cases hk
            · split at hk
              · cases hk
              · cases hk; exact ⟨_, _, rfl⟩
          obtain ⟨kids, more, rfl⟩ := hits
          have hld : LeaderOk leader := by
            have := hw.2
            simp only [ItemsWF, ItemWF] at this
            exact this.1.1
          have hs := leaderStartOk_mk leader hld
          refine ⟨?_, rfl⟩
          simp only [bne_iff_ne, ne_eq, ite_not] at hs
          simp [Block.shapeOk, listStartOk, hs, h2, h3]
  | .table lines sl ln og, hw, b, h => by
    simp only [EntryWF] at hw
    obtain ⟨l0, l1, rest, rfl, _, hdash⟩ := hw
    simp only [mkBlock, hdash, if_true] at h
    cases ha : mapRes parseAlign (findAligns l1) with
    | err e => rw [ha] at h; cases h
    | ok align =>
      rw [ha] at h
      simp only at h
      cases hh : tableRow cfg fn l0 align sl with
      | err e => rw [hh] at h; cases h
      | ok header =>
        rw [hh] at h
        simp only at h
        cases hr : tableRows cfg fn rest align (sl + 2) with
        | err e => rw [hr] at h; cases h
        | ok rows =>
          rw [hr] at h
          cases h
          obtain ⟨h1, h2⟩ := tableRow_shape cfg fn l0 align sl header hh
          obtain ⟨h3, h4⟩ := tableRows_shape cfg fn rest align (sl + 2) rows hr
          exact ⟨by simp [Block.shapeOk, shapeOkL, h1, h2, h3, h4], rfl⟩
  | .footnote ms ln og, _, b, h => by
    simp only [mkBlock] at h; cases h
  | .linkRefDefs ms ln og, _, b, h => by
    simp only [mkBlock] at h; cases h
    exact ⟨by simp only [Block.shapeOk]; exact linkRefDefs_shape ms, rfl⟩
  | .paragraph lines ln og, _, b, h => by
    simp only [mkBlock] at h
    split at h
    · cases h
    · cases h; exact ⟨rfl, rfl⟩
  | .setext lines ln og, _, b, h => by
    simp only [mkBlock] at h
    split at h
    · cases h
    · split at h
      · cases h
      · cases h
        refine ⟨?_, rfl⟩
        simp only [Block.shapeOk]
        split <;> rfl
  | .htmlBlock lines ln og, _, b, h => by
    simp only [mkBlock] at h; cases h; exact ⟨rfl, rfl⟩
  | .blankLine ln og, _, b, h => by
    simp only [mkBlock] at h; cases h; exact ⟨rfl, rfl⟩
/-- `make_tokens(parse_buffer)` on a well-formed buffer: well-shaped flow blocks only -/
theorem mkBlocks_shape (cfg : Cfg) (fn : Footnotes.Table) :
    ∀ (es : List Entry), EntriesWF es → ∀ (bs : List Mistletoe.Block), mkBlocks cfg fn es = .ok bs →
      bs.all Block.isFlow = true ∧ shapeOkL bs = true
  | [], _, bs, h => by
    simp only [mkBlocks] at h; cases h; exact ⟨rfl, rfl⟩
  | e :: es, hw, bs, h => by
    simp only [EntriesWF] at hw
    simp only [mkBlocks] at h
    cases hb : mkBlock cfg fn e with
    | err er => rw [hb] at h; cases h
    | ok b =>
      rw [hb] at h
      simp only at h
      cases hm : mkBlocks cfg fn es with
      | err er => rw [hm] at h; cases h
      | ok more =>
        rw [hm] at h
        obtain ⟨h3, h4⟩ := mkBlocks_shape cfg fn es hw.2 more hm
        cases b with
        | none => cases h; exact ⟨h3, h4⟩
        | some x =>
          cases h
          obtain ⟨h1, h2⟩ := mkBlock_shape cfg fn e hw.1 x hb
          simp [shapeOkL, h1, h2, h3, h4]
/-- the `ListItem` constructors: `.listItem`s only, each well-shaped -/
theorem mkItems_shape (cfg : Cfg) (fn : Footnotes.Table) :
    ∀ (is : List Item), ItemsWF is → ∀ (bs : List Mistletoe.Block), mkItems cfg fn is = .ok bs →
      bs.isEmpty = is.isEmpty ∧ bs.all Block.isListItem = true ∧ shapeOkL bs = true
  | [], _, bs, h => by
    simp only [mkItems] at h; cases h; exact ⟨rfl, rfl, rfl⟩
  | .mk inner lo ind pre ld ln og :: rest, hw, bs, h => by
    simp only [ItemsWF, ItemWF] at hw
    simp only [mkItems] at h
    cases hk : mkBlocks cfg fn inner with
    | err e => rw [hk] at h; cases h
    | ok kids =>
      rw [hk] at h
      simp only at h
      cases hm : mkItems cfg fn rest with
      | err e => rw [hm] at h; cases h
      | ok more =>
        rw [hm] at h
        cases h
        obtain ⟨h1, h2⟩ := mkBlocks_shape cfg fn inner hw.1.2 kids hk
        obtain ⟨_, h3, h4⟩ := mkItems_shape cfg fn rest hw.2 more hm
        simp [shapeOkL, Block.shapeOk, Block.isListItem, h1, h2, h3, h4]
end

/-- **every parsed document is well-shaped** (lines version), for every configuration and every gas -/
theorem parse_shapeOk (cfg : Cfg) (gas : Nat) (lines : List Str) (d : Doc)
    (h : parseLines cfg gas lines = .ok d) (hl : ∀ s ∈ lines, NlEnd s) : d.shapeOk = true := by
  unfold parseLines at h
  split at h
  · cases h
  · rename_i buf st hb
    simp only at h
    cases hk : mkBlocks cfg (footnotesOf st.defs) buf.entries with
    | err e => rw [hk] at h; cases h
    | ok kids =>
      rw [hk] at h
      cases h
      obtain ⟨h1, h2⟩ := mkBlocks_shape cfg _ buf.entries (blockPhase_wf cfg.block gas lines buf st hl hb) kids hk
      simp [Doc.shapeOk, h1, h2]

theorem parse_shapeOk_str (cfg : Cfg) (gas : Nat) (t : Str) (d : Doc)
    (h : parse cfg gas t = .ok d) : d.shapeOk = true :=
  parse_shapeOk cfg gas _ d h (Props.C13.normalize_str_nlEnd t)

end Mistletoe.Document

namespace Mistletoe.Props.C12
open Mistletoe Mistletoe.Block Mistletoe.Lines

/-- **C12 (kinds of children, scalar ranges)**: every document the model parses from complete lines is
    well-shaped, whatever the block- and span-token lists, the flags and the gas. -/
theorem C12_parsed_shape (cfg : Document.Cfg) (gas : Nat) (lines : List Str) (d : Doc)
    (h : Document.parseLines cfg gas lines = .ok d) (hl : ∀ s ∈ lines, NlEnd s) : d.shapeOk = true :=
  Document.parse_shapeOk cfg gas lines d h hl

/-- the same for `Document(text)` given one `str`: no hypothesis on the text -/
theorem C12_parsed_shape_str (cfg : Document.Cfg) (gas : Nat) (t : Str) (d : Doc)
    (h : Document.parse cfg gas t = .ok d) : d.shapeOk = true :=
  Document.parse_shapeOk_str cfg gas t d h

/-! ### Non-vacuity -/

/-- the default configuration (no renderer active), literally -/
def cfgD : Document.Cfg :=
  { block := { types := [.blockCode, .heading, .quote, .codeFence, .thematicBreak, .list, .table, .footnote, .paragraph] },
    span := [.escapeSequence, .strikethrough, .autoLink, .coreTokens, .inlineCode, .lineBreak] }

example : Config.default = some cfgD := by decide +kernel

def sampleText : Str :=
  "3. a\n   - b\n   - c\n4. d\n\n| h | k |\n|---|:-:|\n| 1 | *2* |\n\n> # Q\n> r\n\n```py\ncode\n```\nT\n=\n".toList

/-- an ordered list starting at 3 with a nested bullet list, a table, a quote with a heading, a fenced code block,
    a setext heading: the parse returns and the document is well-shaped -/
example : (Document.parse cfgD 60 sampleText).map Doc.shapeOk = .ok true := by decide +kernel

/-- what was parsed -/
def sampleSkeleton : Res Doc → Bool
  | .ok ⟨[.list _ (some 3) [.listItem ['3', '.'] _ _ _ [.paragraph _ _, .list _ none [.listItem ['-'] _ _ _ _ _, .listItem ['-'] _ _ _ _ _] _] _,
                           .listItem ['4', '.'] _ _ _ _ _] _,
          .table _ [.tableRow _ [.tableCell _ _ _, .tableCell _ _ _] _] [.tableRow _ [.tableCell _ _ _, .tableCell _ [.rawText _] _] _] _,
          .quote [.heading 1 _ _ _, .paragraph _ _] _,
          .codeFence _ _ _ _ _ _,
          .setextHeading 1 _ _ _], _⟩ => true
  | _ => false

example : sampleSkeleton (Document.parse cfgD 60 sampleText) = true := by decide +kernel

/-- the predicate is not trivially true: a list holding a paragraph, a quote holding a list item, a table row
    outside a table, a heading of level 7, a start that disagrees with the first marker -/
example : (Block.list false none [.paragraph [] 1] 1).shapeOk = false := by decide
example : (Block.quote [.listItem ['-'] 0 2 false [] 1] 1).shapeOk = false := by decide
example : Doc.shapeOk ⟨[.tableRow [none] [] 1], []⟩ = false := by decide
example : (Block.heading 7 [] [] 1).shapeOk = false := by decide
example : (Block.list false (some 4) [.listItem ['3', '.'] 0 3 false [] 1] 1).shapeOk = false := by decide +kernel
example : (Block.list false (some 3) [.listItem ['3', '.'] 0 3 false [] 1] 1).shapeOk = true := by decide +kernel
example : (Block.list false none [] 1).shapeOk = false := by decide

/-- the theorem applied to the sample -/
example (d : Doc) (h : Document.parse cfgD 60 sampleText = .ok d) : d.shapeOk = true :=
  C12_parsed_shape_str cfgD 60 sampleText d h

end Mistletoe.Props.C12

section Audit
open Mistletoe.Props.C12
#print axioms C12_parsed_shape
#print axioms C12_parsed_shape_str
end Audit
