/-
  C12, clause "containers hold only the kinds of children their documentation states … scalar
  attributes are in range": the KIND discipline of the token tree, as a decidable predicate on the
  AST (`Block.shapeOk`, `Doc.shapeOk`) and a theorem about every parsed document, for every
  configuration.

  In `Model/Ast.lean` inline tokens cannot contain blocks (typing) and code/HTML blocks carry their one
  raw text as a field; but the child lists of `.list`, `.listItem`, `.quote`, `.table`, `.tableRow` and
  of the document are plain `List Block`.  `shapeOk` says what they hold:

  * `.list`: at least one child, every child a `.listItem`, and `start` read off the first child's
    leader (`leaderStartOk`): the leader is a list marker (`isMarker`: `-`, `+`, `*`, or 1–9 digits and
    `.`/`)`), a bullet ↔ `start = none`, an ordered marker ↔ `start = some (int(digits))` (< 10^9);
  * `.listItem`, `.quote`, document: no child is a `.listItem`, `.tableRow`, `.tableCell` (`isFlow`);
  * `.table`: `header` holds at most one block; every block of `header`/`rows` is a `.tableRow`;
  * `.tableRow`: every child is a `.tableCell` (whose children are inline by typing);
  * `.heading`: 1 ≤ level ≤ 6; `.setextHeading`: level 1 or 2;
  * `.linkRefDefBlock`: every child is a `.linkRefDef`;
  * recursively for all children.  Since every container constrains the kind of every child,
    `.listItem` occurs only directly under `.list`, `.tableRow` only under `.table`, `.tableCell` only
    under `.tableRow`.
-/
import Mistletoe.Proofs.DocTotal
import Mistletoe.Props.C13
import Mistletoe.Model.Config
namespace Mistletoe
open Mistletoe.Py

/-! ## The predicate -/

def Block.isListItem : Block → Bool
  | .listItem .. => true
  | _ => false
def Block.isTableRow : Block → Bool
  | .tableRow .. => true
  | _ => false
def Block.isTableCell : Block → Bool
  | .tableCell .. => true
  | _ => false
/-- a block that may be a child of Document / Quote / ListItem: anything but the three kinds that
    exist only inside their own container -/
def Block.isFlow (b : Block) : Bool := !(b.isListItem || b.isTableRow || b.isTableCell)

def Inline.isLinkRefDef : Inline → Bool
  | .linkRefDef .. => true
  | _ => false

/-- a list marker as `ListItem.pattern` (`\d{1,9}[.)]|[+\-*]`) matches it: one of `-`, `+`, `*`, or 1–9 decimal
    digits (`\d`: Unicode decimal digits, `isDigit`) followed by `.` or `)` -/
def isMarker (ld : Str) : Bool :=
  if ld.length == 1 then ld == ['+'] || ld == ['-'] || ld == ['*']
  else !ld.dropLast.isEmpty && ld.dropLast.all isDigit && decide (ld.dropLast.length ≤ 9) &&
    (ld.getLast? == some '.' || ld.getLast? == some ')')

/-- `List.start` against the leader of the first item (`List.__init__`: `leader = self.children[0].leader;
    self.start = int(leader[:-1]) if len(leader) != 1 else None`): the leader is a list marker; a bullet ↔ no
    start; for an ordered marker `start` is the value of its digits (`parseNat` = `int`), hence below 10^9. -/
def leaderStartOk (leader : Str) (start : Option Nat) : Bool :=
  isMarker leader &&
    (if leader.length == 1 then start.isNone
     else match start with
       | some n => n == parseNat leader.dropLast && decide (n < 1000000000)
       | none => false)

/-- `start` agrees with the first child's leader (false when there is no first `.listItem`) -/
def listStartOk (start : Option Nat) : List Block → Bool
  | .listItem leader _ _ _ _ _ :: _ => leaderStartOk leader start
  | _ => false

mutual
def Block.shapeOk : Block → Bool
  | .paragraph _ _ => true
  | .heading level _ _ _ => decide (1 ≤ level) && decide (level ≤ 6)
  | .setextHeading level _ _ _ => level == 1 || level == 2
  | .quote kids _ => kids.all Block.isFlow && shapeOkL kids
  | .blockCode _ _ => true
  | .codeFence _ _ _ _ _ _ => true
  | .list _ start items _ =>
    !items.isEmpty && items.all Block.isListItem && listStartOk start items && shapeOkL items
  | .listItem _ _ _ _ kids _ => kids.all Block.isFlow && shapeOkL kids
  | .table _ header rows _ =>
    decide (header.length ≤ 1) && header.all Block.isTableRow && rows.all Block.isTableRow
      && shapeOkL header && shapeOkL rows
  | .tableRow _ cells _ => cells.all Block.isTableCell && shapeOkL cells
  | .tableCell _ _ _ => true
  | .thematicBreak _ _ => true
  | .htmlBlock _ _ => true
  | .blankLine _ => true
  | .linkRefDefBlock defs _ => defs.all Inline.isLinkRefDef
def shapeOkL : List Block → Bool
  | [] => true
  | b :: bs => b.shapeOk && shapeOkL bs
end

/-- the document: its children are flow blocks, each well-shaped -/
def Doc.shapeOk (d : Doc) : Bool := d.kids.all Block.isFlow && shapeOkL d.kids

theorem shapeOkL_iff (bs : List Block) : shapeOkL bs = true ↔ ∀ b ∈ bs, b.shapeOk = true := by
  induction bs with
  | nil => simp [shapeOkL]
  | cons b bs ih => simp [shapeOkL, ih]

/-! ## `int(leader[:-1])` is below 10^9 -/

theorem digitVal_le (c : Char) : digitVal c ≤ 9 := by
  unfold digitVal
  split
  · have := Nat.mod_lt (c.toNat - (by assumption : Nat × Nat).1) (by decide : 10 > 0)
    omega
  · omega

theorem parseNat_fold_lt : ∀ (s : Str) (n : Nat),
    s.foldl (fun n c => n * 10 + digitVal c) n + 1 ≤ (n + 1) * 10 ^ s.length
  | [], n => by simp
  | c :: s, n => by
    have ih := parseNat_fold_lt s (n * 10 + digitVal c)
    have hd := digitVal_le c
    simp only [List.foldl_cons, List.length_cons]
    have h1 : (n * 10 + digitVal c + 1) * 10 ^ s.length ≤ ((n + 1) * 10) * 10 ^ s.length :=
      Nat.mul_le_mul_right _ (by omega)
    have h2 : (n + 1) * 10 ^ (s.length + 1) = ((n + 1) * 10) * 10 ^ s.length := by
      rw [Nat.pow_succ, Nat.mul_assoc, Nat.mul_comm (10 ^ s.length) 10]
    omega

theorem parseNat_lt (s : Str) : parseNat s < 10 ^ s.length := by
  have := parseNat_fold_lt s 0
  unfold parseNat
  omega

theorem parseNat_lt_of_len (s : Str) (h : s.length ≤ 9) : parseNat s < 1000000000 := by
  have h1 := parseNat_lt s
  have h2 : 10 ^ s.length ≤ 10 ^ 9 := Nat.pow_le_pow_right (by decide) h
  have : (10 : Nat) ^ 9 = 1000000000 := by decide
  omega

/-- on ASCII digits `digitVal` is the usual value, so `parseNat` reads an ASCII numeral in base ten
    (other `\d` characters - Unicode decimal digits - are read as `int` reads them) -/
theorem digitVal_ascii (c : Char) (h1 : 48 ≤ c.toNat) (h2 : c.toNat ≤ 57) : digitVal c = c.toNat - 48 := by
  unfold digitVal Gen.Python.decimalDigits
  rw [List.find?_cons_of_pos (by simp [h1, h2])]
  simp only
  omega

theorem parseNat_snoc (s : Str) (c : Char) : parseNat (s ++ [c]) = parseNat s * 10 + digitVal c := by
  simp [parseNat, List.foldl_append]

example : parseNat "3".toList = 3 ∧ parseNat "123456789".toList = 123456789 ∧ parseNat "007".toList = 7 := by
  decide +kernel

/-- for a list marker, the `start` that `List.__init__` computes agrees with it -/
theorem leaderStartOk_mk (leader : Str) (h : isMarker leader = true) :
    leaderStartOk leader (if leader.length != 1 then some (parseNat leader.dropLast) else none) = true := by
  unfold leaderStartOk
  rw [h]
  by_cases h1 : leader.length = 1
  · simp [h1]
  · have hlen : leader.dropLast.length ≤ 9 := by
      unfold isMarker at h
      simp only [beq_iff_eq, h1, if_false, Bool.and_eq_true, decide_eq_true_eq] at h
      exact h.1.2
    have hlt := parseNat_lt_of_len _ hlen
    simp [h1, hlt]

end Mistletoe

namespace Mistletoe.Block
open Mistletoe Mistletoe.Py Mistletoe.Scan

/-! ## Every leader in a parse buffer is a list marker

  `EntryWF` (DocTotal) records what the constructors need of a leader (`LeaderOk`); the kind discipline wants
  the marker itself.  The same simultaneous induction over `gas`, for any property `P` of the markers
  `listMarker` returns (no hypothesis on the lines is needed). -/

theorem listMarker_isMarker (r m r1 : Str) (h : listMarker r = some (m, r1)) : isMarker m = true := by
  unfold listMarker at h
  split at h
  · cases h
  · rename_i c rst
    split at h
    · rename_i hc
      cases h
      simp only [Bool.or_eq_true, beq_iff_eq] at hc
      rcases hc with (rfl | rfl) | rfl <;> rfl
    · simp only at h
      split at h
      · cases h
      · rename_i hlen
        simp only [Bool.or_eq_true, decide_eq_true_eq, not_or, Nat.not_lt] at hlen
        split at h
        · split at h
          · rename_i he
            cases h
            have hall : ((span isDigit (c :: rst)).1).all isDigit = true := by
              rw [List.all_eq_true]; exact span_all isDigit (c :: rst)
            have hne : ((span isDigit (c :: rst)).1).isEmpty = false := by
              cases hd : (span isDigit (c :: rst)).1 with
              | nil => rw [hd] at hlen; simp at hlen
              | cons _ _ => rfl
            have hl1 : ((span isDigit (c :: rst)).1).length ≠ 0 := by omega
            simp only [Bool.or_eq_true, beq_iff_eq] at he
            unfold isMarker
            simp only [List.length_append, List.length_cons, List.length_nil, List.dropLast_concat, hall, hne,
              List.getLast?_concat, beq_iff_eq]
            simp [hl1, hlen.2, he]
          · cases h
        · cases h

section Leaders
variable (P : Str → Prop)

mutual
/-- every item at any depth has a leader satisfying `P` -/
def LdEntry : Entry → Prop
  | .blockCode _ _ _ => True
  | .heading _ _ _ _ _ => True
  | .quote inner _ _ _ => LdEntries inner
  | .codeFence _ _ _ _ _ _ _ => True
  | .thematicBreak _ _ _ => True
  | .list items _ _ => LdItems items
  | .table _ _ _ _ => True
  | .footnote _ _ _ => True
  | .linkRefDefs _ _ _ => True
  | .paragraph _ _ _ => True
  | .setext _ _ _ => True
  | .htmlBlock _ _ _ => True
  | .blankLine _ _ => True
def LdEntries : List Entry → Prop
  | [] => True
  | e :: es => LdEntry e ∧ LdEntries es
def LdItem : Item → Prop
  | .mk inner _ _ _ leader _ _ => P leader ∧ LdEntries inner
def LdItems : List Item → Prop
  | [] => True
  | i :: is => LdItem i ∧ LdItems is
end

theorem ldEntries_append : ∀ (a b : List Entry), LdEntries P a → LdEntries P b → LdEntries P (a ++ b)
  | [], _, _, hb => by simpa using hb
  | x :: xs, b, ha, hb => by
    simp only [List.cons_append, LdEntries] at ha ⊢
    exact ⟨ha.1, ldEntries_append xs b ha.2 hb⟩

theorem ldEntries_reverse : ∀ (a : List Entry), LdEntries P a → LdEntries P a.reverse
  | [], _ => by simp [LdEntries]
  | x :: xs, h => by
    simp only [LdEntries] at h
    rw [List.reverse_cons]
    exact ldEntries_append P _ _ (ldEntries_reverse xs h.2) (by simp [LdEntries, h.1])

theorem ldItems_append : ∀ (a b : List Item), LdItems P a → LdItems P b → LdItems P (a ++ b)
  | [], _, _, hb => by simpa using hb
  | x :: xs, b, ha, hb => by
    simp only [List.cons_append, LdItems] at ha ⊢
    exact ⟨ha.1, ldItems_append xs b ha.2 hb⟩

theorem ldItems_reverse : ∀ (a : List Item), LdItems P a → LdItems P a.reverse
  | [], _ => by simp [LdItems]
  | x :: xs, h => by
    simp only [LdItems] at h
    rw [List.reverse_cons]
    exact ldItems_append P _ _ (ldItems_reverse xs h.2) (by simp [LdItems, h.1])

variable (hP : ∀ r m r1, listMarker r = some (m, r1) → P m)
include hP

theorem listItem_P (line : Str) (im : ItemMatch) (h : Scan.listItem line = some im) : P im.g2 := by
  unfold Scan.listItem at h
  split at h
  · cases h
  · split at h
    · cases h
    · rename_i mk r1 hm
      have := hP _ mk r1 hm
      split at h
      · cases h; exact this
      · simp only at h
        split at h
        · cases h
        · cases h; exact this

theorem parseMarker_P (line : Str) (m) (h : parseMarker line = some m) : P m.2.2.1 := by
  unfold parseMarker at h
  split at h
  · cases h
  · rename_i im hi
    have := listItem_P P hP line im hi
    simp only at h
    split at h <;> (cases h; exact this)

theorem itemLines_P (cfg : Cfg) (fw : FW) (prev) (il : ItemLines) (h : itemLines cfg fw prev = .ok il)
    (hprev : ∀ m, prev = some m → P m.2.2.1) : P il.leader := by
  unfold itemLines at h
  split at h
  · cases h
  · rename_i l0 hp
    simp only at h
    split at h
    · cases h
    · rename_i ind pre0 ld content hmk
      have hld : P ld := by
        cases prev with
        | some m => simp only [Option.some.injEq] at hmk; subst hmk; exact hprev _ rfl
        | none => exact parseMarker_P P hP l0.s _ hmk
      split at h
      · split at h
        · cases h; exact hld
        · split at h
          · cases h
          · cases h; exact hld
      · split at h
        · cases h
        · cases h; exact hld

def TokLd (cfg : Cfg) (gas : Nat) : Prop :=
  ∀ (lines : List Line) (start : Nat) (st : St) (b : Buf) (st' : St),
    tokenizeBlock cfg gas lines start st = .ok (b, st') → LdEntries P b.entries

def LoopLd (cfg : Cfg) (gas : Nat) : Prop :=
  ∀ (fw : FW) (st : St) (acc : List Entry) (loose : Bool) (b) (st'),
    tokLoop cfg gas fw st acc loose = .ok (b, st') → LdEntries P acc → LdEntries P b.entries

def TryLd (cfg : Cfg) (gas : Nat) : Prop :=
  ∀ (fw : FW) (st : St) (l : Line) (ts : List BTok) (e : Entry) (fw' : FW) (st' : St),
    tryTypes cfg gas fw st l ts = .ok (some (e, fw', st')) → LdEntry P e

def ListLd (cfg : Cfg) (gas : Nat) : Prop :=
  ∀ (fw : FW) (st : St) (ld) (nm) (acc : List Item) (r),
    readList cfg gas fw st ld nm acc = .ok r →
    (∀ m, nm = some m → ∃ l, fw.peek = some l ∧ parseMarker l.s = some m) →
    LdItems P acc → LdItems P r.1

omit hP in
theorem list_ld_stop (st' : St) (items : List Item) (fwEnd : FW) (rr : List Item × FW × St) (hi : LdItems P items)
    (he : (Res.ok ((match items with
            | .mk inner loose i p l n g :: rest => Item.mk inner (decide (inner.length > 1) && loose) i p l n g :: rest
            | [] => []).reverse, fwEnd, st') : Res _) = .ok rr) : LdItems P rr.1 := by
  cases he
  cases items with
  | nil => simp [LdItems]
  | cons x xs =>
    cases x
    simp only [LdItems, LdItem] at hi
    refine ldItems_reverse P _ ?_
    simp only [LdItems, LdItem]
    exact hi

theorem list_ld (cfg : Cfg) (gas : Nat) (hT : TokLd P cfg gas) (hL : ListLd P cfg gas) : ListLd P cfg (gas + 1) := by
  intro fw st ld nm acc r h hmk hacc
  have hmkl : ∀ m, nm = some m → P m.2.2.1 := by
    intro m hm
    obtain ⟨l, _, hl2⟩ := hmk m hm
    exact parseMarker_P P hP l.s m hl2
  simp only [readList] at h
  split at h
  · exact list_ld_stop P st acc _ r hacc h
  split at h
  · cases h
  · rename_i il hil
    have hnp := itemLines_next_marker cfg fw nm il hil
    have hlead := itemLines_P P hP cfg fw nm il hil hmkl
    have key : ∀ (item : Item) (itemLeader : Str) (next : Option (Nat × Nat × Str × Str)) (fw' : FW) (st' : St),
        (match il with
          | .empty ind pre ldr ln og next fw' => (Res.ok (Item.mk [] true ind pre ldr ln og, ldr, next, fw', st) : Res _)
          | .lines buf cstart ind pre ldr ln og next fw' =>
            match tokenizeBlock cfg gas buf cstart st with
            | .err e => .err e
            | .ok (b, st') => .ok (Item.mk b.entries b.loose ind pre ldr ln og, ldr, next, fw', st'))
          = .ok (item, itemLeader, next, fw', st') → fw' = il.fw ∧ next = il.next ∧ LdItem P item := by
      intro item itemLeader next fw' st' he
      cases il with
      | empty ind pre ldr ln og nx fwx =>
        simp only at he; cases he
        exact ⟨rfl, rfl, hlead, trivial⟩
      | lines buf cstart ind pre ldr ln og nx fwx =>
        simp only at he
        split at he
        · cases he
        · rename_i b stb hb
          cases he
          exact ⟨rfl, rfl, hlead, hT _ _ _ _ _ hb⟩
    split at h
    · cases h
    · rename_i item itemLeader next fw' st' hres
      obtain ⟨hk, hk2, hkw⟩ := key item itemLeader next fw' st' hres
      subst hk; subst hk2
      have hacc' : LdItems P (item :: acc) := ⟨hkw, hacc⟩
      split at h
      · split at h
        · exact list_ld_stop P st' _ _ r hacc' h
        · exact hL il.fw st' _ _ _ r h hnp hacc'
      · split at h
        · exact list_ld_stop P st' _ _ r hacc' h
        · exact hL il.fw st' _ _ _ r h hnp hacc'

omit hP in
theorem try_ld (cfg : Cfg) (gas : Nat) (hT : TokLd P cfg gas) (hL : ListLd P cfg gas) (hY : TryLd P cfg gas) :
    TryLd P cfg (gas + 1) := by
  intro fw st l ts e fw' st' h
  cases ts with
  | nil => simp [tryTypes] at h
  | cons t ts =>
    have ih := fun fw2 st2 (h2 : tryTypes cfg gas fw2 st2 l ts = .ok (some (e, fw', st'))) =>
      hY fw2 st2 l ts e fw' st' h2
    unfold tryTypes at h
    cases t <;> simp only at h
    · -- htmlBlock
      split at h
      · cases h
      · exact ih fw st h
      · cases h; trivial
    · -- blockCode
      split at h
      · cases h; trivial
      · exact ih fw st h
    · -- heading
      split at h
      · cases h; trivial
      · exact ih fw st h
    · -- quote
      split at h
      · split at h
        · cases h
        · split at h
          · cases h
          · rename_i b stb hb
            cases h
            exact hT _ _ _ _ _ hb
      · exact ih fw st h
    · -- codeFence
      split at h
      · cases h; trivial
      · exact ih fw st h
    · -- thematicBreak
      split at h
      · cases h; trivial
      · exact ih fw st h
    · -- list
      split at h
      · split at h
        · cases h
        · rename_i items fwl stl hrl
          cases h
          exact hL fw st none none [] _ hrl (fun m hm => by cases hm) trivial
      · exact ih fw st h
    · -- table
      split at h
      · split at h
        · cases h; trivial
        · exact ih fw st h
      · exact ih fw st h
    · -- footnote
      split at h
      · split at h
        · cases h
        · split at h
          · exact ih _ _ h
          · cases h; trivial
      · exact ih fw st h
    · -- paragraph
      split at h
      · split at h
        · cases h
        · cases h; trivial
        · cases h; trivial
      · exact ih fw st h
    · -- blankLine
      split at h
      · cases h; trivial
      · exact ih fw st h
    · -- linkRefDefBlock
      split at h
      · split at h
        · cases h
        · split at h
          · exact ih _ _ h
          · cases h; trivial
      · exact ih fw st h

omit hP in
theorem loop_ld (cfg : Cfg) (gas : Nat) (hY : TryLd P cfg gas) (hPl : LoopLd P cfg gas) : LoopLd P cfg (gas + 1) := by
  intro fw st acc loose b st' h hacc
  simp only [tokLoop] at h
  split at h
  · cases h; exact ldEntries_reverse P acc hacc
  · rename_i l hp
    split at h
    · cases h
    · rename_i e fw2 st2 ht
      exact hPl fw2 st2 _ loose b st' h ⟨hY fw st l cfg.types e fw2 st2 ht, hacc⟩
    · exact hPl fw.next st acc true b st' h hacc

omit hP in
theorem tok_ld (cfg : Cfg) (gas : Nat) (hPl : LoopLd P cfg gas) : TokLd P cfg (gas + 1) := by
  intro lines start st b st' h
  simp only [tokenizeBlock] at h
  exact hPl _ _ _ _ _ _ h trivial

theorem all_ld (cfg : Cfg) : ∀ (gas : Nat), TokLd P cfg gas ∧ LoopLd P cfg gas ∧ TryLd P cfg gas ∧ ListLd P cfg gas
  | 0 => by
    refine ⟨?_, ?_, ?_, ?_⟩
    · intro lines start st b st' h; simp [tokenizeBlock] at h
    · intro fw st acc loose b st' h; simp [tokLoop] at h
    · intro fw st l ts e fw' st' h; simp [tryTypes] at h
    · intro fw st ld nm acc r h; simp [readList] at h
  | gas + 1 => by
    obtain ⟨hT, hPl, hY, hL⟩ := all_ld cfg gas
    exact ⟨tok_ld P cfg gas hPl, loop_ld P cfg gas hY hPl, try_ld P cfg gas hT hL hY, list_ld P hP cfg gas hT hL⟩

end Leaders

/-- "is a list marker" as a property of leaders -/
def MarkerP (ld : Str) : Prop := isMarker ld = true

/-- **every leader in the buffer of the block phase, at every depth, is a list marker** (for every list of
    lines, complete or not) -/
theorem blockPhase_markers (cfg : Cfg) (gas : Nat) (lines : List Str) (b : Buf) (st : St)
    (h : blockPhase cfg gas lines = .ok (b, st)) : LdEntries MarkerP b.entries :=
  (all_ld MarkerP listMarker_isMarker cfg gas).1 _ 1 {} b st h

end Mistletoe.Block

namespace Mistletoe.Document
open Mistletoe Mistletoe.Py Mistletoe.Scan Mistletoe.Block Mistletoe.Inline

/-! ## The block token constructors produce well-shaped trees -/

theorem tableRow_go_shape (cfg : Cfg) (fn : Footnotes.Table) (ln : Nat) :
    ∀ (zs : List (Option Str × Option Nat)) (cs : List Mistletoe.Block), tableRow.go cfg fn ln zs = .ok cs →
      cs.all Block.isTableCell = true ∧ shapeOkL cs = true
  | [], cs, h => by
    simp only [tableRow.go] at h
    cases h
    exact ⟨rfl, rfl⟩
  | (c, a) :: rest, cs, h => by
    simp only [tableRow.go] at h
    split at h
    · cases h
    · rename_i kids _
      cases hr : tableRow.go cfg fn ln rest with
      | err e => rw [hr] at h; cases h
      | ok more =>
        rw [hr] at h
        cases h
        obtain ⟨h1, h2⟩ := tableRow_go_shape cfg fn ln rest more hr
        simp [Block.isTableCell, shapeOkL, Block.shapeOk, h1, h2]

theorem tableRow_shape (cfg : Cfg) (fn : Footnotes.Table) (line : Str) (al : List (Option Nat)) (ln : Nat)
    (r : Mistletoe.Block) (h : tableRow cfg fn line al ln = .ok r) : r.isTableRow = true ∧ r.shapeOk = true := by
  unfold tableRow at h
  simp only at h
  split at h
  · cases h
  · rename_i cs hcs
    cases h
    obtain ⟨h1, h2⟩ := tableRow_go_shape cfg fn ln _ cs hcs
    simp [Block.isTableRow, Block.shapeOk, h1, h2]

theorem tableRows_shape (cfg : Cfg) (fn : Footnotes.Table) :
    ∀ (ls : List Str) (al : List (Option Nat)) (ln : Nat) (rs : List Mistletoe.Block),
      tableRows cfg fn ls al ln = .ok rs → rs.all Block.isTableRow = true ∧ shapeOkL rs = true
  | [], _, _, rs, h => by
    simp only [tableRows] at h
    cases h
    exact ⟨rfl, rfl⟩
  | l :: rest, al, ln, rs, h => by
    simp only [tableRows] at h
    cases hr : tableRow cfg fn l al ln with
    | err e => rw [hr] at h; cases h
    | ok r =>
      rw [hr] at h
      simp only at h
      cases hm : tableRows cfg fn rest al (ln + 1) with
      | err e => rw [hm] at h; cases h
      | ok more =>
        rw [hm] at h
        cases h
        obtain ⟨h1, h2⟩ := tableRow_shape cfg fn l al ln r hr
        obtain ⟨h3, h4⟩ := tableRows_shape cfg fn rest al (ln + 1) more hm
        simp [shapeOkL, h1, h2, h3, h4]

theorem linkRefDefs_shape (ms : List FnMatch) : (ms.map linkRefDef).all Inline.isLinkRefDef = true := by
  simp [List.all_map, linkRefDef, Inline.isLinkRefDef]

mutual
/-- `token_type(result)` on a well-formed entry: a well-shaped flow block -/
theorem mkBlock_shape (cfg : Cfg) (fn : Footnotes.Table) :
    ∀ (e : Entry), EntryWF e → LdEntry MarkerP e → ∀ (b : Mistletoe.Block), mkBlock cfg fn e = .ok (some b) →
      b.shapeOk = true ∧ b.isFlow = true
  | .blockCode ls ln og, _, _, b, h => by
    simp only [mkBlock] at h; cases h; exact ⟨rfl, rfl⟩
  | .heading lvl content closing ln og, hw, hm, b, h => by
    simp only [mkBlock] at h
    simp only [EntryWF] at hw
    split at h
    · cases h
    · cases h
      exact ⟨by simp [Block.shapeOk, hw.1, hw.2], rfl⟩
  | .quote inner lo ln og, hw, hm, b, h => by
    simp only [mkBlock] at h
    simp only [EntryWF] at hw
    cases hk : mkBlocks cfg fn inner with
    | err e => rw [hk] at h; cases h
    | ok kids =>
      rw [hk] at h
      cases h
      obtain ⟨h1, h2⟩ := mkBlocks_shape cfg fn inner hw (by simpa only [LdEntry] using hm) kids hk
      exact ⟨by simp [Block.shapeOk, h1, h2], rfl⟩
  | .codeFence ls p ld info lang ln og, _, _, b, h => by
    simp only [mkBlock] at h; cases h; exact ⟨rfl, rfl⟩
  | .thematicBreak line ln og, _, _, b, h => by
    simp only [mkBlock] at h; cases h; exact ⟨rfl, rfl⟩
  | .list items ln og, hw, hm, b, h => by
    simp only [mkBlock] at h
    simp only [EntryWF] at hw
    cases hk : mkItems cfg fn items with
    | err e => rw [hk] at h; cases h
    | ok its =>
      rw [hk] at h
      obtain ⟨h1, h2, h3⟩ := mkItems_shape cfg fn items hw.2 (by simpa only [LdEntry] using hm) its hk
      cases items with
      | nil => exact absurd rfl hw.1
      | cons x xs =>
        cases x with
        | mk inner lo ind pre leader iln iog =>
          simp only at h
          cases h
          have hits : ∃ kids more, its = .listItem leader ind pre lo kids iln :: more := by
            simp only [mkItems] at hk
            split at hk
            · cases hk
            · split at hk
              · cases hk
              · cases hk; exact ⟨_, _, rfl⟩
          obtain ⟨kids, more, rfl⟩ := hits
          have hld : isMarker leader = true := by
            simp only [LdEntry, LdItems, LdItem] at hm
            exact hm.1.1
          have hs := leaderStartOk_mk leader hld
          refine ⟨?_, rfl⟩
          simp only [bne_iff_ne, ne_eq, ite_not] at hs
          simp [Block.shapeOk, listStartOk, hs, h2, h3]
  | .table lines sl ln og, hw, hm, b, h => by
    simp only [EntryWF] at hw
    obtain ⟨l0, l1, rest, rfl, _, hdash⟩ := hw
    simp only [mkBlock, hdash, if_true] at h
    cases ha : mapRes parseAlign (findAligns l1) with
    | err e => rw [ha] at h; cases h
    | ok align =>
      rw [ha] at h
      simp only at h
      cases hh : tableRow cfg fn l0 align sl with
      | err e => rw [hh] at h; cases h
      | ok header =>
        rw [hh] at h
        simp only at h
        cases hr : tableRows cfg fn rest align (sl + 2) with
        | err e => rw [hr] at h; cases h
        | ok rows =>
          rw [hr] at h
          cases h
          obtain ⟨h1, h2⟩ := tableRow_shape cfg fn l0 align sl header hh
          obtain ⟨h3, h4⟩ := tableRows_shape cfg fn rest align (sl + 2) rows hr
          exact ⟨by simp [Block.shapeOk, shapeOkL, h1, h2, h3, h4], rfl⟩
  | .footnote ms ln og, _, _, b, h => by
    simp only [mkBlock] at h; cases h
  | .linkRefDefs ms ln og, _, _, b, h => by
    simp only [mkBlock] at h; cases h
    exact ⟨by simp only [Block.shapeOk]; exact linkRefDefs_shape ms, rfl⟩
  | .paragraph lines ln og, _, _, b, h => by
    simp only [mkBlock] at h
    split at h
    · cases h
    · cases h; exact ⟨rfl, rfl⟩
  | .setext lines ln og, _, _, b, h => by
    simp only [mkBlock] at h
    split at h
    · cases h
    · split at h
      · cases h
      · cases h
        refine ⟨?_, rfl⟩
        simp only [Block.shapeOk]
        split <;> rfl
  | .htmlBlock lines ln og, _, _, b, h => by
    simp only [mkBlock] at h; cases h; exact ⟨rfl, rfl⟩
  | .blankLine ln og, _, _, b, h => by
    simp only [mkBlock] at h; cases h; exact ⟨rfl, rfl⟩
/-- `make_tokens(parse_buffer)` on a well-formed buffer: well-shaped flow blocks only -/
theorem mkBlocks_shape (cfg : Cfg) (fn : Footnotes.Table) :
    ∀ (es : List Entry), EntriesWF es → LdEntries MarkerP es → ∀ (bs : List Mistletoe.Block), mkBlocks cfg fn es = .ok bs →
      bs.all Block.isFlow = true ∧ shapeOkL bs = true
  | [], _, _, bs, h => by
    simp only [mkBlocks] at h; cases h; exact ⟨rfl, rfl⟩
  | e :: es, hw, hm, bs, h => by
    simp only [LdEntries] at hm
    simp only [EntriesWF] at hw
    simp only [mkBlocks] at h
    cases hb : mkBlock cfg fn e with
    | err er => rw [hb] at h; cases h
    | ok b =>
      rw [hb] at h
      simp only at h
      cases hmo : mkBlocks cfg fn es with
      | err er => rw [hmo] at h; cases h
      | ok more =>
        rw [hmo] at h
        obtain ⟨h3, h4⟩ := mkBlocks_shape cfg fn es hw.2 hm.2 more hmo
        cases b with
        | none => cases h; exact ⟨h3, h4⟩
        | some x =>
          cases h
          obtain ⟨h1, h2⟩ := mkBlock_shape cfg fn e hw.1 hm.1 x hb
          simp [shapeOkL, h1, h2, h3, h4]
/-- the `ListItem` constructors: `.listItem`s only, each well-shaped -/
theorem mkItems_shape (cfg : Cfg) (fn : Footnotes.Table) :
    ∀ (is : List Item), ItemsWF is → LdItems MarkerP is → ∀ (bs : List Mistletoe.Block), mkItems cfg fn is = .ok bs →
      bs.isEmpty = is.isEmpty ∧ bs.all Block.isListItem = true ∧ shapeOkL bs = true
  | [], _, _, bs, h => by
    simp only [mkItems] at h; cases h; exact ⟨rfl, rfl, rfl⟩
  | .mk inner lo ind pre ld ln og :: rest, hw, hm, bs, h => by
    simp only [LdItems, LdItem] at hm
    simp only [ItemsWF, ItemWF] at hw
    simp only [mkItems] at h
    cases hk : mkBlocks cfg fn inner with
    | err e => rw [hk] at h; cases h
    | ok kids =>
      rw [hk] at h
      simp only at h
      cases hmo : mkItems cfg fn rest with
      | err e => rw [hmo] at h; cases h
      | ok more =>
        rw [hmo] at h
        cases h
        obtain ⟨h1, h2⟩ := mkBlocks_shape cfg fn inner hw.1.2 hm.1.2 kids hk
        obtain ⟨_, h3, h4⟩ := mkItems_shape cfg fn rest hw.2 hm.2 more hmo
        simp [shapeOkL, Block.shapeOk, Block.isListItem, h1, h2, h3, h4]
end

/-- **every parsed document is well-shaped** (lines version), for every configuration and every gas -/
theorem parse_shapeOk (cfg : Cfg) (gas : Nat) (lines : List Str) (d : Doc)
    (h : parseLines cfg gas lines = .ok d) (hl : ∀ s ∈ lines, NlEnd s) : d.shapeOk = true := by
  unfold parseLines at h
  split at h
  · cases h
  · rename_i buf st hb
    simp only at h
    cases hk : mkBlocks cfg (footnotesOf st.defs) buf.entries with
    | err e => rw [hk] at h; cases h
    | ok kids =>
      rw [hk] at h
      cases h
      obtain ⟨h1, h2⟩ := mkBlocks_shape cfg _ buf.entries (blockPhase_wf cfg.block gas lines buf st hl hb)
        (blockPhase_markers cfg.block gas lines buf st hb) kids hk
      simp [Doc.shapeOk, h1, h2]

theorem parse_shapeOk_str (cfg : Cfg) (gas : Nat) (t : Str) (d : Doc)
    (h : parse cfg gas t = .ok d) : d.shapeOk = true :=
  parse_shapeOk cfg gas _ d h (Props.C13.normalize_str_nlEnd t)

end Mistletoe.Document

namespace Mistletoe.Props.C12
open Mistletoe Mistletoe.Block Mistletoe.Lines

/-- **C12 (kinds of children, scalar ranges)**: every document the model parses from complete lines is
    well-shaped, whatever the block- and span-token lists, the flags and the gas. -/
theorem C12_parsed_shape (cfg : Document.Cfg) (gas : Nat) (lines : List Str) (d : Doc)
    (h : Document.parseLines cfg gas lines = .ok d) (hl : ∀ s ∈ lines, NlEnd s) : d.shapeOk = true :=
  Document.parse_shapeOk cfg gas lines d h hl

/-- the same for `Document(text)` given one `str`: no hypothesis on the text -/
theorem C12_parsed_shape_str (cfg : Document.Cfg) (gas : Nat) (t : Str) (d : Doc)
    (h : Document.parse cfg gas t = .ok d) : d.shapeOk = true :=
  Document.parse_shapeOk_str cfg gas t d h

/-! ### Non-vacuity -/

namespace ShapeSample

/-- the default configuration (no renderer active), literally -/
def cfgD : Document.Cfg :=
  { block := { types := [.blockCode, .heading, .quote, .codeFence, .thematicBreak, .list, .table, .footnote, .paragraph] },
    span := [.escapeSequence, .strikethrough, .autoLink, .coreTokens, .inlineCode, .lineBreak] }

/-- it is the configuration regenerated from /repo (`Config.default`) -/
example : (match Config.default with
    | some c => c.block.types == cfgD.block.types && c.block.tableInterrupt == cfgD.block.tableInterrupt && c.span == cfgD.span
    | none => false) = true := by decide +kernel

/-- `Doc.shapeOk` of a parse result (`none`: the parse did not return) -/
def shapeOfParse : Res Doc → Option Bool
  | .ok d => some d.shapeOk
  | .err _ => none

/-- an ordered list starting at 3 whose first item holds a nested bullet list, a table with one body row, a
    quote holding a heading and a paragraph, a fenced code block, a setext heading -/
def sampleText : Str :=
  "3. a\n   - b\n   - c\n4. d\n\n| h | k |\n|---|:-:|\n| 1 | *2* |\n\n> # Q\n> r\n\n```py\ncode\n```\nT\n=\n".toList

/-- the parse returns and the document is well-shaped (evaluated by the kernel) -/
example : shapeOfParse (Document.parse cfgD 60 sampleText) = some true := by decide +kernel

mutual
/-- the kinds of a tree in pre-order: one letter per token, child lists in parentheses; a list shows its
    `start` as `#` and that many `+`, an item its leader in brackets, a heading its level as that many `+` -/
def skel : Mistletoe.Block → Str
  | .paragraph _ _ => ['p']
  | .heading n _ _ _ => 'h' :: List.replicate n '+'
  | .setextHeading n _ _ _ => 's' :: List.replicate n '+'
  | .quote ks _ => 'q' :: '(' :: skelL ks ++ [')']
  | .blockCode _ _ => ['c']
  | .codeFence _ _ _ _ _ _ => ['f']
  | .list _ s ks _ =>
    'l' :: (match s with | some n => '#' :: List.replicate n '+' | none => []) ++ '(' :: skelL ks ++ [')']
  | .listItem ld _ _ _ ks _ => 'i' :: '[' :: ld ++ ']' :: '(' :: skelL ks ++ [')']
  | .table _ hd rs _ => 't' :: '(' :: skelL hd ++ [')', '('] ++ skelL rs ++ [')']
  | .tableRow _ cs _ => 'r' :: '(' :: skelL cs ++ [')']
  | .tableCell _ _ _ => ['d']
  | .thematicBreak _ _ => ['-']
  | .htmlBlock _ _ => ['x']
  | .blankLine _ => ['_']
  | .linkRefDefBlock _ _ => ['=']
def skelL : List Mistletoe.Block → Str
  | [] => []
  | b :: bs => skel b ++ skelL bs
end
def skelOfParse : Res Doc → Str
  | .ok d => skelL d.kids
  | .err _ => []

/-- what was parsed: list(start 3)[item "3."[paragraph, list(no start)[item "-"[p], item "-"[p]]], item "4."[p]],
    table[header row[2 cells]][row[2 cells]], quote[heading 1, paragraph], code fence, setext heading 1 -/
example : skelOfParse (Document.parse cfgD 60 sampleText) =
    "l#+++(i[3.](pl(i[-](p)i[-](p)))i[4.](p))t(r(dd))(r(dd))q(h+p)fs+".toList := by decide +kernel

/-- the predicate is not trivially true: a list holding a paragraph, a quote holding a list item, a table row
    outside a table, a heading of level 7, a start that disagrees with the first marker, an empty list -/
example : (Block.list false none [.paragraph [] 1] 1).shapeOk = false := by decide
example : (Block.quote [.listItem ['-'] 0 2 false [] 1] 1).shapeOk = false := by decide
example : Doc.shapeOk ⟨[.tableRow [none] [] 1], []⟩ = false := by decide
example : (Block.heading 7 [] [] 1).shapeOk = false := by decide
example : (Block.list false (some 4) [.listItem ['3', '.'] 0 3 false [] 1] 1).shapeOk = false := by decide +kernel
example : (Block.list false none [.listItem ['3', '.'] 0 3 false [] 1] 1).shapeOk = false := by decide +kernel
example : (Block.list false (some 3) [.listItem ['-'] 0 2 false [] 1] 1).shapeOk = false := by decide +kernel
example : (Block.list false (some 3) [.listItem ['3', '.'] 0 3 false [] 1] 1).shapeOk = true := by decide +kernel
example : (Block.list false none [] 1).shapeOk = false := by decide
/-- a leader that is no list marker -/
example : (Block.list false none [.listItem ['x'] 0 2 false [] 1] 1).shapeOk = false := by decide +kernel
example : (Block.list false (some 3) [.listItem ['3', ':'] 0 3 false [] 1] 1).shapeOk = false := by decide +kernel
example : (Block.list false (some 3) [.listItem ['3', ')'] 0 3 false [] 1] 1).shapeOk = true := by decide +kernel
example : (Block.table [none] [.tableRow [none] [] 1, .tableRow [none] [] 1] [] 1).shapeOk = false := by decide
example : (Block.table [none] [] [.tableRow [none] [.paragraph [] 1] 1] 1).shapeOk = false := by decide
example : (Block.setextHeading 3 [] [] 1).shapeOk = false := by decide

/-- the theorem applied to the sample -/
example (d : Doc) (h : Document.parse cfgD 60 sampleText = .ok d) : d.shapeOk = true :=
  C12_parsed_shape_str cfgD 60 sampleText d h

end ShapeSample

end Mistletoe.Props.C12

section Audit
open Mistletoe.Props.C12
#print axioms C12_parsed_shape
#print axioms C12_parsed_shape_str
end Audit
